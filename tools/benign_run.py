#!/usr/bin/env python3
"""tools/benign_run.py [workers]: run every behaviour-preserving refactor of /verif/benign against the checks of the properties it
may touch (the benign half of `./vf selftest`, on its own): a VIOLATION on any of them is a false alarm of the machinery.
Writes benign/results.json."""
import os, sys, subprocess, json
from concurrent.futures import ThreadPoolExecutor
ROOT = os.path.dirname(os.path.dirname(os.path.abspath(__file__)))
sys.path.insert(0, ROOT)
from pyvc.selftest import BENIGN_PROPS
bd = os.path.join(ROOT, "benign")
jobs = []
for name in sorted(os.listdir(bd)):
    pf = os.path.join(bd, name, "patch.diff")
    if not os.path.exists(pf):
        continue
    props = BENIGN_PROPS.get(name, [])
    pt = os.path.join(bd, name, "props.txt")
    if not props and os.path.exists(pt):
        props = open(pt).read().split()
    for pid in props:
        jobs.append((name, pid, pf))


def one(j):
    name, pid, pf = j
    r = subprocess.run([sys.executable, os.path.join(ROOT, "tools", "mutcheck.py"), pid, "--patch", pf], capture_output=True, text=True)
    ex = [l for l in r.stdout.splitlines() if l.startswith("exit ")][-1:]
    alarm = "VIOLATION property=" in r.stdout
    extra = [l[:200] for l in r.stdout.splitlines() if l.startswith(("VIOLATION", "CHECKER"))][:2]
    return name, pid, (ex[0] if ex else "?"), alarm, extra


res, rc = {}, 0
with ThreadPoolExecutor(max_workers=int(sys.argv[1]) if len(sys.argv) > 1 else 4) as ex:
    for name, pid, e, alarm, extra in ex.map(one, jobs):
        res["%s/%s" % (name, pid)] = e + (" FALSE-ALARM" if alarm else "")
        print("benign %-6s %s %s%s %s" % (name, pid, e, "  FALSE ALARM" if alarm else "", extra if alarm or e == "exit 3" else ""), flush=True)
        rc = rc or int(alarm)
json.dump(res, open(os.path.join(bd, "results.json"), "w"), indent=1)
sys.exit(rc)
