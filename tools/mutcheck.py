#!/usr/bin/env python3
"""tools/mutcheck.py <Cxx> <relpath> <old> <new>  (or  <Cxx> --patch file.diff): run `vf check Cxx` against a
scratch copy of /repo with a mutation applied.  Evidence/replays of the run go to a scratch dir, /repo is untouched."""
import os, shutil, subprocess, sys, tempfile
pid = sys.argv[1]
VF = os.path.join(os.environ.get("VERIF_ROOT", os.path.dirname(os.path.dirname(os.path.abspath(__file__)))), "vf")
d = tempfile.mkdtemp(prefix="vfmut-", dir="/var/tmp")
try:
    subprocess.run(["rsync", "-a", "--exclude", ".git", "--exclude", "__pycache__", "/repo/", d + "/repo/"], check=True)
    if sys.argv[2] == "--patch":
        subprocess.run(["patch", "-p1", "-s", "-d", d + "/repo", "-i", os.path.abspath(sys.argv[3])], check=True)
    else:
        rel, old, new = sys.argv[2:5]
        p = os.path.join(d, "repo", rel)
        s = open(p).read()
        assert s.count(old) >= 1, "pattern not found"
        open(p, "w").write(s.replace(old, new, 1))
    env = dict(os.environ, VERIF_REPO=d + "/repo", VERIF_EVIDENCE_DIR=d + "/evidence", VERIF_REPLAY_DIR=d + "/replays")
    r = subprocess.run([VF, "check", pid] + sys.argv[5:] if sys.argv[2] != "--patch" else [VF, "check", pid] + sys.argv[4:],
                       env=env, capture_output=True, text=True)
    print(r.stdout[-3000:]); print(r.stderr[-1500:])
    print("exit", r.returncode)
    rp = os.path.join(d, "replays")
    if os.path.isdir(rp):
        for f in sorted(os.listdir(rp))[:2]:
            print("--- replay", f); print(open(os.path.join(rp, f)).read()[:1200])
finally:
    shutil.rmtree(d)
