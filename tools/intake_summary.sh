#!/bin/sh
# tools/intake_summary.sh "C01 1" "C01 2" ...
for a in "$@"; do python3 /verif/tools/seed_intake.py $a 2>&1 | python3 -c "
import sys,json
t=sys.stdin.read()
try:
    d=json.loads(t[t.index('{'):])
    print(d['property'],d['n'],'valid' if d['valid'] else 'INVALID', 'demo',d['demo_clean_exit'],d['demo_patched_exit'],'suite-missing',len(d['suite_missing_stable_pass']),'caught' if d['vf_check']['caught'] else 'MISSED', d['vf_check']['exit_line'], [l[:150] for l in d['vf_check']['lines'][:3]])
except Exception as e: print('ERR',t[-600:])
"; done
