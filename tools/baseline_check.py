#!/usr/bin/env python3
"""run /repo's pinned test suite and compare with BASELINE.json's stable_pass list"""
import json, subprocess, sys, tempfile, os, xml.etree.ElementTree as ET
b = json.load(open("/root/.vp/BASELINE.json"))
out = tempfile.mktemp(suffix=".xml", dir="/var/tmp")
cmd = b["cmd"].replace("<file>", out)
subprocess.run(cmd, shell=True, stdout=subprocess.DEVNULL, stderr=subprocess.DEVNULL)
passed = set()
for tc in ET.parse(out).getroot().iter("testcase"):
    ok = not any(ch.tag in ("failure", "error", "skipped") for ch in tc)
    if ok:
        passed.add(tc.get("classname") + "::" + tc.get("name"))
os.unlink(out)
missing = [t for t in b["stable_pass"] if t not in passed]
print("stable_pass:", len(b["stable_pass"]), "passed now:", len(passed), "missing:", len(missing))
for m in missing[:20]:
    print("  MISSING", m)
sys.exit(1 if missing else 0)
