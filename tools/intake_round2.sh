#!/bin/bash
# tools/intake_round2.sh [Cxx ...]: run tools/seed_intake.py for every delivered seed not yet filed, 3 at a time
# (SRC=/tmp/seedr2 NS="3 4" by default; SRC=/tmp/seedr3 NS="5 6" for the next round)
SRC=${SRC:-/tmp/seedr2}; NS=${NS:-3 4}; LOGD=/var/tmp/intake_$(basename $SRC)
cd /verif
ids="${@:-C01 C02 C03 C04 C05 C06 C07 C08 C09 C10 C11 C12 C13 C14 C15 C16 C17 C18 C19 C20}"
jobs=()
for p in $ids; do for n in $NS; do
  d=$SRC/$p/deliver/$n
  [ -f $d/patch.diff ] && [ -f $d/demo.py ] || continue
  [ -f seeded/$p-$n/meta.json ] && continue
  [ -f $LOGD/$p-$n.log ] && continue
  jobs+=("$p $n")
done; done
mkdir -p $LOGD
printf '%s\n' "${jobs[@]}" | SRC=$SRC LOGD=$LOGD xargs -P 3 -L 1 bash -c 'python3 tools/seed_intake.py $0 $1 $SRC/$0/deliver $0-$1 > $LOGD/$0-$1.log 2>&1'
for j in "${jobs[@]}"; do set -- $j; echo "== $1-$2: $(grep -E '"valid"|"caught"' $LOGD/$1-$2.log | tr -d '\n')"; done
