#!/bin/bash
# tools/intake_round2.sh [Cxx ...]: run tools/seed_intake.py for every delivered round-2 seed (n = 3, 4) not yet filed, 3 at a time
cd /verif
ids="${@:-C01 C02 C03 C04 C05 C06 C07 C08 C09 C10 C11 C12 C13 C14 C15 C16 C17 C18 C19 C20}"
jobs=()
for p in $ids; do for n in 3 4; do
  d=/tmp/seedr2/$p/deliver/$n
  [ -f $d/patch.diff ] && [ -f $d/demo.py ] || continue
  [ -f seeded/$p-$n/meta.json ] && continue
  [ -f /var/tmp/intake2/$p-$n.log ] && continue
  jobs+=("$p $n")
done; done
mkdir -p /var/tmp/intake2
printf '%s\n' "${jobs[@]}" | xargs -P 3 -L 1 bash -c 'python3 tools/seed_intake.py $0 $1 /tmp/seedr2/$0/deliver $0-$1 > /var/tmp/intake2/$0-$1.log 2>&1'
for j in "${jobs[@]}"; do set -- $j; echo "== $1-$2: $(grep -E '"valid"|"caught"' /var/tmp/intake2/$1-$2.log | tr -d '\n')"; done
