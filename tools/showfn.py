#!/usr/bin/env python3
"""print functions of a repo module without docstrings: showfn.py path [name ...]"""
import ast,sys
src=open(sys.argv[1]).read()
names=set(sys.argv[2:])
t=ast.parse(src)
def strip(n):
    if n.body and isinstance(n.body[0],ast.Expr) and isinstance(n.body[0].value,ast.Constant) and isinstance(n.body[0].value.value,str):
        n.body=n.body[1:] or [ast.Pass()]
    for a in n.args.args+n.args.kwonlyargs: a.annotation=None
    n.returns=None
for n in ast.walk(t):
    if isinstance(n,(ast.FunctionDef,)):
        strip(n)
for n in t.body:
    if isinstance(n,ast.FunctionDef) and (not names or n.name in names):
        print(ast.unparse(n)); print()
    if isinstance(n,ast.ClassDef):
        for m in n.body:
            if isinstance(m,ast.FunctionDef) and (not names or m.name in names or n.name in names):
                print('class',n.name,':'); print(ast.unparse(m)); print()
