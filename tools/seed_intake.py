#!/usr/bin/env python3
"""tools/seed_intake.py <Cxx> <n> [--src /tmp/mutwt]: validate one seeded change delivered by an independent sub-agent and
file it under /verif/seeded/<Cxx>-<n>/ (patch.diff, demo.py, notes.md, meta.json).  Validation, all on scratch copies:
 (1) patch applies to /repo's working tree; (2) demo exits 0 on /repo and non-zero on the patched copy;
 (3) the pinned test suite still passes every BASELINE stable_pass test on the patched copy;
 (4) `vf check <Cxx>` on the patched copy -> caught / missed (recorded, not required)."""
import json, os, shutil, subprocess, sys, tempfile, xml.etree.ElementTree as ET
pid, n = sys.argv[1], sys.argv[2]
src = "/tmp/mutwt"
d = os.path.join(src, pid, "deliver", n)
name = "%s-%s" % (pid, n)
if len(sys.argv) > 4:            # seed_intake.py <Cxx> <n> <deliver dir> <name>
    d, name = os.path.join(sys.argv[3], n), sys.argv[4]
patch = os.path.join(d, "patch.diff")
out = {"property": pid, "source": "independent sub-agent (property text + scratch worktree only)", "n": n}
tmp = tempfile.mkdtemp(prefix="vfseed-", dir="/var/tmp")
try:
    subprocess.run(["rsync", "-a", "--exclude", ".git", "--exclude", "__pycache__", "/repo/", tmp + "/repo/"], check=True)
    r = subprocess.run(["patch", "-p1", "-s", "--binary", "-d", tmp + "/repo", "-i", patch], capture_output=True, text=True)
    if r.returncode != 0:
        r = subprocess.run(["patch", "-p1", "-s", "-d", tmp + "/repo", "-i", patch], capture_output=True, text=True)
    out["patch_applies"] = r.returncode == 0
    if not out["patch_applies"]:
        print("PATCH DOES NOT APPLY", r.stdout, r.stderr); sys.exit(1)
    env = dict(os.environ, PYTHONWARNINGS="ignore")
    demo = os.path.join(d, "demo.py")
    a = subprocess.run(["/venv/bin/python", demo], env=dict(env, PYTHONPATH="/repo"), capture_output=True, text=True, cwd=tmp, timeout=900)
    b = subprocess.run(["/venv/bin/python", demo], env=dict(env, PYTHONPATH=tmp + "/repo"), capture_output=True, text=True, cwd=tmp, timeout=900)
    out["demo_clean_exit"], out["demo_patched_exit"] = a.returncode, b.returncode
    out["demo_patched_tail"] = (b.stdout + b.stderr)[-400:]
    base = json.load(open("/root/.vp/BASELINE.json"))
    xml = os.path.join(tmp, "junit.xml")
    cmd = base["cmd"].replace("cd /repo", "cd " + tmp + "/repo").replace("<file>", xml)
    subprocess.run(cmd, shell=True, stdout=subprocess.DEVNULL, stderr=subprocess.DEVNULL)
    passed = set()
    for tc in ET.parse(xml).getroot().iter("testcase"):
        if not any(ch.tag in ("failure", "error", "skipped") for ch in tc):
            passed.add(tc.get("classname") + "::" + tc.get("name"))
    missing = [t for t in base["stable_pass"] if t not in passed]
    out["suite_missing_stable_pass"] = missing[:10]
    ok = out["demo_clean_exit"] == 0 and out["demo_patched_exit"] != 0 and not missing
    out["valid"] = ok
    VR = os.environ.get("VERIF_ROOT", "/verif")      # a snapshot of the committed machinery may stand in while contracts are being edited
    r = subprocess.run([sys.executable, VR + "/tools/mutcheck.py", pid, "--patch", patch], capture_output=True, text=True)
    lines = [l for l in r.stdout.splitlines() if l.startswith(("VIOLATION", "UNDECIDED", "CHECKER-ERROR", "KNOWN", pid + " ")) or l.startswith("  function")]
    out["vf_check"] = {"caught": "VIOLATION property=%s" % pid in r.stdout, "exit_line": [l for l in r.stdout.splitlines() if l.startswith("exit ")][-1:],
                       "lines": lines[:12]}
    print(json.dumps(out, indent=1)[:3000])
    if ok:
        dst = os.path.join("/verif/seeded", name)
        os.makedirs(dst, exist_ok=True)
        for f in ("patch.diff", "demo.py", "notes.md"):
            if os.path.exists(os.path.join(d, f)):
                shutil.copy(os.path.join(d, f), dst)
        notes = open(os.path.join(d, "notes.md")).read() if os.path.exists(os.path.join(d, "notes.md")) else ""
        meta = {"property": pid, "breaks": pid, "needs_to_manifest": notes[:1500],
                "what_was_run": ["git apply patch.diff on a scratch copy of /repo", "demo.py: exit 0 on /repo, exit %d on the patched copy" % out["demo_patched_exit"],
                                 "pinned test suite on the patched copy: all %d BASELINE stable_pass tests still pass" % len(base["stable_pass"]),
                                 "./vf check %s on the patched copy (tools/mutcheck.py)" % pid],
                "caught_by_vf_check": out["vf_check"]["caught"], "vf_check_lines": lines[:12], "origin": out["source"]}
        json.dump(meta, open(os.path.join(dst, "meta.json"), "w"), indent=1)
finally:
    shutil.rmtree(tmp, ignore_errors=True)
