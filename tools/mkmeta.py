#!/usr/bin/env python3
"""regenerate property_meta.json from the contract / bounded registries + hand-written notes (tools/meta_notes.json)"""
import json, os, sys
ROOT = os.path.dirname(os.path.dirname(os.path.abspath(__file__)))
sys.path.insert(0, ROOT)
os.environ.setdefault("PYTHONWARNINGS", "ignore")
from pyvc.contract import CONTRACTS, COROLLARIES, load_all
from pyvc import bounded
load_all(); bounded.load_all()
notes = json.load(open(os.path.join(ROOT, "tools", "meta_notes.json")))
props = [json.loads(l) for l in open(os.path.join(ROOT, "properties.jsonl"))]
meta = {}
for p in props:
    pid = p["id"]
    cs = [c for c in CONTRACTS.values() if pid in c.props]
    proved = [c for c in cs if not c.trusted and c.mode == "proof"]
    bonly = [c for c in cs if c.mode == "bounded"]
    trusted = [c for c in cs if c.trusted]
    cors = [c for c in COROLLARIES.values() if pid in c.props]
    bcs = bounded.for_property(pid)
    n = notes.get(pid, {})
    if not cs and not bcs:
        meta[pid] = {"claimed": False, "na_reason": n.get("na_reason", "no check built")}
        continue
    level = n.get("level") or ("proof" if proved else "exploration")
    fl = ", ".join(sorted({c.qualname.split(".")[-1] for c in proved}))
    if level == "proof":
        text = ("Deductive proof, for all inputs, of the kernel functions this property rests on (%d functions under contract: %s%s): every "
                "index/division/allocation safety condition, loop-invariant initialisation and preservation, callee precondition, postcondition, "
                "frame and raise condition generated from the real source is discharged by z3 on every run. %s The class/API layer (%d bounded "
                "checks on the real code) is a bounded stand-in only and is never counted as proved."
                % (len(proved), fl, ("; %d corollaries over the contracts" % len(cors)) if cors else "", n.get("proof_note", ""), len(bcs)))
    else:
        if proved:
            n = dict(n); n["why_not_proof"] = n.get("why_not_proof", "") + " (%d helper functions are proved by engine A: %s.)" % (len(proved), fl)
        text = ("Bounded exploration only: %d contract-style checks run the real code over exhaustive small domains plus seeded random inputs and "
                "compare against oracles written from the property statement. %s No part of this property is claimed as proved."
                % (len(bcs), n.get("why_not_proof", "")))
    note = ("Assumes R1-R7 of DESIGN.md §3.3 (reals for floats, mathematical integers, strict indexing, fresh allocation, no aliasing between distinct "
            "array parameters, numba absent) and z3 as the only prover (spec-function axioms are validated against executable definitions by ./vf selftest). "
            + (("Functions covered by the run-time reading only (bounded): %s. " % ", ".join(c.qualname for c in bonly)) if bonly else "")
            + (("Assumed (trusted) contracts: %s. " % ", ".join(c.qualname for c in trusted)) if trusted else "")
            + n.get("level_note", ""))
    meta[pid] = {"claimed": True, "level": level, "level_text": text.strip(), "level_note": note.strip(),
                 "technique": ("contract-based deductive verification (AST->VC over the real functions, loop invariants, inductive lemmas, z3); "
                               "run-time contracts on the real code as bounded stand-in") if level == "proof" else
                              "run-time contract checking of the real code over bounded domains (bounded stand-in; no deductive proof in reach)",
                 "explanation": n.get("why_not_proof", ""), "trusted": n.get("trusted", []),
                 "frames_of_all_contracts": bool(n.get("frames_of_all_contracts"))}
json.dump(meta, open(os.path.join(ROOT, "property_meta.json"), "w"), indent=1)
print({k: v.get("level", "n/a") for k, v in meta.items()})
