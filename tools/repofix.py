#!/usr/bin/env python3
"""tools/repofix.py <relpath> <<< JSON [[old,new],...] : exact textual replacement in a /repo file, preserving CRLF/LF."""
import json, sys
path = "/repo/" + sys.argv[1]
pairs = json.load(sys.stdin)
raw = open(path, "rb").read().decode()
crlf = "\r\n" in raw
s = raw.replace("\r\n", "\n")
for old, new in pairs:
    assert s.count(old) == 1, ("pattern count %d: %r" % (s.count(old), old[:60]))
    s = s.replace(old, new)
if crlf:
    s = s.replace("\n", "\r\n")
open(path, "wb").write(s.encode())
print("patched", path, "crlf" if crlf else "lf")
