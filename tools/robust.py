"""tools/robust.py <key substring> [nseeds]: flakiness gate -- every obligation of the matching contracts under N random seeds (e-matching only, 4 s budget); prints the ones that are not `unsat` on every seed or need > 1 s"""
import sys, time
sys.path.insert(0, "/verif")
from pyvc.contract import CONTRACTS, COROLLARIES, load_all
load_all()
from pyvc import verify as V
import z3
nseeds=int(sys.argv[2]) if len(sys.argv)>2 else 4
for key in [k for k in list(CONTRACTS)+list(COROLLARIES) if sys.argv[1] in k]:
    E=V.build_corollary(COROLLARIES[key]) if key in COROLLARIES else V.build(CONTRACTS[key])
    proven=set()
    items=[]
    for inst in E.spec_inst.values():
        for lm in inst["lemmas"]:
            base=V.all_axioms(E, proven, internal_for=lm.get('spec'))
            for part,hy,goal in lm["parts"]: items.append(("lemma:%s/%s"%(lm["name"],part), base, hy, goal))
            proven.add(lm["name"])
    ax=V.all_axioms(E, proven)
    for ob in E.obl: items.append((ob.name, ax, ob.hyps, ob.goal))
    worst=0; flaky=[]
    for name, axs, hy, goal in items:
        res=[]
        for seed in range(nseeds):
            s=z3.Solver(); s.set("timeout", 4000); s.set("smt.mbqi", False); s.set("smt.solve_eqs", False); s.set("smt.random_seed", seed)
            for h in list(axs)+list(hy): s.add(h)
            s.add(z3.Not(goal)); t0=time.time(); r=str(s.check()); ms=int((time.time()-t0)*1000); res.append((r,ms)); worst=max(worst,ms)
        if any(r!="unsat" for r,_ in res) or max(m for _,m in res)>1000: flaky.append((name,res))
    print(key.split(":")[-1], "obligations", len(items), "seeds", nseeds, "worst ms", worst, "FLAKY" if flaky else "robust")
    for f in flaky: print("   ", f)
