#!/usr/bin/env python3
"""regenerate contracts/names.lock.json from the CURRENT /repo (run only on the unchanged tree the contracts were written for)"""
import json, os, sys
ROOT = os.path.dirname(os.path.dirname(os.path.abspath(__file__)))
sys.path.insert(0, ROOT)
from pyvc.contract import CONTRACTS, load_all
from pyvc import source, names
load_all()
out = {}
for key, c in sorted(CONTRACTS.items()):
    k = key.split("#")[0]
    if k in out:
        continue
    try:
        mi, fn = source.function(k)
    except Exception as e:
        print("skip", k, e); continue
    h, locs = names.canonical_hash(fn)
    out[k] = {"hash": h, "locals": locs}
json.dump(out, open(names.LOCK, "w"), indent=0, sort_keys=True)
print(len(out), "functions locked")
