#!/usr/bin/env python3
"""tools/mutate.py <relpath> <old> <new> -- <contract keys...>: apply a textual mutation to a scratch copy of
/repo/autoarray under /var/tmp and run engine A + engine C on the given contracts against the copy."""
import os, shutil, subprocess, sys, tempfile
args = sys.argv[1:]
i = args.index("--")
rel, old, new = args[:3]
keys = args[i + 1:]
d = tempfile.mkdtemp(prefix="vfmut-", dir="/var/tmp")
try:
    shutil.copytree("/repo/autoarray", os.path.join(d, "autoarray"))
    p = os.path.join(d, rel)
    s = open(p).read()
    assert s.count(old) >= 1, "pattern not found"
    open(p, "w").write(s.replace(old, new, 1))
    env = dict(os.environ, VERIF_REPO=d, PYTHONPATH="/verif:" + d, PYTHONWARNINGS="ignore")
    code = r'''
import sys, random
from pyvc.verify import verify
from pyvc.cli import run_contract_search
for k in sys.argv[1:]:
    r = verify(k)
    bad = [(o["name"], o["result"]) for o in r["obligations"] if o["result"] not in ("unsat", "reachable")]
    print("A", k.split(":")[1], r["status"], (r.get("error") or "")[-200:], bad[:6])
    c = run_contract_search(k, "quick", 0)
    print("C", k.split(":")[1], c["status"], "accepted", c.get("accepted"), "failures", [(f["clause"][:60]) for f in c["failures"][:2]])
'''
    subprocess.run(["/verif/.venv/bin/python", "-c", code] + keys, env=env)
finally:
    shutil.rmtree(d)
