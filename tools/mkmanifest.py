#!/usr/bin/env python3
"""(re)generate MANIFEST.json from property_meta.json: one entry per claimed property."""
import json, os, sys
ROOT = os.path.dirname(os.path.dirname(os.path.abspath(__file__)))
meta = json.load(open(os.path.join(ROOT, "property_meta.json")))
props = [json.loads(l) for l in open(os.path.join(ROOT, "properties.jsonl"))]
base = json.load(open("/root/.vp/BASELINE.json")) if os.path.exists("/root/.vp/BASELINE.json") else {}
checks, na = [], []
for p in props:
    pid = p["id"]
    m = meta.get(pid)
    if not m or not m.get("claimed"):
        na.append({"property_id": pid, "reason": (m or {}).get("na_reason", "no check built yet for this property")})
        continue
    checks.append({
        "property_id": pid,
        "quick_cmd": "./vf check %s --tier quick" % pid,
        "thorough_cmd": "./vf check %s --tier thorough" % pid,
        "evidence_file": "/verif/evidence/%s.json" % pid,
        "replay_cmd_template": "./vf replay {path}",
        "engine": "pyvc",
        "level_claimed": {"category": m["level"], "text": m["level_text"], "design_ref": m.get("design_ref", "DESIGN.md §7 " + pid)},
        "level_note": m["level_note"],
        "technique": m["technique"],
    })
man = {
    "version": 1,
    "setup_cmd": "./setup.sh",
    "hooks": {"guard": "PYAUTOARRAY_VERIF", "enable": "no source hooks: contracts are sidecars under /verif/contracts and "
              "run-time wrappers are installed inside the check process (the checks export PYAUTOARRAY_VERIF=1 for uniformity)",
              "baseline_off_cmd": "cd /repo && /venv/bin/python -m pytest -ra -q -p no:cacheprovider --timeout=900 --continue-on-collection-errors",
              "source_commits": [], "add_only": True},
    "engines": [
        {"name": "pyvc", "path": "/verif/pyvc", "serves_properties": [c["property_id"] for c in checks],
         "kind_free_text": "contract-based deductive verification: AST->VC generator over the real functions of /repo (re-read every run), "
                           "sidecar contracts + loop invariants + spec functions with inductive lemmas, discharged by z3 (cvc5 second opinion in the "
                           "thorough tier); the same contracts read concretely on the real code (engine C) give replay and the bounded stand-in"},
    ],
    "checks": checks,
    "not_applicable": na,
    "notes": "exit 0 held / 1 violation / 2 undecided (stale contract, solver unknown) / 3 checker error.  See DESIGN.md.",
}
json.dump(man, open(os.path.join(ROOT, "MANIFEST.json"), "w"), indent=1)
print("claimed:", [c["property_id"] for c in checks])
