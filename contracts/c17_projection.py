"""C17 -- the radially projected line used for 1D grids (kernels only; the decorator dispatch itself is bounded)."""
import numpy as np
from pyvc.contract import contract, macro, CONTRACTS
from pyvc import gens

G2 = "autoarray.structures.grids.grid_2d_util:"
_T = {"extent": "(real,real,real,real)", "centre": "(real,real)", "pixel_scales": "(real,real)"}
# the largest distance from the centre to the four sides of the extent, and the pixel scale of the axis it lies on
_LET = {"dpx": "extent[1] - centre[1]", "dpy": "extent[3] - centre[0]", "dnx": "centre[1] - extent[0]", "dny": "centre[0] - extent[2]",
        "dist": "max(max(dpx, dpy), max(dnx, dny))",
        "ps": "(pixel_scales[0] if (dist == dpy or dist == dny) else pixel_scales[1])"}

contract(G2 + "_radial_projected_shape_slim_from", props=["C17"], types=_T, returns="int", let=_LET,
         requires=["ps != 0"], ensures=["result == toint(dist / ps) + 1"],
         sentence={"toint": "the projected line has one point per pixel scale out to the farthest side of the extent"})

contract(G2 + "grid_scaled_2d_slim_radial_projected_from", props=["C17"], types={**_T, "shape_slim": "int"}, returns="real[2]",
         let={**_LET, "n": "(shape_slim if shape_slim != 0 else toint(dist / ps) + 1)"},
         requires=["ps != 0", "n >= 0"],
         ensures=["result.shape[0] == n", "result.shape[1] == 2",
                  # point k of the projected line: at the centre's y, k pixel scales to the right of the centre's x
                  "forall(0, n, lambda k: result[k, 0] == centre[0] and result[k, 1] == centre[1] + k * ps)"],
         loops={0: {"inv": ["radii == centre[1] + slim_index * ps",
                            "forall(0, n, lambda k: grid_scaled_2d_slim_radii[k, 0] == centre[0])",
                            "forall(0, slim_index, lambda k: grid_scaled_2d_slim_radii[k, 1] == centre[1] + k * ps)"]}},
         sentence={"forall": "a 1D grid is evaluated along the radially projected line: points centre + k * pixel_scale * (0, 1)"})


def _g(rng, tier):
    for _ in range(gens.budget(tier, 300, 3000)):
        c = (rng.uniform(-1, 1), rng.uniform(-1, 1))
        e = (c[1] - rng.uniform(0.1, 5), c[1] + rng.uniform(0.1, 5), c[0] - rng.uniform(0.1, 5), c[0] + rng.uniform(0.1, 5))
        yield {"extent": e, "centre": c, "pixel_scales": (rng.choice([0.5, 1.0, 0.3]), rng.choice([0.5, 2.0, 0.7]))}


CONTRACTS[G2 + "_radial_projected_shape_slim_from"].gen = _g
CONTRACTS[G2 + "grid_scaled_2d_slim_radial_projected_from"].gen = lambda rng, tier: ({**kw, "shape_slim": rng.choice([0, 0, 3, 7])} for kw in _g(rng, tier))
