"""More mask / region / mapper kernels under contract (properties C10, C14, C02, C19, C06, C05).

 (a) mask_2d_util: buffed_mask_2d_from, mask_2d_via_pixel_coordinates_from
 (b) layout_util:  x0x1_after_extraction, region_after_extraction (+ corollaries 2-D == 1-D per axis)
 (c) mapper_util:  data_weight_total_for_pix_from, sub_slim_indexes_for_pix_index;  mesh_util: rectangular_edge_pixel_list_from
Engine extension: pyvc/ext/cmore.py (its header lists every assumed fact)."""
import itertools
import numpy as np
from pyvc.contract import contract, corollary, macro, spec_fn, CONTRACTS
from pyvc import gens

M2 = "autoarray.mask.mask_2d_util:"
LU = "autoarray.layout.layout_util:"
MU = "autoarray.inversion.pixelization.mappers.mapper_util:"
ME = "autoarray.inversion.pixelization.mesh.mesh_util:"
HW = {"H": "mask_2d.shape[0]", "W": "mask_2d.shape[1]"}

# ============================================================================================== (a) buffed masks
# Chebyshev neighbourhood derived from the loops: pixel (y, x) unmasks y0 in [y - buffer, y + buffer], x0 in [x - buffer, x + buffer]
# clipped to the frame.  For buffer < 0 both ranges are empty and the result is the input mask.
_WIN = "(a - buffer <= {y} and {y} <= a + buffer and b - buffer <= {x} and {x} <= b + buffer)"


def _bf_inv(cy, cx, extra="False"):
    return ("forall(0, H, lambda a: forall(0, W, lambda b: buffed_mask_2d[a, b] == (mask_2d[a, b] and"
            " not (near(mask_2d, buffer, buffer, a, b, %s, %s) or (%s)))))" % (cy, cx, extra))


_ROWS_DONE = "y - buffer <= a and a < y0 and x - buffer <= b and b <= x + buffer"
contract(
    M2 + "buffed_mask_2d_from", props=["C10", "C14"],
    types={"mask_2d": "bool[2]", "buffer": "int"}, returns="bool[2]", let=HW,
    ensures=[
        "result.shape[0] == H", "result.shape[1] == W",
        # EVERY pixel: unmasked in the result iff it is unmasked in the input or lies within `buffer` (Chebyshev distance) of an
        # unmasked pixel of the input; the frame clips the neighbourhood (pixels outside do not exist), nothing else changes
        "forall(0, H, lambda a: forall(0, W, lambda b: (not result[a, b]) == ((not mask_2d[a, b]) or"
        " exists(0, H, lambda yp: exists(0, W, lambda xp: not mask_2d[yp, xp] and " + _WIN.format(y="yp", x="xp") + ")))))",
        # consequences stated separately: a non-negative buffer never masks anything, a negative one changes nothing
        "forall(0, H, lambda a: forall(0, W, lambda b: implies(not mask_2d[a, b], not result[a, b])))",
        "implies(buffer < 0, forall(0, H, lambda a: forall(0, W, lambda b: result[a, b] == mask_2d[a, b])))",
    ],
    loops={
        0: {"inv": [_bf_inv("y", "0")]},
        1: {"inv": [_bf_inv("y", "x")]},
        2: {"inv": [_bf_inv("y", "x", _ROWS_DONE)]},
        3: {"inv": [_bf_inv("y", "x", "(" + _ROWS_DONE + ") or (a == y0 and x - buffer <= b and b < x0)")]},
    },
    sentence={"exists": "the buffed mask unmasks exactly the pixels within `buffer` (Chebyshev distance) of an unmasked pixel that "
                        "lie inside the frame; every other pixel keeps its value"},
)


def _g_buffed(rng, tier):
    for m in gens.all_masks(gens.budget(tier, 9, 12)):
        for bf in (0, 1, 2, -1, 3)[: gens.budget(tier, 4, 5)]:
            yield {"mask_2d": m, "buffer": bf}
    for _ in range(gens.budget(tier, 150, 1500)):
        yield {"mask_2d": gens.random_mask(rng, 8, 8), "buffer": rng.choice([0, 1, 1, 2, 2, 3, 4, -1, -2, 9])}


CONTRACTS[M2 + "buffed_mask_2d_from"].gen = _g_buffed
CONTRACTS[M2 + "buffed_mask_2d_from"].nontrivial = lambda mask_2d, buffer: buffer > 0 and 0 < mask_2d.sum() < mask_2d.size

# ---- mask from a list of pixel coordinates, then buffed
_PC_LET = {"H": "shape_native[0]", "W": "shape_native[1]", "pc": "pixel_coordinates", "N": "pixel_coordinates.shape[0]"}
_LISTED = "exists(0, {n}, lambda k: pc[k, 0] == a and pc[k, 1] == b)"
_WINK = "(a - buffer <= pc[k, 0] and pc[k, 0] <= a + buffer and b - buffer <= pc[k, 1] and pc[k, 1] <= b + buffer)"
contract(
    M2 + "mask_2d_via_pixel_coordinates_from", props=["C10", "C02"],
    types={"shape_native": "(int,int)", "pixel_coordinates": "int[2]", "buffer": "int"}, returns="bool[2]", let=_PC_LET,
    # R3: a computed negative index is an error (numpy would wrap it around); coordinates >= the shape raise IndexError in numpy
    requires=["H >= 0", "W >= 0", "pc.shape[1] == 2",
              "forall(0, N, lambda k: 0 <= pc[k, 0] and pc[k, 0] < H and 0 <= pc[k, 1] and pc[k, 1] < W)"],
    ensures=[
        "result.shape[0] == H", "result.shape[1] == W",
        # EVERY pixel: unmasked iff it is listed, or (buffer > 0) lies within `buffer` (Chebyshev) of a listed pixel
        "forall(0, H, lambda a: forall(0, W, lambda b: (not result[a, b]) =="
        " exists(0, N, lambda k: (pc[k, 0] == a and pc[k, 1] == b) or " + _WINK + ")))",
        "implies(buffer <= 0, forall(0, H, lambda a: forall(0, W, lambda b: (not result[a, b]) == " + _LISTED.format(n="N") + ")))",
        "implies(buffer >= 0, forall(0, H, lambda a: forall(0, W, lambda b: (not result[a, b]) == exists(0, N, lambda k: " + _WINK + "))))",
    ],
    loops={0: {"inv": ["forall(0, H, lambda a: forall(0, W, lambda b: (not mask_2d[a, b]) == " + _LISTED.format(n="pos_L0") + "))",
                       "forall(0, pos_L0, lambda k: not mask_2d[pc[k, 0], pc[k, 1]], pat=pc[k, 0])"]}},
    sentence={"exists": "exactly the listed pixels are unmasked, then buffed by `buffer` pixels in all 8 directions inside the frame"},
)


def _pc_arr(coords):
    return np.array(coords, dtype=int).reshape(-1, 2)


def _g_viapix(rng, tier):
    bufs = (0, 1, -1, 2)
    for H, W in [(1, 1), (1, 3), (2, 2), (3, 2), (3, 3)][: gens.budget(tier, 4, 5)]:
        cells = [(y, x) for y in range(H) for x in range(W)]
        for n in range(0, 3):
            for coords in itertools.product(cells, repeat=n):
                for bf in bufs:
                    yield {"shape_native": (H, W), "pixel_coordinates": _pc_arr(coords), "buffer": bf}
    for _ in range(gens.budget(tier, 300, 3000)):
        H, W = rng.randint(0, 7), rng.randint(0, 7)
        n = rng.randint(0, 5)
        r = rng.random()
        if r < 0.8 and H > 0 and W > 0:          # valid coordinates (duplicates allowed)
            coords = [(rng.randrange(H), rng.randrange(W)) for _ in range(n)]
        else:                                    # coordinates on which numpy raises (>= shape) or wraps around (negative): outside the domain
            coords = [(rng.randint(-2, H + 1), rng.randint(-2, W + 1)) for _ in range(n)]
        yield {"shape_native": (H, W), "pixel_coordinates": _pc_arr(coords), "buffer": rng.choice([0, 0, 1, 1, 2, 3, -1, 8])}


def _viapix_wrap(kw):
    # input forms: the library passes a list of (y, x) tuples (Mask2D.from_pixel_coordinates); an (N, 2) integer array is also iterable
    pc = kw["pixel_coordinates"]
    if pc.shape[0] % 2 == 1:
        kw["pixel_coordinates"] = [(int(y), int(x)) for y, x in pc]
    return kw


CONTRACTS[M2 + "mask_2d_via_pixel_coordinates_from"].gen = _g_viapix
CONTRACTS[M2 + "mask_2d_via_pixel_coordinates_from"].rt_wrap = _viapix_wrap
CONTRACTS[M2 + "mask_2d_via_pixel_coordinates_from"].nontrivial = lambda shape_native, pixel_coordinates, buffer: pixel_coordinates.shape[0] >= 2 and buffer > 0

# ============================================================================================== (c) mapper kernels
# ---- total interpolation weight per source pixel
_DW_LET = {"idx": "pix_indexes_for_sub_slim_index", "w": "pix_weights_for_sub_slim_index", "P": "pixels",
           "S": "pix_indexes_for_sub_slim_index.shape[0]", "C": "pix_indexes_for_sub_slim_index.shape[1]",
           "CW": "pix_weights_for_sub_slim_index.shape[1]",
           # zip() pairs the entries of a row of indexes with the entries of the row of weights: the shorter row decides
           "CM": "(pix_indexes_for_sub_slim_index.shape[1] if pix_indexes_for_sub_slim_index.shape[1] <= pix_weights_for_sub_slim_index.shape[1]"
                 " else pix_weights_for_sub_slim_index.shape[1])"}
_ROWW = "sumto({n}, lambda c: (w[{s}, c] if idx[{s}, c] == p else 0))"          # weight that sub-pixel s gives to source pixel p
_TOTW = "sumto({n}, lambda s: " + _ROWW.format(n="CM", s="s") + ")"
contract(
    MU + "data_weight_total_for_pix_from", props=["C06"],
    types={"pix_indexes_for_sub_slim_index": "int[2]", "pix_weights_for_sub_slim_index": "real[2]", "pixels": "int"},
    returns="real[1]", let=_DW_LET,
    # R3: every entry must be a source-pixel index (a -1 padding entry would be a computed negative index: numpy wraps it to the LAST pixel)
    requires=["P >= 0", "w.shape[0] >= S", "forall(0, S, lambda s: forall(0, CM, lambda c: 0 <= idx[s, c] and idx[s, c] < P))"],
    ensures=["result.shape[0] == P",
             # per source pixel p: the sum, over every sub-pixel s and every interpolation entry c of s that names p, of the entry's weight
             "forall(0, P, lambda p: result[p] == " + _TOTW.format(n="S") + ")"],
    loops={0: {"inv": ["forall(0, P, lambda p: pix_weight_total[p] == " + _TOTW.format(n="slim_index") + ")"]},
           1: {"inv": ["forall(0, P, lambda p: pix_weight_total[p] == " + _TOTW.format(n="slim_index")
                       + " + " + _ROWW.format(n="pos_L1", s="slim_index") + ")"]}},
    sentence={"sumto": "per source pixel, the total weight of the sub-pixel interpolation entries that map to it"},
)

# the same function on tables padded with -1 (Delaunay / Voronoi rows such as [A, -1, -1] carry weight 0 in the padding): numpy wraps the
# index -1 around to the LAST source pixel and adds 0.0 there, so the totals are still right.  Outside engine A's subset by R3
# (a computed negative index is an error), hence bounded: engine C only, never counted as proved.
contract(
    MU + "data_weight_total_for_pix_from#padded", props=["C06"], mode="bounded",
    types={"pix_indexes_for_sub_slim_index": "int[2]", "pix_weights_for_sub_slim_index": "real[2]", "pixels": "int"},
    returns="real[1]", let=_DW_LET,
    requires=["P >= 1", "w.shape[0] >= S", "forall(0, S, lambda s: forall(0, CM, lambda c: -1 <= idx[s, c] and idx[s, c] < P))",
              "forall(0, S, lambda s: forall(0, CM, lambda c: implies(idx[s, c] == -1, w[s, c] == 0)))",
              "exists(0, S, lambda s: exists(0, CM, lambda c: idx[s, c] == -1))"],
    ensures=["result.shape[0] == P", "forall(0, P, lambda p: result[p] == " + _TOTW.format(n="S") + ")"],
    note="bounded: negative (-1 padding) indices rely on numpy wrap-around, which R3 excludes from engine A",
)


def _tables(rng, S, C, P, CW=None, extra_rows=0, pad=False):
    CW = C if CW is None else CW
    idx = np.array([[rng.randrange(P) for _ in range(C)] for _ in range(S)], dtype=int).reshape(S, C)
    w = gens.reals(rng, (S + extra_rows, CW), -2, 2, special=False)      # (no +-1e8 specials: sums are compared in another order)
    w[w < -1.6] = 0.0
    if pad:
        for s in range(S):
            k = rng.randint(0, C)
            idx[s, k:] = -1
            w[s, k:CW] = 0.0
    return idx, w


def _g_dwt(rng, tier):
    # exhaustive index tables on tiny shapes (weights seeded), then seeded random tables incl. rows of unequal length and failing inputs
    for S, C, P in [(0, 0, 1), (0, 2, 0), (1, 0, 2), (1, 1, 1), (1, 2, 2), (2, 1, 2), (2, 2, 2), (2, 2, 3), (3, 1, 2)][: gens.budget(tier, 8, 9)]:
        for ent in itertools.product(range(P), repeat=S * C):
            yield {"pix_indexes_for_sub_slim_index": np.array(ent, dtype=int).reshape(S, C),
                   "pix_weights_for_sub_slim_index": gens.reals(rng, (S, C), -2, 2, special=False), "pixels": P}
    for _ in range(gens.budget(tier, 300, 3000)):
        S, C, P = rng.randint(0, 6), rng.randint(0, 4), rng.randint(1, 6)
        r = rng.random()
        if r < 0.6:
            idx, w = _tables(rng, S, C, P)
        elif r < 0.8:                             # zip stops at the shorter row; extra weight rows are never read
            idx, w = _tables(rng, S, C, P, CW=rng.randint(0, 5), extra_rows=rng.randint(0, 2))
        elif r < 0.9:                             # raises IndexError: an entry beyond the last source pixel / too few weight rows
            idx, w = _tables(rng, S, C, P)
            if S and C and rng.random() < 0.5:
                idx[rng.randrange(S), rng.randrange(C)] = P + rng.randint(0, 2)
            else:
                w = w[: max(S - 1, 0)]
        else:                                     # -1 padding (numpy wrap-around): outside this contract's domain, see #padded
            idx, w = _tables(rng, S, max(C, 1), P, pad=True)
        yield {"pix_indexes_for_sub_slim_index": idx, "pix_weights_for_sub_slim_index": w, "pixels": P}


def _g_dwt_padded(rng, tier):
    for _ in range(gens.budget(tier, 300, 3000)):
        S, C, P = rng.randint(1, 6), rng.randint(1, 4), rng.randint(1, 6)
        idx, w = _tables(rng, S, C, P, pad=True)
        yield {"pix_indexes_for_sub_slim_index": idx, "pix_weights_for_sub_slim_index": w, "pixels": P}


CONTRACTS[MU + "data_weight_total_for_pix_from"].gen = _g_dwt
CONTRACTS[MU + "data_weight_total_for_pix_from"].nontrivial = lambda **kw: kw["pix_indexes_for_sub_slim_index"].size >= 4
CONTRACTS[MU + "data_weight_total_for_pix_from#padded"].gen = _g_dwt_padded

# ---- per source pixel: the list of sub-pixels mapping to it.
# cm_cnt(idx, P, p, s, c) = number of interpolation entries naming source pixel p strictly before entry (s, c) in scan (row-major) order,
# (s, C) == (s + 1, 0): the rank of entry (s, c) in the list of pixel p.  cm_ks / cm_kc = (sub-pixel, entry) of the j-th entry naming p
# (the inverse of the rank on the entries that name p).  Same construction as cnt2 / pixy / pixx in specs.py with the pixel p as an argument.
def _cm_cnt_py(idx, P, p, s, c):
    idx = np.asarray(idx)
    return int(np.count_nonzero(idx.ravel()[: s * idx.shape[1] + c] == p))


def _cm_k_py(idx, P, p, j, which):
    pos = np.argwhere(np.asarray(idx) == p)
    return int(pos[j][which]) if 0 <= j < len(pos) else -1


_CN = lambda p="p", s="s", c="c": "cm_cnt(idx, P, %s, %s, %s)" % (p, s, c)
_SC = {"S": "idx.shape[0]", "C": "idx.shape[1]"}
spec_fn(
    "cm_cnt", params=[("idx", "int[2]"), ("P", "$int"), ("p", "int"), ("s", "int"), ("c", "int")], ret="int", let=_SC,
    axioms=[
        "forall(0, P, lambda p: " + _CN(s="0", c="0") + " == 0, pat=" + _CN(s="0", c="0") + ")",
        "forall(0, P, lambda p: forall(0, S, lambda s: forall(0, C, lambda c: " + _CN(c="c + 1") + " == " + _CN()
        + " + (1 if idx[s, c] == p else 0), pat=" + _CN(c="c + 1") + ")))",
        "forall(0, P, lambda p: forall(0, S, lambda s: " + _CN(s="s + 1", c="0") + " == " + _CN(c="C")
        + ", pat=(" + _CN(c="C") + ", " + _CN(s="s + 1", c="0") + ")))",
    ],
    lemmas=[
        dict(name="row_mono", induct="n", lo=0, hi="C", export=False,
             stmt="forall(0, P, lambda p: forall(0, S, lambda s: forall(0, n + 1, lambda c1: " + _CN(c="c1") + " <= " + _CN(c="n")
                  + ", pat=((" + _CN(c="c1") + ", " + _CN(c="n") + "),))))"),
        dict(name="rows_mono", induct="n", lo=0, hi="S", export=False,
             stmt="forall(0, P, lambda p: forall(0, n + 1, lambda s1: " + _CN(s="s1", c="0") + " <= " + _CN(s="n", c="0")
                  + ", pat=((" + _CN(s="s1", c="0") + ", " + _CN(s="n", c="0") + "),)))"),
        dict(name="bound0", noinduct=True, export=False,
             stmt="forall(0, P, lambda p: forall(0, S, lambda s: forall(0, C + 1, lambda c: 0 <= " + _CN() + " and " + _CN() + " <= " + _CN(c="C")
                  + " and " + _CN(c="C") + " <= " + _CN(s="S", c="0") + " and 0 <= " + _CN(c="0") + " and " + _CN(s="s + 1", c="0") + " == " + _CN(c="C")
                  + ", pat=" + _CN() + ")))"),
        dict(name="bound", noinduct=True,
             stmt="forall(0, P, lambda p: 0 <= " + _CN(s="S", c="0") + ", pat=" + _CN(s="S", c="0") + ")"
                  " and forall(0, P, lambda p: forall(0, S, lambda s: forall(0, C + 1, lambda c: 0 <= " + _CN() + " and " + _CN() + " <= " + _CN(s="S", c="0")
                  + ", pat=" + _CN() + ")))"),
        dict(name="strict_row", induct="n", lo=0, hi="C",
             stmt="forall(0, P, lambda p: forall(0, S, lambda s: forall(0, n, lambda c1: implies(idx[s, c1] == p, " + _CN(c="c1") + " < " + _CN(c="n") + ")"
                  ", pat=((" + _CN(c="c1") + ", " + _CN(c="n") + "),))))"),
        dict(name="strict", noinduct=True,
             stmt="forall(0, P, lambda p: forall(0, S, lambda s1: forall(0, C, lambda c1: forall(0, S + 1, lambda s2: forall(0, C + 1, lambda c2:"
                  " implies(idx[s1, c1] == p and s1 < s2 and (s2 < S or c2 == 0), " + _CN(s="s1", c="c1") + " < " + _CN(s="s2", c="c2") + "),"
                  " pat=((" + _CN(s="s1", c="c1") + ", " + _CN(s="s2", c="c2") + "),))))))"),
    ],
    py=_cm_cnt_py,
    doc="rank of an interpolation entry in the list of the source pixel it names (scan order over sub-pixels, then entries)",
)

_KS = lambda p="p", j="j": "cm_ks(idx, P, %s, %s)" % (p, j)
_KC = lambda p="p", j="j": "cm_kc(idx, P, %s, %s)" % (p, j)
_K_PROPS = ("0 <= " + _KS() + " and " + _KS() + " < S and 0 <= " + _KC() + " and " + _KC() + " < C and idx[" + _KS() + ", " + _KC() + "] == p"
            " and " + _CN(s=_KS(), c=_KC()) + " == j")
spec_fn(
    "cm_ks", params=[("idx", "int[2]"), ("P", "$int"), ("p", "int"), ("j", "int")], ret="int", let=_SC,
    axioms=["forall(0, P, lambda p: forall(0, S, lambda s: forall(0, C, lambda c: implies(idx[s, c] == p, cm_ks(idx, P, p, " + _CN() + ") == s),"
            " pat=((" + _CN() + ", idx[s, c]),))))"],
    py=lambda idx, P, p, j: _cm_k_py(idx, P, p, j, 0),
)
spec_fn(
    "cm_kc", params=[("idx", "int[2]"), ("P", "$int"), ("p", "int"), ("j", "int")], ret="int", let=_SC,
    axioms=["forall(0, P, lambda p: forall(0, S, lambda s: forall(0, C, lambda c: implies(idx[s, c] == p, cm_kc(idx, P, p, " + _CN() + ") == c),"
            " pat=((" + _CN() + ", idx[s, c]),))))"],
    lemmas=[
        # every j below the count reached so far is the rank of its own entry (discrete intermediate values)
        dict(name="surj_row", induct="n", lo=0, hi="C", export=False,
             stmt="forall(0, P, lambda p: forall(0, S, lambda s: forall(" + _CN(c="0") + ", " + _CN(c="n") + ", lambda j: " + _K_PROPS
                  + ", pat=((" + _KS() + ", " + _CN(c="n") + "),))))"),
        dict(name="surj_rows", induct="n", lo=0, hi="S", export=False,
             stmt="forall(0, P, lambda p: forall(0, " + _CN(s="n", c="0") + ", lambda j: " + _K_PROPS + ", pat=((" + _KS() + ", " + _CN(s="n", c="0") + "),)))"),
        dict(name="surj", noinduct=True,
             stmt="forall(0, P, lambda p: forall(0, " + _CN(s="S", c="0") + ", lambda j: " + _K_PROPS + ", pat=(" + _KS() + ", " + _KC() + ")))"),
        # the list of pixel p is in scan order: sub-pixel indexes never decrease along it
        dict(name="ord", noinduct=True,
             stmt="forall(0, P, lambda p: forall(0, " + _CN(s="S", c="0") + ", lambda j2: forall(0, j2, lambda j1: "
                  + _KS(j="j1") + " <= " + _KS(j="j2") + ", pat=((" + _KS(j="j1") + ", " + _KS(j="j2") + "),))))"),
    ],
    py=lambda idx, P, p, j: _cm_k_py(idx, P, p, j, 1),
    doc="(cm_ks(p, j), cm_kc(p, j)) is the j-th interpolation entry naming source pixel p; with cm_cnt it forms a bijection",
)

_SS_K = MU + "sub_slim_indexes_for_pix_index"
_SS_LET = {"idx": "pix_indexes_for_sub_slim_index", "w": "pix_weights_for_sub_slim_index", "P": "pix_pixels",
           "S": "pix_indexes_for_sub_slim_index.shape[0]", "C": "pix_indexes_for_sub_slim_index.shape[1]"}
_TOT = _CN(s="S", c="0")                       # length of the list of source pixel p


def _ss_lists(I, Wt, s, c, M):
    """lists built from the entries scanned before (s, c): filled part (j-th entry of pixel p), unfilled part (-1)"""
    cn = _CN(s=s, c=c)
    return ["forall(0, P, lambda p: forall(0, " + cn + ", lambda j: " + I + "[p, j] == " + _KS() + " and " + Wt + "[p, j] == w[" + _KS() + ", " + _KC() + "]))",
            "forall(0, P, lambda p: forall(" + cn + ", " + M + ", lambda j: " + I + "[p, j] == -1 and " + Wt + "[p, j] == -1))"]


_SZ = "sub_slim_sizes_for_pix_index"
_OI, _OW = "sub_slim_indexes_for_pix_index", "sub_slim_weights_for_pix_index"
contract(
    _SS_K, props=["C06"],
    types={"pix_indexes_for_sub_slim_index": "int[2]", "pix_weights_for_sub_slim_index": "real[2]", "pix_pixels": "int"},
    returns="(real[2],real[1],real[2])", let=_SS_LET,
    # np.max of an empty array raises (P == 0); R3: every entry must be a source-pixel index -- a -1 padding entry is a computed negative
    # index (numpy wraps it around to the LAST source pixel, whose list then holds sub-pixels that do not map to it: see the report)
    requires=["P >= 1", "w.shape[0] >= S", "w.shape[1] == C", "forall(0, S, lambda s: forall(0, C, lambda c: 0 <= idx[s, c] and idx[s, c] < P))"],
    ensures=[
        "result[0].shape[0] == P", "result[1].shape[0] == P", "result[2].shape[0] == P", "result[2].shape[1] == result[0].shape[1]",
        # the common row length is the length of the longest list
        "forall(0, P, lambda p: " + _TOT + " <= result[0].shape[1])", "exists(0, P, lambda p: " + _TOT + " == result[0].shape[1])",
        # sizes: per source pixel, the number of interpolation entries that name it
        "forall(0, P, lambda p: result[1][p] == " + _TOT + ")",
        # membership: every entry (s, c) naming p is listed for p, at its rank in scan order, with its weight ...
        "forall(0, P, lambda p: forall(0, S, lambda s: forall(0, C, lambda c: implies(idx[s, c] == p,"
        " result[0][p, " + _CN() + "] == s and result[2][p, " + _CN() + "] == w[s, c]))))",
    ] + _ss_lists("result[0]", "result[2]", "S", "0", "result[0].shape[1]") + [       # ... nothing else is listed (j-th slot = j-th entry naming p; -1 beyond)
        # order: the sub-pixel indexes of a list are in increasing order (equal only when one sub-pixel names p twice)
        "forall(0, P, lambda p: forall(0, " + _TOT + ", lambda j2: forall(0, j2, lambda j1: result[0][p, j1] <= result[0][p, j2])))",
    ],
    ghost_at={3: ["isint(max_pix_size)", "exists(0, P, lambda p: max_pix_size == " + _TOT + ")",
                  "forall(0, P, lambda p: " + _TOT + " <= floor(max_pix_size), pat=" + _TOT + ")", "floor(max_pix_size) >= 0"]},
    loops={
        0: {"inv": ["forall(0, P, lambda p: " + _SZ + "[p] == " + _CN(s="pos_L0", c="0") + ")"]},
        1: {"inv": ["forall(0, P, lambda p: " + _SZ + "[p] == " + _CN(s="pos_L0", c="pos_L1") + ")"]},
        2: {"inv": ["forall(0, P, lambda p: " + _SZ + "[p] == " + _CN(s="slim_index", c="0") + ")"]
                   + _ss_lists(_OI, _OW, "slim_index", "0", _OI + ".shape[1]")},
        3: {"inv": ["forall(0, P, lambda p: " + _SZ + "[p] == " + _CN(s="slim_index", c="pos_L3") + ")"]
                   + _ss_lists(_OI, _OW, "slim_index", "pos_L3", _OI + ".shape[1]"),
            "assert_at": {0: [_CN(p="pix_index", s="S", c="0") + " <= " + _OI + ".shape[1]",
                              _SZ + "[pix_index] == " + _CN(p="pix_index", s="slim_index", c="pos_L3"),
                              _CN(p="pix_index", s="slim_index", c="pos_L3") + " < " + _CN(p="pix_index", s="S", c="0"),
                              _KS(p="pix_index", j=_CN(p="pix_index", s="slim_index", c="pos_L3")) + " == slim_index",
                              _KC(p="pix_index", j=_CN(p="pix_index", s="slim_index", c="pos_L3")) + " == pos_L3"]}},
    },
    sentence={"cm_ks": "per source pixel, the list of the sub-pixel indexes (and weights) mapping to it, in increasing order, padded with -1"},
)


# KNOWN-DEFECT CANDIDATE (reported, not enabled): the same statement on tables padded with -1 (MapperDelaunay rows such as [A, -1, -1] for
# a data point outside the hull: "-1 = no mapping").  The real function does `sizes[pix_index] += 1` and `out[pix_index, ...] = slim_index`
# with pix_index == -1, which numpy wraps around to the LAST source pixel: that pixel's list then holds sub-pixels that do not map to
# it (and the common row length grows).  Native replay: idx = [[0, 1, 2], [0, -1, -1]], w = [[.2, .3, .5], [1, 0, 0]], pix_pixels = 4
#   observed sizes [2, 1, 1, 2], row 3 = [1, 1]      expected sizes [2, 1, 1, 0], row 3 = [-1, -1].
# The contract below states what the property demands; it FAILS on the unchanged tree, so no generator is attached (attach
# `_g_ssi_padded` together with a known_findings.json entry to track it).
contract(
    _SS_K + "#padded", props=["C06"], mode="bounded",
    types={"pix_indexes_for_sub_slim_index": "int[2]", "pix_weights_for_sub_slim_index": "real[2]", "pix_pixels": "int"},
    returns="(real[2],real[1],real[2])", let=_SS_LET,
    requires=["P >= 1", "w.shape[0] >= S", "w.shape[1] == C", "forall(0, S, lambda s: forall(0, C, lambda c: -1 <= idx[s, c] and idx[s, c] < P))",
              "exists(0, S, lambda s: exists(0, C, lambda c: idx[s, c] == -1))"],
    ensures=list(CONTRACTS[_SS_K].ensures),
    note="bounded and NOT enabled: states the property for -1-padded tables, which the real code violates (wrap-around of index -1)",
)


def _g_ssi_padded(rng, tier):
    yield {"pix_indexes_for_sub_slim_index": np.array([[0, 1, 2], [0, -1, -1]]), "pix_weights_for_sub_slim_index": np.array([[0.2, 0.3, 0.5], [1.0, 0.0, 0.0]]),
           "pix_pixels": 4}
    for _ in range(gens.budget(tier, 200, 2000)):
        S, C, P = rng.randint(1, 6), rng.randint(1, 4), rng.randint(1, 6)
        idx, w = _tables(rng, S, C, P, pad=True)
        yield {"pix_indexes_for_sub_slim_index": idx, "pix_weights_for_sub_slim_index": w, "pix_pixels": P}


def _g_ssi(rng, tier):
    for S, C, P in [(0, 0, 1), (0, 2, 2), (1, 0, 1), (1, 1, 1), (1, 2, 2), (2, 1, 2), (2, 2, 2), (1, 3, 2), (3, 1, 3), (2, 2, 3)][: gens.budget(tier, 9, 10)]:
        for ent in itertools.product(range(P), repeat=S * C):
            yield {"pix_indexes_for_sub_slim_index": np.array(ent, dtype=int).reshape(S, C),
                   "pix_weights_for_sub_slim_index": gens.reals(rng, (S, C), -2, 2, special=False), "pix_pixels": P}
    for _ in range(gens.budget(tier, 300, 3000)):
        S, C, P = rng.randint(0, 6), rng.randint(0, 4), rng.randint(1, 6)
        r = rng.random()
        if r < 0.7:
            idx, w = _tables(rng, S, C, P, extra_rows=rng.choice([0, 0, 1]))
        elif r < 0.8:                             # raises: no source pixel at all (np.max of an empty array) / an entry beyond the last pixel
            idx, w = _tables(rng, S, C, P)
            if S and C and rng.random() < 0.5:
                idx[rng.randrange(S), rng.randrange(C)] = P + rng.randint(0, 2)
            else:
                P = 0
                idx = np.zeros((0, C), dtype=int); w = np.zeros((0, C))
        elif r < 0.9:                             # weight table of another width: outside the domain
            idx, w = _tables(rng, S, C, P, CW=C + rng.choice([-1, 1]) if C else 1)
        else:                                     # -1 padding: outside the domain (numpy wraps the index around to the last source pixel)
            idx, w = _tables(rng, S, max(C, 1), P, pad=True)
        yield {"pix_indexes_for_sub_slim_index": idx, "pix_weights_for_sub_slim_index": w, "pix_pixels": P}


CONTRACTS[_SS_K].gen = _g_ssi
CONTRACTS[_SS_K].nontrivial = lambda **kw: kw["pix_indexes_for_sub_slim_index"].size >= 4 and kw["pix_pixels"] >= 2

# ============================================================================================== (b) regions after extraction
# one axis: original interval [x0o, x1o), extraction window [x0e, x1e).  The overlap [max(x0o, x0e), min(x1o, x1e)) expressed in the
# window's coordinates (origin x0e); absent (None, None) when the overlap is empty.
macro("c19x_overlap", ["x0o", "x1o", "x0e", "x1e"], "(x0o if x0o > x0e else x0e) < (x1o if x1o < x1e else x1e)")
macro("c19x_lo", ["x0o", "x0e"], "(x0o - x0e if x0o > x0e else 0)")                      # clipped at the window's start
macro("c19x_hi", ["x1o", "x0e", "x1e"], "((x1o if x1o < x1e else x1e) - x0e)")            # clipped at the window's end
_X1D = "x0o, x1o, x0e, x1e"
contract(
    LU + "x0x1_after_extraction", props=["C19"],
    types={"x0o": "int", "x1o": "int", "x0e": "int", "x1e": "int"}, returns="(int?,int?)",
    requires=["x0o <= x1o"],          # the original interval is not inverted (every Region1D / Region2D satisfies x0 < x1); any window
    ensures=[
        # absent exactly when the original interval and the window do not overlap (both components None together) ...
        "iff(result[0] is None, not c19x_overlap(" + _X1D + "))", "iff(result[1] is None, not c19x_overlap(" + _X1D + "))",
        # ... otherwise the overlap in window coordinates: start clipped to 0, end clipped to the window length
        "implies(c19x_overlap(" + _X1D + "), result == (c19x_lo(x0o, x0e), c19x_hi(x1o, x0e, x1e)))",
        # (the same without the abbreviations; only `==` / `is` may touch a possibly-None result)
        "implies(c19x_overlap(" + _X1D + "), result == ((x0o if x0o > x0e else x0e) - x0e, (x1o if x1o < x1e else x1e) - x0e))",
        # the returned interval is a valid, non-empty interval inside the window [0, x1e - x0e)
        "implies(c19x_overlap(" + _X1D + "), 0 <= c19x_lo(x0o, x0e) and c19x_lo(x0o, x0e) < c19x_hi(x1o, x0e, x1e) and c19x_hi(x1o, x0e, x1e) <= x1e - x0e)",
    ],
    sentence={"c19x_overlap": "the interval after extraction is the overlap of the original interval with the window, in the window's "
                              "coordinates, and is absent when they do not overlap"},
)


def _g_x0x1(rng, tier):
    n = gens.budget(tier, 5, 7)
    for v in itertools.product(range(-1, n), repeat=4):      # exhaustive, inverted / empty originals and windows included
        yield dict(zip(("x0o", "x1o", "x0e", "x1e"), v))
    for _ in range(gens.budget(tier, 500, 5000)):
        yield dict(zip(("x0o", "x1o", "x0e", "x1e"), (rng.randint(-50, 50) for _ in range(4))))
    # detector-sized coordinates (a CCD has thousands of rows and columns; integers above 256 are not interned by CPython), with the
    # windows that merely TOUCH the region at either end, as Python ints and as numpy integers
    import numpy as _np
    for base in (300, 2066, 70000):
        for (a, b, c, d) in ((0, 20, -57, 0), (300, 320, -57, 300), (0, 20, 20, 41), (5, 9, 0, 5), (400, 409, 0, 400), (5, 9, 9, 30), (0, 20, -5, 7), (3, 8, 3, 8), (0, 20, 25, 30)):
            for cast in (int, _np.int64):
                yield {"x0o": cast(base + a), "x1o": cast(base + b), "x0e": cast(base + c), "x1e": cast(base + d)}
    for _ in range(gens.budget(tier, 200, 2000)):
        b = rng.choice([300, 2066, 70000])
        yield dict(zip(("x0o", "x1o", "x0e", "x1e"), (b + rng.randint(-50, 50) for _ in range(4))))


CONTRACTS[LU + "x0x1_after_extraction"].gen = _g_x0x1
CONTRACTS[LU + "x0x1_after_extraction"].nontrivial = lambda x0o, x1o, x0e, x1e: max(x0o, x0e) < min(x1o, x1e) and (x0o, x1o) != (x0e, x1e)

# ---- two axes.  Region2D objects are modelled as their (y0, y1, x0, x1) tuple (contracts/c19_layout.py); the function only indexes them
RG = "autoarray.layout.region:"
OBJ = {4: RG + "Region2D", 2: RG + "Region1D"}
R2 = "(int,int,int,int)"
_OY = "c19x_overlap(O[0], O[1], E[0], E[1])"
_OX = "c19x_overlap(O[2], O[3], E[2], E[3])"
_R2D = "(c19x_lo(O[0], E[0]), c19x_hi(O[1], E[0], E[1]), c19x_lo(O[2], E[2]), c19x_hi(O[3], E[2], E[3]))"
contract(
    LU + "region_after_extraction#absent", props=["C19"], objects=OBJ,
    types={"original_region": "none", "extraction_region": R2}, returns=None,
    ensures=["result is None"],           # an absent region stays absent
)
contract(
    LU + "region_after_extraction#region", props=["C19"], objects=OBJ,
    types={"original_region": R2, "extraction_region": R2}, returns=R2 + "?",
    let={"O": "original_region", "E": "extraction_region"},
    # the original region is not inverted on either axis (every Region2D satisfies y0 < y1, x0 < x1); the window is arbitrary
    requires=["O[0] <= O[1]", "O[2] <= O[3]"],
    ensures=[
        # absent exactly when the region and the window do not overlap (on at least one axis the intervals are disjoint) ...
        "iff(result is None, not (" + _OY + " and " + _OX + "))",
        # ... otherwise the intersection of the region with the window, in the window's coordinates (origin E[0], E[2]), clipped at each end
        "implies(" + _OY + " and " + _OX + ", result == " + _R2D + ")",
        "implies(" + _OY + " and " + _OX + ", result == ((O[0] if O[0] > E[0] else E[0]) - E[0], (O[1] if O[1] < E[1] else E[1]) - E[0],"
        " (O[2] if O[2] > E[2] else E[2]) - E[2], (O[3] if O[3] < E[3] else E[3]) - E[2]))",
        # which is a valid (non-negative, non-empty) region inside the window
        "implies(" + _OY + " and " + _OX + ", c19_valid2(" + _R2D + ") and c19x_hi(O[1], E[0], E[1]) <= E[1] - E[0] and c19x_hi(O[3], E[2], E[3]) <= E[3] - E[2])",
    ],
    sentence={"c19x_overlap": "the region returned after extracting a sub-window addresses, inside the extracted window, exactly the overlap "
                              "of the original region with the window, and is absent when they do not overlap"},
)


def _axis_cases(n):
    return [v for v in itertools.product(range(n), repeat=4) if v[0] <= v[1]]


def _g_rae(rng, tier):
    ax = _axis_cases(3)
    # exhaustive on one axis against a fixed overlapping / clipping configuration on the other, both ways round ...
    for fixed in [(0, 2, 0, 2), (1, 3, 0, 2), (0, 1, 1, 2)]:
        for v in ax:
            yield {"original_region": (v[0], v[1], fixed[0], fixed[1]), "extraction_region": (v[2], v[3], fixed[2], fixed[3])}
            yield {"original_region": (fixed[0], fixed[1], v[0], v[1]), "extraction_region": (fixed[2], fixed[3], v[2], v[3])}
    # ... then seeded pairs of axis configurations (thorough: every pair) and random regions / windows of any sign
    if tier == "thorough":
        for a in ax:
            for b in ax:
                yield {"original_region": (a[0], a[1], b[0], b[1]), "extraction_region": (a[2], a[3], b[2], b[3])}
    for _ in range(gens.budget(tier, 600, 6000)):
        if rng.random() < 0.5:
            a, b = rng.choice(ax), rng.choice(ax)
            yield {"original_region": (a[0], a[1], b[0], b[1]), "extraction_region": (a[2], a[3], b[2], b[3])}
        else:
            yield {"original_region": tuple(rng.randint(-2, 9) for _ in range(4)), "extraction_region": tuple(rng.randint(-2, 9) for _ in range(4))}


def _valid2(r):
    return min(r) >= 0 and r[0] < r[1] and r[2] < r[3]


def _rae_wrap(kw):
    # input forms: the layout classes pass Region2D objects, tests pass plain tuples
    import autoarray as aa
    o, e = kw["original_region"], kw["extraction_region"]
    if o is not None and _valid2(o) and (sum(o) + sum(e)) % 2 == 0:
        kw["original_region"] = aa.Region2D(region=tuple(o))
    if _valid2(e) and sum(e) % 3 != 0:
        kw["extraction_region"] = aa.Region2D(region=tuple(e))
    return kw


def _g_rae_absent(rng, tier):
    for _ in range(gens.budget(tier, 100, 1000)):
        yield {"original_region": None, "extraction_region": tuple(rng.randint(-2, 9) for _ in range(4))}


CONTRACTS[LU + "region_after_extraction#region"].gen = _g_rae
CONTRACTS[LU + "region_after_extraction#region"].rt_wrap = _rae_wrap
CONTRACTS[LU + "region_after_extraction#region"].nontrivial = (
    lambda original_region, extraction_region: max(original_region[0], extraction_region[0]) < min(original_region[1], extraction_region[1])
    and max(original_region[2], extraction_region[2]) < min(original_region[3], extraction_region[3]) and tuple(original_region) != tuple(extraction_region))
CONTRACTS[LU + "region_after_extraction#absent"].gen = _g_rae_absent
CONTRACTS[LU + "region_after_extraction#absent"].rt_wrap = _rae_wrap

# ---- corollaries: the 2-D function is the 1-D one applied per axis; the returned region addresses exactly the common pixels
_COR_REQ = ["O[0] <= O[1]", "O[2] <= O[3]"]
_RAE_CALL = ("RR", LU + "region_after_extraction#region", {"original_region": "O", "extraction_region": "E"})
corollary("C19.extraction_2d_is_1d_per_axis", props=["C19"],
          vars={"O": R2, "E": R2}, requires=_COR_REQ,
          calls=[("RY", LU + "x0x1_after_extraction", {"x0o": "O[0]", "x1o": "O[1]", "x0e": "E[0]", "x1e": "E[1]"}),
                 ("RX", LU + "x0x1_after_extraction", {"x0o": "O[2]", "x1o": "O[3]", "x0e": "E[2]", "x1e": "E[3]"}),
                 _RAE_CALL],
          ensures=["iff(RR is None, RY[0] is None or RY[1] is None or RX[0] is None or RX[1] is None)",
                   "implies(not (RR is None), RR == (RY[0], RY[1], RX[0], RX[1]))",
                   "implies(not (RY[0] is None) and not (RX[0] is None), RR == (RY[0], RY[1], RX[0], RX[1]))"],
          sentence="the region after extraction is the interval after extraction of each axis, absent when either axis is absent")
_INWIN = "E[0] <= {y} and {y} < E[1] and E[2] <= {x} and {x} < E[3]"
_INREG = "O[0] <= {y} and {y} < O[1] and O[2] <= {x} and {x} < O[3]"
corollary("C19.extraction_addresses_overlap", props=["C19"],
          vars={"O": R2, "E": R2, "r": R2}, requires=_COR_REQ, calls=[_RAE_CALL],
          ensures=[
              # pixel (a, b) of the extracted window is pixel (E[0] + a, E[2] + b) of the array: every pixel the result addresses is common to
              # the original region and the window ...
              "implies(RR == r, forall(r[0], r[1], lambda a: forall(r[2], r[3], lambda b: "
              + _INWIN.format(y="E[0] + a", x="E[2] + b") + " and " + _INREG.format(y="E[0] + a", x="E[2] + b") + ")))",
              # ... every common pixel is addressed ...
              "implies(RR == r, forall(O[0], O[1], lambda y: forall(O[2], O[3], lambda x: implies(" + _INWIN.format(y="y", x="x")
              + ", r[0] <= y - E[0] and y - E[0] < r[1] and r[2] <= x - E[2] and x - E[2] < r[3]))))",
              # ... the result is a valid non-empty region, and it is absent exactly when there is no common pixel
              "implies(RR == r, c19_valid2(r))",
              "implies(RR is None, forall(O[0], O[1], lambda y: forall(O[2], O[3], lambda x: not (" + _INWIN.format(y="y", x="x") + "))))",
          ],
          sentence="the region returned after extracting a sub-window addresses, inside the extracted window, exactly the overlap of the "
                   "original region with the window, and is absent when they do not overlap")

# ---- rotate_pattern_ci_via_roe_corner_from: does NOT fit the tuple-object modelling -- `pattern_ci` is an external (PyAutoCTI) object with
# a variable-length list attribute `regions`; the body uses copy.deepcopy, an attribute store and a list comprehension over that
# attribute.  Bounded only (engine C): the pattern is generated as an (N, 4) table of regions and wrapped into a stand-in object.
_PAT = {}


def _pat_wrap(kw):
    import types
    import autoarray as aa
    regs = [aa.Region2D(region=tuple(int(v) for v in r)) for r in kw["pattern_ci"]]
    obj = types.SimpleNamespace(regions=regs, tag="pattern")
    _PAT["obj"], _PAT["regions"] = obj, list(regs)
    kw["pattern_ci"] = obj
    return kw


def _pat_untouched(res):
    o = _PAT["obj"]
    return (res is not o and res.tag == "pattern" and len(o.regions) == len(_PAT["regions"])
            and all(a is b for a, b in zip(o.regions, _PAT["regions"])))


macro("cm_pattern_untouched", ["res"], "True", py=_pat_untouched)
contract(
    LU + "rotate_pattern_ci_via_roe_corner_from", props=["C19"], mode="bounded", objects=OBJ,
    types={"pattern_ci": "int[2]", "shape_native": "(int,int)", "roe_corner": "(int,int)"}, returns=None,
    let={"N": "pattern_ci.shape[0]"},
    requires=["((roe_corner[0] == 1 or roe_corner[0] == 0) and (roe_corner[1] == 1 or roe_corner[1] == 0))",
              "forall(0, N, lambda k: c19_valid2(pattern_ci[k]) and pattern_ci[k][1] <= shape_native[0] and pattern_ci[k][3] <= shape_native[1])"],
    ensures=["len(result.regions) == N",
             # every region of the pattern is rotated like a single region (same order); the input pattern object is left as it was
             "forall(0, N, lambda k: result.regions[k] == c19_rotreg(pattern_ci[k], shape_native, roe_corner))",
             "cm_pattern_untouched(result)"],
    note="bounded: copy.deepcopy of an external object, attribute store `.regions = [...]`, list comprehension over an object attribute",
)


def _g_pattern(rng, tier):
    for _ in range(gens.budget(tier, 300, 3000)):
        H, W = rng.randint(1, 6), rng.randint(1, 6)
        regs = []
        for _ in range(rng.randint(0, 4)):
            y0 = rng.randrange(H); y1 = rng.randint(y0 + 1, H)
            x0 = rng.randrange(W); x1 = rng.randint(x0 + 1, W)
            regs.append((y0, y1, x0, x1))
        yield {"pattern_ci": np.array(regs, dtype=int).reshape(-1, 4), "shape_native": (H, W), "roe_corner": (rng.randint(0, 1), rng.randint(0, 1))}


CONTRACTS[LU + "rotate_pattern_ci_via_roe_corner_from"].gen = _g_pattern
CONTRACTS[LU + "rotate_pattern_ci_via_roe_corner_from"].rt_wrap = _pat_wrap

# ============================================================================================== (c) edge pixels of a rectangular mesh
# cm_kth1(M, j): the j-th unmasked index of a 1-D mask (inverse of cnt1 on the unmasked indexes); strictly increasing in j
def _kth1_py(M, j):
    pos = np.flatnonzero(~np.asarray(M, dtype=bool))
    return int(pos[j]) if 0 <= j < len(pos) else -1


_K1_PROPS = "0 <= cm_kth1(M, j) and cm_kth1(M, j) < N and not M[cm_kth1(M, j)] and cnt1(M, cm_kth1(M, j)) == j"
spec_fn(
    "cm_kth1", params=[("M", "bool[1]"), ("j", "int")], ret="int", let={"N": "M.shape[0]"},
    axioms=["forall(0, N, lambda x: implies(not M[x], cm_kth1(M, cnt1(M, x)) == x), pat=((cnt1(M, x), M[x]),))"],
    lemmas=[
        dict(name="surj", induct="n", lo=0, hi="N",
             stmt="forall(0, cnt1(M, n), lambda j: " + _K1_PROPS + ", pat=((cm_kth1(M, j), cnt1(M, n)),))"),
        dict(name="inc", noinduct=True,
             stmt="forall(0, cnt1(M, N), lambda j2: forall(0, j2, lambda j1: cm_kth1(M, j1) < cm_kth1(M, j2),"
                  " pat=((cm_kth1(M, j1), cm_kth1(M, j2)),)))"),
    ],
    py=_kth1_py,
    doc="the j-th unmasked index of a 1-D mask, in increasing order",
)

_HASM1 = "exists(0, K, lambda k: NB[{i}, k] == -1)"
_EB = "arr1(N, lambda i: not " + _HASM1.format(i="i") + ")"          # mask whose unmasked indexes are the rows holding a -1 entry
contract(
    ME + "rectangular_edge_pixel_list_from", props=["C06", "C05"],
    types={"neighbors": "real[2]"}, returns="int[1]",
    let={"NB": "neighbors", "N": "neighbors.shape[0]", "K": "neighbors.shape[1]", "B": _EB},
    ensures=[
        "len(result) == total1(B)",
        # membership: every mesh pixel whose neighbour row holds a -1 (a missing neighbour) is listed, at its rank among such pixels ...
        "forall(0, N, lambda i: implies(" + _HASM1.format(i="i") + ", cnt1(B, i) < len(result) and result[cnt1(B, i)] == i))",
        # (the same with the -1 entry named: directly usable by callers that know one)
        "forall(0, N, lambda i: forall(0, K, lambda k: implies(NB[i, k] == -1, cnt1(B, i) < len(result) and result[cnt1(B, i)] == i), pat=NB[i, k]))",
        # ... and nothing else: the j-th listed pixel is the j-th pixel with a missing neighbour
        "forall(0, len(result), lambda j: result[j] == cm_kth1(B, j) and 0 <= result[j] and result[j] < N)",
        "forall(0, len(result), lambda j: " + _HASM1.format(i="result[j]") + ")",
        # order: ascending pixel index (the order of the scan)
        "forall(0, len(result), lambda j2: forall(0, j2, lambda j1: result[j1] < result[j2]))",
    ],
    loops={0: {"inv": ["len(edge_pixel_list) == cnt1(B, i)",
                       "forall(0, len(edge_pixel_list), lambda j: edge_pixel_list[j] == cm_kth1(B, j))"]}},
    sentence={"cm_kth1": "the edge pixel list holds exactly the pixels with a missing neighbour, in ascending order"},
)


def _g_edge_list(rng, tier):
    for N, K in [(0, 0), (0, 4), (1, 0), (1, 1), (2, 1), (1, 2), (2, 2), (3, 1), (3, 2)][: gens.budget(tier, 8, 9)]:
        for ent in itertools.product((-1.0, 0.0, 2.0), repeat=N * K):
            yield {"neighbors": np.array(ent, dtype=float).reshape(N, K)}
    from pyvc import rtc
    rect = rtc.real_function(ME + "rectangular_neighbors_from")
    for H in range(3, gens.budget(tier, 6, 9)):
        for W in range(3, gens.budget(tier, 7, 10)):
            yield {"neighbors": np.array(rect(shape_native=(H, W))[0], dtype=float)}
    for _ in range(gens.budget(tier, 200, 2000)):
        N, K = rng.randint(0, 8), rng.randint(0, 5)
        a = np.array([[rng.choice([-1.0, -1.0, 0.0, 1.0, 5.0, -2.0, -1.5]) for _ in range(K)] for _ in range(N)], dtype=float).reshape(N, K)
        yield {"neighbors": a}


CONTRACTS[ME + "rectangular_edge_pixel_list_from"].gen = _g_edge_list
CONTRACTS[ME + "rectangular_edge_pixel_list_from"].nontrivial = lambda neighbors: 0 < int((neighbors == -1).any(axis=1).sum()) < neighbors.shape[0]

# the edge pixels of an H x W rectangular mesh: composed with rectangular_neighbors_from (contracts/c06_mappers.py) the list holds exactly
# the pixels of the outer ring (first / last row, first / last column), by ascending flat index r * W + c
def _chain(xs):
    """A1 and (A1 => A2 and (A2 => ...)): the conjunction A1 and A2 and ..., written so that each conjunct is proved with the earlier ones
    as hypotheses (a corollary's clauses are proved independently; the leading conjuncts are stepping stones that put the terms on the
    table which the row-major lemma c06_flat.lt and the callee postconditions are triggered by)"""
    out = xs[-1]
    for x in reversed(xs[:-1]):
        out = "(" + x + ") and implies(" + x + ", " + out + ")"
    return out


_RING = "(r == 0 or r == H - 1 or c == 0 or c == W - 1)"
_FL = "c06_flat(H, W, r, c)"
_FHW = "c06_flat(H, W, H, 0) == H * W and c06_flat(H, W, 0, 0) == 0"
_FLAST = "c06_flat(H, W, H - 1, W - 1)"
corollary("C06.rect_edge_pixels_are_outer_ring", props=["C06", "C05"],
          vars={"shape_native": "(int,int)"}, let={"H": "shape_native[0]", "W": "shape_native[1]"}, requires=["H >= 3", "W >= 3"],
          calls=[("R", ME + "rectangular_neighbors_from", {"shape_native": "shape_native"}),
                 ("EL", ME + "rectangular_edge_pixel_list_from", {"neighbors": "R[0]"})],
          ensures=[
              # membership: pixel (r, c) is listed if it lies on the outer ring (its last neighbour slot is empty) ...
              "forall(0, H, lambda r: forall(0, W, lambda c: implies(" + _RING + ", " + _chain([
                  _FHW, "c06_flat(H, W, 0, 0) <= " + _FL + " and " + _FL + " < c06_flat(H, W, H, 0)", "R[0][" + _FL + ", 3] == -1",
                  "exists(0, len(EL), lambda j: EL[j] == " + _FL + ")"]) + ")))",
              # ... and only then
              "forall(0, H, lambda r: forall(0, W, lambda c: implies(exists(0, len(EL), lambda j: EL[j] == " + _FL + "), " + _RING + ")))",
              # every entry is a mesh pixel; order: ascending flat index (row by row, left to right)
              "forall(0, len(EL), lambda j: 0 <= EL[j] and EL[j] < H * W)",
              "forall(0, len(EL), lambda j2: forall(0, j2, lambda j1: EL[j1] < EL[j2]))",
              # it starts at the top-left corner and ends at the bottom-right corner
              _chain(["c06_flat(H, W, 0, 0) == 0 and 0 < H * W", "R[0][c06_flat(H, W, 0, 0), 3] == -1", "R[0][0, 3] == -1",
                      "exists(0, R[0].shape[1], lambda k: R[0][0, k] == -1)", "len(EL) > 0 and EL[0] == 0"]),
              _chain([_FHW, "c06_flat(H, W, 0, 0) < " + _FLAST + " and " + _FLAST + " + 1 == c06_flat(H, W, H, 0)",
                      "R[0][" + _FLAST + ", 3] == -1", "EL[len(EL) - 1] == H * W - 1"]),
          ],
          sentence="the edge pixel list of a rectangular mesh holds exactly the pixels of its outer ring, in ascending order")
