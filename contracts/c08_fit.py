"""C08 -- fit statistics follow their definitions on unmasked pixels only (autoarray/fit/fit_util.py).

The functions are vectorised numpy on plain ndarrays; the numpy primitives they need are engine extensions
(pyvc/ext/c08.py, which lists what is trusted).  The contracts describe the PLAIN-NDARRAY behaviour: the decorator
`to_new_array` and the `npw` wrapper only re-wrap results when the first argument is an autoarray structure (left to the
bounded checks bounded/c08_fit.py, which run FitImaging end to end).

Evaluation modes of the statement:  slim mode    = rank-1 arrays, the plain functions (`use_mask_in_fit` off);
                                    masked-native = rank-2 arrays plus a rank-2 boolean mask, the `_with_mask` functions.
Sums are spec functions (partial sums in index order) so that congruence lemmas can be attached to them:
    c08_sum1(A, n)    = sum_{k<n} A[k]                              total: c08_sum1(A, N)
    c08_sum2(A, y, x) = sum of A over the positions strictly before (y, x) in row-major order;   total: c08_sum2(A, H, 0)
"sum over the unmasked pixels of f" is  c08_sum2(arr2(H, W, lambda i, j: (f(i, j) if mask[i, j] == 0 else 0)), H, 0).
"""
import numpy as np
from pyvc.contract import contract, corollary, spec_fn, macro, CONTRACTS
from pyvc import gens

FU = "autoarray.fit.fit_util:"

# ----------------------------------------------------------------------------- spec functions
spec_fn(
    "c08_sum1", params=[("A", "real[1]"), ("n", "int")], ret="real", let={"N": "A.shape[0]"},
    axioms=["c08_sum1(A, 0) == 0",
            "forall(0, N, lambda n: c08_sum1(A, n + 1) == c08_sum1(A, n) + A[n], pat=c08_sum1(A, n + 1))"],
    py=lambda A, n: float(np.sum(np.asarray(A, dtype=float)[: max(int(n), 0)])),
    doc="partial sums of a rank-1 array",
)

spec_fn(
    "c08_sum2", params=[("A", "real[2]"), ("y", "int"), ("x", "int")], ret="real",
    let={"H": "A.shape[0]", "W": "A.shape[1]"},
    axioms=["c08_sum2(A, 0, 0) == 0",
            "forall(0, H, lambda y: forall(0, W, lambda x: c08_sum2(A, y, x + 1) == c08_sum2(A, y, x) + A[y, x],"
            " pat=c08_sum2(A, y, x + 1)))",
            "forall(0, H, lambda y: c08_sum2(A, y + 1, 0) == c08_sum2(A, y, W), pat=(c08_sum2(A, y, W), c08_sum2(A, y + 1, 0)))"],
    py=lambda A, y, x: float(np.sum(np.asarray(A, dtype=float).ravel()[: max(int(y) * A.shape[1] + int(x), 0)])),
    doc="row-major partial sums of a rank-2 array; (y, W) == (y + 1, 0)",
)


def _same_py(A, B):
    A, B = np.asarray(A, dtype=float), np.asarray(B, dtype=float)
    return A.shape == B.shape and bool(np.allclose(A, B, rtol=1e-9, atol=1e-9))


# congruence: arrays that agree element-wise have equal (partial) sums.  The lemmas live on a two-array predicate because a
# lemma of c08_sum1 / c08_sum2 can only speak about ONE array instance.
spec_fn(
    "c08_same1", params=[("A", "real[1]"), ("B", "real[1]")], ret="bool", let={"N": "A.shape[0]"},
    axioms=["c08_same1(A, B) == (B.shape[0] == N and forall(0, N, lambda k: A[k] == B[k]))"],
    lemmas=[dict(name="sum", induct="n", lo=0, hi="N", stmt="implies(c08_same1(A, B), c08_sum1(A, n) == c08_sum1(B, n))")],
    py=_same_py,
)
spec_fn(
    "c08_same2", params=[("A", "real[2]"), ("B", "real[2]")], ret="bool", let={"H": "A.shape[0]", "W": "A.shape[1]"},
    axioms=["c08_same2(A, B) == (B.shape[0] == H and B.shape[1] == W and forall(0, H, lambda y: forall(0, W, lambda x: A[y, x] == B[y, x])))"],
    lemmas=[
        dict(name="row", induct="n", lo=0, hi="W", export=False,
             stmt="implies(c08_same2(A, B), forall(0, H, lambda y: c08_sum2(A, y, n) - c08_sum2(A, y, 0) == c08_sum2(B, y, n) - c08_sum2(B, y, 0),"
                  " pat=c08_sum2(A, y, n)))"),
        dict(name="sum", induct="n", lo=0, hi="H", stmt="implies(c08_same2(A, B), c08_sum2(A, n, 0) == c08_sum2(B, n, 0))"),
    ],
    py=_same_py,
)

# "pixel (i, j) is unmasked": the mask value is False / 0
macro("c08_unm", ["M", "i", "j"], "M[i, j] == 0", py=lambda M, i, j: bool(M[i, j] == 0))


def _masked_total(f):
    """sum over the unmasked pixels of the point-wise expression f(i, j)"""
    return "c08_sum2(arr2(H, W, lambda i, j: ((" + f + ") if mask[i, j] == 0 else 0)), H, 0)"


# ----------------------------------------------------------------------------- slim mode (rank 1, no mask)
N1 = {"N": "{a}.shape[0]"}
_POS1 = "forall(0, N, lambda k: noise_map[k] > 0)"

contract(
    FU + "residual_map_from", props=["C08"],
    types={"data": "real[1]", "model_data": "real[1]"}, returns="real[1]", let={"N": "data.shape[0]"},
    requires=["model_data.shape[0] == N"],
    ensures=["result.shape[0] == N", "forall(0, N, lambda k: result[k] == data[k] - model_data[k])"],
    sentence={"forall": "residual = data - model, element-wise"},
)

contract(
    FU + "normalized_residual_map_from", props=["C08"],
    types={"residual_map": "real[1]", "noise_map": "real[1]"}, returns="real[1]", let={"N": "residual_map.shape[0]"},
    requires=["noise_map.shape[0] == N", _POS1],
    ensures=["result.shape[0] == N", "forall(0, N, lambda k: result[k] == residual_map[k] / noise_map[k])"],
    sentence={"forall": "normalized residual = residual / noise, element-wise"},
)

contract(
    FU + "chi_squared_map_from", props=["C08"],
    types={"residual_map": "real[1]", "noise_map": "real[1]"}, returns="real[1]", let={"N": "residual_map.shape[0]"},
    requires=["noise_map.shape[0] == N", _POS1],
    ensures=["result.shape[0] == N", "forall(0, N, lambda k: result[k] == (residual_map[k] / noise_map[k]) ** 2)"],
    sentence={"forall": "chi-squared map = (residual / noise)^2, element-wise"},
)

contract(
    FU + "chi_squared_from", props=["C08"],
    types={"chi_squared_map": "real[1]"}, returns="real", let={"N": "chi_squared_map.shape[0]"},
    ensures=["result == c08_sum1(chi_squared_map, N)"],
    sentence={"c08_sum1": "chi-squared = sum of the chi-squared map"},
)

contract(
    FU + "noise_normalization_from", props=["C08"],
    types={"noise_map": "real[1]"}, returns="real", let={"N": "noise_map.shape[0]"},
    requires=[_POS1],
    ensures=["result == c08_sum1(arr1(N, lambda k: log(2 * pi * noise_map[k] ** 2.0)), N)"],
    sentence={"c08_sum1": "noise normalization = sum(log(2 pi noise^2))"},
)

contract(
    FU + "log_likelihood_from", props=["C08"],
    types={"chi_squared": "real", "noise_normalization": "real"}, returns="real",
    ensures=["result == -(chi_squared + noise_normalization) / 2"],
    sentence={"result": "log likelihood = -(chi-squared + normalization)/2"},
)

contract(
    FU + "log_likelihood_with_regularization_from", props=["C08"],
    types={"chi_squared": "real", "regularization_term": "real", "noise_normalization": "real"}, returns="real",
    ensures=["result == -(chi_squared + regularization_term + noise_normalization) / 2"],
)

contract(
    FU + "log_evidence_from", props=["C08"],
    types={"chi_squared": "real", "regularization_term": "real", "log_curvature_regularization_term": "real",
           "log_regularization_term": "real", "noise_normalization": "real"}, returns="real",
    ensures=["result == -(chi_squared + regularization_term + log_curvature_regularization_term - log_regularization_term"
             " + noise_normalization) / 2"],
    sentence={"result": "log evidence = -(chi-squared + s^T H s + log det(F+H) - log det(H) + normalization)/2"},
)

contract(
    FU + "residual_flux_fraction_map_from", props=["C08"],
    types={"residual_map": "real[1]", "data": "real[1]"}, returns="real[1]", let={"N": "residual_map.shape[0]"},
    requires=["data.shape[0] == N", "forall(0, N, lambda k: data[k] != 0)"],
    ensures=["result.shape[0] == N", "forall(0, N, lambda k: result[k] == residual_map[k] / data[k])"],
    sentence={"forall": "residual flux fraction = residual / data, element-wise"},
)

# ----------------------------------------------------------------------------- masked-native mode (rank 2 + mask)
HW = {"H": "mask.shape[0]", "W": "mask.shape[1]"}


def _shape2(*names):
    out = []
    for n in names:
        out += ["%s.shape[0] == H" % n, "%s.shape[1] == W" % n]
    return out


# positivity / non-zero only where it matters: values carried in masked pixels are unconstrained
_POS2 = "forall(0, H, lambda i: forall(0, W, lambda j: implies(mask[i, j] == 0, noise_map[i, j] > 0)))"

contract(
    FU + "residual_map_with_mask_from", props=["C08"],
    types={"data": "real[2]", "mask": "bool[2]", "model_data": "real[2]"}, returns="real[2]", let=HW,
    requires=_shape2("data", "model_data"),
    ensures=["result.shape[0] == H", "result.shape[1] == W",
             "forall(0, H, lambda i: forall(0, W, lambda j: result[i, j] == (0 if mask[i, j] else data[i, j] - model_data[i, j])))"],
    sentence={"forall": "residual = data - model on unmasked pixels, 0 at masked entries"},
)

contract(
    FU + "normalized_residual_map_with_mask_from", props=["C08"],
    types={"residual_map": "real[2]", "noise_map": "real[2]", "mask": "bool[2]"}, returns="real[2]", let=HW,
    requires=_shape2("residual_map", "noise_map") + [_POS2],
    ensures=["result.shape[0] == H", "result.shape[1] == W",
             "forall(0, H, lambda i: forall(0, W, lambda j: result[i, j] == (0 if mask[i, j] else residual_map[i, j] / noise_map[i, j])))"],
)

contract(
    FU + "chi_squared_map_with_mask_from", props=["C08"],
    types={"residual_map": "real[2]", "noise_map": "real[2]", "mask": "bool[2]"}, returns="real[2]", let=HW,
    requires=_shape2("residual_map", "noise_map") + [_POS2],
    ensures=["result.shape[0] == H", "result.shape[1] == W",
             "forall(0, H, lambda i: forall(0, W, lambda j: result[i, j] == (0 if mask[i, j] else (residual_map[i, j] / noise_map[i, j]) ** 2)))"],
)

contract(
    FU + "chi_squared_with_mask_from", props=["C08"],
    types={"chi_squared_map": "real[2]", "mask": "bool[2]"}, returns="real", let=HW,
    requires=_shape2("chi_squared_map"),
    ensures=["result == " + _masked_total("chi_squared_map[i, j]")],
    sentence={"c08_sum2": "chi-squared = sum of the chi-squared map over unmasked pixels only"},
)

contract(
    FU + "chi_squared_with_mask_fast_from", props=["C08"],
    types={"data": "real[2]", "mask": "bool[2]", "model_data": "real[2]", "noise_map": "real[2]"}, returns="real", let=HW,
    requires=_shape2("data", "model_data", "noise_map") + [_POS2],
    ensures=["result == " + _masked_total("((data[i, j] - model_data[i, j]) / noise_map[i, j]) ** 2")],
    sentence={"c08_sum2": "chi-squared = sum(((data - model)/noise)^2) over unmasked pixels only"},
)

contract(
    FU + "noise_normalization_with_mask_from", props=["C08"],
    types={"noise_map": "real[2]", "mask": "bool[2]"}, returns="real", let=HW,
    requires=_shape2("noise_map") + [_POS2],
    ensures=["result == " + _masked_total("log(2 * pi * noise_map[i, j] ** 2.0)")],
    sentence={"c08_sum2": "noise normalization = sum(log(2 pi noise^2)) over unmasked pixels only"},
)

contract(
    FU + "residual_flux_fraction_map_with_mask_from", props=["C08"],
    types={"residual_map": "real[2]", "data": "real[2]", "mask": "bool[2]"}, returns="real[2]", let=HW,
    requires=_shape2("residual_map", "data") + ["forall(0, H, lambda i: forall(0, W, lambda j: implies(mask[i, j] == 0, data[i, j] != 0)))"],
    ensures=["result.shape[0] == H", "result.shape[1] == W",
             "forall(0, H, lambda i: forall(0, W, lambda j: result[i, j] == (0 if mask[i, j] else residual_map[i, j] / data[i, j])))"],
    sentence={"forall": "residual flux fraction = residual / data on unmasked pixels, 0 at masked entries"},
)


# ----------------------------------------------------------------------------- engine C generators
def _pos(rng, shape):
    return np.array([rng.uniform(0.1, 5.0) for _ in range(int(np.prod(shape)))]).reshape(shape)


def _nz(rng, shape):
    a = gens.reals(rng, shape, special=False)
    a[a == 0] = 1.5
    return a


def _g1(names, pos=(), nz=()):
    def g(rng, tier):
        for _ in range(gens.budget(tier, 150, 2500)):
            n = rng.randint(0, 6)
            kw = {}
            for nm in names:
                kw[nm] = _pos(rng, (n,)) if nm in pos else (_nz(rng, (n,)) if nm in nz else gens.reals(rng, (n,), -5, 5, special=False))
            yield kw
    return g


def _masks2(rng, tier):
    for m in gens.all_masks(gens.budget(tier, 6, 9)):
        yield m
    for _ in range(gens.budget(tier, 60, 1200)):
        yield gens.random_mask(rng, 5, 5)


def _g2(names, pos=(), nz=()):
    """values at masked pixels are adversarial: zero / negative noise, zero data, huge numbers"""
    def g(rng, tier):
        for m in _masks2(rng, tier):
            kw = {"mask": m}
            for nm in names:
                a = _pos(rng, m.shape) if nm in pos else (_nz(rng, m.shape) if nm in nz else gens.reals(rng, m.shape, -5, 5, special=False))
                if nm in pos or nm in nz:
                    a[m] = [rng.choice([0.0, -1.0, 3.0]) for _ in range(int(m.sum()))]
                else:
                    a[m] = [rng.choice([0.0, 1e6, -7.5]) for _ in range(int(m.sum()))]
                kw[nm] = a
            yield kw
    return g


def _gscalars(names):
    def g(rng, tier):
        for _ in range(gens.budget(tier, 100, 1000)):
            yield {nm: rng.uniform(-50, 50) for nm in names}
    return g


_nt_mask = lambda mask, **kw: bool(0 < mask.sum() < mask.size)
_nt_len = lambda **kw: any(np.asarray(v).size > 1 for v in kw.values())
for _k, _g, _nt in [
    ("residual_map_from", _g1(["data", "model_data"]), _nt_len),
    ("normalized_residual_map_from", _g1(["residual_map", "noise_map"], pos=["noise_map"]), _nt_len),
    ("chi_squared_map_from", _g1(["residual_map", "noise_map"], pos=["noise_map"]), _nt_len),
    ("chi_squared_from", _g1(["chi_squared_map"]), _nt_len),
    ("noise_normalization_from", _g1(["noise_map"], pos=["noise_map"]), _nt_len),
    ("log_likelihood_from", _gscalars(["chi_squared", "noise_normalization"]), None),
    ("log_likelihood_with_regularization_from", _gscalars(["chi_squared", "regularization_term", "noise_normalization"]), None),
    ("log_evidence_from", _gscalars(["chi_squared", "regularization_term", "log_curvature_regularization_term",
                                     "log_regularization_term", "noise_normalization"]), None),
    ("residual_flux_fraction_map_from", _g1(["residual_map", "data"], nz=["data"]), _nt_len),
    ("residual_map_with_mask_from", _g2(["data", "model_data"]), _nt_mask),
    ("normalized_residual_map_with_mask_from", _g2(["residual_map", "noise_map"], pos=["noise_map"]), _nt_mask),
    ("chi_squared_map_with_mask_from", _g2(["residual_map", "noise_map"], pos=["noise_map"]), _nt_mask),
    ("chi_squared_with_mask_from", _g2(["chi_squared_map"]), _nt_mask),
    ("chi_squared_with_mask_fast_from", _g2(["data", "model_data", "noise_map"], pos=["noise_map"]), _nt_mask),
    ("noise_normalization_with_mask_from", _g2(["noise_map"], pos=["noise_map"]), _nt_mask),
    ("residual_flux_fraction_map_with_mask_from", _g2(["residual_map", "data"], nz=["data"]), _nt_mask),
]:
    CONTRACTS[FU + _k].gen = _g
    CONTRACTS[FU + _k].nontrivial = _nt


# ----------------------------------------------------------------------------- corollaries (compositions of the contracts above)
_CHI1 = "arr1(N, lambda k: ((data[k] - model_data[k]) / noise_map[k]) ** 2)"
# (NN == N; written over noise_map's own length so that it denotes the ghost array of noise_normalization_from's contract)
_LOG1 = "arr1(NN, lambda k: log(2 * pi * noise_map[k] ** 2.0))"

corollary(
    "C08.slim_statistics_follow_definitions", props=["C08"],
    vars={"data": "real[1]", "model_data": "real[1]", "noise_map": "real[1]"},
    let={"N": "data.shape[0]", "NN": "noise_map.shape[0]"},
    requires=["model_data.shape[0] == N", "noise_map.shape[0] == N", "forall(0, N, lambda k: noise_map[k] > 0)"],
    calls=[("r", FU + "residual_map_from", {"data": "data", "model_data": "model_data"}),
           ("m", FU + "chi_squared_map_from", {"residual_map": "r", "noise_map": "noise_map"}),
           ("c", FU + "chi_squared_from", {"chi_squared_map": "m"}),
           ("nn", FU + "noise_normalization_from", {"noise_map": "noise_map"}),
           ("ll", FU + "log_likelihood_from", {"chi_squared": "c", "noise_normalization": "nn"})],
    ensures=[
        "c08_same1(m, " + _CHI1 + ")",
        # chi-squared = sum(((data - model)/noise)^2)
        "c == c08_sum1(" + _CHI1 + ", N)",
        # log likelihood = -(chi-squared + noise normalization)/2 with both terms as defined
        "ll == -(c08_sum1(" + _CHI1 + ", N) + c08_sum1(" + _LOG1 + ", NN)) / 2",
    ],
    sentence="slim mode: residual = data - model, chi-squared = sum((residual/noise)^2), noise normalization = sum(log(2 pi noise^2)) "
             "and log likelihood = -(chi-squared + normalization)/2, composed through the real functions",
)

_CHI2T = "(({d}[i, j] - {m}[i, j]) / {n}[i, j]) ** 2"
_LOG2T = "log(2 * pi * {n}[i, j] ** 2.0)"
_A = dict(d="data", m="model_data", n="noise_map")
_B = dict(d="data_b", m="model_b", n="noise_b")
_CHI2 = _CHI2T.format(**_A)


def _m2(f):
    return "arr2(H, W, lambda i, j: ((" + f + ") if mask[i, j] == 0 else 0))"


corollary(
    "C08.masked_statistics_follow_definitions", props=["C08"],
    vars={"data": "real[2]", "model_data": "real[2]", "noise_map": "real[2]", "mask": "bool[2]"},
    let=HW,
    requires=_shape2("data", "model_data", "noise_map") + [_POS2],
    calls=[("r", FU + "residual_map_with_mask_from", {"data": "data", "mask": "mask", "model_data": "model_data"}),
           ("m", FU + "chi_squared_map_with_mask_from", {"residual_map": "r", "noise_map": "noise_map", "mask": "mask"}),
           ("c", FU + "chi_squared_with_mask_from", {"chi_squared_map": "m", "mask": "mask"}),
           ("f", FU + "chi_squared_with_mask_fast_from", {"data": "data", "mask": "mask", "model_data": "model_data", "noise_map": "noise_map"})],
    ensures=[
        "c08_same2(" + _m2("m[i, j]") + ", " + _m2(_CHI2) + ")",
        # the chi-squared obtained through the masked maps is sum(((data - model)/noise)^2) over the unmasked pixels only ...
        "c == c08_sum2(" + _m2(_CHI2) + ", H, 0)",
        # ... and the fused evaluation returns the same number
        "c == f",
    ],
    sentence="masked-native mode: the statistics obtained through the masked maps are the sums over unmasked pixels only",
)

_AGREE = ("forall(0, H, lambda i: forall(0, W, lambda j: implies(mask[i, j] == 0, data[i, j] == data_b[i, j]"
          " and model_data[i, j] == model_b[i, j] and noise_map[i, j] == noise_b[i, j]), pat=mask[i, j]))")
_VARS2 = {"data": "real[2]", "model_data": "real[2]", "noise_map": "real[2]",
          "data_b": "real[2]", "model_b": "real[2]", "noise_b": "real[2]", "mask": "bool[2]"}
# two datasets / models that agree on the unmasked pixels and carry ARBITRARY values in the masked ones
_REQ2 = _shape2("data", "model_data", "noise_map", "data_b", "model_b", "noise_b") + [_POS2, _AGREE]
_FAST = lambda d, m, n: {"data": d, "mask": "mask", "model_data": m, "noise_map": n}
_SENT = "values carried in masked pixels never change "

corollary(
    "C08.masked_values_never_change_chi_squared", props=["C08"], vars=_VARS2, let=HW, requires=_REQ2,
    calls=[("f", FU + "chi_squared_with_mask_fast_from", _FAST("data", "model_data", "noise_map")),
           ("fb", FU + "chi_squared_with_mask_fast_from", _FAST("data_b", "model_b", "noise_b"))],
    ensures=["c08_same2(" + _m2(_CHI2T.format(**_A)) + ", " + _m2(_CHI2T.format(**_B)) + ")", "f == fb"],
    sentence=_SENT + "chi-squared",
)

corollary(
    "C08.masked_values_never_change_the_likelihood", props=["C08"], vars=_VARS2, let=HW, requires=_REQ2,
    calls=[("f", FU + "chi_squared_with_mask_fast_from", _FAST("data", "model_data", "noise_map")),
           ("fb", FU + "chi_squared_with_mask_fast_from", _FAST("data_b", "model_b", "noise_b")),
           ("n", FU + "noise_normalization_with_mask_from", {"noise_map": "noise_map", "mask": "mask"}),
           ("nb", FU + "noise_normalization_with_mask_from", {"noise_map": "noise_b", "mask": "mask"}),
           ("ll", FU + "log_likelihood_from", {"chi_squared": "f", "noise_normalization": "n"}),
           ("llb", FU + "log_likelihood_from", {"chi_squared": "fb", "noise_normalization": "nb"})],
    ensures=["c08_same2(" + _m2(_LOG2T.format(**_A)) + ", " + _m2(_LOG2T.format(**_B)) + ")", "n == nb",
             "c08_same2(" + _m2(_CHI2T.format(**_A)) + ", " + _m2(_CHI2T.format(**_B)) + ")", "ll == llb"],
    sentence=_SENT + "the noise normalization or the log likelihood",
)

corollary(
    "C08.masked_values_never_change_the_maps", props=["C08"], vars=_VARS2, let=HW, requires=_REQ2,
    calls=[("r", FU + "residual_map_with_mask_from", {"data": "data", "mask": "mask", "model_data": "model_data"}),
           ("rb", FU + "residual_map_with_mask_from", {"data": "data_b", "mask": "mask", "model_data": "model_b"}),
           ("m", FU + "chi_squared_map_with_mask_from", {"residual_map": "r", "noise_map": "noise_map", "mask": "mask"}),
           ("mb", FU + "chi_squared_map_with_mask_from", {"residual_map": "rb", "noise_map": "noise_b", "mask": "mask"}),
           ("c", FU + "chi_squared_with_mask_from", {"chi_squared_map": "m", "mask": "mask"}),
           ("cb", FU + "chi_squared_with_mask_from", {"chi_squared_map": "mb", "mask": "mask"})],
    ensures=[
        # the maps themselves are identical everywhere (0 at masked entries, the same value at unmasked ones)
        "forall(0, H, lambda i: forall(0, W, lambda j: r[i, j] == rb[i, j]))",
        "forall(0, H, lambda i: forall(0, W, lambda j: m[i, j] == mb[i, j]))",
        "c08_same2(" + _m2("m[i, j]") + ", " + _m2("mb[i, j]") + ")",
        "c == cb",
    ],
    sentence=_SENT + "the masked residual / chi-squared maps or the chi-squared summed from them",
)


# ----------------------------------------------------------------------------- complex (visibility) variants and noise covariance
_POSC = "forall(0, N, lambda k: creal(noise_map[k]) > 0 and cimag(noise_map[k]) > 0)"

contract(
    FU + "chi_squared_map_complex_from", props=["C08"],
    types={"residual_map": "complex[1]", "noise_map": "complex[1]"}, returns="complex[1]", let={"N": "residual_map.shape[0]"},
    requires=["noise_map.shape[0] == N", _POSC],
    ensures=["result.shape[0] == N",
             "forall(0, N, lambda k: creal(result[k]) == (creal(residual_map[k]) / creal(noise_map[k])) ** 2"
             " and cimag(result[k]) == (cimag(residual_map[k]) / cimag(noise_map[k])) ** 2)"],
    sentence={"forall": "chi-squared map = (residual / noise)^2, element-wise, separately for real and imaginary parts"},
)

contract(
    FU + "chi_squared_complex_from", props=["C08"],
    types={"chi_squared_map": "complex[1]"}, returns="real", let={"N": "chi_squared_map.shape[0]"},
    ensures=["result == c08_sum1(arr1(N, lambda k: creal(chi_squared_map[k])), N) + c08_sum1(arr1(N, lambda k: cimag(chi_squared_map[k])), N)"],
)

contract(
    FU + "noise_normalization_complex_from", props=["C08"],
    types={"noise_map": "complex[1]"}, returns="real", let={"N": "noise_map.shape[0]"},
    requires=[_POSC],
    ensures=["result == c08_sum1(arr1(N, lambda k: log(2 * pi * creal(noise_map[k]) ** 2.0)), N)"
             " + c08_sum1(arr1(N, lambda k: log(2 * pi * cimag(noise_map[k]) ** 2.0)), N)"],
)

# `.astype('complex128')` of a real array is outside the engine's subset (and cannot be added without editing pyvc/calls.py):
# full specification, checked at run time only
contract(
    FU + "normalized_residual_map_complex_from", props=["C08"], mode="bounded",
    types={"residual_map": "complex[1]", "noise_map": "complex[1]"}, returns="complex[1]", let={"N": "residual_map.shape[0]"},
    requires=["noise_map.shape[0] == N", _POSC],
    ensures=["result.shape[0] == N",
             "forall(0, N, lambda k: creal(result[k]) == creal(residual_map[k]) / creal(noise_map[k])"
             " and cimag(result[k]) == cimag(residual_map[k]) / cimag(noise_map[k]))"],
    note="bounded: ndarray.astype('complex128') is outside the subset",
)

# `r @ C @ r`: the matrix-product operator is read through pyvc/ext/cdot.py (D4: vector @ matrix and vector @ vector ARE the real
# products -- assumed, validated numerically at import); proved: the composition is the quadratic form r^T C r, (r^T C) r as the code
# associates it:  sum_b (sum_a r_a C_ab) r_b
from pyvc.ext import cdot as _cdot
_cdot._selfcheck()
_cdot.enable(FU + "chi_squared_with_noise_covariance_from")
contract(
    FU + "chi_squared_with_noise_covariance_from", props=["C08"],
    types={"residual_map": "real[1]", "noise_covariance_matrix_inv": "real[2]"}, returns="real", let={"N": "residual_map.shape[0]"},
    requires=["noise_covariance_matrix_inv.shape[0] == N", "noise_covariance_matrix_inv.shape[1] == N"],
    ensures=["result == sumto(N, lambda b: sumto(N, lambda a: residual_map[a] * noise_covariance_matrix_inv[a, b]) * residual_map[b])"],
)


def _cplx(rng, n, pos=False):
    f = (lambda: rng.uniform(0.1, 5.0)) if pos else (lambda: rng.uniform(-5, 5))
    return np.array([complex(f(), f()) for _ in range(n)], dtype=complex)


def _gc(names, pos=()):
    def g(rng, tier):
        for _ in range(gens.budget(tier, 150, 2000)):
            n = rng.randint(0, 6)
            yield {nm: _cplx(rng, n, nm in pos) for nm in names}
    return g


def _g_cov(rng, tier):
    for _ in range(gens.budget(tier, 150, 2000)):
        n = rng.randint(0, 5)
        yield {"residual_map": gens.reals(rng, (n,), -5, 5, special=False),
               "noise_covariance_matrix_inv": gens.reals(rng, (n, n), -3, 3, special=False)}


for _k, _g in [("chi_squared_map_complex_from", _gc(["residual_map", "noise_map"], pos=["noise_map"])),
               ("chi_squared_complex_from", _gc(["chi_squared_map"])),
               ("noise_normalization_complex_from", _gc(["noise_map"], pos=["noise_map"])),
               ("normalized_residual_map_complex_from", _gc(["residual_map", "noise_map"], pos=["noise_map"])),
               ("chi_squared_with_noise_covariance_from", _g_cov)]:
    CONTRACTS[FU + _k].gen = _g
    CONTRACTS[FU + _k].nontrivial = _nt_len
