"""C01 / C02 / C12 (continued) -- the 1-D geometry and grid kernels, the form-conversion helpers `convert_*_to_slim/native`
and the pixel-centre grid constructors built on `grid_2d_slim_via_mask_from`.

Pixel centres.  1-D (derived from the code, `central_scaled_coordinate_1d_from` = (N-1)/2 - origin/scale and
`grid[k] = (x - centre) * scale`):   x_k = origin + (k - (N-1)/2) * scale  = cx(k, N, scale, origin)  -- the x formula of the
2-D statement (macro `cx` of c02_geometry.py; there is no axis flip in 1-D).  2-D: cy / cx of c02_geometry.py.
"""
import numpy as np
from pyvc.contract import contract, corollary, CONTRACTS, COROLLARIES
from pyvc import gens

import pyvc.calls  # noqa: F401  (loads pyvc/ext/*)
from pyvc.ext import c01b as _ext

_ext.install()          # after every extension module is loaded: np.full(shape, False) of the opted-in contracts below
_before = set(CONTRACTS) | set(COROLLARIES)

G = "autoarray.geometry.geometry_util:"
G1 = "autoarray.structures.grids.grid_1d_util:"
G2 = "autoarray.structures.grids.grid_2d_util:"
A2 = "autoarray.structures.arrays.array_2d_util:"

# ============================================================================= (b) C02: 1-D geometry
S1 = {"N": "shape_slim[0]", "s": "pixel_scales[0]"}

contract(G + "central_pixel_coordinates_1d_from", props=["C02"],
         types={"shape_slim": "(int,)"}, returns="(real,)",
         ensures=["len(result) == 1", "result[0] == (shape_slim[0] - 1) / 2"])

contract(G + "central_scaled_coordinate_1d_from", props=["C02", "C12"],
         types={"shape_slim": "(int,)", "pixel_scales": "(real,)", "origin": "(real,)"}, returns="(real,)",
         let=S1, requires=["s != 0"],
         ensures=["len(result) == 1", "result[0] == (N - 1) / 2 - origin[0] / s"])

contract(G + "scaled_coordinates_1d_from", props=["C02", "C12"],
         types={"pixel_coordinates_1d": "(int,)", "shape_slim": "(int,)", "pixel_scales": "(real,)", "origins": "(real,)"},
         returns="(real,)", let=S1, requires=["s != 0"],
         ensures=["len(result) == 1", "result[0] == cx(pixel_coordinates_1d[0], N, s, origins[0])"],
         sentence={"cx": "1-D: pixel k has centre x = origin + (k - (N-1)/2) * scale"})

contract(G + "pixel_coordinates_1d_from", props=["C02", "C12"],
         types={"scaled_coordinates_1d": "(real,)", "shape_slim": "(int,)", "pixel_scales": "(real,)", "origins": "(real,)"},
         returns="(int,)", let={**S1, "x": "scaled_coordinates_1d[0]"},
         requires=["s > 0", "N >= 1"],
         ensures=["len(result) == 1",
                  # every coordinate inside the extent converts to the index of the pixel whose (open) interval contains it
                  "forall(0, N, lambda j: implies(cx(j, N, s, origins[0]) - s / 2 < x and x < cx(j, N, s, origins[0]) + s / 2,"
                  " result[0] == j))"],
         sentence={"forall": "1-D: every coordinate inside the extent converts to the index of the pixel whose interval contains it"})

_CR = {"shape_slim": "shape_slim", "pixel_scales": "pixel_scales", "origins": "origins"}
_CV = {"j": "int", "shape_slim": "(int,)", "pixel_scales": "(real,)", "origins": "(real,)"}
corollary("C02.centre_roundtrip_1d", props=["C02"], vars=_CV, let=S1, requires=["s > 0", "N >= 1", "0 <= j", "j < N"],
          calls=[("sc", G + "scaled_coordinates_1d_from", {"pixel_coordinates_1d": "(j,)", **_CR}),
                 ("p", G + "pixel_coordinates_1d_from", {"scaled_coordinates_1d": "sc", **_CR})],
          ensures=["p[0] == j"],
          sentence="1-D: converting a pixel centre to an index and back is the identity (pixel -> scaled -> pixel)")

corollary("C02.scaled_roundtrip_1d", props=["C02"], vars=_CV, let=S1, requires=["s > 0", "N >= 1", "0 <= j", "j < N"],
          calls=[("p", G + "pixel_coordinates_1d_from", {"scaled_coordinates_1d": "(cx(j, N, s, origins[0]),)", **_CR}),
                 ("sc", G + "scaled_coordinates_1d_from", {"pixel_coordinates_1d": "p", **_CR})],
          ensures=["p[0] == j", "sc[0] == cx(j, N, s, origins[0])"],
          sentence="1-D: scaled -> pixel -> scaled of a pixel centre is the identity")


def _g_scalar1(rng, tier):
    # small exhaustive part: every N <= 6, every pixel, a few scales / origins, centre and both half-pixel sides
    for N in range(1, gens.budget(tier, 6, 9) + 1):
        for s in (0.5, 1.0, 3.7):
            for o in (0.0, -2.25, 10.0):
                for j in range(N):
                    for f in (0.0, -0.49, 0.49):
                        yield {"N": N, "s": s, "o": o, "j": j, "x": o + (j - (N - 1) / 2) * s + f * s}
    for _ in range(gens.budget(tier, 300, 5000)):
        N = rng.randint(1, 40)
        s = rng.choice([0.5, 1.0, 2.0, 0.1, 3.7, 1.3])
        o = rng.choice([0.0, 1.5, -2.25, 10.0, -0.75, 3.0])
        j = rng.randrange(N)
        yield {"N": N, "s": s, "o": o, "j": j, "x": o + (j - (N - 1) / 2) * s + rng.uniform(-0.49, 0.49) * s}


def _w1(f):
    return lambda rng, tier: (f(d) for d in _g_scalar1(rng, tier))


CONTRACTS[G + "central_pixel_coordinates_1d_from"].gen = _w1(lambda d: {"shape_slim": (d["N"],)})
CONTRACTS[G + "central_scaled_coordinate_1d_from"].gen = _w1(lambda d: {"shape_slim": (d["N"],), "pixel_scales": (d["s"],), "origin": (d["o"],)})
CONTRACTS[G + "scaled_coordinates_1d_from"].gen = _w1(lambda d: {"pixel_coordinates_1d": (d["j"],), "shape_slim": (d["N"],),
                                                                  "pixel_scales": (d["s"],), "origins": (d["o"],)})
CONTRACTS[G + "pixel_coordinates_1d_from"].gen = _w1(lambda d: {"scaled_coordinates_1d": (d["x"],), "shape_slim": (d["N"],),
                                                                 "pixel_scales": (d["s"],), "origins": (d["o"],)})


# ============================================================================= (a) C01 / C02 / C12: 1-D grids
N1 = {"N": "mask_1d.shape[0]"}

contract(G1 + "grid_1d_slim_from", props=["C01"],
         types={"grid_1d_native": "real[1]", "mask_1d": "bool[1]"}, returns="real[1]", let=N1,
         requires=["grid_1d_native.shape[0] == N"],
         ensures=["result.shape[0] == total1(mask_1d)",
                  "forall(0, N, lambda x: implies(not mask_1d[x], result[cnt1(mask_1d, x)] == grid_1d_native[x]))"],
         sentence={"forall": "the slim form of a 1-D grid lists exactly the coordinates of the unmasked pixels in order"})

contract(G1 + "grid_1d_native_from", props=["C01"],
         types={"grid_1d_slim": "real[1]", "mask_1d": "bool[1]"}, returns="real[1]", let=N1,
         requires=["grid_1d_slim.shape[0] == total1(mask_1d)"],
         ensures=["result.shape[0] == N",
                  "forall(0, N, lambda x: result[x] == (0 if mask_1d[x] else grid_1d_slim[cnt1(mask_1d, x)]))"],
         sentence={"forall": "the native form of a 1-D grid holds those coordinates at their pixel positions with every masked position zero"})

_V1 = {"N": "mask_1d.shape[0]", "s": "pixel_scales[0]", "o": "origin[0]"}
_done1 = "forall(0, {hi}, lambda xx: implies(not mask_1d[xx], grid_1d[cnt1(mask_1d, xx)] == cx(xx, N, s, o)))"
contract(G1 + "grid_1d_slim_via_mask_from", props=["C02", "C12", "C01"],
         types={"mask_1d": "bool[1]", "pixel_scales": "(real,)", "origin": "(real,)"}, returns="real[1]", let=_V1,
         requires=["s != 0"],
         ensures=["result.shape[0] == total1(mask_1d)",
                  "forall(0, N, lambda x: implies(not mask_1d[x], result[cnt1(mask_1d, x)] == cx(x, N, s, o)))"],
         loops={0: {"inv": ["index == cnt1(mask_1d, x)", _done1.format(hi="x")],
                    "assert_at": {0: ["(x - centres_scaled[0]) * s == cx(x, N, s, o)"]}}},
         sentence={"forall": "the 1-D grid of a mask lists the pixel centres x = origin + (k - (N-1)/2)*scale of its unmasked pixels in slim order"})

corollary("C01.roundtrip_grid_slim_1d", props=["C01"],
          vars={"S": "real[1]", "M": "bool[1]"}, requires=["S.shape[0] == total1(M)"],
          calls=[("Nv", G1 + "grid_1d_native_from", {"grid_1d_slim": "S", "mask_1d": "M"}),
                 ("S2", G1 + "grid_1d_slim_from", {"grid_1d_native": "Nv", "mask_1d": "M"})],
          ensures=["S2.shape[0] == S.shape[0]",
                   "forall(0, total1(M), lambda k: _RK == k and S2[_RK] == S[_RK])".replace("_RK", "cnt1(M, pix1(M, k))")],
          sentence="1-D grids: converting slim to native and back returns the identical slim values")

corollary("C01.roundtrip_grid_native_1d", props=["C01"],
          vars={"A": "real[1]", "M": "bool[1]"}, let={"N": "M.shape[0]"}, requires=["A.shape[0] == N"],
          calls=[("S", G1 + "grid_1d_slim_from", {"grid_1d_native": "A", "mask_1d": "M"}),
                 ("Nv", G1 + "grid_1d_native_from", {"grid_1d_slim": "S", "mask_1d": "M"})],
          ensures=["Nv.shape[0] == N", "forall(0, N, lambda x: Nv[x] == (0 if M[x] else A[x]))"],
          sentence="1-D grids: converting native to slim and back returns the native values with masked positions zeroed")


def _masks1(rng, tier):
    n = gens.budget(tier, 9, 12)
    for L in range(0, n + 1):
        for bits in range(2 ** L):
            yield np.array([(bits >> i) & 1 == 1 for i in range(L)], dtype=bool)
    for _ in range(gens.budget(tier, 40, 400)):
        L = rng.randint(1, 30)
        q = rng.choice([0.2, 0.5, 0.8])
        yield np.array([rng.random() < q for _ in range(L)], dtype=bool)


def _geom1(rng):
    return (rng.choice([1.0, 0.5, 2.0, 0.1, 3.7]),), (rng.choice([0.0, 0.5, -3.0, 100.0, -0.75]),)


def _g1_slim(rng, tier):
    for m in _masks1(rng, tier):
        yield {"grid_1d_native": gens.reals(rng, m.shape), "mask_1d": m}


def _g1_native(rng, tier):
    for m in _masks1(rng, tier):
        yield {"grid_1d_slim": gens.reals(rng, (int((~m).sum()),)), "mask_1d": m}


def _g1_via_mask(rng, tier):
    for m in _masks1(rng, tier):
        ps, og = _geom1(rng)
        yield {"mask_1d": m, "pixel_scales": ps, "origin": og}


_nt = lambda **kw: any(np.asarray(v).size > 1 and 0 < np.count_nonzero(np.asarray(v)) < np.asarray(v).size
                       for v in kw.values() if isinstance(v, np.ndarray) and v.dtype == bool)
for _k, _g in [(G1 + "grid_1d_slim_from", _g1_slim), (G1 + "grid_1d_native_from", _g1_native),
               (G1 + "grid_1d_slim_via_mask_from", _g1_via_mask)]:
    CONTRACTS[_k].gen = _g
    CONTRACTS[_k].nontrivial = _nt


# ----------------------------------------------------------------------------- pixel-centre grids of a full (unmasked) shape
# The mask is built inside the function by np.full(fill_value=False, shape=...); pyvc/ext/c01b.py reads it as the ghost array
# F = arr1/arr2(shape, lambda: False) of the DSL, so that the rank of a pixel in the all-unmasked mask can be computed by ghost
# lemmas (induction, ordinary obligations):  1-D  cnt1(F, k) == k;   2-D  cnt2(F, y, x) == y * W + x  (row-major).
# 1-D: the lemma is restated with a trigger on a term that occurs in the postcondition (the real-valued pixel number inside cx).
contract(G1 + "grid_1d_slim_via_shape_slim_from", props=["C02", "C12", "C01"],
         types={"shape_slim": "(int,)", "pixel_scales": "(real,)", "origin": "(real,)"}, returns="real[1]",
         let={"N": "shape_slim[0]", "s": "pixel_scales[0]", "o": "origin[0]", "F": "arr1(shape_slim[0], lambda a: False)"},
         requires=["s != 0", "N >= 0"],
         ghost_at={0: [dict(induct="n", lo=0, hi="N", stmt="cnt1(F, n) == n"),
                       # the same fact, triggered on the real-valued pixel number that occurs in cx(k, ..)
                       "forall(0, N + 1, lambda n: cnt1(F, n) == n, pat=toreal(n))"]},
         ensures=["result.shape[0] == N",
                  "forall(0, N, lambda k: result[k] == cx(k, N, s, o), pat=result[k])"],
         sentence={"forall": "the 1-D grid of a shape lists the centres x_k = origin + (k - (N-1)/2)*scale of all N pixels, left to right"})
_ext.ENABLED.add(G1 + "grid_1d_slim_via_shape_slim_from")


def _g1_via_shape(rng, tier):
    for N in range(0, gens.budget(tier, 12, 40) + 1):
        for s in (1.0, 0.5, 3.7):
            for o in (0.0, -3.0, 100.0):
                yield {"shape_slim": (N,), "pixel_scales": (s,), "origin": (o,)}
    for _ in range(gens.budget(tier, 100, 1500)):
        ps, og = _geom1(rng)
        yield {"shape_slim": (rng.randint(0, 60),), "pixel_scales": ps, "origin": og}


CONTRACTS[G1 + "grid_1d_slim_via_shape_slim_from"].gen = _g1_via_shape


# ============================================================================= (a) C02 / C12 / C01: 2-D pixel-centre grids
_V2 = {"H": "mask_2d.shape[0]", "W": "mask_2d.shape[1]", "sy": "pixel_scales[0]", "sx": "pixel_scales[1]",
       "oy": "origin[0]", "ox": "origin[1]"}
contract(G2 + "grid_2d_via_mask_from", props=["C02", "C12", "C01"],
         types={"mask_2d": "bool[2]", "pixel_scales": "(real,real)", "origin": "(real,real)"}, returns="real[3]", let=_V2,
         requires=["sy != 0", "sx != 0"],
         ensures=["result.shape[0] == H", "result.shape[1] == W", "result.shape[2] == 2",
                  "forall(0, H, lambda y: forall(0, W, lambda x:"
                  " result[y, x, 0] == (0 if mask_2d[y, x] else cy(y, H, sy, oy))"
                  " and result[y, x, 1] == (0 if mask_2d[y, x] else cx(x, W, sx, ox))))"],
         sentence={"forall": "the native grid of a mask holds the pixel centre at every unmasked pixel and zero at every masked one"})

_VS = {"H": "shape_native[0]", "W": "shape_native[1]", "sy": "pixel_scales[0]", "sx": "pixel_scales[1]",
       "oy": "origin[0]", "ox": "origin[1]"}
_TS = {"shape_native": "(int,int)", "pixel_scales": "(real,real)", "origin": "(real,real)"}
contract(G2 + "grid_2d_slim_via_shape_native_from", props=["C02", "C12", "C01"], types=_TS, returns="real[2]",
         let={**_VS, "F": "arr2(shape_native[0], shape_native[1], lambda a, b: False)"},
         requires=["sy != 0", "sx != 0", "H >= 0", "W >= 0"],
         ghost_at={0: [dict(induct="n", lo=0, hi="W", stmt="forall(0, H, lambda y: cnt2(F, y, n) == cnt2(F, y, 0) + n, pat=cnt2(F, y, n))"),
                       dict(induct="n", lo=0, hi="H", stmt="cnt2(F, n, 0) == n * W")]},
         ensures=["result.shape[0] == H * W", "result.shape[1] == 2",
                  # entry number y * W + x (row-major) is the centre of pixel (y, x).  The entry number is written as the rank term
                  # cnt2(F, y, x) of pixel (y, x) in the all-unmasked H x W mask F, and the first conjunct states that this rank IS
                  # y * W + x -- so the clause says result[y * W + x] == (cy(y), cx(x)) while every index term the solver has to
                  # match is syntactically the callee's (the direct spelling result[y * W + x, 0] needs an arithmetic-to-array
                  # equality propagation over the non-linear y * W and is seed-dependent: 1 of 10 seeds `unknown`)
                  "forall(0, H, lambda y: forall(0, W, lambda x: cnt2(F, y, x) == y * W + x"
                  " and result[cnt2(F, y, x), 0] == cy(y, H, sy, oy) and result[cnt2(F, y, x), 1] == cx(x, W, sx, ox)))"],
         sentence={"forall": "the slim grid of a shape lists the centres of all H*W pixels in row-major order (entry y*W + x is pixel (y, x))"})
_ext.ENABLED.add(G2 + "grid_2d_slim_via_shape_native_from")

contract(G2 + "grid_2d_via_shape_native_from", props=["C02", "C12", "C01"], types=_TS, returns="real[3]", let=_VS,
         requires=["sy != 0", "sx != 0", "H >= 0", "W >= 0"],
         ensures=["result.shape[0] == H", "result.shape[1] == W", "result.shape[2] == 2",
                  "forall(0, H, lambda y: forall(0, W, lambda x: result[y, x, 0] == cy(y, H, sy, oy) and result[y, x, 1] == cx(x, W, sx, ox)))"],
         sentence={"forall": "the native grid of a shape holds the centre of pixel (y, x) at position (y, x)"})


def _masks2(rng, tier, cells_q=7, cells_t=10, n_q=60, n_t=400):
    for m in gens.all_masks(gens.budget(tier, cells_q, cells_t)):
        yield m
    for _ in range(gens.budget(tier, n_q, n_t)):
        yield gens.random_mask(rng, 7, 7)


def _geom2(rng):
    ps = rng.choice([(1.0, 1.0), (0.5, 2.0), (2.0, 0.25), (0.1, 0.3), (3.0, 3.0)])
    og = rng.choice([(0.0, 0.0), (0.5, -1.0), (-3.0, 2.0), (100.0, -50.0)])
    return ps, og


def _g2_via_mask(rng, tier):
    for m in _masks2(rng, tier):
        ps, og = _geom2(rng)
        yield {"mask_2d": m, "pixel_scales": ps, "origin": og}


def _g2_via_shape(rng, tier):
    n = gens.budget(tier, 5, 8)
    for H in range(0, n + 1):
        for W in range(0, n + 1):
            for ps, og in (((1.0, 1.0), (0.0, 0.0)), ((0.5, 2.0), (0.5, -1.0)), ((2.0, 0.25), (-3.0, 2.0))):
                yield {"shape_native": (H, W), "pixel_scales": ps, "origin": og}
    for _ in range(gens.budget(tier, 60, 1000)):
        ps, og = _geom2(rng)
        yield {"shape_native": (rng.randint(0, 12), rng.randint(0, 12)), "pixel_scales": ps, "origin": og}


CONTRACTS[G2 + "grid_2d_via_mask_from"].gen = _g2_via_mask
CONTRACTS[G2 + "grid_2d_via_mask_from"].nontrivial = _nt
CONTRACTS[G2 + "grid_2d_slim_via_shape_native_from"].gen = _g2_via_shape
CONTRACTS[G2 + "grid_2d_via_shape_native_from"].gen = _g2_via_shape
for _k in ("grid_2d_slim_via_shape_native_from", "grid_2d_via_shape_native_from"):
    CONTRACTS[G2 + _k].nontrivial = lambda shape_native, **kw: shape_native[0] >= 2 and shape_native[1] >= 2 and shape_native[0] != shape_native[1]


# ============================================================================= (a) C01: convert_*_to_slim / convert_*_to_native
# The mask argument is annotated `Mask2D`.  The to_native functions read `mask_2d.shape_native` / `mask_2d.pixels_in_mask`: the
# mask is read as its boolean array plus the two ASSUMED object facts below (`attrs`, re-checked on the real Mask2D object at
# every run-time evaluation), exactly as in c01_convert.py.  One contract variant per input rank.
HW = {"H": "mask_2d.shape[0]", "W": "mask_2d.shape[1]"}
ATTRS = {"mask_2d.pixels_in_mask": "total(mask_2d)", "mask_2d.shape_native": "(mask_2d.shape[0], mask_2d.shape[1])"}


def _wrap(kw):
    import autoarray as aa
    kw["mask_2d"] = aa.Mask2D(mask=kw["mask_2d"].copy(), pixel_scales=(1.0, 1.0))
    return kw


def _wrap_opt(kw):
    """to_slim never reads an attribute of the mask: exercised with a Mask2D object and (marker `plain_mask`) with the bare ndarray"""
    if kw.pop("plain_mask", False):
        return kw
    return _wrap(kw)


_AT = {"mask_2d": "bool[2]"}
_SLIM_OF_NATIVE = ("forall(0, H, lambda y: forall(0, W, lambda x: implies(not mask_2d[y, x],"
                   " result[cnt2(mask_2d, y, x)] == array_2d[y, x])))")
contract(A2 + "convert_array_2d_to_slim#slim", props=["C01"], rt_wrap=_wrap_opt, result_alias="array_2d",
         types={"array_2d": "real[1]", **_AT}, returns="real[1]",
         ensures=["result.shape[0] == array_2d.shape[0]", "forall(0, array_2d.shape[0], lambda k: result[k] == array_2d[k])"],
         note="a slim input is returned as is (alias of the argument, contents untouched: frame:array_2d); its length is not checked")
contract(A2 + "convert_array_2d_to_slim#native", props=["C01"], rt_wrap=_wrap_opt, let=HW,
         types={"array_2d": "real[2]", **_AT}, returns="real[1]",
         requires=["array_2d.shape[0] == H", "array_2d.shape[1] == W"],
         ensures=["result.shape[0] == total(mask_2d)", _SLIM_OF_NATIVE],
         sentence={"forall": "the slim form lists exactly the values of the unmasked pixels in row-major order"})

contract(A2 + "convert_array_2d_to_native#native", props=["C01"], attrs=ATTRS, rt_wrap=_wrap, let=HW,
         types={"array_2d": "real[2]", **_AT}, returns="real[2]",
         requires=["array_2d.shape[0] == H", "array_2d.shape[1] == W"],
         ensures=["result.shape[0] == H", "result.shape[1] == W",
                  "forall(0, H, lambda y: forall(0, W, lambda x: result[y, x] == (0 if mask_2d[y, x] else array_2d[y, x])))"],
         sentence={"forall": "the native form holds the values at their positions with every masked position equal to zero"},
         note="for an array of the mask's shape the ArrayException branch is proved unreachable; other shapes: variant #native_wrong_shape")
_BC = "(array_2d.shape[{d}] == {m} or array_2d.shape[{d}] == 1 or {m} == 1)"
_BCAST = _BC.format(d=0, m="H") + " and " + _BC.format(d=1, m="W")
contract(A2 + "convert_array_2d_to_native#native_wrong_shape", props=["C01"], attrs=ATTRS, rt_wrap=_wrap, let=HW, mode="bounded",
         types={"array_2d": "real[2]", **_AT}, returns="real[2]",
         requires=["not (array_2d.shape[0] == H and array_2d.shape[1] == W)"],
         raises={"ArrayException": _BCAST, "ValueError": "not (" + _BCAST + ")"},
         note="bounded: the function multiplies `array_2d * np.invert(mask_2d)` BEFORE it compares the shapes, so an input of another "
              "shape goes through numpy broadcasting between arrays of unequal shapes (outside the engine-A subset: arr_binop requires "
              "equal shapes, obligation shape-eq).  Observed and specified: ArrayException when the shapes are broadcast-compatible, "
              "numpy's own ValueError when they are not; the function never returns a value for such input")
contract(A2 + "convert_array_2d_to_native#slim", props=["C01"], attrs=ATTRS, rt_wrap=_wrap, let=HW,
         types={"array_2d": "real[1]", **_AT}, returns="real[2]",
         raises={"ArrayException": "array_2d.shape[0] != total(mask_2d)"},
         ensures=["result.shape[0] == H", "result.shape[1] == W",
                  "forall(0, H, lambda y: forall(0, W, lambda x: result[y, x] == (0 if mask_2d[y, x] else array_2d[cnt2(mask_2d, y, x)])))"],
         sentence={"forall": "the native form holds the slim values at their pixel positions with every masked position zero"})

contract(G2 + "convert_grid_2d_to_slim#slim", props=["C01"], rt_wrap=_wrap_opt, result_alias="grid_2d",
         types={"grid_2d": "real[2]", **_AT}, returns="real[2]",
         ensures=["result.shape[0] == grid_2d.shape[0]", "result.shape[1] == grid_2d.shape[1]",
                  "forall(0, grid_2d.shape[0], lambda k: forall(0, grid_2d.shape[1], lambda d: result[k, d] == grid_2d[k, d]))"],
         note="a slim grid is returned as is (alias of the argument, contents untouched); its shape is not checked")
contract(G2 + "convert_grid_2d_to_slim#native", props=["C01"], rt_wrap=_wrap_opt, let=HW,
         types={"grid_2d": "real[3]", **_AT}, returns="real[2]",
         requires=["grid_2d.shape[0] == H", "grid_2d.shape[1] == W", "grid_2d.shape[2] == 2"],
         ensures=["result.shape[0] == total(mask_2d)", "result.shape[1] == 2",
                  "forall(0, H, lambda y: forall(0, W, lambda x: implies(not mask_2d[y, x],"
                  " result[cnt2(mask_2d, y, x), 0] == grid_2d[y, x, 0] and result[cnt2(mask_2d, y, x), 1] == grid_2d[y, x, 1])))"],
         sentence={"forall": "the slim form of a (y,x) grid lists exactly the coordinates of the unmasked pixels in row-major order"})
contract(G2 + "convert_grid_2d_to_native#native", props=["C01"], rt_wrap=_wrap_opt, result_alias="grid_2d",
         types={"grid_2d": "real[3]", **_AT}, returns="real[3]",
         ensures=["result.shape[0] == grid_2d.shape[0]", "result.shape[1] == grid_2d.shape[1]", "result.shape[2] == grid_2d.shape[2]",
                  "forall(0, grid_2d.shape[0], lambda y: forall(0, grid_2d.shape[1], lambda x: forall(0, grid_2d.shape[2], lambda d:"
                  " result[y, x, d] == grid_2d[y, x, d])))"],
         note="a native grid is returned as is (alias of the argument; masked positions are NOT zeroed here, unlike convert_grid_2d)")
contract(G2 + "convert_grid_2d_to_native#slim", props=["C01"], rt_wrap=_wrap_opt, let=HW,
         types={"grid_2d": "real[2]", **_AT}, returns="real[3]",
         requires=["grid_2d.shape[0] == total(mask_2d)", "grid_2d.shape[1] == 2"],
         ensures=["result.shape[0] == H", "result.shape[1] == W", "result.shape[2] == 2",
                  "forall(0, H, lambda y: forall(0, W, lambda x: forall(0, 2, lambda d:"
                  " result[y, x, d] == (0 if mask_2d[y, x] else grid_2d[cnt2(mask_2d, y, x), d]))))"],
         sentence={"forall": "the native form of a (y,x) grid holds the slim coordinates at their pixel positions with every masked position zero"})


def _gc(param, shape_of, bad_of=None, p_bad=0.0, plain=True):
    """shape_of(m, n): the right input shape for mask m with n unmasked pixels; bad_of(rng, m, n): a wrong one"""
    def g(rng, tier):
        for m in _masks2(rng, tier):
            n = int((~m).sum())
            shp = shape_of(m, n)
            if bad_of is not None and rng.random() < p_bad:
                shp = bad_of(rng, m, n)
            kw = {param: gens.reals(rng, shp), "mask_2d": m}
            if plain and rng.random() < 0.3:
                kw["plain_mask"] = True
            yield kw
    return g


def _bad2(rng, m, n):
    H, W = m.shape
    return rng.choice([(H + 1, W), (H, W + 1), (1, W), (H, 1), (1, 1), (W, H), (H + 2, W + 3), (2 * H, W), (H, 0), (0, W)])


_A = lambda k: CONTRACTS[A2 + k]
_Gc = lambda k: CONTRACTS[G2 + k]
_A("convert_array_2d_to_slim#slim").gen = _gc("array_2d", lambda m, n: (n,), lambda rng, m, n: (n + rng.randint(1, 3),), 0.2)
_A("convert_array_2d_to_slim#native").gen = _gc("array_2d", lambda m, n: m.shape)
_A("convert_array_2d_to_native#native").gen = _gc("array_2d", lambda m, n: m.shape, plain=False)
_A("convert_array_2d_to_native#native_wrong_shape").gen = _gc("array_2d", lambda m, n: m.shape, _bad2, 1.0, plain=False)
_A("convert_array_2d_to_native#slim").gen = _gc("array_2d", lambda m, n: (n,), lambda rng, m, n: (max(0, n + rng.choice([-1, 1, 2])),), 0.15, plain=False)
_Gc("convert_grid_2d_to_slim#slim").gen = _gc("grid_2d", lambda m, n: (n, 2), lambda rng, m, n: (n + 1, 2), 0.2)
_Gc("convert_grid_2d_to_slim#native").gen = _gc("grid_2d", lambda m, n: m.shape + (2,))
_Gc("convert_grid_2d_to_native#native").gen = _gc("grid_2d", lambda m, n: m.shape + (2,), lambda rng, m, n: (m.shape[0] + 1, m.shape[1], 2), 0.2)
_Gc("convert_grid_2d_to_native#slim").gen = _gc("grid_2d", lambda m, n: (n, 2))
for _k in [k for k in CONTRACTS if k.startswith((A2 + "convert_array_2d_to_", G2 + "convert_grid_2d_to_"))]:
    CONTRACTS[_k].nontrivial = lambda **kw: _nt(**{k: v for k, v in kw.items() if k != "plain_mask"})


# round trips through the conversion helpers (corollaries over the contracts above)
corollary("C01.convert_array_roundtrip_slim", props=["C01"],
          vars={"S": "real[1]", "M": "bool[2]"}, requires=["S.shape[0] == total(M)"],
          calls=[("Nv", A2 + "convert_array_2d_to_native#slim", {"array_2d": "S", "mask_2d": "M"}),
                 ("S2", A2 + "convert_array_2d_to_slim#native", {"array_2d": "Nv", "mask_2d": "M"})],
          ensures=["S2.shape[0] == S.shape[0]",
                   "forall(0, total(M), lambda k: _RK == k and S2[_RK] == S[_RK])".replace("_RK", "cnt2(M, pixy(M, k), pixx(M, k))")],
          sentence="convert_array_2d_to_native then convert_array_2d_to_slim returns the identical slim values")

corollary("C01.convert_array_roundtrip_native", props=["C01"],
          vars={"A": "real[2]", "M": "bool[2]"}, let={"H": "M.shape[0]", "W": "M.shape[1]"}, requires=["A.shape[0] == H", "A.shape[1] == W"],
          calls=[("S", A2 + "convert_array_2d_to_slim#native", {"array_2d": "A", "mask_2d": "M"}),
                 ("Nv", A2 + "convert_array_2d_to_native#slim", {"array_2d": "S", "mask_2d": "M"}),
                 ("Nd", A2 + "convert_array_2d_to_native#native", {"array_2d": "A", "mask_2d": "M"})],
          ensures=["forall(0, H, lambda y: forall(0, W, lambda x: Nv[y, x] == (0 if M[y, x] else A[y, x]) and Nv[y, x] == Nd[y, x]))"],
          sentence="native -> slim -> native returns the native values with masked positions zeroed -- the same array the direct native conversion gives")

corollary("C01.convert_grid_roundtrip_slim", props=["C01"],
          vars={"S": "real[2]", "M": "bool[2]"}, requires=["S.shape[0] == total(M)", "S.shape[1] == 2"],
          calls=[("Nv", G2 + "convert_grid_2d_to_native#slim", {"grid_2d": "S", "mask_2d": "M"}),
                 ("S2", G2 + "convert_grid_2d_to_slim#native", {"grid_2d": "Nv", "mask_2d": "M"})],
          ensures=["S2.shape[0] == S.shape[0] and S2.shape[1] == 2",
                   "forall(0, total(M), lambda k: _RK == k and S2[_RK, 0] == S[_RK, 0] and S2[_RK, 1] == S[_RK, 1])"
                   .replace("_RK", "cnt2(M, pixy(M, k), pixx(M, k))")],
          sentence="convert_grid_2d_to_native then convert_grid_2d_to_slim returns the identical slim (y,x) values")


# ============================================================================= (b) C02: input-form normalisation (type dispatch)
# `type(x) is int` / `type(x) is float` is decided by the declared parameter type (engine: builtin.type): one variant per
# input form.  An int is NOT a float for `type(..) is float`: an integer pixel scale is returned unchanged (variant #int).
def _conv(fn, variants):
    for v, ty, ret, ens, gen in variants:
        p = {"convert_shape_native_1d": "shape_native"}.get(fn, "pixel_scales")
        contract(G + fn + "#" + v, props=["C02"], types={p: ty}, returns=ret, ensures=[e.replace("P", p) for e in ens])
        CONTRACTS[G + fn + "#" + v].gen = (lambda p, gen: lambda rng, tier: ({p: x} for x in gen(rng, tier)))(p, gen)


_ints = lambda rng, tier: list(range(0, 12)) + [rng.randint(0, 10 ** 6) for _ in range(gens.budget(tier, 50, 500))]
_flts = lambda rng, tier: [0.05, 0.1, 0.5, 1.0, 2.0, 3.7] + [rng.uniform(1e-3, 50.0) for _ in range(gens.budget(tier, 50, 500))]
_conv("convert_shape_native_1d", [
    ("int", "int", "(int,)", ["len(result) == 1", "result[0] == P"], _ints),
    ("tuple", "(int,)", "(int,)", ["len(result) == 1", "result[0] == P[0]"], lambda rng, tier: [(n,) for n in _ints(rng, tier)])])
_conv("convert_pixel_scales_1d", [
    ("float", "real", "(real,)", ["len(result) == 1", "result[0] == P"], _flts),
    ("tuple", "(real,)", "(real,)", ["len(result) == 1", "result[0] == P[0]"], lambda rng, tier: [(x,) for x in _flts(rng, tier)]),
    ("int", "int", "int", ["result == P"], _ints)])
_conv("convert_pixel_scales_2d", [
    ("float", "real", "(real,real)", ["len(result) == 2", "result[0] == P", "result[1] == P"], _flts),
    ("tuple", "(real,real)", "(real,real)", ["len(result) == 2", "result[0] == P[0]", "result[1] == P[1]"],
     lambda rng, tier: [(x, y) for x in _flts(rng, tier)[:12] for y in _flts(rng, tier)[:12]]),
    ("int", "int", "int", ["result == P"], _ints)])


# ============================================================================= C12: covariance of the new kernels under translation of the origin
# (corollaries over the contracts above only, in the style of c12_translation.py: the same call at origin o and at origin o + d)
_O1 = {"o": "(real,)", "d": "(real,)"}
_O1b = "(o[0] + d[0],)"
_O2 = {"o": "(real,real)", "d": "(real,real)"}
_O2b = "(o[0] + d[0], o[1] + d[1])"


def _two(key, args, origin_param, o2):
    return [("r1", key, {**args, origin_param: "o"}), ("r2", key, {**args, origin_param: o2})]


corollary("C12.cov.central_scaled_coordinate_1d_from", props=["C12"],
          vars={"shape_slim": "(int,)", "ps": "(real,)", **_O1}, requires=["ps[0] != 0"],
          calls=_two(G + "central_scaled_coordinate_1d_from", {"shape_slim": "shape_slim", "pixel_scales": "ps"}, "origin", _O1b),
          ensures=["r2[0] == r1[0] - d[0] / ps[0]"],
          sentence="1-D: the central scaled coordinate moves by exactly d (in pixel units) when the origin is translated by d")

corollary("C12.cov.scaled_coordinates_1d_from", props=["C12"],
          vars={"p": "(int,)", "shape_slim": "(int,)", "ps": "(real,)", **_O1}, requires=["ps[0] != 0"],
          calls=_two(G + "scaled_coordinates_1d_from", {"pixel_coordinates_1d": "p", "shape_slim": "shape_slim", "pixel_scales": "ps"}, "origins", _O1b),
          ensures=["r2[0] == r1[0] + d[0]"],
          sentence="1-D: translating the origin by d translates the scaled coordinate of every pixel by exactly d")

_CX1 = "(o[0] + (j - (N - 1) / 2) * s)"
corollary("C12.inv.pixel_coordinates_1d_from", props=["C12"],
          vars={"q": "(real,)", "j": "int", "shape_slim": "(int,)", "ps": "(real,)", **_O1}, let={"N": "shape_slim[0]", "s": "ps[0]"},
          requires=["s > 0", "N >= 1", "0 <= j", "j < N", _CX1 + " - s / 2 < q[0]", "q[0] < " + _CX1 + " + s / 2"],
          calls=[("r1", G + "pixel_coordinates_1d_from", {"scaled_coordinates_1d": "q", "shape_slim": "shape_slim", "pixel_scales": "ps", "origins": "o"}),
                 ("r2", G + "pixel_coordinates_1d_from", {"scaled_coordinates_1d": "(q[0] + d[0],)", "shape_slim": "shape_slim",
                                                          "pixel_scales": "ps", "origins": _O1b})],
          ensures=["r2[0] == r1[0]", "r1[0] == j"],
          sentence="1-D: the pixel index of a correspondingly translated point is unchanged (points inside a pixel interval of the extent)")

corollary("C12.cov.grid_1d_slim_via_mask_from", props=["C12"],
          vars={"M": "bool[1]", "ps": "(real,)", **_O1}, let={"N": "M.shape[0]"}, requires=["ps[0] != 0"],
          calls=_two(G1 + "grid_1d_slim_via_mask_from", {"mask_1d": "M", "pixel_scales": "ps"}, "origin", _O1b),
          ensures=["r2.shape[0] == r1.shape[0] and r1.shape[0] == total1(M)",
                   "forall(0, N, lambda x: implies(not M[x], r2[cnt1(M, x)] == r1[cnt1(M, x)] + d[0]))",
                   # every slim entry k is the rank of its own pixel (lemma pix1.surj): this IS the statement about entry k
                   "forall(0, total1(M), lambda k: _RK == k and r2[_RK] == r1[_RK] + d[0])".replace("_RK", "cnt1(M, pix1(M, k))")],
          sentence="1-D: translating the origin of a mask by d translates every pixel centre of its grid by exactly d")

corollary("C12.cov.grid_1d_slim_via_shape_slim_from", props=["C12"],
          vars={"shape_slim": "(int,)", "ps": "(real,)", **_O1}, let={"N": "shape_slim[0]"}, requires=["ps[0] != 0", "N >= 0"],
          calls=_two(G1 + "grid_1d_slim_via_shape_slim_from", {"shape_slim": "shape_slim", "pixel_scales": "ps"}, "origin", _O1b),
          ensures=["r2.shape[0] == r1.shape[0] and r1.shape[0] == N", "forall(0, N, lambda k: r2[k] == r1[k] + d[0])"],
          sentence="1-D: translating the origin by d translates every pixel centre of the grid of a shape by exactly d")

corollary("C12.cov.grid_2d_via_mask_from", props=["C12"],
          vars={"M": "bool[2]", "ps": "(real,real)", **_O2}, let={"H": "M.shape[0]", "W": "M.shape[1]"},
          requires=["ps[0] != 0", "ps[1] != 0"],
          calls=_two(G2 + "grid_2d_via_mask_from", {"mask_2d": "M", "pixel_scales": "ps"}, "origin", _O2b),
          ensures=["forall(0, H, lambda y: forall(0, W, lambda x: implies(not M[y, x],"
                   " r2[y, x, 0] == r1[y, x, 0] + d[0] and r2[y, x, 1] == r1[y, x, 1] + d[1])))",
                   # masked positions hold the fill value zero, not a coordinate: they do not move
                   "forall(0, H, lambda y: forall(0, W, lambda x: implies(M[y, x],"
                   " r2[y, x, 0] == 0 and r1[y, x, 0] == 0 and r2[y, x, 1] == 0 and r1[y, x, 1] == 0)))"],
          sentence="translating the origin of a mask by d translates the pixel centre stored at every unmasked position of its native grid by exactly d")

_SHP = {"shape_native": "(int,int)", "ps": "(real,real)"}
_SL = {"H": "shape_native[0]", "W": "shape_native[1]"}
corollary("C12.cov.grid_2d_slim_via_shape_native_from", props=["C12"],
          vars={**_SHP, **_O2}, let={**_SL, "F": "arr2(shape_native[0], shape_native[1], lambda a, b: False)"},
          requires=["ps[0] != 0", "ps[1] != 0", "H >= 0", "W >= 0"],
          calls=_two(G2 + "grid_2d_slim_via_shape_native_from", {"shape_native": "shape_native", "pixel_scales": "ps"}, "origin", _O2b),
          ensures=["r2.shape[0] == r1.shape[0] and r1.shape[0] == H * W",
                   "forall(0, H, lambda y: forall(0, W, lambda x: cnt2(F, y, x) == y * W + x"
                   " and r2[cnt2(F, y, x), 0] == r1[cnt2(F, y, x), 0] + d[0] and r2[cnt2(F, y, x), 1] == r1[cnt2(F, y, x), 1] + d[1]))"],
          sentence="translating the origin by d translates every pixel centre of the slim grid of a shape by exactly d")

corollary("C12.cov.grid_2d_via_shape_native_from", props=["C12"],
          vars={**_SHP, **_O2}, let=_SL, requires=["ps[0] != 0", "ps[1] != 0", "H >= 0", "W >= 0"],
          calls=_two(G2 + "grid_2d_via_shape_native_from", {"shape_native": "shape_native", "pixel_scales": "ps"}, "origin", _O2b),
          ensures=["forall(0, H, lambda y: forall(0, W, lambda x: r2[y, x, 0] == r1[y, x, 0] + d[0] and r2[y, x, 1] == r1[y, x, 1] + d[1]))"],
          sentence="translating the origin by d translates every pixel centre of the native grid of a shape by exactly d")


_MINE = [k for k in list(CONTRACTS) + list(COROLLARIES) if k not in _before]


CONTRACTS[G + "scaled_coordinates_1d_from"].unsigned_twin = ("pixel_coordinates_1d",)
# rounding the query point puts it ON a pixel boundary, where the statement says nothing and floating point decides
CONTRACTS[G + "pixel_coordinates_1d_from"].no_int_twin_params = ("scaled_coordinates_1d",)
