"""C01 -- slim and native forms are exact, order-preserving inverses under any mask."""
from pyvc.contract import contract

M2 = "autoarray.mask.mask_2d_util:"
A2 = "autoarray.structures.arrays.array_2d_util:"

HW = {"H": "mask_2d.shape[0]", "W": "mask_2d.shape[1]"}

contract(
    M2 + "total_pixels_2d_from", props=["C01", "C10", "C09"],
    types={"mask_2d": "bool[2]"}, returns="int", let=HW,
    ensures=["result == total(mask_2d)"],
    loops={0: {"inv": ["total_regular_pixels == cnt2(mask_2d, y, 0)"]},
           1: {"inv": ["total_regular_pixels == cnt2(mask_2d, y, x)"]}},
    sentence={"result == total(mask_2d)": "the number of slim entries is the number of unmasked pixels"},
)

contract(
    A2 + "array_2d_slim_from", props=["C01"],
    types={"array_2d_native": "real[2]", "mask_2d": "bool[2]"}, returns="real[1]", let=HW,
    requires=["array_2d_native.shape[0] == H", "array_2d_native.shape[1] == W"],
    ensures=[
        "result.shape[0] == total(mask_2d)",
        "forall(0, H, lambda y: forall(0, W, lambda x: implies(not mask_2d[y, x],"
        " result[cnt2(mask_2d, y, x)] == array_2d_native[y, x])))",
    ],
    loops={
        0: {"inv": ["index == cnt2(mask_2d, y, 0)",
                    "forall(0, y, lambda yy: forall(0, W, lambda xx: implies(not mask_2d[yy, xx],"
                    " array_2d_slim[cnt2(mask_2d, yy, xx)] == array_2d_native[yy, xx])))"]},
        1: {"inv": ["index == cnt2(mask_2d, y, x)",
                    "forall(0, y, lambda yy: forall(0, W, lambda xx: implies(not mask_2d[yy, xx],"
                    " array_2d_slim[cnt2(mask_2d, yy, xx)] == array_2d_native[yy, xx])))",
                    "forall(0, x, lambda xx: implies(not mask_2d[y, xx],"
                    " array_2d_slim[cnt2(mask_2d, y, xx)] == array_2d_native[y, xx]))"]},
    },
    sentence={"forall": "the slim form lists exactly the values of the unmasked pixels in row-major order"},
)

NFS_ENS = [
    "result.shape[0] == total(mask_2d)", "result.shape[1] == 2",
    # slim index k denotes the k-th unmasked pixel in row-major order
    "forall(0, total(mask_2d), lambda k: result[k, 0] == pixy(mask_2d, k) and result[k, 1] == pixx(mask_2d, k))",
    "forall(0, H, lambda y: forall(0, W, lambda x: implies(not mask_2d[y, x],"
    " result[cnt2(mask_2d, y, x), 0] == y and result[cnt2(mask_2d, y, x), 1] == x)))",
]

_done = ("forall(0, slim_index, lambda k: native_index_for_slim_index_2d[k, 0] == pixy(mask_2d, k)"
         " and native_index_for_slim_index_2d[k, 1] == pixx(mask_2d, k))")
contract(
    M2 + "native_index_for_slim_index_2d_from", props=["C01", "C10", "C18"],
    types={"mask_2d": "bool[2]"}, returns="real[2]", let=HW,
    ensures=NFS_ENS,
    loops={
        0: {"inv": ["slim_index == cnt2(mask_2d, y, 0)", _done]},
        1: {"inv": ["slim_index == cnt2(mask_2d, y, x)", _done]},
    },
    sentence={"forall": "slim index k denotes the k-th unmasked pixel in row-major order (bijection)"},
)

contract(
    A2 + "array_2d_via_indexes_from", props=["C01"],
    types={"array_2d_slim": "real[1]", "shape": "(int,int)", "native_index_for_slim_index_2d": "int[2]"},
    returns="real[2]",
    let={"N": "native_index_for_slim_index_2d.shape[0]", "T": "native_index_for_slim_index_2d"},
    requires=[
        "shape[0] >= 0", "shape[1] >= 0", "T.shape[1] == 2", "array_2d_slim.shape[0] >= N",
        "forall(0, N, lambda k: 0 <= T[k, 0] and T[k, 0] < shape[0] and 0 <= T[k, 1] and T[k, 1] < shape[1])",
        "forall(0, N, lambda k1: forall(0, N, lambda k2: implies(T[k1, 0] == T[k2, 0] and T[k1, 1] == T[k2, 1], k1 == k2)))",
    ],
    ensures=[
        "result.shape[0] == shape[0]", "result.shape[1] == shape[1]",
        "forall(0, N, lambda k: result[T[k, 0], T[k, 1]] == array_2d_slim[k])",
        "forall(0, shape[0], lambda y: forall(0, shape[1], lambda x:"
        " implies(forall(0, N, lambda k: not (T[k, 0] == y and T[k, 1] == x)), result[y, x] == 0)))",
    ],
    loops={0: {"inv": [
        "forall(0, slim_index, lambda k: array_native_2d[T[k, 0], T[k, 1]] == array_2d_slim[k])",
        "forall(0, shape[0], lambda y: forall(0, shape[1], lambda x:"
        " implies(forall(0, slim_index, lambda k: not (T[k, 0] == y and T[k, 1] == x)), array_native_2d[y, x] == 0)))",
    ]}},
)

contract(
    A2 + "array_2d_native_from", props=["C01"],
    types={"array_2d_slim": "real[1]", "mask_2d": "bool[2]"}, returns="real[2]", let=HW,
    requires=["array_2d_slim.shape[0] == total(mask_2d)"],
    ensures=[
        "result.shape[0] == H", "result.shape[1] == W",
        # native form holds the slim values at their pixel positions, masked positions are zero
        "forall(0, H, lambda y: forall(0, W, lambda x:"
        " result[y, x] == (0 if mask_2d[y, x] else array_2d_slim[cnt2(mask_2d, y, x)])))",
    ],
    sentence={"forall": "the native form holds those same values at their original positions with every masked position zero"},
)

contract(
    M2 + "mask_slim_indexes_from", props=["C01"],
    types={"mask_2d": "bool[2]", "return_masked_indexes": "bool"}, returns="real[1]",
    let={**HW, "f": "return_masked_indexes"},
    ensures=[
        "result.shape[0] == cntf(mask_2d, f, H, 0)",
        "forall(0, H, lambda y: forall(0, W, lambda x: implies(mask_2d[y, x] == f,"
        " result[cntf(mask_2d, f, y, x)] == y * W + x)))",
    ],
    loops={
        0: {"inv": ["mask_pixel_total == cntf(mask_2d, f, y, 0)"]},
        1: {"inv": ["mask_pixel_total == cntf(mask_2d, f, y, x)"]},
        2: {"inv": ["mask_index == cntf(mask_2d, f, y, 0)", "regular_index == y * W",
                    "forall(0, y, lambda yy: forall(0, W, lambda xx: implies(mask_2d[yy, xx] == f,"
                    " mask_pixels[cntf(mask_2d, f, yy, xx)] == yy * W + xx)))"]},
        3: {"inv": ["mask_index == cntf(mask_2d, f, y, x)", "regular_index == y * W + x",
                    "forall(0, y, lambda yy: forall(0, W, lambda xx: implies(mask_2d[yy, xx] == f,"
                    " mask_pixels[cntf(mask_2d, f, yy, xx)] == yy * W + xx)))",
                    "forall(0, x, lambda xx: implies(mask_2d[y, xx] == f,"
                    " mask_pixels[cntf(mask_2d, f, y, xx)] == y * W + xx))"]},
    },
    sentence={"forall": "the unmasked and masked index lists hold the flattened indices of their pixels in row-major order"},
)


# ----------------------------------------------------------------------------- engine C generators
import numpy as np
from pyvc import gens
from pyvc.contract import CONTRACTS


def _masks(rng, tier, max_cells_q=9, max_cells_t=12, n_random_q=40, n_random_t=400, min_unmasked=0):
    for m in gens.all_masks(gens.budget(tier, max_cells_q, max_cells_t), min_unmasked=min_unmasked):
        yield m
    for _ in range(gens.budget(tier, n_random_q, n_random_t)):
        yield gens.random_mask(rng, 7, 7, min_unmasked=min_unmasked)


def _g_mask(rng, tier):
    for m in _masks(rng, tier):
        yield {"mask_2d": m}


def _g_slim(rng, tier):
    for m in _masks(rng, tier, 8, 10, 40, 300):
        yield {"array_2d_native": gens.reals(rng, m.shape), "mask_2d": m}


def _g_native(rng, tier):
    for m in _masks(rng, tier, 8, 10, 40, 300):
        yield {"array_2d_slim": gens.reals(rng, (int((~m).sum()),)), "mask_2d": m}


def _g_idx(rng, tier):
    for m in _masks(rng, tier, 8, 10, 40, 300):
        t = np.argwhere(~m).astype(int).reshape(-1, 2)
        yield {"array_2d_slim": gens.reals(rng, (t.shape[0],)), "shape": tuple(int(s) for s in m.shape),
               "native_index_for_slim_index_2d": t}


def _g_flag(rng, tier):
    for m in _masks(rng, tier, 8, 10, 30, 300):
        for f in (True, False):
            yield {"mask_2d": m, "return_masked_indexes": f}


_nt = lambda **kw: any(np.asarray(v).size > 1 and 0 < np.count_nonzero(np.asarray(v)) < np.asarray(v).size
                       for v in kw.values() if isinstance(v, np.ndarray) and v.dtype == bool)
for _k, _g in [(M2 + "total_pixels_2d_from", _g_mask), (M2 + "native_index_for_slim_index_2d_from", _g_mask),
               (A2 + "array_2d_slim_from", _g_slim), (A2 + "array_2d_native_from", _g_native),
               (A2 + "array_2d_via_indexes_from", _g_idx), (M2 + "mask_slim_indexes_from", _g_flag)]:
    CONTRACTS[_k].gen = _g
    CONTRACTS[_k].nontrivial = _nt
