"""Escalation generators (engine C): inputs one to two orders of magnitude beyond the quick domain along every size
dimension (rows, columns, unmasked pixels, points, kernel entries, sub sizes, matrix rows).

They are used ONLY when engine A could not decide a function (stale contract, construct outside the subset, solver
`unknown`): the typical cause is a restructured body such as an "optimised path for large arrays", which small-input
testing cannot reach.  On the unchanged tree every proof goes through and these generators never run."""
import numpy as np
from pyvc.contract import CONTRACTS
from pyvc import gens

M2 = "autoarray.mask.mask_2d_util:"
A2 = "autoarray.structures.arrays.array_2d_util:"
G = "autoarray.geometry.geometry_util:"
G2 = "autoarray.structures.grids.grid_2d_util:"
CV = "autoarray.operators.convolver:Convolver."
IU = "autoarray.inversion.inversion.imaging.inversion_imaging_util:"
VU = "autoarray.inversion.inversion.inversion_util:"
OS = "autoarray.operators.over_sampling.over_sample_util:"

SHAPES = [(65, 3), (3, 65), (300, 17), (17, 300), (25, 41), (41, 25), (70, 70), (33, 32), (130, 9), (4097, 1)]
# shapes that cross 2^16 cells / unmasked pixels (thresholds such as "more than 65536 pixels", 16-bit index tables): only for
# contracts whose run-time clauses are linear in the pixel count (a quadratic clause does not finish inside the escalation cap)
SHAPES_XL = [(260, 260), (2, 70001)]


def big_masks(rng, n=10, ring=0, xl=False):
    shapes = SHAPES + (SHAPES_XL if xl else [])
    for i in range(n + (len(SHAPES_XL) if xl else 0)):
        H, W = shapes[i % len(shapes)]
        p = [0.1, 0.5, 0.9, 0.0][i % 4]
        m = np.array(np.random.default_rng(rng.randrange(2 ** 32)).random((H, W)) < p)
        m[-1, -1] = False            # something unmasked in the last row / column (tails of blocked loops)
        if ring:
            m[:ring, :] = True; m[-ring:, :] = True; m[:, :ring] = True; m[:, -ring:] = True
        yield m


def _set(key, g):
    if key in CONTRACTS:
        CONTRACTS[key].gen_large = g


for _k in ("total_pixels_2d_from", "native_index_for_slim_index_2d_from", "total_edge_pixels_from", "edge_1d_indexes_from",
           "border_slim_indexes_from"):
    _set(M2 + _k, lambda rng, tier: ({"mask_2d": m} for m in big_masks(rng, 10)))
_set(M2 + "mask_slim_indexes_from", lambda rng, tier: ({"mask_2d": m, "return_masked_indexes": bool(i % 2)} for i, m in enumerate(big_masks(rng))))
_set(A2 + "array_2d_slim_from", lambda rng, tier: ({"array_2d_native": gens.reals(rng, m.shape, special=False), "mask_2d": m} for m in big_masks(rng, xl=True)))
_set(A2 + "array_2d_native_from", lambda rng, tier: ({"array_2d_slim": gens.reals(rng, (int((~m).sum()),), special=False), "mask_2d": m}
                                                       for m in big_masks(rng, xl=True)))
_set(M2 + "blurring_mask_2d_from", lambda rng, tier: ({"mask_2d": m, "kernel_shape_native": k}
                                                        for m in big_masks(rng, 8, ring=6) for k in [(3, 3), (13, 11)]))
_set(A2 + "resized_array_2d_from", lambda rng, tier: ({"array_2d": gens.reals(rng, s, special=False), "resized_shape": t, "origin": (-1, -1), "pad_value": 0.0}
                                                        for s in [(65, 3), (130, 9), (70, 70)] for t in [(67, 5), (64, 2), (131, 131), (1, 1)]))
_set(A2 + "extracted_array_2d_from", lambda rng, tier: ({"array_2d": gens.reals(rng, s, special=False), "y0": y0, "y1": y0 + h, "x0": x0, "x1": x0 + w}
                                                          for s in [(65, 40), (130, 9)] for (y0, x0, h, w) in [(-2, -3, 70, 45), (60, 1, 5, 8), (0, 0, 130, 9)]))
_set(G2 + "grid_2d_slim_via_mask_from", lambda rng, tier: ({"mask_2d": m, "pixel_scales": (0.5, 2.0), "origin": (1.0, -3.0)} for m in big_masks(rng)))


def _points(rng, tier):
    for (H, W, n) in [(182, 182, 70), (200, 190, 300), (300, 17, 100), (17, 300, 100)]:
        sy, sx, oy, ox = 0.5, 2.0, 1.5, -0.75
        ij = [(rng.randrange(H), rng.randrange(W)) for _ in range(n - 2)] + [(H - 1, W - 1), (H - 2, 8)]
        g = np.array([[oy + ((H - 1) / 2 - i) * sy + rng.uniform(-0.4, 0.4) * sy, ox + (j - (W - 1) / 2) * sx + rng.uniform(-0.4, 0.4) * sx]
                      for i, j in ij])
        yield {"grid_scaled_2d_slim": g, "shape_native": (H, W), "pixel_scales": (sy, sx), "origin": (oy, ox)}


for _k in ("grid_pixel_indexes_2d_slim_from", "grid_pixel_centres_2d_slim_from", "grid_pixels_2d_slim_from"):
    _set(G + _k, _points)
_set(G + "grid_scaled_2d_slim_from", lambda rng, tier: ({"grid_pixels_2d_slim": gens.reals(rng, (n, 2), 0, 200, special=False), "shape_native": (200, 190),
                                                           "pixel_scales": (0.5, 2.0), "origin": (1.5, -0.75)} for n in (70, 300)))


def _tables(rng, n, K):
    idx = -np.ones((n, K), dtype=int); ker = -np.ones((n, K)); ln = np.zeros(n, dtype=int)
    r = np.random.default_rng(rng.randrange(2 ** 32))
    for s in range(n):
        ln[s] = r.integers(0, K + 1)
        idx[s, : ln[s]] = r.integers(0, n, ln[s]); ker[s, : ln[s]] = r.uniform(-2, 2, ln[s])
    return idx, ker, ln


def _g_nb(rng, tier):
    for n, K in [(300, 9), (2049, 3), (70, 130)]:
        idx, ker, ln = _tables(rng, n, K)
        yield {"image_1d_array": gens.reals(rng, (n,), special=False), "image_frame_1d_indexes": idx, "image_frame_1d_kernels": ker,
               "image_frame_1d_lengths": ln}


def _g_mat(rng, tier):
    for n, K, p in [(300, 9, 3), (2049, 3, 2), (70, 130, 2)]:
        idx, ker, ln = _tables(rng, n, K)
        yield {"mapping_matrix": gens.reals(rng, (n, p), -3, 3), "image_frame_1d_indexes": idx, "image_frame_1d_kernels": ker,
               "image_frame_1d_lengths": ln}


_set(CV + "convolve_no_blurring_jit", _g_nb)
_set(CV + "convolve_matrix_jit", _g_mat)


def _g_frame(rng, tier):
    for (kx, ky) in [(11, 13), (13, 13), (3, 43), (21, 7)]:
        m = gens.random_mask(rng, 26, 26, hmin=14, wmin=14)
        mia = np.full(m.shape, -1); mia[~m] = np.arange(int((~m).sum()))
        for c in [(0, 0), (m.shape[0] - 1, m.shape[1] - 1), (2, m.shape[1] // 2), (m.shape[0] // 2, 1)]:
            yield {"coordinates": c, "mask": m, "mask_index_array": mia, "kernel_2d": gens.reals(rng, (kx, ky), -2, 2, special=False)}


_set(CV + "frame_at_coordinates_jit", _g_frame)
_set(IU + "data_vector_via_blurred_mapping_matrix_from", lambda rng, tier: (
    {"blurred_mapping_matrix": gens.reals(rng, (n, p), -3, 3), "image": gens.reals(rng, (n,), special=False),
     "noise_map": np.abs(gens.reals(rng, (n,), 0.1, 4, special=False))} for n, p in [(2049, 2), (2600, 3), (1537, 1)]))
_set(VU + "mapped_reconstructed_data_via_mapping_matrix_from", lambda rng, tier: (
    {"mapping_matrix": gens.reals(rng, (n, p), -3, 3), "reconstruction": gens.reals(rng, (p,), special=False)} for n, p in [(2049, 2), (2600, 70)]))


def _g_wd(rng, tier):
    for (H, W, ky, kx) in [(27, 43, 3, 3), (43, 27, 3, 5), (70, 20, 5, 3)]:
        hy, hx = ky // 2, kx // 2
        mask = np.ones((H, W), dtype=bool)
        mask[hy + 1:H - hy - 1, hx + 1:W - hx - 1] = np.random.default_rng(rng.randrange(2 ** 32)).random((H - 2 * hy - 2, W - 2 * hx - 2)) < 0.05
        data = gens.reals(rng, (H, W), -3, 3, special=False); noise = gens.reals(rng, (H, W), 0.3, 2.5, special=False)
        data[mask] = 0.0; noise[mask] = 0.0
        yield {"image_native": data, "noise_map_native": noise, "kernel_native": gens.reals(rng, (ky, kx), -2, 2, special=False),
               "native_index_for_slim_index": np.argwhere(~mask).astype(int)}


_set(IU + "w_tilde_data_imaging_from", _g_wd)


def _g_pre_large(rng, tier):
    # the function is quadratic in the pixel count: thin kernels keep each pair cheap, so > 1024 unmasked pixels (wide and tall) finish in seconds
    for (H, W, ky, kx) in [(3, 345, 3, 1), (345, 3, 1, 3)]:
        hy, hx = ky // 2, kx // 2
        mask = np.ones((H + 2 * hy, W + 2 * hx), dtype=bool)
        mask[hy:H + hy, hx:W + hx] = False
        noise = gens.reals(rng, mask.shape, 0.3, 2.5, special=False); noise[mask] = 0.0
        yield {"noise_map_native": noise, "kernel_native": gens.reals(rng, (ky, kx), -2, 2, special=False),
               "native_index_for_slim_index": np.argwhere(~mask).astype(int)}


_set(IU + "w_tilde_curvature_preload_imaging_from", _g_pre_large)


def _g_bin(rng, tier):
    for (H, W, sub) in [(5, 13, 32), (33, 32, 8), (65, 65, 4)]:
        m = np.zeros((H, W), dtype=bool)
        sb = np.full(H * W, sub, dtype=int)
        n = int((sb * sb).sum())
        yield {"array_2d": gens.reals(rng, (n,), special=False), "mask_2d": m, "sub_size": sb}


_set(OS + "binned_array_2d_from", _g_bin)
