"""C10 -- blurring, edge and border pixel sets match their definitions for every mask."""
import numpy as np
from pyvc.contract import contract, CONTRACTS
from pyvc import gens

M2 = "autoarray.mask.mask_2d_util:"
HW = {"H": "mask_2d.shape[0]", "W": "mask_2d.shape[1]"}

_IN = "(y - hy >= 0 and y + hy <= H - 1 and x - hx >= 0 and x + hx <= W - 1)"
_OUTSIDE = ("exists(0, H, lambda y: exists(0, W, lambda x: not mask_2d[y, x] and not " + _IN + "))")
_WIN = "(a - hy <= {y} and {y} <= a + hy and b - hx <= {x} and {x} <= b + hx)"


def _bm_inv(cursor_y, cursor_x, extra="False"):
    return ("forall(0, H, lambda a: forall(0, W, lambda b: blurring_mask_2d[a, b] == (not (mask_2d[a, b] and"
            " (near(mask_2d, hy, hx, a, b, %s, %s) or (%s))))))" % (cursor_y, cursor_x, extra))


def _safe_inv(ylim, xlim_row=None):
    s = "forall(0, %s, lambda yy: forall(0, W, lambda xx: implies(not mask_2d[yy, xx], %s)))" % (
        ylim, _IN.replace("y ", "yy ").replace("x ", "xx "))
    return s


_IN_YY = "(yy - hy >= 0 and yy + hy <= H - 1 and xx - hx >= 0 and xx + hx <= W - 1)"
_SAFE_ROWS = "forall(0, y, lambda yy: forall(0, W, lambda xx: implies(not mask_2d[yy, xx], " + _IN_YY + ")))"
_SAFE_ROW = "forall(0, x, lambda xx: implies(not mask_2d[y, xx], (y - hy >= 0 and y + hy <= H - 1 and xx - hx >= 0 and xx + hx <= W - 1)))"

contract(
    M2 + "blurring_mask_2d_from", props=["C10", "C03"],
    types={"mask_2d": "bool[2]", "kernel_shape_native": "(int,int)"}, returns="bool[2]",
    let={**HW, "hy": "kernel_shape_native[0] // 2", "hx": "kernel_shape_native[1] // 2"},
    requires=["kernel_shape_native[0] == 2 * hy + 1", "kernel_shape_native[1] == 2 * hx + 1", "hy >= 0", "hx >= 0"],
    raises={"MaskException": _OUTSIDE},
    ensures=[
        "result.shape[0] == H", "result.shape[1] == W",
        # the blurring mask unmasks exactly the masked pixels within the kernel footprint of >= 1 unmasked pixel
        "forall(0, H, lambda a: forall(0, W, lambda b: (not result[a, b]) == (mask_2d[a, b] and"
        " exists(0, H, lambda yp: exists(0, W, lambda xp: not mask_2d[yp, xp] and " + _WIN.format(y="yp", x="xp") + ")))))",
    ],
    loops={
        0: {"inv": [_bm_inv("y", "0"), _SAFE_ROWS]},
        1: {"inv": [_bm_inv("y", "x"), _SAFE_ROWS, _SAFE_ROW]},
        2: {"inv": [_bm_inv("y", "x", "a - y >= -hy and a - y < y1 and b - hx <= x and x <= b + hx"),
                    "implies(y1 > -hy, y - hy >= 0 and y + y1 - 1 <= H - 1 and x - hx >= 0 and x + hx <= W - 1)"]},
        3: {"inv": [_bm_inv("y", "x", "(a - y >= -hy and a - y < y1 and b - hx <= x and x <= b + hx)"
                                       " or (a - y == y1 and b - x >= -hx and b - x < x1)"),
                    "implies(y1 > -hy, y - hy >= 0 and y + y1 - 1 <= H - 1 and x - hx >= 0 and x + hx <= W - 1)",
                    "implies(x1 > -hx, y + y1 >= 0 and y + y1 <= H - 1 and x - hx >= 0 and x + x1 - 1 <= W - 1)"]},
    },
    sentence={"exists": "the blurring mask unmasks exactly the masked pixels that lie within the kernel footprint of at least one "
                        "unmasked pixel; an error is raised instead whenever that footprint would leave the array"},
)


def _g_blur(rng, tier):
    ks = [(1, 1), (3, 3), (1, 3), (3, 1), (5, 3), (3, 5), (5, 5)]
    for m in gens.all_masks(gens.budget(tier, 9, 12)):
        for k in ks[: gens.budget(tier, 4, 7)]:
            yield {"mask_2d": m, "kernel_shape_native": k}
    for _ in range(gens.budget(tier, 60, 600)):
        yield {"mask_2d": gens.random_mask(rng, 8, 8, ring=rng.random() < 0.6), "kernel_shape_native": rng.choice(ks)}


CONTRACTS[M2 + "blurring_mask_2d_from"].gen = _g_blur
CONTRACTS[M2 + "blurring_mask_2d_from"].nontrivial = lambda mask_2d, kernel_shape_native: 0 < mask_2d.sum() < mask_2d.size
