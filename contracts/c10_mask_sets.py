"""C10 -- blurring, edge and border pixel sets match their definitions for every mask."""
import numpy as np
from pyvc.contract import contract, CONTRACTS
from pyvc import gens

M2 = "autoarray.mask.mask_2d_util:"
HW = {"H": "mask_2d.shape[0]", "W": "mask_2d.shape[1]"}

_IN = "(y - hy >= 0 and y + hy <= H - 1 and x - hx >= 0 and x + hx <= W - 1)"
_OUTSIDE = ("exists(0, H, lambda y: exists(0, W, lambda x: not mask_2d[y, x] and not " + _IN + "))")
_WIN = "(a - hy <= {y} and {y} <= a + hy and b - hx <= {x} and {x} <= b + hx)"


def _bm_inv(cursor_y, cursor_x, extra="False"):
    return ("forall(0, H, lambda a: forall(0, W, lambda b: blurring_mask_2d[a, b] == (not (mask_2d[a, b] and"
            " (near(mask_2d, hy, hx, a, b, %s, %s) or (%s))))))" % (cursor_y, cursor_x, extra))


def _safe_inv(ylim, xlim_row=None):
    s = "forall(0, %s, lambda yy: forall(0, W, lambda xx: implies(not mask_2d[yy, xx], %s)))" % (
        ylim, _IN.replace("y ", "yy ").replace("x ", "xx "))
    return s


_IN_YY = "(yy - hy >= 0 and yy + hy <= H - 1 and xx - hx >= 0 and xx + hx <= W - 1)"
_SAFE_ROWS = "forall(0, y, lambda yy: forall(0, W, lambda xx: implies(not mask_2d[yy, xx], " + _IN_YY + ")))"
_SAFE_ROW = "forall(0, x, lambda xx: implies(not mask_2d[y, xx], (y - hy >= 0 and y + hy <= H - 1 and xx - hx >= 0 and xx + hx <= W - 1)))"

contract(
    M2 + "blurring_mask_2d_from", props=["C10", "C03"],
    types={"mask_2d": "bool[2]", "kernel_shape_native": "(int,int)"}, returns="bool[2]",
    let={**HW, "hy": "kernel_shape_native[0] // 2", "hx": "kernel_shape_native[1] // 2"},
    requires=["kernel_shape_native[0] == 2 * hy + 1", "kernel_shape_native[1] == 2 * hx + 1", "hy >= 0", "hx >= 0"],
    raises={"MaskException": _OUTSIDE},
    ensures=[
        "result.shape[0] == H", "result.shape[1] == W",
        # the blurring mask unmasks exactly the masked pixels within the kernel footprint of >= 1 unmasked pixel
        "forall(0, H, lambda a: forall(0, W, lambda b: (not result[a, b]) == (mask_2d[a, b] and"
        " exists(0, H, lambda yp: exists(0, W, lambda xp: not mask_2d[yp, xp] and " + _WIN.format(y="yp", x="xp") + ")))))",
    ],
    loops={
        0: {"inv": [_bm_inv("y", "0"), _SAFE_ROWS]},
        1: {"inv": [_bm_inv("y", "x"), _SAFE_ROWS, _SAFE_ROW]},
        2: {"inv": [_bm_inv("y", "x", "a - y >= -hy and a - y < y1 and b - hx <= x and x <= b + hx"),
                    "implies(y1 > -hy, y - hy >= 0 and y + y1 - 1 <= H - 1 and x - hx >= 0 and x + hx <= W - 1)"]},
        3: {"inv": [_bm_inv("y", "x", "(a - y >= -hy and a - y < y1 and b - hx <= x and x <= b + hx)"
                                       " or (a - y == y1 and b - x >= -hx and b - x < x1)"),
                    "implies(y1 > -hy, y - hy >= 0 and y + y1 - 1 <= H - 1 and x - hx >= 0 and x + hx <= W - 1)",
                    "implies(x1 > -hx, y + y1 >= 0 and y + y1 <= H - 1 and x - hx >= 0 and x + x1 - 1 <= W - 1)"]},
    },
    sentence={"exists": "the blurring mask unmasks exactly the masked pixels that lie within the kernel footprint of at least one "
                        "unmasked pixel; an error is raised instead whenever that footprint would leave the array"},
)


def _g_blur(rng, tier):
    ks = [(1, 1), (3, 3), (1, 3), (3, 1), (5, 3), (3, 5), (5, 5)]
    for m in gens.all_masks(gens.budget(tier, 9, 12)):
        for k in ks[: gens.budget(tier, 4, 7)]:
            yield {"mask_2d": m, "kernel_shape_native": k}
    for _ in range(gens.budget(tier, 60, 600)):
        yield {"mask_2d": gens.random_mask(rng, 8, 8, ring=rng.random() < 0.6), "kernel_shape_native": rng.choice(ks)}


CONTRACTS[M2 + "blurring_mask_2d_from"].gen = _g_blur
CONTRACTS[M2 + "blurring_mask_2d_from"].nontrivial = lambda mask_2d, kernel_shape_native: 0 < mask_2d.sum() < mask_2d.size


# ----------------------------------------------------------------------------- edge and border sets
from pyvc.contract import macro

# "has a masked pixel among its eight in-array neighbours" (the pixel itself is unmasked wherever this is used)
macro("c10_isedge", ["M", "H", "W", "y", "x"],
      "exists((y - 1 if y - 1 > 0 else 0), (y + 2 if y + 2 < H else H), lambda a:"
      " exists((x - 1 if x - 1 > 0 else 0), (x + 2 if x + 2 < W else W), lambda b: M[a, b]))",
      opaque=(["bool[2]", "int", "int", "int", "int"], "bool"))
# the "not an edge pixel" mask: its unmasked pixels are exactly the edge pixels, so cnt2 over it ranks the edge set
_E = "arr2(H, W, lambda a, b: mask_2d[a, b] or not c10_isedge(mask_2d, H, W, a, b))"

contract(
    M2 + "check_if_edge_pixel", props=["C10"],
    types={"mask_2d": "bool[2]", "y": "int", "x": "int"}, returns="bool", let=HW, reveal=["c10_isedge"],
    requires=["0 <= y", "y < H", "0 <= x", "x < W"],
    ensures=["result == c10_isedge(mask_2d, H, W, y, x)"],
    loops={
        0: {"inv": ["forall((y - 1 if y - 1 > 0 else 0), y1, lambda a: forall((x - 1 if x - 1 > 0 else 0), (x + 2 if x + 2 < W else W),"
                    " lambda b: not mask_2d[a, b]))"]},
        1: {"inv": ["forall((y - 1 if y - 1 > 0 else 0), y1, lambda a: forall((x - 1 if x - 1 > 0 else 0), (x + 2 if x + 2 < W else W),"
                    " lambda b: not mask_2d[a, b]))",
                    "forall((x - 1 if x - 1 > 0 else 0), x1, lambda b: not mask_2d[y1, b])"]},
    },
    sentence={"c10_isedge": "edge test: some in-array neighbour (8-connectivity) is masked"},
)

contract(
    M2 + "total_edge_pixels_from", props=["C10"],
    types={"mask_2d": "bool[2]"}, returns="int", let={**HW, "E": _E},
    ensures=["result == total(E)"],
    loops={0: {"inv": ["edge_pixel_total == cnt2(E, y, 0)"]},
           1: {"inv": ["edge_pixel_total == cnt2(E, y, x)"]}},
)

_EDGE_DONE_ROWS = ("forall(0, y, lambda yy: forall(0, W, lambda xx: implies(not E[yy, xx],"
                   " edge_pixels[cnt2(E, yy, xx)] == cnt2(mask_2d, yy, xx))))")
_EDGE_INV = "forall(0, edge_index, lambda i: edge_pixels[i] == cnt2(mask_2d, pixy(E, i), pixx(E, i)))"
contract(
    M2 + "edge_1d_indexes_from", props=["C10"],
    types={"mask_2d": "bool[2]"}, returns="real[1]", let={**HW, "E": _E},
    ensures=[
        "result.shape[0] == total(E)",
        # the edge list holds, in slim order, the slim index of every unmasked pixel with a masked in-array neighbour
        "forall(0, H, lambda y: forall(0, W, lambda x: implies(not mask_2d[y, x] and c10_isedge(mask_2d, H, W, y, x),"
        " result[cnt2(E, y, x)] == cnt2(mask_2d, y, x))))",
        # ... and nothing else: entry i is the slim index of the i-th edge pixel in row-major order
        "forall(0, total(E), lambda i: result[i] == cnt2(mask_2d, pixy(E, i), pixx(E, i)), pat=result[i])",
    ],
    loops={
        0: {"inv": ["edge_index == cnt2(E, y, 0)", "regular_index == cnt2(mask_2d, y, 0)", _EDGE_DONE_ROWS, _EDGE_INV]},
        1: {"inv": ["edge_index == cnt2(E, y, x)", "regular_index == cnt2(mask_2d, y, x)", _EDGE_DONE_ROWS, _EDGE_INV,
                    "forall(0, x, lambda xx: implies(not E[y, xx], edge_pixels[cnt2(E, y, xx)] == cnt2(mask_2d, y, xx)))"]},
    },
    sentence={"forall": "the edge set contains every unmasked pixel that has a masked pixel among its eight in-array neighbours "
                        "(and no pixel whose eight neighbours all exist and are unmasked), listed by slim index in slim order"},
)


def _g_m(rng, tier):
    for m in gens.all_masks(gens.budget(tier, 9, 12)):
        yield {"mask_2d": m}
    for _ in range(gens.budget(tier, 80, 1500)):
        yield {"mask_2d": gens.random_mask(rng, 7, 7)}


def _g_pix(rng, tier):
    for kw in _g_m(rng, tier):
        m = kw["mask_2d"]
        for y in range(m.shape[0]):
            for x in range(m.shape[1]):
                yield {"mask_2d": m, "y": y, "x": x}


CONTRACTS[M2 + "check_if_edge_pixel"].gen = _g_pix
CONTRACTS[M2 + "total_edge_pixels_from"].gen = _g_m
CONTRACTS[M2 + "edge_1d_indexes_from"].gen = _g_m


# ----------------------------------------------------------------------------- border set
# a straight walk from (y,x) to the array boundary, in at least one of the four axis directions, meets only masked pixels
macro("c10_isborder", ["M", "H", "W", "y", "x"],
      "forall(0, y, lambda r: M[r, x]) or forall(x + 1, W, lambda c: M[y, c])"
      " or forall(y + 1, H, lambda r: M[r, x]) or forall(0, x, lambda c: M[y, c])",
      opaque=(["bool[2]", "int", "int", "int", "int"], "bool"))

_NTS = ["native_to_slim.shape[0] == total(mask_2d)", "native_to_slim.shape[1] == 2",
        "forall(0, total(mask_2d), lambda k: native_to_slim[k, 0] == pixy(mask_2d, k) and native_to_slim[k, 1] == pixx(mask_2d, k))"]

contract(
    M2 + "check_if_border_pixel", props=["C10"],
    types={"mask_2d": "bool[2]", "edge_pixel_slim": "real", "native_to_slim": "real[2]"}, returns="bool",
    let={**HW, "k": "floor(edge_pixel_slim)"}, reveal=["c10_isborder"],
    requires=["isint(edge_pixel_slim)", "0 <= k", "k < total(mask_2d)"] + _NTS,
    ensures=["result == c10_isborder(mask_2d, H, W, pixy(mask_2d, k), pixx(mask_2d, k))"],
    ghost_at={1: [{"rebind": {"edge_pixel_index": "k"}}],
              3: [{"rebind": {"y": "pixy(mask_2d, k)", "x": "pixx(mask_2d, k)"}}]},
    sentence={"c10_isborder": "border test: a straight walk to the array boundary in one of the four axis directions meets only masked pixels"},
)

# the i-th entry of an edge list (a slim index stored as a float) and its border flag
_EDGES_OK = ("forall(0, edge_pixels.shape[0], lambda i: isint(edge_pixels[i])"
             " and 0 <= floor(edge_pixels[i]) and floor(edge_pixels[i]) < total(mask_2d))")
_B1 = ("arr1(edge_pixels.shape[0], lambda i: not c10_isborder(mask_2d, H, W,"
       " pixy(mask_2d, floor(edge_pixels[i])), pixx(mask_2d, floor(edge_pixels[i]))))")

contract(
    M2 + "total_border_pixels_from", props=["C10"],
    types={"mask_2d": "bool[2]", "edge_pixels": "real[1]", "native_to_slim": "real[2]"}, returns="int",
    let={**HW, "B1": _B1}, requires=[_EDGES_OK] + _NTS,
    ensures=["result == total1(B1)"],
    loops={0: {"inv": ["border_pixel_total == cnt1(B1, i)"]}},
)

# the border list in terms of the mask alone: E = "not an edge pixel" mask, its i-th unmasked pixel is the i-th edge pixel
_BM = ("arr1(total(E), lambda i: not c10_isborder(mask_2d, H, W, pixy(E, i), pixx(E, i)))")
contract(
    M2 + "border_slim_indexes_from", props=["C10", "C18"],
    types={"mask_2d": "bool[2]"}, returns="real[1]", let={**HW, "E": _E, "BM": _BM},
    ensures=[
        "result.shape[0] == total1(BM)",
        # exactly those edge pixels from which a straight walk to the boundary meets only masked pixels, in slim order
        "forall(0, total(E), lambda i: implies(c10_isborder(mask_2d, H, W, pixy(E, i), pixx(E, i)),"
        " result[cnt1(BM, i)] == cnt2(mask_2d, pixy(E, i), pixx(E, i))))",
    ],
    # the callee contracts speak about B1 (border flags of the entries of the local edge list); the property speaks about
    # BM (border flags of the i-th edge pixel of the mask).  They agree pointwise, hence their rank functions agree
    # (ghost lemma by induction), which transfers the loop invariant (stated over B1) to the postcondition (over BM).
    ghost_at={5: [
        "forall(0, total(E), lambda i: (" + _B1 + ")[i] == BM[i])",
        {"induct": "n", "lo": 0, "hi": "total(E)", "stmt": "cnt1(" + _B1 + ", n) == cnt1(BM, n)"},
    ]},
    loops={0: {"inv": ["border_pixel_index == cnt1(" + _B1 + ", edge_pixel_index)",
                       "forall(0, edge_pixel_index, lambda i: implies(not (" + _B1 + ")[i],"
                       " border_pixels[cnt1(" + _B1 + ", i)] == edge_pixels[i]))"]}},
    sentence={"forall": "the border set consists of exactly those edge pixels from which a straight walk to the array boundary in at "
                        "least one of the four axis directions meets only masked pixels (slim indices, slim order)"},
)


def _g_edge_entry(rng, tier):
    for kw in _g_m(rng, tier):
        m = kw["mask_2d"]
        nts = np.argwhere(~m).astype(float).reshape(-1, 2)
        for k in range(nts.shape[0]):
            yield {"mask_2d": m, "edge_pixel_slim": float(k), "native_to_slim": nts}


def _g_border_tot(rng, tier):
    for kw in _g_m(rng, tier):
        m = kw["mask_2d"]
        nts = np.argwhere(~m).astype(float).reshape(-1, 2)
        n = nts.shape[0]
        if n == 0:
            continue
        e = np.array(sorted(rng.sample(range(n), rng.randint(0, n))), dtype=float)
        yield {"mask_2d": m, "edge_pixels": e, "native_to_slim": nts}


CONTRACTS[M2 + "check_if_border_pixel"].gen = _g_edge_entry
CONTRACTS[M2 + "total_border_pixels_from"].gen = _g_border_tot
CONTRACTS[M2 + "border_slim_indexes_from"].gen = _g_m
