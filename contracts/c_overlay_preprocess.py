"""Image-plane mesh points of the Overlay image-mesh (C12), remaining geometry / selection / border-relocator / preconditioner
kernels (C02, C04, C09, C18) and the element-wise unit converters and noise rules of dataset/preprocess.py (C08, C11, C14).

Numpy primitives outside the core subset are read by pyvc/ext/coverlay.py (opt-in by contract key; its header lists every
assumed fact)."""
import numpy as np
from pyvc.contract import contract, corollary, macro, spec_fn, CONTRACTS
from pyvc import gens
from pyvc.ext import coverlay

OV = "autoarray.inversion.pixelization.image_mesh.overlay:"
PP = "autoarray.dataset.preprocess:"
G = "autoarray.geometry.geometry_util:"
G2 = "autoarray.structures.grids.grid_2d_util:"
BR = "autoarray.inversion.pixelization.border_relocator:"
IU = "autoarray.inversion.inversion.inversion_util:"

# ================================================================================================ 1. Overlay image-mesh kernels
# Mk[k] = "the k-th overlaid centre lies on a MASKED pixel" -- a derived 1-D mask over the list of centres; the rank function
# cnt1(Mk, k) counts the centres before k that lie on unmasked pixels, pix1(Mk, j) is the j-th such centre (contracts/c01_more.py).


def _mk(m, c="overlaid_centres"):
    return "arr1(%s.shape[0], lambda k: %s[%s[k, 0], %s[k, 1]])" % (c, m, c, c)


def _inside(m, c="overlaid_centres"):
    return ("forall(0, %s.shape[0], lambda k: 0 <= %s[k, 0] and %s[k, 0] < %s.shape[0] and 0 <= %s[k, 1] and %s[k, 1] < %s.shape[1])"
            % (c, c, c, m, c, c, m))


KT = OV + "total_pixels_2d_from"
contract(KT, props=["C12"],
         types={"mask_2d": "bool[2]", "overlaid_centres": "int[2]"}, returns="int",
         let={"N": "overlaid_centres.shape[0]", "Mk": _mk("mask_2d")},
         requires=["overlaid_centres.shape[1] == 2", _inside("mask_2d")],
         ensures=["result == cnt1(Mk, N)", "0 <= result and result <= N"],
         loops={0: {"inv": ["total_pixels == cnt1(Mk, overlaid_pixel_index)", "0 <= total_pixels and total_pixels <= overlaid_pixel_index"]}},
         sentence={"result": "the number of mesh points is the number of overlaid centres that lie on unmasked pixels; "
                             "it depends on the integer centres and the mask only, never on coordinates"})

KO = OV + "overlay_for_mask_from"
contract(KO, props=["C12"],
         types={"total_pixels": "int", "mask": "bool[2]", "overlaid_centres": "int[2]"}, returns="real[1]",
         let={"N": "overlaid_centres.shape[0]", "Mk": _mk("mask")},
         requires=["overlaid_centres.shape[1] == 2", _inside("mask"), "total_pixels == cnt1(Mk, N)"],
         ensures=["result.shape[0] == total_pixels",
                  # entry j is the index of the j-th overlaid centre on an unmasked pixel, in order
                  "forall(0, total_pixels, lambda j: result[j] == pix1(Mk, j))",
                  "forall(0, N, lambda x: implies(not Mk[x], result[cnt1(Mk, x)] == x))",
                  "forall(0, total_pixels, lambda j: 0 <= result[j] and result[j] < N and isint(result[j]), pat=result[j])"],
         loops={0: {"inv": ["pixel_index == cnt1(Mk, full_pixel_index)",
                            "forall(0, pixel_index, lambda j: overlay_for_mask[j] == pix1(Mk, j))"]}},
         sentence={"forall": "the k-th mesh point is the k-th overlaid centre lying on an unmasked pixel (rank order of the centres list)"})

KM = OV + "mask_for_overlay_from"
_CLIP = "min(cnt1(Mk, {k}), max(total_pixels - 1, 0))"
contract(KM, props=["C12"],
         types={"mask": "bool[2]", "overlaid_centres": "int[2]", "total_pixels": "int"}, returns="real[1]",
         let={"N": "overlaid_centres.shape[0]", "Mk": _mk("mask")},
         requires=["overlaid_centres.shape[1] == 2", _inside("mask")],
         ensures=["result.shape[0] == N",
                  # running rank of the centres on unmasked pixels, clipped at the last mesh point total_pixels - 1
                  "forall(0, N, lambda a: result[a] == " + _CLIP.format(k="a") + ")"],
         loops={0: {"inv": ["pixel_index == " + _CLIP.format(k="unmasked_sparse_pixel_index"),
                            "forall(0, unmasked_sparse_pixel_index, lambda a: mask_for_overlay[a] == " + _CLIP.format(k="a") + ")"]}},
         sentence={"forall": "overlaid centre a maps to mesh point min(#centres on unmasked pixels before a, total_pixels - 1)"})

KG = OV + "overlay_via_unmasked_overlaid_from"
contract(KG, props=["C12"],
         types={"unmasked_overlay_grid": "real[2]", "overlay_for_mask": "int[1]"}, returns="real[2]",
         let={"P": "overlay_for_mask.shape[0]", "U": "unmasked_overlay_grid.shape[0]"},
         requires=["unmasked_overlay_grid.shape[1] == 2",
                   "forall(0, P, lambda k: 0 <= overlay_for_mask[k] and overlay_for_mask[k] < U)"],
         ensures=["result.shape[0] == P", "result.shape[1] == 2",
                  "forall(0, P, lambda k: result[k, 0] == unmasked_overlay_grid[overlay_for_mask[k], 0]"
                  " and result[k, 1] == unmasked_overlay_grid[overlay_for_mask[k], 1])"],
         loops={0: {"inv": ["forall(0, pixel_index, lambda k: pix_grid[k, 0] == unmasked_overlay_grid[overlay_for_mask[k], 0]"
                            " and pix_grid[k, 1] == unmasked_overlay_grid[overlay_for_mask[k], 1])"]}},
         sentence={"forall": "mesh point k is row overlay_for_mask[k] of the unmasked overlay grid (a gather)"})


def _g_centres(rng, tier, mname):
    def cases():
        for m in gens.all_masks(gens.budget(tier, 4, 6)):
            H, W = m.shape
            cells = [(y, x) for y in range(H) for x in range(W)]
            yield m, np.zeros((0, 2), dtype=int)
            yield m, np.array(cells, dtype=int)
            yield m, np.array(cells[::-1], dtype=int)
            yield m, np.array(cells + cells, dtype=int)
        for _ in range(gens.budget(tier, 150, 2000)):
            m = gens.random_mask(rng, 5, 5)
            H, W = m.shape
            n = rng.randint(0, 8)
            yield m, np.array([[rng.randrange(H), rng.randrange(W)] for _ in range(n)], dtype=int).reshape(n, 2)
    for m, c in cases():
        yield {mname: m, "overlaid_centres": c}


def _cnt(m, c):
    return int(sum(1 for k in range(c.shape[0]) if not m[c[k, 0], c[k, 1]]))


def _g_total(rng, tier):
    yield from _g_centres(rng, tier, "mask_2d")


def _g_ofm(rng, tier):
    for kw in _g_centres(rng, tier, "mask"):
        kw["total_pixels"] = _cnt(kw["mask"], kw["overlaid_centres"])
        yield kw


def _g_mfo(rng, tier):
    for kw in _g_centres(rng, tier, "mask"):
        t = _cnt(kw["mask"], kw["overlaid_centres"])
        kw["total_pixels"] = t
        yield kw
        if rng.random() < 0.3:
            yield dict(kw, total_pixels=rng.choice([0, 1, max(t - 1, 0), t + 2]))


def _g_gather(rng, tier):
    for _ in range(gens.budget(tier, 200, 2000)):
        U, P = rng.randint(1, 6), rng.randint(0, 7)
        yield {"unmasked_overlay_grid": gens.reals(rng, (U, 2), -5, 5, special=False),
               "overlay_for_mask": np.array([rng.randrange(U) for _ in range(P)], dtype=int)}


CONTRACTS[KT].gen = _g_total
CONTRACTS[KO].gen = _g_ofm
CONTRACTS[KM].gen = _g_mfo
CONTRACTS[KG].gen = _g_gather
for _k in (KT, KO, KM):
    CONTRACTS[_k].nontrivial = lambda **kw: kw["overlaid_centres"].shape[0] > 1
CONTRACTS[KG].nontrivial = lambda **kw: kw["overlay_for_mask"].shape[0] > 1

# ---- corollaries: the chain of Overlay.image_plane_mesh_grid_from (total -> overlay_for_mask -> .astype('int') -> gather); every callee
# precondition (total_pixels matches the count, gathered indices inside the overlay grid) is discharged from the previous postconditions
_CMK = _mk("M", "C")
_ASINT = "arr1(r.shape[0], lambda k: toint(r[k]))"
_CH_VARS = {"M": "bool[2]", "C": "int[2]", "Gd": "real[2]"}
_CH_REQ = ["C.shape[1] == 2", _inside("M", "C"), "Gd.shape[1] == 2", "Gd.shape[0] == C.shape[0]"]
_CH_CALLS = [("t", KT, {"mask_2d": "M", "overlaid_centres": "C"}),
             ("r", KO, {"total_pixels": "t", "mask": "M", "overlaid_centres": "C"}),
             ("g", KG, {"unmasked_overlay_grid": "Gd", "overlay_for_mask": _ASINT})]
corollary("C12.overlay_mesh_grid_is_the_centres_on_unmasked_pixels", props=["C12"],
          vars=_CH_VARS, let={"N": "C.shape[0]", "Mk": _CMK}, requires=_CH_REQ, calls=_CH_CALLS,
          ensures=["g.shape[0] == cnt1(Mk, N) and g.shape[1] == 2",
                   "forall(0, cnt1(Mk, N), lambda j: g[j, 0] == Gd[pix1(Mk, j), 0] and g[j, 1] == Gd[pix1(Mk, j), 1])",
                   "forall(0, N, lambda x: implies(not Mk[x], g[cnt1(Mk, x), 0] == Gd[x, 0] and g[cnt1(Mk, x), 1] == Gd[x, 1]))"],
          sentence="the image-plane mesh grid consists of exactly the overlaid grid points whose centre pixel is unmasked, in order "
                   "(total -> overlay_for_mask -> gather chained through the real functions' contracts)")

_TR = ["Gt.shape[0] == Gd.shape[0]", "Gt.shape[1] == 2",
       "forall(0, Gd.shape[0], lambda k: Gt[k, 0] == Gd[k, 0] + d[0], pat=Gt[k, 0])",
       "forall(0, Gd.shape[0], lambda k: Gt[k, 1] == Gd[k, 1] + d[1], pat=Gt[k, 1])"]
corollary("C12.cov.overlay_via_unmasked_overlaid_from", props=["C12"],
          vars={"Gd": "real[2]", "Gt": "real[2]", "F": "int[1]", "d": "(real,real)"}, let={"P": "F.shape[0]"},
          requires=["Gd.shape[1] == 2", "forall(0, P, lambda k: 0 <= F[k] and F[k] < Gd.shape[0])"] + _TR,
          calls=[("g1", KG, {"unmasked_overlay_grid": "Gd", "overlay_for_mask": "F"}),
                 ("g2", KG, {"unmasked_overlay_grid": "Gt", "overlay_for_mask": "F"})],
          ensures=["g2.shape[0] == g1.shape[0]",
                   "forall(0, P, lambda k: g2[k, 0] == g1[k, 0] + d[0] and g2[k, 1] == g1[k, 1] + d[1])"],
          sentence="translating the unmasked overlay grid by d translates every gathered mesh point by exactly d")

corollary("C12.cov.overlay_image_plane_mesh_grid", props=["C12"],
          vars={**_CH_VARS, "Gt": "real[2]", "d": "(real,real)"}, let={"N": "C.shape[0]", "Mk": _CMK}, requires=_CH_REQ + _TR,
          calls=_CH_CALLS + [("g2", KG, {"unmasked_overlay_grid": "Gt", "overlay_for_mask": _ASINT})],
          ensures=["g2.shape[0] == g.shape[0] and g.shape[0] == t",
                   "forall(0, t, lambda j: g2[j, 0] == g[j, 0] + d[0] and g2[j, 1] == g[j, 1] + d[1])"],
          sentence="the index tables (count, overlay_for_mask) are functions of the mask and the integer centres only; with the same "
                   "tables the mesh grid of the translated overlay grid is the mesh grid translated by exactly d")

# ================================================================================================ 3. dataset/preprocess.py
# Plain-ndarray (slim, rank-1) behaviour of the element-wise converters and noise rules.  Every contract states the value formula per
# element; `modifies=[]` makes "every array parameter is bit-identical afterwards" a proof obligation (frame:<param>) and engine C
# checks the same plus freshness of the result (C11: queries never modify the arrays passed to them).


def _len(*names):
    return ["%s.shape[0] == N" % n for n in names]


def _each(body, pat=None):
    return "forall(0, N, lambda k: " + body + ((", pat=" + pat) if pat else "") + ")"


_NZ = lambda a: _each("%s[k] != 0" % a)
_R1 = lambda *names: {n: "real[1]" for n in names}

K_E2C = PP + "array_eps_to_counts"
contract(K_E2C, props=["C11", "C08"], types=_R1("array_eps", "exposure_time_map"), returns="real[1]", let={"N": "array_eps.shape[0]"},
         requires=_len("exposure_time_map"),
         ensures=["result.shape[0] == N", _each("result[k] == array_eps[k] * exposure_time_map[k]")],
         sentence={"forall": "counts = electrons per second x exposure time, element-wise; inputs unmodified, result fresh"})

K_C2E = PP + "array_counts_to_eps"
contract(K_C2E, props=["C11", "C08"], types=_R1("array_counts", "exposure_time_map"), returns="real[1]", let={"N": "array_counts.shape[0]"},
         requires=_len("exposure_time_map") + [_NZ("exposure_time_map")],
         ensures=["result.shape[0] == N", _each("result[k] == array_counts[k] / exposure_time_map[k]")],
         sentence={"forall": "electrons per second = counts / exposure time, element-wise; inputs unmodified, result fresh"})

K_E2A = PP + "array_eps_to_adus"
contract(K_E2A, props=["C11", "C08"], types={**_R1("array_eps", "exposure_time_map"), "gain": "real"}, returns="real[1]",
         let={"N": "array_eps.shape[0]"}, requires=_len("exposure_time_map") + ["gain != 0"],
         ensures=["result.shape[0] == N", _each("result[k] == array_eps[k] * exposure_time_map[k] / gain")],
         sentence={"forall": "ADUs = electrons per second x exposure time / gain, element-wise; inputs unmodified, result fresh"})

K_A2E = PP + "array_adus_to_eps"
contract(K_A2E, props=["C11", "C08"], types={**_R1("array_adus", "exposure_time_map"), "gain": "real"}, returns="real[1]",
         let={"N": "array_adus.shape[0]"}, requires=_len("exposure_time_map") + [_NZ("exposure_time_map")],
         ensures=["result.shape[0] == N", _each("result[k] == gain * array_adus[k] / exposure_time_map[k]")],
         sentence={"forall": "electrons per second = gain x ADUs / exposure time, element-wise; inputs unmodified, result fresh"})

K_CPS = PP + "array_counts_to_counts_per_second"
contract(K_CPS, props=["C11", "C08"], types={"array_counts": "real[1]", "exposure_time": "real"}, returns="real[1]",
         let={"N": "array_counts.shape[0]"}, requires=["exposure_time != 0"],
         raises={"ArrayException": "exposure_time is None"},
         ensures=["result.shape[0] == N", _each("result[k] == array_counts[k] / exposure_time")],
         sentence={"forall": "counts per second = counts / exposure time, element-wise; inputs unmodified, result fresh"})
contract(K_CPS + "#none", props=["C11"], types={"array_counts": "real[1]", "exposure_time": "none"}, returns="real[1]",
         raises={"ArrayException": "exposure_time is None"}, ensures=[],
         sentence={"raises": "an ArrayException is raised instead of a result exactly when there is no exposure time"})

K_INV = PP + "noise_map_via_inverse_noise_map_from"
contract(K_INV, props=["C11", "C08"], types=_R1("inverse_noise_map"), returns="real[1]", let={"N": "inverse_noise_map.shape[0]"},
         requires=[_NZ("inverse_noise_map")],
         ensures=["result.shape[0] == N", _each("result[k] == 1 / inverse_noise_map[k]")],
         sentence={"forall": "noise = 1 / inverse noise, element-wise; input unmodified, result fresh"})

K_W = PP + "noise_map_via_weight_map_from"
contract(K_W, props=["C11", "C08"], types=_R1("weight_map"), returns="real[1]", let={"N": "weight_map.shape[0]"},
         # R1 (exact reals) has no inf: a zero weight (1 / 0 -> inf -> clipped to 1e8 by IEEE arithmetic) is left to the bounded variant
         requires=[_each("weight_map[k] > 0")], uses_math=["sqrt"],
         ensures=["result.shape[0] == N", _each("result[k] == min(1 / sqrt(weight_map[k]), 100000000.0)")],
         sentence={"forall": "noise = 1 / sqrt(weight), clipped from above at 1e8, element-wise; the clip writes into the freshly built "
                             "quotient, never into the caller's weight map; result fresh"})

K_NB = PP + "noise_map_via_data_eps_exposure_time_map_and_background_noise_map_from"
contract(K_NB, props=["C11", "C08"], types=_R1("data_eps", "exposure_time_map", "background_noise_map"), returns="real[1]",
         let={"N": "data_eps.shape[0]"}, requires=_len("exposure_time_map", "background_noise_map") + [_NZ("exposure_time_map")],
         ensures=["result.shape[0] == N",
                  _each("result[k] == sqrt(abs(data_eps[k] * exposure_time_map[k]) + (background_noise_map[k] * exposure_time_map[k]) ** 2)"
                        " / exposure_time_map[k]")],
         sentence={"forall": "noise = sqrt(|data x t| + (background noise x t)^2) / t, element-wise; inputs unmodified, result fresh"})

K_NV = PP + "noise_map_via_data_eps_exposure_time_map_and_background_variances_from"
contract(K_NV, props=["C11", "C08"], types=_R1("data_eps", "exposure_time_map", "background_variances"), returns="real[1]",
         let={"N": "data_eps.shape[0]"},
         requires=_len("exposure_time_map", "background_variances") + [_NZ("exposure_time_map"),
                  _each("abs(data_eps[k] * exposure_time_map[k]) + background_variances[k] * exposure_time_map[k] >= 0")],
         ensures=["result.shape[0] == N",
                  _each("result[k] == sqrt(abs(data_eps[k] * exposure_time_map[k]) + background_variances[k] * exposure_time_map[k])"
                        " / exposure_time_map[k]")],
         sentence={"forall": "noise = sqrt(|data x t| + background variance x t) / t, element-wise; inputs unmodified, result fresh"})

# cov_amax(A): an index at which the 1-D array A is largest (the executable twin takes the first one; the axioms say only "a maximum")
spec_fn("cov_amax", params=[("A", "real[1]")], ret="int", let={"N": "A.shape[0]"},
        axioms=["implies(N > 0, 0 <= cov_amax(A) and cov_amax(A) < N)",
                "forall(0, N, lambda j: A[j] <= A[cov_amax(A)])"],
        py=lambda A: int(np.argmax(np.asarray(A, dtype=float))) if len(A) else -1,
        doc="position of a maximum of a rank-1 array")

K_ET = PP + "exposure_time_map_via_exposure_time_and_background_noise_map_from"
contract(K_ET, props=["C11", "C08"], types={"exposure_time": "real", "background_noise_map": "real[1]"}, returns="real[1]",
         let={"N": "background_noise_map.shape[0]", "INV": "arr1(background_noise_map.shape[0], lambda k: 1 / background_noise_map[k])"},
         requires=["N > 0", _NZ("background_noise_map")],
         ensures=["result.shape[0] == N",
                  # INV[cov_amax(INV)] = the largest inverse background noise
                  "forall(0, N, lambda k: result[k] == abs(exposure_time * (INV[k] / INV[cov_amax(INV)])))",
                  "forall(0, N, lambda j: INV[j] <= INV[cov_amax(INV)]) and 0 <= cov_amax(INV) and cov_amax(INV) < N"],
         sentence={"forall": "exposure time map = |exposure time x (1/background noise) / max(1/background noise)|, element-wise; "
                             "input unmodified, result fresh"})

coverlay.ENABLED |= {K_W, K_NB, K_NV, K_ET, IU + "preconditioner_matrix_via_mapping_matrix_from"}
coverlay.install()

# IEEE behaviour at zero weights (outside R1: 1 / 0.0 = inf, clipped): full rule, checked at run time only
contract(K_W + "#zero_weight", props=["C11", "C08"], mode="bounded", types=_R1("weight_map"), returns="real[1]",
         let={"N": "weight_map.shape[0]"}, requires=[_each("weight_map[k] >= 0")],
         ensures=["result.shape[0] == N",
                  _each("result[k] == (100000000.0 if weight_map[k] == 0 else min(1 / sqrt(weight_map[k]), 100000000.0))")],
         note="bounded: a zero weight divides by zero (IEEE inf, then clipped to 1e8) -- exact reals (R1) have no inf",
         sentence={"forall": "zero weights are converted to the large noise value 1e8"})


def _vals(rng, n, kind):
    if kind == "nz":                  # non-zero, both signs, away from 0 (division by tiny numbers amplifies rounding)
        return np.array([rng.choice([-1, 1]) * rng.choice([0.25, 0.5, 1.0, 2.0, 4.0, rng.uniform(0.1, 5.0)]) for _ in range(n)], dtype=float)
    if kind == "pos":
        return np.array([rng.choice([0.25, 0.5, 1.0, 2.0, 4.0, rng.uniform(0.1, 5.0)]) for _ in range(n)], dtype=float)
    if kind == "nonneg":
        return np.array([rng.choice([0.0, 0.25, 1.0, 4.0, rng.uniform(0.0, 5.0)]) for _ in range(n)], dtype=float)
    if kind == "weight":              # 1/sqrt(w) on both sides of the 1e8 clip (w = 1e-16 is the tie: both branches give 1e8)
        return np.array([rng.choice([1e-20, 1e-18, 4e-16, 1e-16, 2.5e-17, 1e-12, 0.25, 1.0, 4.0, rng.uniform(0.01, 9.0)]) for _ in range(n)])
    if kind == "weight0":
        return np.array([rng.choice([0.0, 0.0, 1e-20, 1e-16, 0.25, 1.0, rng.uniform(0.01, 9.0)]) for _ in range(n)])
    return gens.reals(rng, (n,), -5, 5, special=False)


def _gp(spec, scalars=None):
    """spec: {param: kind}; scalars: {param: callable(rng)}"""
    def g(rng, tier):
        for i in range(gens.budget(tier, 200, 2500)):
            n = i % 3 if i < 6 else rng.randint(0, 6)
            kw = {p: _vals(rng, n, k) for p, k in spec.items()}
            for p, f in (scalars or {}).items():
                kw[p] = f(rng)
            yield kw
    return g


_gain = lambda rng: rng.choice([-2.0, 0.5, 1.0, 2.0, 4.0, rng.uniform(0.1, 5.0)])
_nt_n = lambda **kw: any(isinstance(v, np.ndarray) and v.size > 1 for v in kw.values())
for _k, _g in [
    (K_E2C, _gp({"array_eps": "any", "exposure_time_map": "any"})),
    (K_C2E, _gp({"array_counts": "any", "exposure_time_map": "nz"})),
    (K_E2A, _gp({"array_eps": "any", "exposure_time_map": "any"}, {"gain": _gain})),
    (K_A2E, _gp({"array_adus": "any", "exposure_time_map": "nz"}, {"gain": _gain})),
    (K_CPS, _gp({"array_counts": "any"}, {"exposure_time": _gain})),
    (K_CPS + "#none", _gp({"array_counts": "any"}, {"exposure_time": lambda rng: None})),
    (K_INV, _gp({"inverse_noise_map": "nz"})),
    (K_W, _gp({"weight_map": "weight"})),
    (K_W + "#zero_weight", _gp({"weight_map": "weight0"})),
    (K_NB, _gp({"data_eps": "any", "exposure_time_map": "nz", "background_noise_map": "any"})),
    (K_NV, _gp({"data_eps": "any", "exposure_time_map": "pos", "background_variances": "nonneg"})),
    (K_ET, _gp({"background_noise_map": "nz"}, {"exposure_time": lambda rng: rng.choice([0.0, 1.0, -3.0, 1000.0, rng.uniform(0, 500)])})),
]:
    CONTRACTS[_k].gen = _g
    CONTRACTS[_k].nontrivial = _nt_n
CONTRACTS[K_W + "#zero_weight"].nontrivial = lambda **kw: bool((kw["weight_map"] == 0).any())

# ---- inverse pairs (compositions of the contracts above)
_AT = {"a": "real[1]", "t": "real[1]"}
_ATR = ["t.shape[0] == a.shape[0]", "forall(0, a.shape[0], lambda k: t[k] != 0)"]
corollary("C08.eps_to_counts_to_eps_is_identity", props=["C08", "C11"], vars=_AT, let={"N": "a.shape[0]"}, requires=_ATR,
          calls=[("c", K_E2C, {"array_eps": "a", "exposure_time_map": "t"}), ("e", K_C2E, {"array_counts": "c", "exposure_time_map": "t"})],
          ensures=["e.shape[0] == N", _each("e[k] == a[k]")],
          sentence="electrons per second -> counts -> electrons per second is the identity wherever the exposure time is non-zero")
corollary("C08.counts_to_eps_to_counts_is_identity", props=["C08", "C11"], vars=_AT, let={"N": "a.shape[0]"}, requires=_ATR,
          calls=[("e", K_C2E, {"array_counts": "a", "exposure_time_map": "t"}), ("c", K_E2C, {"array_eps": "e", "exposure_time_map": "t"})],
          ensures=["c.shape[0] == N", _each("c[k] == a[k]")],
          sentence="counts -> electrons per second -> counts is the identity wherever the exposure time is non-zero")
corollary("C08.eps_to_adus_to_eps_is_identity", props=["C08", "C11"], vars={**_AT, "g": "real"}, let={"N": "a.shape[0]"},
          requires=_ATR + ["g != 0"],
          calls=[("u", K_E2A, {"array_eps": "a", "exposure_time_map": "t", "gain": "g"}),
                 ("e", K_A2E, {"array_adus": "u", "exposure_time_map": "t", "gain": "g"})],
          ensures=["e.shape[0] == N", _each("e[k] == a[k]")],
          sentence="electrons per second -> ADUs -> electrons per second is the identity wherever exposure time and gain are non-zero")
corollary("C08.adus_to_eps_to_adus_is_identity", props=["C08", "C11"], vars={**_AT, "g": "real"}, let={"N": "a.shape[0]"},
          requires=_ATR + ["g != 0"],
          calls=[("e", K_A2E, {"array_adus": "a", "exposure_time_map": "t", "gain": "g"}),
                 ("u", K_E2A, {"array_eps": "e", "exposure_time_map": "t", "gain": "g"})],
          ensures=["u.shape[0] == N", _each("u[k] == a[k]")],
          sentence="ADUs -> electrons per second -> ADUs is the identity wherever exposure time and gain are non-zero")
corollary("C08.inverse_noise_map_twice_is_identity", props=["C08"], vars={"a": "real[1]"}, let={"N": "a.shape[0]"},
          requires=["forall(0, N, lambda k: a[k] != 0)"],
          calls=[("n", K_INV, {"inverse_noise_map": "a"}), ("m", K_INV, {"inverse_noise_map": "n"})],
          ensures=["m.shape[0] == N", _each("m[k] == a[k]")],
          sentence="inverting a noise map twice returns it")

# ================================================================================================ 2. remaining geometry / selection kernels
# native-form sibling of grid_pixel_centres_2d_slim_from (contracts/c02_geometry.py): the same per-point statement for a (Gy, Gx, 2) grid
_GS = {"H": "shape_native[0]", "W": "shape_native[1]", "sy": "pixel_scales[0]", "sx": "pixel_scales[1]", "oy": "origin[0]", "ox": "origin[1]"}
_GT = {"shape_native": "(int,int)", "pixel_scales": "(real,real)", "origin": "(real,real)"}
_NY = "cy(i, H, sy, oy) - sy / 2 < S[{y}, {x}, 0] and S[{y}, {x}, 0] < cy(i, H, sy, oy) + sy / 2"
_NX = "cx(j, W, sx, ox) - sx / 2 < S[{y}, {x}, 1] and S[{y}, {x}, 1] < cx(j, W, sx, ox) + sx / 2"


def _pc_done(arr, ylo, yhi, xlo, xhi):
    return ["forall(%s, %s, lambda a: forall(%s, %s, lambda b: forall(0, H, lambda i: implies(%s, %s[a, b, 0] == i))))"
            % (ylo, yhi, xlo, xhi, _NY.format(y="a", x="b"), arr),
            "forall(%s, %s, lambda a: forall(%s, %s, lambda b: forall(0, W, lambda j: implies(%s, %s[a, b, 1] == j))))"
            % (ylo, yhi, xlo, xhi, _NX.format(y="a", x="b"), arr)]


K_PC = G + "grid_pixel_centres_2d_from"
contract(K_PC, props=["C02", "C12"],
         types={"grid_scaled_2d": "real[3]", **_GT}, returns="real[3]",
         let={**_GS, "Gy": "grid_scaled_2d.shape[0]", "Gx": "grid_scaled_2d.shape[1]", "S": "grid_scaled_2d"},
         requires=["sy > 0", "sx > 0", "H >= 1", "W >= 1", "S.shape[2] == 2"],
         ensures=["result.shape[0] == Gy", "result.shape[1] == Gx", "result.shape[2] == 2",
                  "forall(0, Gy, lambda a: forall(0, Gx, lambda b: forall(0, H, lambda i: implies(" + _NY.format(y="a", x="b") +
                  ", result[a, b, 0] == i), pat=((result[a, b, 0], toreal(i)),))))",
                  "forall(0, Gy, lambda a: forall(0, Gx, lambda b: forall(0, W, lambda j: implies(" + _NX.format(y="a", x="b") +
                  ", result[a, b, 1] == j), pat=((result[a, b, 1], toreal(j)),))))"],
         loops={0: {"inv": _pc_done("grid_pixels_2d", "0", "y", "0", "Gx")},
                1: {"inv": _pc_done("grid_pixels_2d", "0", "y", "0", "Gx") + _pc_done("grid_pixels_2d", "y", "y + 1", "0", "x"),
                    "assert_at": {0: [
                        "forall(0, H, lambda i: implies(cy(i, H, sy, oy) - sy / 2 < S[y, x, 0] and S[y, x, 0] < cy(i, H, sy, oy) + sy / 2,"
                        " toint(-S[y, x, 0] / sy + centres_scaled[0] + 1 / 2) == i))",
                        "forall(0, W, lambda j: implies(cx(j, W, sx, ox) - sx / 2 < S[y, x, 1] and S[y, x, 1] < cx(j, W, sx, ox) + sx / 2,"
                        " toint(S[y, x, 1] / sx + centres_scaled[1] + 1 / 2) == j))"]}}},
         sentence={"forall": "every coordinate inside the extent converts to the index of the pixel whose square contains it (native grid)"})


def _g_pc(rng, tier):
    geoms = [((1, 1), (1.0, 1.0), (0.0, 0.0))] + [None] * gens.budget(tier, 300, 3000)
    for g in geoms:
        if g is None:
            g = ((rng.randint(1, 7), rng.randint(1, 7)), rng.choice([(1.0, 1.0), (0.5, 2.0), (2.0, 0.25), (0.1, 0.3), (3.0, 3.0)]),
                 rng.choice([(0.0, 0.0), (0.5, -1.0), (-3.0, 2.0), (100.0, -50.0)]))
        (H, W), ps, og = g
        gy, gx = rng.randint(0, 3), rng.randint(0, 3)
        # strictly inside a pixel of the frame (the statement's domain), away from pixel boundaries (there floating point decides)
        pts = np.array([[[og[0] + ((H - 1) / 2.0 - rng.randrange(H) + rng.uniform(-0.45, 0.45)) * ps[0],
                          og[1] + (rng.randrange(W) - (W - 1) / 2.0 + rng.uniform(-0.45, 0.45)) * ps[1]] for _ in range(gx)]
                        for _ in range(gy)], dtype=float).reshape(gy, gx, 2)
        yield {"grid_scaled_2d": pts, "shape_native": (H, W), "pixel_scales": ps, "origin": og}


CONTRACTS[K_PC].gen = _g_pc
CONTRACTS[K_PC].nontrivial = lambda **kw: kw["grid_scaled_2d"].size > 2
CONTRACTS[K_PC].no_int_twin = True      # integer twins round the query points onto pixel boundaries, where the statement says nothing

# C12 for the native form: an ARBITRARY entry (a, b) and the pixel (i, j) whose open square contains it (free variables = universally
# quantified); S2 is any grid whose (a, b) point is the translated one
_CY1 = "(o[0] + ((H - 1) / 2 - i) * sy)"
_CX1 = "(o[1] + (j - (W - 1) / 2) * sx)"
_CY2 = "((o[0] + d[0]) + ((H - 1) / 2 - i) * sy)"
_CX2 = "((o[1] + d[1]) + (j - (W - 1) / 2) * sx)"
_iny = lambda c, s: c + " - sy / 2 < " + s + "[a, b, 0] and " + s + "[a, b, 0] < " + c + " + sy / 2"
_inx = lambda c, s: c + " - sx / 2 < " + s + "[a, b, 1] and " + s + "[a, b, 1] < " + c + " + sx / 2"
corollary("C12.inv.grid_pixel_centres_2d_from", props=["C12"],
          vars={"S": "real[3]", "S2": "real[3]", "shape_native": "(int,int)", "ps": "(real,real)", "o": "(real,real)", "d": "(real,real)",
                "a": "int", "b": "int", "i": "int", "j": "int"},
          let={"H": "shape_native[0]", "W": "shape_native[1]", "sy": "ps[0]", "sx": "ps[1]"},
          requires=["sy > 0", "sx > 0", "H >= 1", "W >= 1", "S.shape[2] == 2", "S2.shape[0] == S.shape[0]", "S2.shape[1] == S.shape[1]",
                    "S2.shape[2] == 2", "0 <= a", "a < S.shape[0]", "0 <= b", "b < S.shape[1]", "0 <= i", "i < H", "0 <= j", "j < W",
                    "S2[a, b, 0] == S[a, b, 0] + d[0]", "S2[a, b, 1] == S[a, b, 1] + d[1]"],
          calls=[("r1", K_PC, {"grid_scaled_2d": "S", "shape_native": "shape_native", "pixel_scales": "ps", "origin": "o"}),
                 ("r2", K_PC, {"grid_scaled_2d": "S2", "shape_native": "shape_native", "pixel_scales": "ps",
                               "origin": "(o[0] + d[0], o[1] + d[1])"})],
          ensures=["r2.shape[0] == r1.shape[0] and r2.shape[1] == r1.shape[1]",
                   "implies(" + _iny(_CY1, "S") + ", (" + _iny(_CY2, "S2") + ") and r2[a, b, 0] == r1[a, b, 0] and r1[a, b, 0] == i)",
                   "implies(" + _inx(_CX1, "S") + ", (" + _inx(_CX2, "S2") + ") and r2[a, b, 1] == r1[a, b, 1] and r1[a, b, 1] == j)"],
          sentence="the pixel (y,x) indices of correspondingly translated points of a native grid are unchanged (points inside a pixel square)")

# ---- C04: the preconditioner matrix = normalization x B^T B (unit noise) + regularization matrix
K_PM = IU + "preconditioner_matrix_via_mapping_matrix_from"
contract(K_PM, props=["C04", "C11"],
         types={"mapping_matrix": "real[2]", "regularization_matrix": "real[2]", "preconditioner_noise_normalization": "real"},
         returns="real[2]", let={"N": "mapping_matrix.shape[0]", "P": "mapping_matrix.shape[1]"},
         requires=["regularization_matrix.shape[0] == P", "regularization_matrix.shape[1] == P"],
         ensures=["result.shape[0] == P", "result.shape[1] == P",
                  "forall(0, P, lambda i: forall(0, P, lambda j: result[i, j] == preconditioner_noise_normalization"
                  " * sumto(N, lambda d: mapping_matrix[d, i] * mapping_matrix[d, j]) + regularization_matrix[i, j]))"],
         sentence={"forall": "preconditioner = normalization x (B^T B with unit noise) + H, element-wise; inputs unmodified, result fresh"})


def _g_pm(rng, tier):
    for _ in range(gens.budget(tier, 200, 2000)):
        n, p = rng.randint(0, 5), rng.randint(0, 3)
        yield {"mapping_matrix": gens.reals(rng, (n, p), -3, 3, special=False), "regularization_matrix": gens.reals(rng, (p, p), -3, 3, special=False),
               "preconditioner_noise_normalization": rng.choice([0.0, 1.0, 2.5, -1.0, rng.uniform(0, 10)])}


CONTRACTS[K_PM].gen = _g_pm
CONTRACTS[K_PM].nontrivial = lambda **kw: kw["mapping_matrix"].size > 1

# ---- C18 / C09: for every slim pixel, the list of its sub-pixel slim indexes
K_SS = BR + "sub_slim_indexes_for_slim_index_via_mask_2d_from"
contract(K_SS, props=["C18", "C09"], mode="bounded",
         types={"mask_2d": "bool[2]", "sub_size": "int[1]"}, returns=None,
         let={"T": "total(mask_2d)"},
         requires=["sub_size.shape[0] == T", "forall(0, T, lambda k: sub_size[k] >= 1)"],
         ensures=["len(result) == T",
                  # the k-th list holds exactly the sub_size[k]^2 sub-pixel slim indexes of pixel k, in increasing order: the block that
                  # starts after the blocks of the pixels before k ...
                  "forall(0, T, lambda k: len(result[k]) == sub_size[k] ** 2)",
                  "forall(0, T, lambda k: forall(0, sub_size[k] ** 2, lambda m: result[k][m] == sumto(k, lambda q: sub_size[q] ** 2) + m))",
                  # ... i.e. entry a * s + b is the over-sampled slim index of sub-pixel (a, b) of pixel k (C09 ordering)
                  "forall(0, T, lambda k: forall(0, sub_size[k], lambda a: forall(0, sub_size[k], lambda b:"
                  " result[k][a * sub_size[k] + b] == c09_blk(sub_size, k, a, b))))"],
         note="bounded: the result is a Python list of lists built by a list comprehension and filled by `enumerate` over an array "
              "(`list[list[int]]` values are outside the engine-A subset)",
         sentence={"forall": "the k-th list holds exactly the sub-pixel slim indexes of pixel k, in order"})


def _g_ss(rng, tier):
    for m in gens.all_masks(gens.budget(tier, 6, 9)):
        t = int((~m).sum())
        yield {"mask_2d": m, "sub_size": np.array([rng.choice([1, 2, 3]) for _ in range(t)], dtype=int)}
    for _ in range(gens.budget(tier, 60, 1000)):
        m = gens.random_mask(rng, 5, 5)
        t = int((~m).sum())
        yield {"mask_2d": m, "sub_size": np.array([rng.choice([1, 1, 2, 3, 4]) for _ in range(t)], dtype=int)}


CONTRACTS[K_SS].gen = _g_ss
CONTRACTS[K_SS].nontrivial = lambda **kw: kw["sub_size"].shape[0] > 1 and int(kw["sub_size"].max()) > 1

# ---- C02: points of a grid within a radius.  DEFECT (reported, contract NOT enabled: it fails on the unchanged tree on EVERY input that
# selects a point).  grid_2d_util.grid_2d_of_points_within_radius (no caller in the repo) (1) tests `> radius ** 2`, i.e. collects the
# points OUTSIDE the circle, and (2) returns `np.asarray(y_inside, x_inside)`, which passes the x list as numpy's `dtype` argument:
#   grid_2d = [[0, 0], [3, 0], [0, .5]], centre = (0, 0), radius = 1  ->  TypeError: Field elements must be 2- or 3-tuples, got 'np.float64(0.0)'
#   radius = 10 (nothing collected)                                 ->  array([], dtype=[])  (a structured void array, not a (0, 2) grid).
# The contract states what the name demands: exactly the points with squared distance < radius^2, in order (rank function over the
# derived mask "point x is NOT inside").  Attach `_g_within` together with a known_findings.json entry to track it.
K_WR = G2 + "grid_2d_of_points_within_radius"
_OUT = "arr1(N, lambda x: not ((grid_2d[x, 0] - centre[0]) ** 2 + (grid_2d[x, 1] - centre[1]) ** 2 < radius ** 2))"
contract(K_WR, props=["C02"], mode="bounded",
         types={"radius": "real", "centre": "(real,real)", "grid_2d": "real[2]"}, returns="real[2]",
         let={"N": "grid_2d.shape[0]", "Out": _OUT},
         requires=["grid_2d.shape[1] == 2"],
         ensures=["result.shape[0] == cnt1(Out, N)", "result.shape[1] == 2",
                  "forall(0, N, lambda x: implies(not Out[x], result[cnt1(Out, x), 0] == grid_2d[x, 0] and result[cnt1(Out, x), 1] == grid_2d[x, 1]))"],
         note="bounded and NOT enabled: the real code raises TypeError / selects the complement (see the comment above)",
         sentence={"forall": "exactly the points with squared distance < radius^2 from the centre, in their original order"})


def _g_within(rng, tier):
    yield {"radius": 1.0, "centre": (0.0, 0.0), "grid_2d": np.array([[0.0, 0.0], [3.0, 0.0], [0.0, 0.5]])}
    for _ in range(gens.budget(tier, 100, 1000)):
        n = rng.randint(0, 6)
        yield {"radius": rng.choice([0.5, 1.0, 2.0, 10.0]), "centre": (rng.choice([0.0, 1.0]), rng.choice([0.0, -0.5])),
               "grid_2d": gens.reals(rng, (n, 2), -3, 3, special=False)}


# ---- C10 / C14: a mask rescaled by a factor (skimage.transform.rescale is external: engine C only)
K_RM = "autoarray.mask.mask_2d_util:rescaled_mask_2d_from"
_RH, _RW = "result.shape[0]", "result.shape[1]"
contract(K_RM, props=["C10", "C14", "C11"], mode="bounded",
         types={"mask_2d": "bool[2]", "rescale_factor": "real"}, returns="bool[2]",
         let={"H": "mask_2d.shape[0]", "W": "mask_2d.shape[1]"},
         requires=["H >= 1", "W >= 1", "rescale_factor > 0"],
         ensures=[
             # the shape is the rescaled shape rounded to the nearest integer (at least one pixel)
             _RH + " >= 1 and (abs(" + _RH + " - H * rescale_factor) <= 1 / 2 or (" + _RH + " == 1 and H * rescale_factor < 1))",
             _RW + " >= 1 and (abs(" + _RW + " - W * rescale_factor) <= 1 / 2 or (" + _RW + " == 1 and W * rescale_factor < 1))",
             # the outer ring of the rescaled mask is masked; every interior pixel takes the value of the input pixel that contains its
             # centre (nearest-neighbour resampling: centre (i + 1/2) / H' of the unit square lies in input row floor((i + 1/2) H / H'))
             "forall(0, " + _RH + ", lambda i: forall(0, " + _RW + ", lambda j: result[i, j] == (True if (i == 0 or j == 0 or i == "
             + _RH + " - 1 or j == " + _RW + " - 1) else mask_2d[((2 * i + 1) * H) // (2 * " + _RH + "), ((2 * j + 1) * W) // (2 * " + _RW + ")])))"],
         note="bounded: skimage.transform.rescale is an external library call (no source to read symbolically); try/except TypeError "
              "around it selects the keyword set of the installed skimage version",
         sentence={"forall": "rescaling a mask resamples it by nearest neighbour onto the rescaled shape and masks the outer ring; "
                             "the input mask is unmodified"})


def _g_rm(rng, tier):
    for m in gens.all_masks(gens.budget(tier, 4, 6)):
        for f in (1.0, 2.0, 0.5, 3.0):
            yield {"mask_2d": m, "rescale_factor": f}
    for _ in range(gens.budget(tier, 150, 1500)):
        yield {"mask_2d": gens.random_mask(rng, 7, 7), "rescale_factor": rng.choice([0.5, 1.0, 2.0, 3.0, 1.5, 0.7, 2.3, 0.25, 1.2])}


CONTRACTS[K_RM].gen = _g_rm
CONTRACTS[K_RM].nontrivial = lambda **kw: min(kw["mask_2d"].shape) * kw["rescale_factor"] >= 3

# ================================================================================================ preprocess.py: object-valued functions
# Engine C only.  The arguments are real autoarray objects (built by rt_wrap from the generated ndarrays); `cov_untouched(result)` checks
# on those very objects that every array they hold is bit-identical after the call and that the result shares no memory with them.
_HOLD = {"objs": [], "snaps": []}


def _raw(o):
    return o._array if hasattr(o, "_array") else np.asarray(o)


def _hold(*objs):
    _HOLD["objs"] = list(objs)
    _HOLD["snaps"] = [(_raw(o).copy(), _raw(o).dtype, _raw(o).shape) for o in objs]


def _untouched(res):
    rr = _raw(res) if not isinstance(res, (list, tuple)) else None
    for o, (snap, dt, shp) in zip(_HOLD["objs"], _HOLD["snaps"]):
        a = _raw(o)
        if a.dtype != dt or a.shape != shp or a.tobytes() != snap.tobytes():
            return False
        if res is o or (isinstance(rr, np.ndarray) and rr.size and np.shares_memory(rr, a)):
            return False
    return True


macro("cov_untouched", ["res"], "True", py=_untouched)


def _a2d(v):
    import autoarray as aa
    return aa.Array2D.no_mask(values=np.array(v, dtype=float), pixel_scales=1.0)


# ---- edges_from: the `no_edges` outermost rings of the native image, ring by ring from the outside, each ring listed as
# top row (left to right), bottom row (left to right), right column (top to bottom, corners excluded), left column (likewise)
K_ED = PP + "edges_from"
_OFF = "sumto({e}, lambda q: 2 * (W - 2 * q) + 2 * (H - 2 - 2 * q))"
_RING = lambda body: "forall(0, no_edges, lambda e: " + body + ")"


def _wrap_edges(kw):
    kw["image"] = _a2d(kw["image"])
    _hold(kw["image"])
    return kw


contract(K_ED, props=["C11", "C14"], mode="bounded", rt_wrap=_wrap_edges,
         types={"image": "real[2]", "no_edges": "int"}, returns="real[1]",
         let={"H": "image.shape[0]", "W": "image.shape[1]"},
         # (no_edges == 0 returns the empty Python list, deeper rings than the image has wrap around: outside the statement)
         requires=["no_edges >= 1", "2 * no_edges <= H", "2 * no_edges <= W"],
         ensures=["result.shape[0] == " + _OFF.format(e="no_edges"),
                  _RING("forall(0, W - 2 * e, lambda c: result[" + _OFF.format(e="e") + " + c] == image[e, e + c])"),
                  _RING("forall(0, W - 2 * e, lambda c: result[" + _OFF.format(e="e") + " + (W - 2 * e) + c] == image[H - 1 - e, e + c])"),
                  _RING("forall(0, H - 2 - 2 * e, lambda r: result[" + _OFF.format(e="e") + " + 2 * (W - 2 * e) + r] == image[e + 1 + r, W - 1 - e])"),
                  _RING("forall(0, H - 2 - 2 * e, lambda r: result[" + _OFF.format(e="e") + " + 2 * (W - 2 * e) + (H - 2 - 2 * e) + r] == image[e + 1 + r, e])"),
                  "cov_untouched(result)"],
         note="bounded: the argument is an Array2D object (`.native`, `.shape_native`) and the result is grown by np.concatenate onto a Python list",
         sentence={"forall": "the edges are the outermost rings of the native image: every border pixel of ring e exactly once, in the order "
                             "top, bottom, right, left; the image is unmodified"})


def _g_edges(rng, tier):
    for (H, W) in [(2, 2), (2, 3), (3, 2), (3, 3), (4, 5), (5, 4), (6, 6), (4, 4)]:
        for ne in range(1, min(H, W) // 2 + 1):
            yield {"image": np.arange(float(H * W)).reshape(H, W), "no_edges": ne}
    for _ in range(gens.budget(tier, 100, 1000)):
        H, W = rng.randint(2, 8), rng.randint(2, 8)
        yield {"image": gens.reals(rng, (H, W), -5, 5, special=False), "no_edges": rng.randint(1, min(H, W) // 2)}


CONTRACTS[K_ED].gen = _g_edges
CONTRACTS[K_ED].nontrivial = lambda **kw: kw["no_edges"] >= 2

# ---- noise_map_with_signal_to_noise_limit_from: per-element rule
K_SN = PP + "noise_map_with_signal_to_noise_limit_from"
_SNR = ("(abs(data[i, j]) / signal_to_noise_limit if (max(data[i, j] / noise_map[i, j], 0) > signal_to_noise_limit{m})"
        " else noise_map[i, j])")


def _wrap_sn(kw):
    kw["data"], kw["noise_map"] = _a2d(kw["data"]), _a2d(kw["noise_map"])
    _hold(kw["data"], kw["noise_map"])
    return kw


def _sn_contract(key, mask_type, m, enabled_req, note_extra=""):
    contract(key, props=["C08", "C11"], mode="bounded", rt_wrap=_wrap_sn,
             types={"data": "real[2]", "noise_map": "real[2]", "signal_to_noise_limit": "real", "noise_limit_mask": mask_type}, returns=None,
             let={"H": "data.shape[0]", "W": "data.shape[1]"},
             requires=["noise_map.shape[0] == H", "noise_map.shape[1] == W", "signal_to_noise_limit != 0",
                       "forall(0, H, lambda i: forall(0, W, lambda j: noise_map[i, j] != 0))"] + enabled_req,
             ensures=["result.native.shape[0] == H and result.native.shape[1] == W",
                      "forall(0, H, lambda i: forall(0, W, lambda j: result.native[i, j] == " + _SNR.format(m=m) + "))",
                      "cov_untouched(result)"],
             note="bounded: Array2D arguments (`.native`, `.shape_native`), np.where and the Array2D / Mask2D constructors are outside the subset" + note_extra,
             sentence={"forall": "where the signal-to-noise (negatives clipped to zero) exceeds the limit and the pixel is not excluded by the "
                                 "limit mask the noise becomes |data| / limit, every other noise value is kept; inputs unmodified"})


# A one-row 2-D array (shape (1, W), W > 1) takes the `len(noise_map.native) == 1` branch meant for 1-D data and raises ValueError
# (Array1D built with a 2-D mask): data = [[1, 10, 3]], noise_map = [[1, 2, 1]], limit = 2.  The enabled contracts cover H >= 2;
# `#one_row` states the same rule for H == 1 and is NOT enabled (it fails on the unchanged tree).
_sn_contract(K_SN, "none", "", ["H >= 2"])
_sn_contract(K_SN + "#with_limit_mask", "bool[2]", " and not noise_limit_mask[i, j]",
             ["H >= 2", "noise_limit_mask.shape[0] == H", "noise_limit_mask.shape[1] == W"])
_sn_contract(K_SN + "#one_row", "none", "", ["H == 1", "W >= 2"], note_extra="; NOT enabled: the real code raises ValueError for one-row data")


def _sn_case(rng, H, W):
    t = rng.choice([2.0, 1.0, 0.5, 4.0])
    nm = np.array([[rng.choice([0.25, 0.5, 1.0, 2.0, 4.0]) for _ in range(W)] for _ in range(H)])
    # S/N drawn away from the threshold except for exactly representable ties (dyadic values: every product / quotient is exact)
    sn = np.array([[rng.choice([-8.0, -t, 0.0, t, t * 2, t / 2, t * 4, rng.uniform(0, t * 0.99), rng.uniform(t * 1.01, 3 * t), -rng.uniform(0, 9)])
                    for _ in range(W)] for _ in range(H)])
    return {"data": sn * nm, "noise_map": nm, "signal_to_noise_limit": t}


def _g_sn(with_mask, one_row=False):
    def g(rng, tier):
        for _ in range(gens.budget(tier, 150, 1500)):
            H, W = (1 if one_row else rng.randint(2, 4)), rng.randint(2 if one_row else 1, 4)
            kw = _sn_case(rng, H, W)
            kw["noise_limit_mask"] = gens.random_mask(rng, H, W, hmin=H, wmin=W) if with_mask else None
            yield kw
    return g


CONTRACTS[K_SN].gen = _g_sn(False)
CONTRACTS[K_SN + "#with_limit_mask"].gen = _g_sn(True)
for _k in (K_SN, K_SN + "#with_limit_mask"):
    CONTRACTS[_k].nontrivial = lambda **kw: bool((kw["data"] / kw["noise_map"] > kw["signal_to_noise_limit"]).any())
    CONTRACTS[_k].no_int_twin = True          # integer twins round the dyadic S/N values onto / across the threshold

# ---- visibilities_noise_map_with_signal_to_noise_limit_from: the same rule separately on real and imaginary parts
K_VS = PP + "visibilities_noise_map_with_signal_to_noise_limit_from"
_VR = ("({p}(data[k]) / signal_to_noise_limit if max({p}(data[k]) / {p}(noise_map[k]), 0) > signal_to_noise_limit else {p}(noise_map[k]))")


def _wrap_vis(kw):
    import autoarray as aa
    kw["data"] = aa.Visibilities(visibilities=np.array(kw["data"], dtype=complex))
    kw["noise_map"] = aa.VisibilitiesNoiseMap(visibilities=np.array(kw["noise_map"], dtype=complex))
    _hold(kw["data"], kw["noise_map"])
    return kw


contract(K_VS, props=["C08", "C11"], mode="bounded", rt_wrap=_wrap_vis,
         types={"data": "complex[1]", "noise_map": "complex[1]", "signal_to_noise_limit": "real"}, returns=None,
         let={"N": "data.shape[0]"},
         requires=["noise_map.shape[0] == N", "N >= 1", "signal_to_noise_limit != 0",
                   "forall(0, N, lambda k: creal(noise_map[k]) != 0 and cimag(noise_map[k]) != 0)"],
         ensures=["result.shape[0] == N",
                  "forall(0, N, lambda k: creal(result[k]) == " + _VR.format(p="creal") + " and cimag(result[k]) == " + _VR.format(p="cimag") + ")",
                  "cov_untouched(result)"],
         note="bounded: Visibilities arguments, np.real / np.imag / np.where and the VisibilitiesNoiseMap constructor are outside the subset",
         sentence={"forall": "real and imaginary noise are limited separately: where the part's signal-to-noise (negatives clipped to zero) "
                             "exceeds the limit it becomes part(data) / limit, otherwise it is kept; inputs unmodified"})


def _g_vis(rng, tier):
    for _ in range(gens.budget(tier, 150, 1500)):
        n = rng.randint(1, 5)
        a, b = _sn_case(rng, 1, n), _sn_case(rng, 1, n)
        t = a["signal_to_noise_limit"]
        b["data"] = b["data"] / b["signal_to_noise_limit"] * t          # same limit for both parts (dyadic rescale: exact)
        yield {"data": (a["data"][0] + 1j * b["data"][0]), "noise_map": (a["noise_map"][0] + 1j * b["noise_map"][0]), "signal_to_noise_limit": t}


CONTRACTS[K_VS].gen = _g_vis
CONTRACTS[K_VS].no_int_twin = True
CONTRACTS[K_VS].nontrivial = lambda **kw: bool((kw["data"].real / kw["noise_map"].real > kw["signal_to_noise_limit"]).any())

# ---- the same converters / noise rules called the way the datasets call them: on Array2D OBJECTS (engine C only).  Value formula per
# native pixel + `cov_untouched`: no array held by any argument object changes and the result shares no memory with them (C11).
_OBJ_KINDS = {}


def _wrap_objs(names):
    def w(kw):
        for n in names:
            kw[n] = _a2d(kw[n])
        _hold(*[kw[n] for n in names])
        return kw
    return w


def _obj_variant(base, arrays, formula, kinds, scalars=None, extra_req=(), key=None):
    first = arrays[0]
    key = key or (base + "#array_2d_objects")
    contract(key, props=["C11", "C08"], mode="bounded", rt_wrap=_wrap_objs(arrays),
             types={**{a: "real[2]" for a in arrays}, **{s: "real" for s in (scalars or {})}}, returns=None,
             let={"H": first + ".shape[0]", "W": first + ".shape[1]"},
             requires=[c for a in arrays[1:] for c in ("%s.shape[0] == H" % a, "%s.shape[1] == W" % a)] + ["H >= 1", "W >= 1"] + list(extra_req),
             ensures=["result.native.shape[0] == H and result.native.shape[1] == W",
                      "forall(0, H, lambda i: forall(0, W, lambda j: result.native[i, j] == " + formula + "))",
                      "cov_untouched(result)"],
             note="bounded: Array2D arguments (operator overloading / with_new_array of the structure classes) are outside the subset",
             sentence={"forall": "the same element-wise rule on Array2D objects; no argument object is modified, the result is a new object"})

    def g(rng, tier):
        for _ in range(gens.budget(tier, 60, 600)):
            H, W = rng.randint(1, 3), rng.randint(1, 3)
            kw = {a: _vals(rng, H * W, kinds[a]).reshape(H, W) for a in arrays}
            for s, f in (scalars or {}).items():
                kw[s] = f(rng)
            yield kw
    CONTRACTS[key].gen = g
    CONTRACTS[key].nontrivial = lambda **kw: kw[first].size > 1
    return key


def _nz2(a):
    return "forall(0, H, lambda i: forall(0, W, lambda j: %s[i, j] != 0))" % a


_T = "exposure_time_map"
_obj_variant(K_E2C, ["array_eps", _T], "array_eps[i, j] * exposure_time_map[i, j]", {"array_eps": "any", _T: "any"})
_obj_variant(K_C2E, ["array_counts", _T], "array_counts[i, j] / exposure_time_map[i, j]", {"array_counts": "any", _T: "nz"}, extra_req=[_nz2(_T)])
_obj_variant(K_E2A, ["array_eps", _T], "array_eps[i, j] * exposure_time_map[i, j] / gain", {"array_eps": "any", _T: "any"}, {"gain": _gain},
             extra_req=["gain != 0"])
_obj_variant(K_A2E, ["array_adus", _T], "gain * array_adus[i, j] / exposure_time_map[i, j]", {"array_adus": "any", _T: "nz"}, {"gain": _gain},
             extra_req=[_nz2(_T)])
_obj_variant(K_CPS, ["array_counts"], "array_counts[i, j] / exposure_time", {"array_counts": "any"}, {"exposure_time": _gain},
             extra_req=["exposure_time != 0"])
_obj_variant(K_INV, ["inverse_noise_map"], "1 / inverse_noise_map[i, j]", {"inverse_noise_map": "nz"}, extra_req=[_nz2("inverse_noise_map")])
_obj_variant(K_W, ["weight_map"], "(100000000.0 if weight_map[i, j] == 0 else min(1 / sqrt(weight_map[i, j]), 100000000.0))",
             {"weight_map": "weight0"}, extra_req=["forall(0, H, lambda i: forall(0, W, lambda j: weight_map[i, j] >= 0))"])
_obj_variant(K_NB, ["data_eps", _T, "background_noise_map"],
             "sqrt(abs(data_eps[i, j] * exposure_time_map[i, j]) + (background_noise_map[i, j] * exposure_time_map[i, j]) ** 2) / exposure_time_map[i, j]",
             {"data_eps": "any", _T: "nz", "background_noise_map": "any"}, extra_req=[_nz2(_T)])
_obj_variant(K_NV, ["data_eps", _T, "background_variances"],
             "sqrt(abs(data_eps[i, j] * exposure_time_map[i, j]) + background_variances[i, j] * exposure_time_map[i, j]) / exposure_time_map[i, j]",
             {"data_eps": "any", _T: "pos", "background_variances": "nonneg"},
             extra_req=[_nz2(_T), "forall(0, H, lambda i: forall(0, W, lambda j: abs(data_eps[i, j] * exposure_time_map[i, j])"
                                  " + background_variances[i, j] * exposure_time_map[i, j] >= 0))"])
# the Poisson-only noise rule exists for objects only (`data_eps.with_new_array`)
K_NP = PP + "noise_map_via_data_eps_and_exposure_time_map_from"
_obj_variant(K_NP, ["data_eps", _T], "sqrt(abs(data_eps[i, j] * exposure_time_map[i, j])) / exposure_time_map[i, j]",
             {"data_eps": "any", _T: "nz"}, extra_req=[_nz2(_T)], key=K_NP)
