"""C12 -- all geometry is covariant under translation of the coordinate origin.

Corollaries over the EXISTING contracts only (no code is re-verified here):
  * coordinate-valued functions: calling with origin o + d instead of o shifts every returned coordinate by exactly d;
  * index-valued functions: translating BOTH the query coordinates and the origin by d leaves the result unchanged.
A translated copy of an array argument is introduced as a fresh variable (`S2`) related elementwise to the original by a
`requires`.  Where a callee contract only speaks about coordinates inside (open) pixel squares, the corollary is stated for
exactly those coordinates -- the contracts are not strengthened here.
"""
from pyvc.contract import corollary

G = "autoarray.geometry.geometry_util:"
G2 = "autoarray.structures.grids.grid_2d_util:"
U = "autoarray.operators.over_sampling.over_sample_util:"

OD = {"o": "(real,real)", "d": "(real,real)"}
O1 = "o"
O2 = "(o[0] + d[0], o[1] + d[1])"
SHP = {"H": "shape_native[0]", "W": "shape_native[1]", "sy": "ps[0]", "sx": "ps[1]"}
GEO = {"shape_native": "(int,int)", "ps": "(real,real)"}


def _two(key, args, origin_param):
    """the same call at origin o and at origin o + d"""
    return [("r1", key, {**args, origin_param: O1}), ("r2", key, {**args, origin_param: O2})]


# ----------------------------------------------------------------------------- coordinate-valued: f(o + d) == f(o) + d
# the mechanism: the origin enters every grid only through the "central scaled coordinate" (the origin expressed as a
# fractional pixel position: rows grow downwards, so +d_y is -d_y/s_y ... the function returns +o_y/s_y by its own sign
# convention); translating the origin by d moves it by exactly d measured in pixels
corollary("C12.cov.central_scaled_coordinate_2d_from", props=["C12"],
          vars={**GEO, **OD}, let=SHP, requires=["sy != 0", "sx != 0"],
          calls=_two(G + "central_scaled_coordinate_2d_from", {"shape_native": "shape_native", "pixel_scales": "ps"}, "origin"),
          ensures=["r2[0] == r1[0] + d[0] / sy", "r2[1] == r1[1] - d[1] / sx"],
          sentence="the central scaled coordinate moves by exactly d (in pixel units) when the origin is translated by d")

corollary("C12.cov.scaled_coordinates_2d_from", props=["C12"],
          vars={"p": "(int,int)", **GEO, **OD}, let=SHP, requires=["sy != 0", "sx != 0"],
          calls=_two(G + "scaled_coordinates_2d_from", {"pixel_coordinates_2d": "p", "shape_native": "shape_native", "pixel_scales": "ps"}, "origins"),
          ensures=["r2[0] == r1[0] + d[0]", "r2[1] == r1[1] + d[1]"],
          sentence="translating the origin by d translates the scaled coordinate of every pixel by exactly d")

corollary("C12.cov.grid_scaled_2d_slim_from", props=["C12"],
          vars={"P": "real[2]", **GEO, **OD}, let=SHP, requires=["sy != 0", "sx != 0", "P.shape[1] == 2"],
          calls=_two(G + "grid_scaled_2d_slim_from", {"grid_pixels_2d_slim": "P", "shape_native": "shape_native", "pixel_scales": "ps"}, "origin"),
          ensures=["r2.shape[0] == r1.shape[0] and r1.shape[0] == P.shape[0]",
                   "forall(0, P.shape[0], lambda k: r2[k, 0] == r1[k, 0] + d[0] and r2[k, 1] == r1[k, 1] + d[1])"],
          sentence="translating the origin by d translates every coordinate of the scaled grid by exactly d")

corollary("C12.cov.grid_2d_slim_via_mask_from", props=["C12"],
          vars={"M": "bool[2]", "ps": "(real,real)", **OD}, let={"H": "M.shape[0]", "W": "M.shape[1]"},
          requires=["ps[0] != 0", "ps[1] != 0"],
          calls=_two(G2 + "grid_2d_slim_via_mask_from", {"mask_2d": "M", "pixel_scales": "ps"}, "origin"),
          ensures=["r2.shape[0] == r1.shape[0] and r1.shape[0] == total(M)",
                   "forall(0, H, lambda y: forall(0, W, lambda x: implies(not M[y, x],"
                   " r2[cnt2(M, y, x), 0] == r1[cnt2(M, y, x), 0] + d[0] and r2[cnt2(M, y, x), 1] == r1[cnt2(M, y, x), 1] + d[1])))",
                   # every slim entry k: k is the rank _RK == k of its own pixel (lemma pixx.surj), so this IS the
                   # statement about entry k (the index is written as the rank term to keep the proof on e-matching)
                   "forall(0, total(M), lambda k: _RK == k and r2[_RK, 0] == r1[_RK, 0] + d[0] and r2[_RK, 1] == r1[_RK, 1] + d[1])"
                   .replace("_RK", "cnt2(M, pixy(M, k), pixx(M, k))")],
          sentence="translating the origin of a mask by d translates every pixel centre of its grid by exactly d")

corollary("C12.cov.grid_2d_slim_over_sampled_via_mask_from", props=["C12", "C09"],
          vars={"M": "bool[2]", "S": "int[1]", "ps": "(real,real)", **OD},
          let={"H": "M.shape[0]", "W": "M.shape[1]", "N": "S.shape[0]"},
          requires=["N == total(M)", "forall(0, N, lambda k: S[k] >= 1)", "ps[0] != 0", "ps[1] != 0"],
          calls=_two(U + "grid_2d_slim_over_sampled_via_mask_from", {"mask_2d": "M", "pixel_scales": "ps", "sub_size": "S"}, "origin"),
          ensures=["r2.shape[0] == r1.shape[0]",
                   # every sub-pixel (a, b) of every unmasked pixel (y, x)
                   "forall(0, H, lambda y: forall(0, W, lambda x: forall(0, c09_sub(M, S, y, x), lambda a:"
                   " forall(0, c09_sub(M, S, y, x), lambda b:"
                   " r2[c09_blk(S, cnt2(M, y, x), a, b), 0] == r1[c09_blk(S, cnt2(M, y, x), a, b), 0] + d[0]"
                   " and r2[c09_blk(S, cnt2(M, y, x), a, b), 1] == r1[c09_blk(S, cnt2(M, y, x), a, b), 1] + d[1]))))"],
          sentence="translating the origin by d translates every over-sampled sub-pixel centre by exactly d")


# ----------------------------------------------------------------------------- index-valued: f(q + d, o + d) == f(q, o)
POS = ["sy > 0", "sx > 0", "H >= 1", "W >= 1"]
_CY = "(o[0] + ((H - 1) / 2 - i) * sy)"        # centre of pixel row i / column j at origin o (the property's formula)
_CX = "(o[1] + (j - (W - 1) / 2) * sx)"

# the contract of pixel_coordinates_2d_from constrains only coordinates inside an open pixel square of the extent, so the
# invariance can be derived for exactly those (i, j: the pixel whose square contains q)
corollary("C12.inv.pixel_coordinates_2d_from", props=["C12"],
          vars={"q": "(real,real)", "i": "int", "j": "int", **GEO, **OD}, let=SHP,
          requires=POS + ["0 <= i", "i < H", "0 <= j", "j < W",
                          _CY + " - sy / 2 < q[0]", "q[0] < " + _CY + " + sy / 2",
                          _CX + " - sx / 2 < q[1]", "q[1] < " + _CX + " + sx / 2"],
          calls=[("r1", G + "pixel_coordinates_2d_from", {"scaled_coordinates_2d": "q", "shape_native": "shape_native",
                                                          "pixel_scales": "ps", "origins": O1}),
                 ("r2", G + "pixel_coordinates_2d_from", {"scaled_coordinates_2d": "(q[0] + d[0], q[1] + d[1])",
                                                          "shape_native": "shape_native", "pixel_scales": "ps", "origins": O2})],
          ensures=["r2[0] == r1[0] and r2[1] == r1[1]", "r1[0] == i and r1[1] == j"],
          sentence="the pixel index of a correspondingly translated point is unchanged (points inside a pixel square of the extent)")

# S2: the query grid translated by d, elementwise
_S2 = ["S.shape[1] == 2", "S2.shape[0] == S.shape[0]", "S2.shape[1] == 2",
       "forall(0, S.shape[0], lambda k: S2[k, 0] == S[k, 0] + d[0], pat=S2[k, 0])",
       "forall(0, S.shape[0], lambda k: S2[k, 1] == S[k, 1] + d[1], pat=S2[k, 1])"]
_GV = {"S": "real[2]", "S2": "real[2]", **GEO, **OD}
_GL = {**SHP, "N": "S.shape[0]"}


def _both(key):
    return [("r1", key, {"grid_scaled_2d_slim": "S", "shape_native": "shape_native", "pixel_scales": "ps", "origin": O1}),
            ("r2", key, {"grid_scaled_2d_slim": "S2", "shape_native": "shape_native", "pixel_scales": "ps", "origin": O2})]


_INY = _CY + " - sy / 2 < S[k, 0] and S[k, 0] < " + _CY + " + sy / 2"
_INX = _CX + " - sx / 2 < S[k, 1] and S[k, 1] < " + _CX + " + sx / 2"

corollary("C12.inv.grid_pixels_2d_slim_from", props=["C12"],
          vars=_GV, let=_GL, requires=["sy != 0", "sx != 0"] + _S2,
          calls=_both(G + "grid_pixels_2d_slim_from"),
          ensures=["r2.shape[0] == r1.shape[0]",
                   "forall(0, N, lambda k: r2[k, 0] == r1[k, 0] and r2[k, 1] == r1[k, 1])"],
          sentence="the continuous pixel coordinates of correspondingly translated points are unchanged (all points)")

# For the two truncating conversions the statement is made about an ARBITRARY entry k and the pixel (i, j) whose open
# square contains it (k, i, j are free variables of the corollary = universally quantified): the goals are then ground.
# Only entry k of the translated grid matters, so S2 is related to S at entry k alone (any two grids whose k-th points
# differ by d) -- more general than a fully translated copy, and no quantified hypothesis is needed.
# The first conjuncts of the conclusions restate "the translated point lies in the translated square" -- the hypothesis
# of the callee's postcondition at origin o + d.
_CY2 = "((o[0] + d[0]) + ((H - 1) / 2 - i) * sy)"
_CX2 = "((o[1] + d[1]) + (j - (W - 1) / 2) * sx)"
_INY2 = _CY2 + " - sy / 2 < S2[k, 0] and S2[k, 0] < " + _CY2 + " + sy / 2"
_INX2 = _CX2 + " - sx / 2 < S2[k, 1] and S2[k, 1] < " + _CX2 + " + sx / 2"
_KIJ = {"k": "int", "i": "int", "j": "int"}
_S2K = ["S.shape[1] == 2", "S2.shape[0] == S.shape[0]", "S2.shape[1] == 2",
        "0 <= k", "k < N", "0 <= i", "i < H", "0 <= j", "j < W",
        "S2[k, 0] == S[k, 0] + d[0]", "S2[k, 1] == S[k, 1] + d[1]"]

corollary("C12.inv.grid_pixel_centres_2d_slim_from", props=["C12"],
          vars={**_GV, **_KIJ}, let=_GL, requires=POS + _S2K,
          calls=_both(G + "grid_pixel_centres_2d_slim_from"),
          ensures=["r2.shape[0] == r1.shape[0]",
                   "implies(" + _INY + ", (" + _INY2 + ") and r2[k, 0] == r1[k, 0] and r1[k, 0] == i)",
                   "implies(" + _INX + ", (" + _INX2 + ") and r2[k, 1] == r1[k, 1] and r1[k, 1] == j)"],
          sentence="the pixel (y,x) indices of correspondingly translated points are unchanged (points inside a pixel square of the extent)")

corollary("C12.inv.grid_pixel_indexes_2d_slim_from", props=["C12"],
          vars={**_GV, **_KIJ}, let=_GL, requires=POS + _S2K,
          calls=_both(G + "grid_pixel_indexes_2d_slim_from"),
          ensures=["r2.shape[0] == r1.shape[0]",
                   "implies((" + _INY + ") and (" + _INX + "),"
                   " (" + _INY2 + ") and (" + _INX2 + ") and r2[k] == r1[k] and r1[k] == i * W + j)"],
          sentence="the flattened pixel indices of correspondingly translated points are unchanged (points inside a pixel square of the extent)")
