"""C01 / C11 -- the conversion glue between input form and storage form (convert_array_2d, convert_grid_2d).

The mask argument is a `Mask2D` object; it is read as its boolean array plus two ASSUMED facts about the object
(`attrs`): `pixels_in_mask == total(mask)` and `shape_native == mask.shape` -- both are re-checked on the real object on
every run-time evaluation (engine C).  One contract variant per (input form x requested storage form): the rank of the
input and of the result differ between them."""
import numpy as np
from pyvc.contract import contract, CONTRACTS
from pyvc import gens

A2 = "autoarray.structures.arrays.array_2d_util:"
G2 = "autoarray.structures.grids.grid_2d_util:"
HW = {"H": "mask_2d.shape[0]", "W": "mask_2d.shape[1]"}
ATTRS = {"mask_2d.pixels_in_mask": "total(mask_2d)", "mask_2d.shape_native": "(mask_2d.shape[0], mask_2d.shape[1])"}


def _wrap(kw):
    import autoarray as aa
    kw["mask_2d"] = aa.Mask2D(mask=kw["mask_2d"].copy(), pixel_scales=(1.0, 1.0))
    return kw


# ------------------------------------------------------------------------------------------------ arrays
_AN_BAD = "not (array_2d.shape[0] == H and array_2d.shape[1] == W)"
_AS_BAD = "array_2d.shape[0] != total(mask_2d)"
_NAT = ("forall(0, H, lambda y: forall(0, W, lambda x: result[y, x] == (0 if (mask_2d[y, x] and not skip_mask) else {src})))")

contract(A2 + "convert_array_2d#native_to_native", props=["C01", "C11"], attrs=ATTRS, rt_wrap=_wrap, let=HW,
         types={"array_2d": "real[2]", "mask_2d": "bool[2]", "store_native": "bool", "skip_mask": "bool"}, returns="real[2]",
         requires=["store_native"], raises={"ArrayException": _AN_BAD},
         ensures=["result.shape[0] == H", "result.shape[1] == W", _NAT.format(src="array_2d[y, x]")],
         sentence={"forall": "the native form holds the values at their positions with every masked position equal to zero, whichever form was supplied"})
contract(A2 + "convert_array_2d#native_to_slim", props=["C01", "C11"], attrs=ATTRS, rt_wrap=_wrap, let=HW,
         types={"array_2d": "real[2]", "mask_2d": "bool[2]", "store_native": "bool", "skip_mask": "bool"}, returns="real[1]",
         requires=["not store_native"], raises={"ArrayException": _AN_BAD},
         ensures=["result.shape[0] == total(mask_2d)",
                  "forall(0, H, lambda y: forall(0, W, lambda x: implies(not mask_2d[y, x], result[cnt2(mask_2d, y, x)] == array_2d[y, x])))"],
         sentence={"forall": "the slim form lists exactly the values of the unmasked pixels in row-major order"})
contract(A2 + "convert_array_2d#slim_to_slim", props=["C01", "C11"], attrs=ATTRS, rt_wrap=_wrap, let=HW,
         types={"array_2d": "real[1]", "mask_2d": "bool[2]", "store_native": "bool", "skip_mask": "bool"}, returns="real[1]",
         requires=["not store_native"], raises={"ArrayException": _AS_BAD},
         ensures=["result.shape[0] == total(mask_2d)", "forall(0, total(mask_2d), lambda k: result[k] == array_2d[k])"])
contract(A2 + "convert_array_2d#slim_to_native", props=["C01", "C11"], attrs=ATTRS, rt_wrap=_wrap, let=HW,
         types={"array_2d": "real[1]", "mask_2d": "bool[2]", "store_native": "bool", "skip_mask": "bool"}, returns="real[2]",
         requires=["store_native"], raises={"ArrayException": _AS_BAD},
         ensures=["result.shape[0] == H", "result.shape[1] == W",
                  "forall(0, H, lambda y: forall(0, W, lambda x: result[y, x] == (0 if mask_2d[y, x] else array_2d[cnt2(mask_2d, y, x)])))"])

# ------------------------------------------------------------------------------------------------ grids
_GN_BAD = "not (grid_2d.shape[0] == H and grid_2d.shape[1] == W)"
_GS_BAD = "grid_2d.shape[0] != total(mask_2d)"
_GT = {"mask_2d": "bool[2]", "store_native": "bool"}

contract(G2 + "convert_grid_2d#native_to_native", props=["C01", "C11"], attrs=ATTRS, rt_wrap=_wrap, let=HW,
         types={"grid_2d": "real[3]", **_GT}, returns="real[3]",
         requires=["store_native", "grid_2d.shape[2] == 2"], raises={"GridException": _GN_BAD},
         ensures=["result.shape[0] == H", "result.shape[1] == W", "result.shape[2] == 2",
                  "forall(0, H, lambda y: forall(0, W, lambda x: forall(0, 2, lambda d:"
                  " result[y, x, d] == (0 if mask_2d[y, x] else grid_2d[y, x, d]))))"],
         sentence={"forall": "native (y,x) grid: masked positions zero, the caller's array is not modified (frame:grid_2d)"})
contract(G2 + "convert_grid_2d#native_to_slim", props=["C01", "C11"], attrs=ATTRS, rt_wrap=_wrap, let=HW,
         types={"grid_2d": "real[3]", **_GT}, returns="real[2]",
         requires=["not store_native", "grid_2d.shape[2] == 2"], raises={"GridException": _GN_BAD},
         ensures=["result.shape[0] == total(mask_2d)", "result.shape[1] == 2",
                  "forall(0, H, lambda y: forall(0, W, lambda x: implies(not mask_2d[y, x],"
                  " result[cnt2(mask_2d, y, x), 0] == grid_2d[y, x, 0] and result[cnt2(mask_2d, y, x), 1] == grid_2d[y, x, 1])))"])
contract(G2 + "convert_grid_2d#slim_to_slim", props=["C01", "C11"], attrs=ATTRS, rt_wrap=_wrap, let=HW, result_alias="grid_2d",
         types={"grid_2d": "real[2]", **_GT}, returns="real[2]",
         requires=["not store_native", "grid_2d.shape[1] == 2"], raises={"GridException": _GS_BAD},
         ensures=["result.shape[0] == total(mask_2d)"],
         note="a slim grid stored slim is returned as is (alias of the argument, contents untouched)")
contract(G2 + "convert_grid_2d#slim_to_native", props=["C01", "C11"], attrs=ATTRS, rt_wrap=_wrap, let=HW,
         types={"grid_2d": "real[2]", **_GT}, returns="real[3]",
         requires=["store_native", "grid_2d.shape[1] == 2"], raises={"GridException": _GS_BAD},
         ensures=["result.shape[0] == H", "result.shape[1] == W", "result.shape[2] == 2",
                  "forall(0, H, lambda y: forall(0, W, lambda x: forall(0, 2, lambda d:"
                  " result[y, x, d] == (0 if mask_2d[y, x] else grid_2d[cnt2(mask_2d, y, x), d]))))"])


# ------------------------------------------------------------------------------------------------ engine C
def _masks(rng, tier):
    for m in gens.all_masks(gens.budget(tier, 6, 9), min_unmasked=0):
        yield m
    for _ in range(gens.budget(tier, 40, 400)):
        yield gens.random_mask(rng, 6, 6)


def _ga(native, store):
    def g(rng, tier):
        for m in _masks(rng, tier):
            n = int((~m).sum())
            shp = m.shape if native else (n,)
            if rng.random() < 0.1:                       # wrong shapes: must raise
                shp = (m.shape[0] + 1, m.shape[1]) if native else (n + 1,)
            yield {"array_2d": gens.reals(rng, shp), "mask_2d": m, "store_native": store, "skip_mask": rng.random() < 0.2}
    return g


def _gg(native, store):
    def g(rng, tier):
        for m in _masks(rng, tier):
            n = int((~m).sum())
            shp = m.shape + (2,) if native else (n, 2)
            if rng.random() < 0.1:
                shp = (m.shape[0], m.shape[1] + 1, 2) if native else (n + 2, 2)
            yield {"grid_2d": gens.reals(rng, shp), "mask_2d": m, "store_native": store}
    return g


for _v, _n, _s in [("native_to_native", True, True), ("native_to_slim", True, False), ("slim_to_slim", False, False), ("slim_to_native", False, True)]:
    CONTRACTS[A2 + "convert_array_2d#" + _v].gen = _ga(_n, _s)
    CONTRACTS[G2 + "convert_grid_2d#" + _v].gen = _gg(_n, _s)
