"""C16 -- the FITS glue of array_2d_util / array_1d_util under contract, and C01 / C11 -- the remaining conversion / check glue.

Part 1 (C16).  astropy, os and the configuration entry `flip_for_ds9` are external: their ASSUMED contracts are F1..F7 of
pyvc/ext/c16.py (registered below as `trusted` pseudo-contracts so that every one of them is listed in the evidence).  What is
PROVED about the real functions: the HDU built for output holds the row-reversed input iff the DS9 flag is on, the input itself
otherwise, and the caller's array is not modified; the readers return the (row-reversed iff flag) stored data as a fresh real array;
`pixel_scales_from_header` returns PIXSCALE when present, else (PIXSCALEY, PIXSCALEX) in (y, x) order; the writers make the
directory only when it is missing, remove the file only when overwrite is requested and it exists, fail with OSError exactly when
the file exists and overwrite is not requested, and otherwise store exactly the HDU of `hdu_for_output_from`.
Corollaries: reading what was written gives back the original array at every (i, j), for either flag value, every H x W (1-D alike).

Ghost inputs of the DSL (both engines): `ds9_flip` (F3; engine C: the generated kwarg of that name is popped by `rt_wrap`, which sets the
real configuration entry), `fits_data1/2(file_path, hdu[, content])`: the raw data of that HDU of the file (engine C: if `content` is
given, the file is first created with astropy holding `content` in HDU `hdu` -- this is how generated inputs and replay files carry
the file's contents; engine A ignores the arguments: one file per call, F6), `fits_header(file_path, hdu)`, `fits_fs(file_path)`
(F7), `fits_written1/2(file_path)`: the primary-HDU data of the file after the call.

Part 2 (C01, C11).  check_* are raises-iff contracts derived from the statement (a slim input has one entry per unmasked pixel, a
native input the mask's shape, a grid's last axis is (y, x)); convert_* follow contracts/c01_convert.py (variants by input form x
storage form)."""
import os
import shutil
import tempfile
import numpy as np
from pyvc.contract import contract, corollary, macro, CONTRACTS
from pyvc import gens
from pyvc.ext import c16 as X

X.install()

A2 = "autoarray.structures.arrays.array_2d_util:"
A1 = "autoarray.structures.arrays.array_1d_util:"
G2 = "autoarray.structures.grids.grid_2d_util:"
G1 = "autoarray.structures.grids.grid_1d_util:"

# ---------------------------------------------------------------------------------------------- assumed facts -> evidence
for _id, _text in X.ASSUMED_FACTS.items():
    contract("pyvc.ext.c16:" + _id, props=["C16"], types={}, trusted=True, note="ASSUMED (pyvc/ext/c16.py): " + _text)


# ---------------------------------------------------------------------------------------------- run-time twins of the ghosts
def _rt_data(path, k, content=None):
    from astropy.io import fits
    if content is not None:
        d = os.path.dirname(str(path))
        if d:
            os.makedirs(d, exist_ok=True)
        hdus = [fits.PrimaryHDU(np.zeros((1, 1)) if int(k) > 0 else np.array(content))]
        for j in range(1, int(k) + 1):
            hdus.append(fits.ImageHDU(np.array(content) if j == int(k) else np.zeros((2, 1))))
        for j, u in enumerate(hdus):            # every HDU gets its own pixel-scale cards: reading the wrong HDU's header shows
            if j % 2 == 0:
                u.header["PIXSCALE"] = 0.1 * (j + 1)
            else:
                u.header["PIXSCALEY"], u.header["PIXSCALEX"] = 0.1 * (j + 1), 0.3 * (j + 1)
        fits.HDUList(hdus).writeto(str(path), overwrite=True)
    return X.rt_data(path, k)


macro("fits_data1", ["p", "k"], "0", py=_rt_data)
macro("fits_data2", ["p", "k"], "0", py=_rt_data)
macro("fits_written1", ["p"], "0", py=lambda p: X.rt_data(p, 0) if os.path.exists(str(p)) else None)
macro("fits_written2", ["p"], "0", py=lambda p: X.rt_data(p, 0) if os.path.exists(str(p)) else None)
macro("fits_header", ["p", "k"], "0", py=X.rt_header)


def _flag(kw):
    X.rt_set_flip(kw.pop("ds9_flip"))
    return kw


# ============================================================================================== Part 1: C16
_SRC2 = "array_2d[(H - 1 - i) if ds9_flip else i, j]"
contract(A2 + "hdu_for_output_from#no_header", props=["C16", "C11"], rt_wrap=_flag,
         types={"array_2d": "real[2]", "header_dict": "none"}, returns="hdu2",
         let={"H": "array_2d.shape[0]", "W": "array_2d.shape[1]"},
         ensures=["result.data.shape[0] == H", "result.data.shape[1] == W",
                  "forall(0, H, lambda i: forall(0, W, lambda j: result.data[i, j] == " + _SRC2 + "))",
                  "not ('PIXSCALE' in result.header) and not ('PIXSCALEY' in result.header) and not ('PIXSCALEX' in result.header)"],
         loops={0: {"inv": []}},
         sentence={"forall": "the HDU holds the row-reversed array iff the DS9 flip option is on, the array itself otherwise; the caller's "
                             "array is not modified (frame:array_2d)"})
contract(A1 + "hdu_for_output_from#no_header", props=["C16", "C11"],
         types={"array_1d": "real[1]", "header_dict": "none"}, returns="hdu1", let={"N": "array_1d.shape[0]"},
         ensures=["result.data.shape[0] == N", "forall(0, N, lambda i: result.data[i] == array_1d[i])",
                  "not ('PIXSCALE' in result.header)"],
         loops={0: {"inv": []}},
         sentence={"forall": "a 1D array is stored as it is (no flip), the caller's array is not modified"})

_RT = {"file_path": "str", "hdu": "int"}
contract(A2 + "numpy_array_2d_via_fits_from", props=["C16", "C11"], rt_wrap=lambda kw: _flag(_drop(kw)),
         types={**_RT, "do_not_scale_image_data": "bool"}, returns="real[2]",
         let={"D": "fits_data2(file_path, hdu, fits_content)", "H": "D.shape[0]", "W": "D.shape[1]"},
         ensures=["result.shape[0] == H", "result.shape[1] == W",
                  "forall(0, H, lambda i: forall(0, W, lambda j: result[i, j] == D[(H - 1 - i) if ds9_flip else i, j]))"],
         sentence={"forall": "the reader returns the stored data row-reversed iff the DS9 flip option is on, as a fresh real array"})
contract(A1 + "numpy_array_1d_via_fits_from", props=["C16", "C11"], rt_wrap=lambda kw: _drop(kw),
         types=_RT, returns="real[1]", let={"D": "fits_data1(file_path, hdu, fits_content)", "N": "D.shape[0]"},
         ensures=["result.shape[0] == N", "forall(0, N, lambda i: result[i] == D[i])"])


def _drop(kw):
    kw.pop("fits_content", None)
    return kw


# pixel scale cards
contract(A2 + "pixel_scales_from_header#single", props=["C16"], types={"header": "header"}, returns="real",
         requires=["'PIXSCALE' in header"], ensures=["result == header['PIXSCALE']"], rt_wrap=lambda kw: _hdr(kw),
         sentence={"forall": "an isotropic pixel scale is read back from the PIXSCALE card"})
contract(A2 + "pixel_scales_from_header#pair", props=["C16"], types={"header": "header"}, returns="(real,real)",
         requires=["not ('PIXSCALE' in header)"], rt_wrap=lambda kw: _hdr(kw),
         raises={"KeyError": "not ('PIXSCALEY' in header and 'PIXSCALEX' in header)"},
         ensures=["result[0] == header['PIXSCALEY']", "result[1] == header['PIXSCALEX']"],
         sentence={"forall": "anisotropic pixel scales are read back in (y, x) order from PIXSCALEY / PIXSCALEX"})
contract(A2 + "header_obj_from", props=["C16"], types=_RT, returns="header", rt_wrap=lambda kw: _drop(kw),
         let={"D": "fits_data2(file_path, hdu, fits_content)", "Hd": "fits_header(file_path, hdu)"},
         ensures=["('PIXSCALE' in result) == ('PIXSCALE' in Hd)", "implies('PIXSCALE' in Hd, result['PIXSCALE'] == Hd['PIXSCALE'])",
                  "('PIXSCALEY' in result) == ('PIXSCALEY' in Hd)", "implies('PIXSCALEY' in Hd, result['PIXSCALEY'] == Hd['PIXSCALEY'])",
                  "('PIXSCALEX' in result) == ('PIXSCALEX' in Hd)", "implies('PIXSCALEX' in Hd, result['PIXSCALEX'] == Hd['PIXSCALEX'])"])


def _hdr(kw):
    from astropy.io import fits
    h = fits.Header()
    for k, v in kw["header"].items():
        h[k] = v
    kw["header"] = h
    return kw


# ---------------------------------------------------------------------------------------------- corollaries: the round trip
_STORED2 = ("fits_data2(P, k).shape[0] == Wh.data.shape[0] and fits_data2(P, k).shape[1] == Wh.data.shape[1] and "
            "forall(0, Wh.data.shape[0], lambda i: forall(0, Wh.data.shape[1], lambda j: fits_data2(P, k)[i, j] == Wh.data[i, j]))")
corollary("C16.flip_on_output_is_undone_on_input_2d", props=["C16"], vars={"A": "real[2]", "P": "str", "k": "int"}, requires=[],
          calls=[("Wh", A2 + "hdu_for_output_from#no_header", {"array_2d": "A", "header_dict": "None"}),
                 ("Rd", A2 + "numpy_array_2d_via_fits_from", {"file_path": "P", "hdu": "k", "do_not_scale_image_data": "False"})],
          ensures=["implies(" + _STORED2 + ", Rd.shape[0] == A.shape[0] and Rd.shape[1] == A.shape[1] and "
                   "forall(0, A.shape[0], lambda i: forall(0, A.shape[1], lambda j: Rd[i, j] == A[i, j])))"],
          sentence="for either setting of the DS9 flip option and every shape H x W: if HDU k of the file holds the data of the HDU produced "
                   "by the writer, the reader returns the original array at every (i, j): the flip applied on output is undone on input")
_STORED1 = "fits_data1(P, k).shape[0] == Wh.data.shape[0] and forall(0, Wh.data.shape[0], lambda i: fits_data1(P, k)[i] == Wh.data[i])"
corollary("C16.round_trip_1d", props=["C16"], vars={"A": "real[1]", "P": "str", "k": "int"}, requires=[],
          calls=[("Wh", A1 + "hdu_for_output_from#no_header", {"array_1d": "A", "header_dict": "None"}),
                 ("Rd", A1 + "numpy_array_1d_via_fits_from", {"file_path": "P", "hdu": "k"})],
          ensures=["implies(" + _STORED1 + ", Rd.shape[0] == A.shape[0] and forall(0, A.shape[0], lambda i: Rd[i] == A[i]))"],
          sentence="a 1D array written to an HDU and read back is the original array (no flip on either side)")

# ---------------------------------------------------------------------------------------------- the writers (file system: F7)
class _FsProbe:
    """run-time twin of the ghost `fits_fs(file_path)`: fs[0..2] are read from the real file system when they are evaluated
    (the contract's `let` captures the entry values), fs[3..5] count the os.makedirs / os.remove / writeto calls made since the
    probe was created.  `setup` (engine C only) first puts the file system into the generated state: the case directory `root` is
    wiped, the target directory is made iff setup["dir"], an older FITS file (1 x 1, value 99) is put at the path iff setup["file"]."""
    ACTIVE = None

    def __init__(self, path, setup=None):
        from astropy.io import fits
        self.path = str(path)
        self.dir = os.path.split(self.path)[0]
        _FsProbe.ACTIVE = None
        if setup is not None:
            shutil.rmtree(setup["root"], ignore_errors=True)
            os.makedirs(setup["root"])
            if setup["dir"] and self.dir and not os.path.exists(self.dir):
                os.makedirs(self.dir)
            if setup["file"]:
                fits.PrimaryHDU(np.full((1, 1), 99.0)).writeto(self.path, overwrite=True)
        _install_counters()
        self.n = [0, 0, 0]
        _FsProbe.ACTIVE = self

    def __getitem__(self, k):
        if k == 0:
            return int(bool(self.dir))
        if k == 1:
            return int(os.path.exists(self.dir)) if self.dir else 1
        if k == 2:
            return int(os.path.exists(self.path))
        return self.n[k - 3]


def _install_counters():
    from astropy.io import fits
    if getattr(os.makedirs, "_c16", False):
        return

    depth = [0]

    def wrap(fn, slot):
        def w(*a, **k):
            # only calls made by the function under contract itself count (os.makedirs recurses through its own public name)
            if _FsProbe.ACTIVE is not None and depth[0] == 0:
                _FsProbe.ACTIVE.n[slot] += 1
            depth[0] += 1
            try:
                return fn(*a, **k)
            finally:
                depth[0] -= 1
        w._c16 = True
        return w
    os.makedirs = wrap(os.makedirs, 0)
    os.remove = wrap(os.remove, 1)
    fits.PrimaryHDU.writeto = wrap(fits.PrimaryHDU.writeto, 2)


macro("fits_fs", ["p"], "0", py=_FsProbe)


def _wflag(kw):
    kw.pop("fs_setup", None)
    return _flag(kw) if "ds9_flip" in kw else kw


_FS = {"fs": "fits_fs(file_path, fs_setup)", "fw": "fits_written{r}(file_path)", "has_dir": "fs[0] == 1", "dir_exists": "fs[1] == 1", "file_exists": "fs[2] == 1"}
_FS1 = {k: v.format(r=1) for k, v in _FS.items()}
_FS2 = {k: v.format(r=2) for k, v in _FS.items()}
# `modifies=["fs", "fw"]`: the two ghosts (file-system state, file contents) are what the writers change -- callers / corollaries
# see them havocked and constrained by the ensures only
_FS_ENS = ["fs[3] == (1 if (has_dir and not dir_exists) else 0)", "implies(has_dir, fs[1] == 1)",
           "fs[4] == (1 if (overwrite and file_exists) else 0)", "fs[5] == 1", "fs[2] == 1"]
_FS_SENT = {"raises": "writing to an existing path fails (OSError) unless overwrite is requested",
            "forall": "a missing output directory is created (once, and only then), an existing file is removed only when overwrite is "
                      "requested, and the new content fully replaces the old: the file's primary HDU is the HDU of hdu_for_output_from"}
contract(A2 + "numpy_array_2d_to_fits#no_header", props=["C16", "C11"], rt_wrap=_wflag,
         types={"array_2d": "real[2]", "file_path": "str", "overwrite": "bool", "header_dict": "none"},
         let={**_FS2, "H": "array_2d.shape[0]", "W": "array_2d.shape[1]"}, modifies=["fs", "fw"],
         raises={"OSError": "file_exists and not overwrite"},
         ensures=_FS_ENS + ["fits_written2(file_path).shape[0] == H", "fits_written2(file_path).shape[1] == W",
                            "forall(0, H, lambda i: forall(0, W, lambda j: fits_written2(file_path)[i, j] == " + _SRC2 + "))"],
         sentence=_FS_SENT)
contract(A1 + "numpy_array_1d_to_fits#no_header", props=["C16", "C11"], rt_wrap=_wflag,
         types={"array_1d": "real[1]", "file_path": "str", "overwrite": "bool", "header_dict": "none"},
         let={**_FS1, "N": "array_1d.shape[0]"}, modifies=["fs", "fw"],
         raises={"OSError": "file_exists and not overwrite"},
         ensures=_FS_ENS + ["fits_written1(file_path).shape[0] == N",
                            "forall(0, N, lambda i: fits_written1(file_path)[i] == array_1d[i])"],
         sentence=_FS_SENT)

# ---- with a header dictionary: the loop over `header_dict.items()` / `Header.append` is outside the subset -> engine C only
_CARDS = "forall(0, len(header_dict), lambda n: {h}[sorted(header_dict)[n]] == header_dict[sorted(header_dict)[n]])"
contract(A2 + "hdu_for_output_from#with_header", props=["C16", "C11"], mode="bounded", rt_wrap=_flag,
         types={"array_2d": "real[2]", "header_dict": "dict"}, let={"H": "array_2d.shape[0]", "W": "array_2d.shape[1]"},
         ensures=["result.data.shape[0] == H", "result.data.shape[1] == W",
                  "forall(0, H, lambda i: forall(0, W, lambda j: result.data[i, j] == " + _SRC2 + "))",
                  _CARDS.format(h="result.header")],
         note="bounded: iterating a dict and Header.append are not modelled; the cards of the dictionary are the cards of the HDU header")
contract(A1 + "hdu_for_output_from#with_header", props=["C16", "C11"], mode="bounded",
         types={"array_1d": "real[1]", "header_dict": "dict"}, let={"N": "array_1d.shape[0]"},
         ensures=["result.data.shape[0] == N", "forall(0, N, lambda i: result.data[i] == array_1d[i])",
                  _CARDS.format(h="result.header")])
contract(A2 + "numpy_array_2d_to_fits#with_header", props=["C16", "C11"], mode="bounded", rt_wrap=_wflag,
         types={"array_2d": "real[2]", "file_path": "str", "overwrite": "bool", "header_dict": "dict"},
         let={**_FS2, "H": "array_2d.shape[0]", "W": "array_2d.shape[1]"}, modifies=["fs", "fw"],
         raises={"OSError": "file_exists and not overwrite"},
         ensures=_FS_ENS + ["fits_written2(file_path).shape[0] == H", "fits_written2(file_path).shape[1] == W",
                            "forall(0, H, lambda i: forall(0, W, lambda j: fits_written2(file_path)[i, j] == " + _SRC2 + "))",
                            _CARDS.format(h="fits_header(file_path, 0)")])
contract(A1 + "numpy_array_1d_to_fits#with_header", props=["C16", "C11"], mode="bounded", rt_wrap=_wflag,
         types={"array_1d": "real[1]", "file_path": "str", "overwrite": "bool", "header_dict": "dict"},
         let={**_FS1, "N": "array_1d.shape[0]"}, modifies=["fs", "fw"],
         raises={"OSError": "file_exists and not overwrite"},
         ensures=_FS_ENS + ["fits_written1(file_path).shape[0] == N", "forall(0, N, lambda i: fits_written1(file_path)[i] == array_1d[i])",
                            _CARDS.format(h="fits_header(file_path, 0)")])


# ---- the header written by the classes (AbstractMask.pixel_scale_header: `all(<generator>)`, a property of an object: engine C only)
def _psh(kw):
    import autoarray as aa
    ps = tuple(kw.pop("pixel_scales"))
    m = aa.Mask2D(mask=np.full((2, 3), False), pixel_scales=ps)
    kw["header"] = _hdr({"header": dict(m.pixel_scale_header)})["header"]
    return kw


contract(A2 + "pixel_scales_from_header#written_by_pixel_scale_header", props=["C16"], mode="bounded", rt_wrap=_psh,
         types={"header": "header"}, let={"sy": "pixel_scales[0]", "sx": "pixel_scales[1]"},
         ensures=["(result == sy) if sy == sx else (result[0] == sy and result[1] == sx)"],
         note="header round trip at the glue level: the header dictionary produced by AbstractMask.pixel_scale_header for the pixel scales "
              "(sy, sx), stored as FITS cards, is read back as sy (isotropic) or (sy, sx) (anisotropic, (y, x) order)")

for _k in list(CONTRACTS):
    if _k.split("#")[0] in (A2 + "numpy_array_2d_to_fits", A1 + "numpy_array_1d_to_fits", A2 + "hdu_for_output_from", A1 + "hdu_for_output_from", A2 + "numpy_array_2d_via_fits_from",
                            A1 + "numpy_array_1d_via_fits_from", A2 + "pixel_scales_from_header", A2 + "header_obj_from"):
        X.ENABLED.add(_k)


# ---------------------------------------------------------------------------------------------- engine C generators (C16)
_SHAPES2 = [(1, 1), (1, 4), (4, 1), (2, 3), (3, 2), (1, 2), (2, 1), (3, 5), (5, 4), (2, 2), (3, 3), (5, 1), (1, 5)]


def _vals(rng, shape):
    v = gens.reals(rng, shape)
    if rng.random() < 0.3:
        v = np.arange(1.0, v.size + 1.0).reshape(shape) * rng.choice([1.0, -1.0, 1e-7, 1e6])
    return v


def _g_hdu2(rng, tier):
    for rep in range(gens.budget(tier, 3, 12)):
        for shp in _SHAPES2:
            for flip in (False, True):
                yield {"array_2d": _vals(rng, shp), "header_dict": None, "ds9_flip": flip}


def _g_hdu1(rng, tier):
    for rep in range(gens.budget(tier, 4, 12)):
        for n in (1, 2, 3, 5, 8):
            yield {"array_1d": _vals(rng, (n,)), "header_dict": None}


class _Tmp:
    """a scratch directory under /var/tmp, removed when the generator is closed"""

    def __enter__(self):
        self.dir = tempfile.mkdtemp(prefix="vf-c16c-", dir="/var/tmp")
        return self.dir

    def __exit__(self, *a):
        shutil.rmtree(self.dir, ignore_errors=True)
        return False


def _g_read2(rng, tier):
    with _Tmp() as d:
        n = 0
        for rep in range(gens.budget(tier, 2, 8)):
            for shp in _SHAPES2:
                for flip in (False, True):
                    n += 1
                    yield {"file_path": os.path.join(d, "r%d.fits" % (n % 7)), "hdu": (n // 3) % 3, "do_not_scale_image_data": False,
                           "ds9_flip": flip, "fits_content": _vals(rng, shp)}


def _g_read1(rng, tier):
    with _Tmp() as d:
        n = 0
        for rep in range(gens.budget(tier, 4, 12)):
            for ln in (1, 2, 3, 5, 8):
                n += 1
                yield {"file_path": os.path.join(d, "q%d.fits" % (n % 7)), "hdu": n % 2, "fits_content": _vals(rng, (ln,))}


def _g_hobj(rng, tier):
    with _Tmp() as d:
        for n in range(gens.budget(tier, 12, 40)):
            yield {"file_path": os.path.join(d, "h%d.fits" % (n % 5)), "hdu": n % 2, "fits_content": _vals(rng, (2, 3))}


def _g_ps(single):
    def g(rng, tier):
        for n in range(gens.budget(tier, 60, 300)):
            sy, sx = rng.choice([0.05, 0.1, 1.0, 2.5]), rng.choice([0.3, 0.07, 2.0])
            h = {"PIXSCALE": sy} if single else {"PIXSCALEY": sy, "PIXSCALEX": sx}
            if not single and rng.random() < 0.15:
                h.pop(rng.choice(["PIXSCALEY", "PIXSCALEX"]))           # a card missing: KeyError
            if rng.random() < 0.5:
                h["EXTRA"] = 1.0
            if single and rng.random() < 0.3:
                h["PIXSCALEY"], h["PIXSCALEX"] = 9.0, 8.0
            yield {"header": h}
    return g


CONTRACTS[A2 + "hdu_for_output_from#no_header"].gen = _g_hdu2
CONTRACTS[A1 + "hdu_for_output_from#no_header"].gen = _g_hdu1
CONTRACTS[A2 + "numpy_array_2d_via_fits_from"].gen = _g_read2
CONTRACTS[A1 + "numpy_array_1d_via_fits_from"].gen = _g_read1
CONTRACTS[A2 + "header_obj_from"].gen = _g_hobj
CONTRACTS[A2 + "pixel_scales_from_header#single"].gen = _g_ps(True)
CONTRACTS[A2 + "pixel_scales_from_header#pair"].gen = _g_ps(False)


def _g_write(arr_key, rank, header):
    def g(rng, tier):
        with _Tmp() as d:
            n = 0
            for rep in range(gens.budget(tier, 2, 8)):
                for has_dir in (True, False):
                    for pre in (False, True):
                        for ow in (False, True):
                            for flip in ((False, True) if rank == 2 else (None,)):
                                n += 1
                                root = os.path.join(d, "case%d" % (n % 4))
                                sub = os.path.join(root, *(["a", "b"][: 1 + n % 2]))
                                shp = _SHAPES2[n % len(_SHAPES2)] if rank == 2 else (1 + n % 5,)
                                kw = {arr_key: _vals(rng, shp), "file_path": os.path.join(sub, "out%d.fits" % (n % 3)), "overwrite": ow,
                                      "header_dict": ({"PIXSCALE": 0.1} if n % 2 else {"PIXSCALEY": 0.1, "PIXSCALEX": 2.0}) if header else None,
                                      "fs_setup": {"root": root, "dir": has_dir or pre, "file": pre}}
                                if flip is not None:
                                    kw["ds9_flip"] = flip
                                yield kw
    return g


def _g_hdu_hdr(arr_key, rank):
    def g(rng, tier):
        n = 0
        for rep in range(gens.budget(tier, 3, 10)):
            for shp in (_SHAPES2 if rank == 2 else [(1,), (2,), (5,)]):
                for flip in ((False, True) if rank == 2 else (None,)):
                    n += 1
                    kw = {arr_key: _vals(rng, shp), "header_dict": [{"PIXSCALE": 0.1}, {"PIXSCALEY": 0.1, "PIXSCALEX": 2.0}, {}][n % 3]}
                    if flip is not None:
                        kw["ds9_flip"] = flip
                    yield kw
    return g


def _g_psh(rng, tier):
    for sy, sx in [(1.0, 1.0), (0.1, 0.1), (0.05, 0.05), (1.0, 2.0), (0.5, 0.1), (2.0, 1.0), (0.05, 0.050004), (1.0, 1.00001), (0.1000002, 0.1)]:
        yield {"header": None, "pixel_scales": (sy, sx)}
    for _ in range(gens.budget(tier, 30, 200)):
        sy = rng.choice([0.05, 0.1, 1.0, 2.5, 0.3])
        yield {"header": None, "pixel_scales": (sy, sy if rng.random() < 0.4 else sy * rng.choice([2.0, 0.5, 1.001, 1.00001]))}


CONTRACTS[A2 + "numpy_array_2d_to_fits#no_header"].gen = _g_write("array_2d", 2, False)
CONTRACTS[A1 + "numpy_array_1d_to_fits#no_header"].gen = _g_write("array_1d", 1, False)
CONTRACTS[A2 + "numpy_array_2d_to_fits#with_header"].gen = _g_write("array_2d", 2, True)
CONTRACTS[A1 + "numpy_array_1d_to_fits#with_header"].gen = _g_write("array_1d", 1, True)
CONTRACTS[A2 + "hdu_for_output_from#with_header"].gen = _g_hdu_hdr("array_2d", 2)
CONTRACTS[A1 + "hdu_for_output_from#with_header"].gen = _g_hdu_hdr("array_1d", 1)
CONTRACTS[A2 + "pixel_scales_from_header#written_by_pixel_scale_header"].gen = _g_psh


# ---------------------------------------------------------------------------------------------- corollary: through a file
_STOREDF = ("fits_data2(P, 0).shape[0] == fits_written2(P).shape[0] and fits_data2(P, 0).shape[1] == fits_written2(P).shape[1] and "
            "forall(0, fits_written2(P).shape[0], lambda i: forall(0, fits_written2(P).shape[1], lambda j: fits_data2(P, 0)[i, j] == fits_written2(P)[i, j]))")
corollary("C16.file_round_trip_2d", props=["C16"], vars={"A": "real[2]", "P": "str", "ow": "bool"}, requires=[],
          calls=[("Wr", A2 + "numpy_array_2d_to_fits#no_header", {"array_2d": "A", "file_path": "P", "overwrite": "ow", "header_dict": "None"}),
                 ("Rd", A2 + "numpy_array_2d_via_fits_from", {"file_path": "P", "hdu": "0", "do_not_scale_image_data": "False"})],
          ensures=["implies(" + _STOREDF + ", Rd.shape[0] == A.shape[0] and Rd.shape[1] == A.shape[1] and "
                   "forall(0, A.shape[0], lambda i: forall(0, A.shape[1], lambda j: Rd[i, j] == A[i, j])))"],
          sentence="when numpy_array_2d_to_fits returns, reading HDU 0 of what it wrote gives back the original array, for either flip setting "
                   "(ASSUMED, F6/F7: what fits.open reads is what writeto wrote)")


# ============================================================================================== Part 2: C01 / C11 glue
HW = {"H": "mask_2d.shape[0]", "W": "mask_2d.shape[1]"}
ATTRS = {"mask_2d.pixels_in_mask": "total(mask_2d)", "mask_2d.shape_native": "(mask_2d.shape[0], mask_2d.shape[1])"}
ATTRS1 = {"mask_1d.shape_native": "(mask_1d.shape[0],)"}
N1 = {"N": "mask_1d.shape[0]"}


def _wrap2(kw):
    import autoarray as aa
    kw["mask_2d"] = aa.Mask2D(mask=kw["mask_2d"].copy(), pixel_scales=(1.0, 1.0))
    return kw


def _wrap1(kw):
    import autoarray as aa
    kw["mask_1d"] = aa.Mask1D(mask=kw["mask_1d"].copy(), pixel_scales=1.0)
    return kw


X.INLINE_FOR_CALLERS.update({A2 + "convert_array", G2 + "convert_grid", A2 + "check_array_2d_and_mask_2d", G2 + "check_grid_2d_and_mask_2d"})

# ---- convert_array / convert_grid: an ndarray is handed back as it is (same object, contents untouched); a list becomes an ndarray
for _key, _p in ((A2 + "convert_array", "array"), (G2 + "convert_grid", "grid")):
    for _r in (1, 2, 3):
        _ix = ", ".join("ijk"[:_r])
        _same = "result[%s] == %s[%s]" % (_ix, _p, _ix)
        for _d in reversed(range(_r)):
            _same = "forall(0, %s.shape[%d], lambda %s: %s)" % (_p, _d, "ijk"[_d], _same)
        contract("%s#ndarray_rank%d" % (_key, _r), props=["C01", "C11"], types={_p: "real[%d]" % _r}, returns="real[%d]" % _r,
                 result_alias=_p, ensures=["len(result.shape) == %d" % _r] + ["result.shape[%d] == %s.shape[%d]" % (_d, _p, _d) for _d in range(_r)] + [_same],
                 sentence={"forall": "an ndarray input is used as supplied: same object, values and shape untouched (frame:%s)" % _p})
    contract(_key + "#list", props=["C01"], mode="bounded", types={_p: "list"},
             ensures=["type(result) is np.ndarray", "result.shape == np.array(%s).shape" % _p,
                      "forall(0, result.size, lambda n: result.reshape(-1)[n] == np.array(%s).reshape(-1)[n])" % _p],
             note="bounded: python lists are outside the subset; a (nested) list becomes the ndarray with the same entries")

# ---- check_array_2d: the input must be a slim (rank 1) array
contract(A2 + "check_array_2d#rank1", props=["C01"], types={"array_2d": "real[1]"}, raises={"ArrayException": "False"}, ensures=["True"])
contract(A2 + "check_array_2d#rank2", props=["C01"], types={"array_2d": "real[2]"}, raises={"ArrayException": "True"}, ensures=["True"])
contract(A2 + "check_array_2d#rank3", props=["C01"], types={"array_2d": "real[3]"}, raises={"ArrayException": "True"}, ensures=["True"])

# ---- check_array_2d_and_mask_2d: raises exactly when the input is inconsistent with the mask
_CT = {"mask_2d": "bool[2]"}
contract(A2 + "check_array_2d_and_mask_2d#slim", props=["C01"], attrs=ATTRS, rt_wrap=_wrap2, let=HW, types={"array_2d": "real[1]", **_CT},
         raises={"ArrayException": "array_2d.shape[0] != total(mask_2d)"}, ensures=["True"],
         sentence={"raises": "a slim input must have exactly one entry per unmasked pixel"})
contract(A2 + "check_array_2d_and_mask_2d#native", props=["C01"], attrs=ATTRS, rt_wrap=_wrap2, let=HW, types={"array_2d": "real[2]", **_CT},
         raises={"ArrayException": "not (array_2d.shape[0] == H and array_2d.shape[1] == W)"}, ensures=["True"],
         sentence={"raises": "a native input must have the mask's shape"})

# ---- check_grid_2d: a grid is (N, 2) slim or (H, W, 2) native
contract(G2 + "check_grid_2d#rank2", props=["C01"], types={"grid_2d": "real[2]"}, raises={"GridException": "grid_2d.shape[1] != 2"}, ensures=["True"])
contract(G2 + "check_grid_2d#rank3", props=["C01"], types={"grid_2d": "real[3]"}, raises={"GridException": "grid_2d.shape[2] != 2"}, ensures=["True"])

# ---- check_grid_2d_and_mask_2d
contract(G2 + "check_grid_2d_and_mask_2d#slim", props=["C01"], attrs=ATTRS, rt_wrap=_wrap2, let=HW, types={"grid_2d": "real[2]", **_CT},
         raises={"GridException": "grid_2d.shape[0] != total(mask_2d)"}, ensures=["True"],
         sentence={"raises": "a slim grid must have exactly one (y,x) entry per unmasked pixel"})
contract(G2 + "check_grid_2d_and_mask_2d#native", props=["C01"], attrs=ATTRS, rt_wrap=_wrap2, let=HW, types={"grid_2d": "real[3]", **_CT},
         raises={"GridException": "not (grid_2d.shape[0] == H and grid_2d.shape[1] == W)"}, ensures=["True"],
         sentence={"raises": "a native grid must have the mask's shape"})

# ---- check_grid_slim: a slim grid needs the native shape (a pair) to be given
contract(G2 + "check_grid_slim#none", props=["C01"], types={"grid": "real[2]", "shape_native": "none"}, raises={"GridException": "True"}, ensures=["True"])
contract(G2 + "check_grid_slim#pair", props=["C01"], types={"grid": "real[2]", "shape_native": "(int,int)"}, raises={"GridException": "False"}, ensures=["True"])
contract(G2 + "check_grid_slim#triple", props=["C01"], types={"grid": "real[2]", "shape_native": "(int,int,int)"}, raises={"GridException": "True"}, ensures=["True"])
contract(G2 + "check_grid_slim#single", props=["C01"], types={"grid": "real[2]", "shape_native": "(int,)"}, raises={"GridException": "True"}, ensures=["True"])

# ---- convert_array_1d / convert_grid_1d: input form x storage form.  A fully unmasked mask makes the two forms coincide; that case is
# covered by the native_* variants (the slim_* variants are stated for masks with at least one masked pixel: together every consistent
# input is covered).
_T1 = {"mask_1d": "bool[1]", "store_native": "bool"}
for _key, _p in ((A1 + "convert_array_1d", "array_1d"), (G1 + "convert_grid_1d", "grid_1d")):
    _k = dict(props=["C01", "C11"], attrs=ATTRS1, rt_wrap=_wrap1, let=N1, types={_p: "real[1]", **_T1}, returns="real[1]")
    contract(_key + "#native_to_native", requires=["store_native", _p + ".shape[0] == N"], result_alias=_p,
             ensures=["result.shape[0] == N"], **_k,
             note="a native input stored native is kept as supplied (the very array object, nothing masked out)")
    contract(_key + "#native_to_slim", requires=["not store_native", _p + ".shape[0] == N"], **_k,
             ensures=["result.shape[0] == total1(mask_1d)",
                      "forall(0, N, lambda x: implies(not mask_1d[x], result[cnt1(mask_1d, x)] == %s[x]))" % _p],
             sentence={"forall": "the slim form lists exactly the values of the unmasked pixels in order (1-D)"})
    contract(_key + "#slim_to_slim", requires=["not store_native", _p + ".shape[0] == total1(mask_1d)", "total1(mask_1d) != N"],
             result_alias=_p, ensures=["result.shape[0] == total1(mask_1d)"], **_k)
    contract(_key + "#slim_to_native", requires=["store_native", _p + ".shape[0] == total1(mask_1d)", "total1(mask_1d) != N"], **_k,
             ensures=["result.shape[0] == N",
                      "forall(0, N, lambda x: result[x] == (0 if mask_1d[x] else %s[cnt1(mask_1d, x)]))" % _p],
             sentence={"forall": "the native form holds the values at their positions with every masked position zero (1-D)"})


# ---------------------------------------------------------------------------------------------- engine C generators (C01)
def _masks2(rng, tier):
    for m in gens.all_masks(gens.budget(tier, 6, 9), min_unmasked=0):
        yield m
    for _ in range(gens.budget(tier, 40, 400)):
        yield gens.random_mask(rng, 6, 6)


def _masks1(rng, tier):
    for L in range(1, gens.budget(tier, 7, 10) + 1):
        for bits in range(2 ** L):
            yield np.array([(bits >> i) & 1 == 1 for i in range(L)], dtype=bool)
    for _ in range(gens.budget(tier, 40, 400)):
        yield np.array([rng.random() < 0.5 for _ in range(rng.randint(1, 25))], dtype=bool)


def _g_conv(p, rank):
    def g(rng, tier):
        for n in range(gens.budget(tier, 60, 300)):
            shp = tuple(rng.randint(1, 4) for _ in range(rank))
            a = gens.reals(rng, shp)
            if n % 5 == 0:
                a = a.astype(">f8")          # what astropy hands over for FITS data (big-endian): same values, to be kept as they are
            elif n % 5 == 1 and rank >= 2:
                a = np.asfortranarray(a)
            yield {p: a}
    return g


def _g_conv_list(p):
    def g(rng, tier):
        for _ in range(gens.budget(tier, 60, 300)):
            shp = tuple(rng.randint(1, 4) for _ in range(rng.randint(1, 3)))
            yield {p: gens.reals(rng, shp).tolist()}
    return g


def _g_rank(p, rank, last2=False):
    def g(rng, tier):
        for _ in range(gens.budget(tier, 60, 300)):
            shp = [rng.randint(1, 4) for _ in range(rank)]
            if last2 and rng.random() < 0.6:
                shp[-1] = 2
            yield {p: gens.reals(rng, tuple(shp))}
    return g


def _g_chk(p, native, grid):
    def g(rng, tier):
        for m in _masks2(rng, tier):
            n = int((~m).sum())
            shp = m.shape if native else (n,)
            r = rng.random()
            if r < 0.3:                                   # inconsistent shapes: must raise
                shp = rng.choice([(m.shape[0] + 1, m.shape[1]), (m.shape[0], m.shape[1] + 1), (m.shape[1] + 1, m.shape[0]),
                                  (max(1, m.shape[0] - 1), m.shape[1])]) if native else (rng.choice([n + 1, max(0, n - 1), m.size + 1]),)
            yield {p: gens.reals(rng, tuple(shp) + ((2,) if grid else ())), "mask_2d": m}
    return g


def _g_slimchk(kind):
    def g(rng, tier):
        for _ in range(gens.budget(tier, 40, 200)):
            sn = {"none": None, "pair": (rng.randint(1, 5), rng.randint(1, 5)), "single": (rng.randint(1, 5),),
                  "triple": (rng.randint(1, 5), rng.randint(1, 5), 2)}[kind]
            yield {"grid": gens.reals(rng, (rng.randint(1, 5), 2)), "shape_native": sn}
    return g


def _g_c1(p, native, store):
    def g(rng, tier):
        for m in _masks1(rng, tier):
            n = int((~m).sum())
            yield {p: gens.reals(rng, (m.shape[0] if native else n,)), "mask_1d": m, "store_native": store}
    return g


for _key, _p in ((A2 + "convert_array", "array"), (G2 + "convert_grid", "grid")):
    for _r in (1, 2, 3):
        CONTRACTS["%s#ndarray_rank%d" % (_key, _r)].gen = _g_conv(_p, _r)
    CONTRACTS[_key + "#list"].gen = _g_conv_list(_p)
for _r in (1, 2, 3):
    CONTRACTS[A2 + "check_array_2d#rank%d" % _r].gen = _g_rank("array_2d", _r)
for _r in (2, 3):
    CONTRACTS[G2 + "check_grid_2d#rank%d" % _r].gen = _g_rank("grid_2d", _r, last2=True)
CONTRACTS[A2 + "check_array_2d_and_mask_2d#slim"].gen = _g_chk("array_2d", False, False)
CONTRACTS[A2 + "check_array_2d_and_mask_2d#native"].gen = _g_chk("array_2d", True, False)
CONTRACTS[G2 + "check_grid_2d_and_mask_2d#slim"].gen = _g_chk("grid_2d", False, True)
CONTRACTS[G2 + "check_grid_2d_and_mask_2d#native"].gen = _g_chk("grid_2d", True, True)
for _v in ("none", "pair", "triple", "single"):
    CONTRACTS[G2 + "check_grid_slim#" + _v].gen = _g_slimchk(_v)
for _key, _p in ((A1 + "convert_array_1d", "array_1d"), (G1 + "convert_grid_1d", "grid_1d")):
    for _v, _n, _s in [("native_to_native", True, True), ("native_to_slim", True, False), ("slim_to_slim", False, False), ("slim_to_native", False, True)]:
        CONTRACTS["%s#%s" % (_key, _v)].gen = _g_c1(_p, _n, _s)


# ============================================================================================== FINDINGS (contracts the code FAILS)
# Inputs that are neither a slim nor a native form for the mask are "inconsistent with the mask": the statement gives them no meaning, so
# the checks must refuse them.  The real code ACCEPTS the inputs below (each replayed natively, see the report of this work).  The
# contracts are kept exactly as the statement demands; because contracts/known_findings.json may not be edited from here, they are
# attached to property C01 only when VERIF_C01_GLUE_FINDINGS=1 (then `./vf check C01` reports them as violations with replay files);
# `./vf prove <key>` and engine C (`run_contract_search`) work on them either way.
_FP = ["C01"] if os.environ.get("VERIF_C01_GLUE_FINDINGS") == "1" else []
FINDINGS = [
    contract(G2 + "check_grid_2d#rank1", props=_FP, types={"grid_2d": "real[1]"}, raises={"GridException": "True"}, ensures=["True"],
             note="FINDING: `2 < len(grid_2d.shape) > 3` only refuses rank >= 4: check_grid_2d(np.array([1., 2.])) returns"),
    contract(G2 + "check_grid_2d_and_mask_2d#rank1", props=_FP, attrs=ATTRS, rt_wrap=_wrap2, let=HW, types={"grid_2d": "real[1]", **_CT},
             raises={"GridException": "True"}, ensures=["True"],
             note="FINDING: a rank-1 input is neither checked as slim nor as native: aa.Grid2D(values=np.array([1., 2.]), mask=<3 unmasked pixels>) is accepted"),
    contract(A2 + "check_array_2d_and_mask_2d#rank3", props=_FP, attrs=ATTRS, rt_wrap=_wrap2, let=HW, types={"array_2d": "real[3]", **_CT},
             raises={"ArrayException": "True"}, ensures=["True"],
             note="FINDING: a rank-3 input passes the check (the class layer then fails later with a numpy ValueError, not an ArrayException)"),
    contract(G2 + "check_grid_slim#empty", props=_FP, types={"grid": "real[2]", "shape_native": "()"}, raises={"GridException": "True"}, ensures=["True"],
             note="FINDING: `if shape_native and len(shape_native) != 2` lets the empty tuple through"),
]
for _key, _p in ((A1 + "convert_array_1d", "array_1d"), (G1 + "convert_grid_1d", "grid_1d")):
    FINDINGS.append(contract(
        _key + "#inconsistent_length", props=_FP, mode="bounded", attrs=ATTRS1, rt_wrap=_wrap1, let=N1, types={_p: "real[1]", **_T1}, returns="real[1]",
        requires=[_p + ".shape[0] != N", _p + ".shape[0] != total1(mask_1d)"],
        raises={("ArrayException" if _p == "array_1d" else "GridException"): "True"}, ensures=["True"],
        note="FINDING: no consistency check at all in 1-D: an input that has neither one entry per unmasked pixel nor the mask's length is taken "
             "as 'slim' (returned unchanged, or scattered with the surplus entries dropped / IndexError when too short)"))


def _g_f_rank(p, shapes):
    def g(rng, tier):
        for m in list(gens.all_masks(4))[:40]:
            for shp in shapes:
                yield {p: gens.reals(rng, shp), "mask_2d": m}
    return g


def _g_f_1d(p):
    def g(rng, tier):
        for m in _masks1(rng, tier):
            for ln in range(0, m.shape[0] + 3):
                for store in (False, True):
                    yield {p: gens.reals(rng, (ln,)), "mask_1d": m, "store_native": store}
    return g


CONTRACTS[G2 + "check_grid_2d#rank1"].gen = lambda rng, tier: ({"grid_2d": gens.reals(rng, (n,))} for n in (2, 1, 3, 2, 4))
CONTRACTS[G2 + "check_grid_2d_and_mask_2d#rank1"].gen = _g_f_rank("grid_2d", [(2,), (3,), (1,)])
CONTRACTS[A2 + "check_array_2d_and_mask_2d#rank3"].gen = _g_f_rank("array_2d", [(2, 2, 1), (1, 1, 2)])
CONTRACTS[G2 + "check_grid_slim#empty"].gen = lambda rng, tier: ({"grid": gens.reals(rng, (n, 2)), "shape_native": ()} for n in (1, 2, 3))
CONTRACTS[A1 + "convert_array_1d#inconsistent_length"].gen = _g_f_1d("array_1d")
CONTRACTS[G1 + "convert_grid_1d#inconsistent_length"].gen = _g_f_1d("grid_1d")
