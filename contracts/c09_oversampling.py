"""C09 -- over-sampling partitions pixels uniformly and bins by exact per-pixel means (kernels of over_sample_util / iterate).

Reading of the property statement used below (S = per-pixel sub-size map in slim order, N = number of unmasked pixels):
  * off(k) = sum_{j<k} S[j]^2 is the position of pixel k's block in every over-sampled (sub-slim) array,
  * sub-pixel (a, b) of pixel k (a counted from the top, b from the left) has sub-slim index off(k) + a*S[k] + b,
  * its centre is  y = cy(i) + s_y/2 - (a + 1/2) s_y/S[k],  x = cx(j) - s_x/2 + (b + 1/2) s_x/S[k]  for pixel k = (i, j),
  * binning returns for pixel k the arithmetic mean of the S[k]^2 values of its own block.
To keep the loop proofs linear the index is carried by the spec function c09_blk(S, k, a, b) (DESIGN Appendix A); the lemma
`c09_blk.closed` proves c09_blk(S, k, a, b) == off(k) + a*S[k] + b and every postcondition restates that equality.
"""
import numpy as np
from pyvc.contract import contract, corollary, macro, spec_fn, CONTRACTS
from pyvc import gens

U = "autoarray.operators.over_sampling.over_sample_util:"
IT = "autoarray.operators.over_sampling.iterate:"


# ----------------------------------------------------------------------------------------------- spec functions
def _off_py(S, k):
    S = np.asarray(S)
    return int(sum(int(s) * int(s) for s in S[: max(int(k), 0)]))


def _blk_py(S, k, a, b):
    S = np.asarray(S)
    sk = int(S[k]) if 0 <= k < S.shape[0] else 0
    return _off_py(S, k) + int(a) * sk + int(b)


def _owner(S, t):
    S = np.asarray(S)
    for k in range(S.shape[0]):
        s = int(S[k])
        o = _off_py(S, k)
        if s > 0 and o <= t < o + s * s:
            return k, (t - o) // s, (t - o) % s
    return -1, -1, -1


# an upper bound of the sub sizes: only the range of the induction that proves the closed form of c09_blk
spec_fn("c09_smax", params=[("S", "int[1]")], ret="int", let={"N": "S.shape[0]"},
        axioms=["c09_smax(S) >= 0", "forall(0, N, lambda k: S[k] <= c09_smax(S), pat=S[k])"],
        py=lambda S: int(max([0] + [int(s) for s in np.asarray(S)])),
        doc="any upper bound of the sub sizes (ghost; bounds the induction on the row number a)")

spec_fn(
    "c09_blk", params=[("S", "int[1]"), ("k", "int"), ("a", "int"), ("b", "int")], ret="int",
    let={"N": "S.shape[0]"},
    axioms=[
        # off(0) = 0, off(k+1) = off(k) + S[k]^2                      (off(k) is c09_blk(S, k, 0, 0))
        "c09_blk(S, 0, 0, 0) == 0",
        "forall(0, N, lambda k: c09_blk(S, k + 1, 0, 0) == c09_blk(S, k, 0, 0) + S[k] * S[k], pat=c09_blk(S, k + 1, 0, 0))",
        # inside the block of pixel k: row a starts S[k] after row a-1, column b is b after the row start
        "forall(0, N, lambda k: forall(0, S[k], lambda a: c09_blk(S, k, a + 1, 0) == c09_blk(S, k, a, 0) + S[k],"
        " pat=c09_blk(S, k, a + 1, 0)))",
        "forall(0, N, lambda k: forall(0, S[k] + 1, lambda a: forall(0, S[k] + 1, lambda b:"
        " c09_blk(S, k, a, b) == c09_blk(S, k, a, 0) + b, pat=c09_blk(S, k, a, b))))",
    ],
    lemmas=[
        dict(name="lin_a", induct="n", lo=0, hi="c09_smax(S)", export=False,
             stmt="forall(0, N, lambda k: implies(n <= S[k], c09_blk(S, k, n, 0) == c09_blk(S, k, 0, 0) + n * S[k]),"
                  " pat=c09_blk(S, k, n, 0))"),
        # the explicit index formula of the property statement
        dict(name="closed", noinduct=True,
             stmt="forall(0, N, lambda k: forall(0, S[k] + 1, lambda a: forall(0, S[k] + 1, lambda b:"
                  " c09_blk(S, k, a, b) == c09_blk(S, k, 0, 0) + a * S[k] + b, pat=c09_blk(S, k, a, b))))"),
        # the block of pixel k ends where the block of pixel k+1 starts
        dict(name="end", noinduct=True,
             stmt="forall(0, N, lambda k: implies(S[k] >= 0, c09_blk(S, k, S[k], 0) == c09_blk(S, k + 1, 0, 0)),"
                  " pat=(c09_blk(S, k, S[k], 0), c09_blk(S, k + 1, 0, 0)))"),
        dict(name="in_block", noinduct=True, export=False,
             stmt="forall(0, N, lambda k: forall(0, S[k], lambda a: forall(0, S[k], lambda b:"
                  " c09_blk(S, k, 0, 0) <= c09_blk(S, k, a, b) and c09_blk(S, k, a, b) < c09_blk(S, k + 1, 0, 0),"
                  " pat=c09_blk(S, k, a, b))))"),
        dict(name="off_mono", induct="n", lo=0, hi="N", export=False,
             stmt="forall(0, n + 1, lambda k1: c09_blk(S, k1, 0, 0) <= c09_blk(S, n, 0, 0),"
                  " pat=((c09_blk(S, k1, 0, 0), c09_blk(S, n, 0, 0)),))"),
        dict(name="off_bound", noinduct=True,
             stmt="forall(0, N + 1, lambda k: 0 <= c09_blk(S, k, 0, 0) and c09_blk(S, k, 0, 0) <= c09_blk(S, N, 0, 0),"
                  " pat=c09_blk(S, k, 0, 0))"),
        # every sub-pixel index lies inside the over-sampled array
        dict(name="bound", noinduct=True,
             stmt="forall(0, N, lambda k: forall(0, S[k], lambda a: forall(0, S[k], lambda b:"
                  " 0 <= c09_blk(S, k, a, b) and c09_blk(S, k, a, b) < c09_blk(S, N, 0, 0), pat=c09_blk(S, k, a, b))))"),
        # off(n) is the sum of the squared sub sizes (the form np.sum(sub_size ** 2) is linked to)
        dict(name="sum", induct="n", lo=0, hi="N",
             stmt="c09_blk(S, n, 0, 0) == sumto(n, lambda k: S[k] * S[k])"),
    ],
    py=_blk_py,
    doc="sub-slim index of sub-pixel (a, b) of slim pixel k: blocks of S[k]^2 entries in slim order, row-major inside",
)
macro("c09_off", ["S", "k"], "c09_blk(S, k, 0, 0)", py=_off_py)

# inverse of c09_blk on the sub-pixels: owner pixel, row and column of sub-slim index t
_DOM = "forall(0, N, lambda k: forall(0, S[k], lambda a: forall(0, S[k], lambda b: {f}(S, c09_blk(S, k, a, b)) == {v}, pat=c09_blk(S, k, a, b))))"
spec_fn("c09_pk", params=[("S", "int[1]"), ("t", "int")], ret="int", let={"N": "S.shape[0]"},
        axioms=[_DOM.format(f="c09_pk", v="k")], py=lambda S, t: _owner(S, t)[0])
spec_fn("c09_pa", params=[("S", "int[1]"), ("t", "int")], ret="int", let={"N": "S.shape[0]"},
        axioms=[_DOM.format(f="c09_pa", v="a")], py=lambda S, t: _owner(S, t)[1])
spec_fn("c09_pb", params=[("S", "int[1]"), ("t", "int")], ret="int", let={"N": "S.shape[0]"},
        axioms=[_DOM.format(f="c09_pb", v="b")], py=lambda S, t: _owner(S, t)[2],
        doc="(c09_pk, c09_pa, c09_pb)(t) = the (pixel, row, column) whose sub-slim index is t")

# sub size of native pixel (y, x): 0 sub-pixels for a masked pixel
macro("c09_sub", ["M", "S", "y", "x"], "(0 if M[y, x] else S[cnt2(M, y, x)])")
# centre of sub-interval a (of n equal parts) of a pixel centred on c with side s: counted downwards / rightwards
macro("c09_ysub", ["c", "s", "a", "n"], "c + s / 2 - (a + 1 / 2) * s / n", py=lambda c, s, a, n: c + s / 2 - (a + 0.5) * s / n)
macro("c09_xsub", ["c", "s", "b", "n"], "c - s / 2 + (b + 1 / 2) * s / n", py=lambda c, s, b, n: c - s / 2 + (b + 0.5) * s / n)

HW = {"H": "mask_2d.shape[0]", "W": "mask_2d.shape[1]", "S": "sub_size", "N": "sub_size.shape[0]", "M": "mask_2d"}
_IDX = "c09_blk(S, cnt2(M, y, x), a, b)"
_CLOSED = _IDX + " == c09_off(S, cnt2(M, y, x)) + a * S[cnt2(M, y, x)] + b"


def _subpix(body):
    """for every unmasked pixel (y, x) and every sub-pixel (a, b) of it"""
    return ("forall(0, H, lambda y: forall(0, W, lambda x: forall(0, c09_sub(M, S, y, x), lambda a:"
            " forall(0, c09_sub(M, S, y, x), lambda b: " + body + "))))")


# ----------------------------------------------------------------------------------------------- total
contract(
    U + "total_sub_pixels_2d_from", props=["C09"],
    types={"sub_size": "int[1]"}, returns="int", let={"S": "sub_size", "N": "sub_size.shape[0]"},
    ensures=["result == sumto(N, lambda k: sub_size[k] ** 2)", "result == c09_off(S, N)", "result >= 0"],
    sentence={"sumto": "the over-sampled grid holds sub_size^2 points per unmasked pixel (total = sum of the squares)"},
)

# ----------------------------------------------------------------------------------------------- index tables
_REQ_TBL = ["N == total(M)", "forall(0, N, lambda k: S[k] >= 0)"]


def _walk(idx, sub, done):
    """invariants of the four nested loops (y, x, y1, x1) shared by the sub-pixel kernels: `idx` counts unmasked pixels,
    `sub` counts sub-pixels, `done` describes the entries written so far (all t < sub)"""
    return {
        0: {"inv": [idx + " == cnt2(M, y, 0)", sub + " == c09_blk(S, " + idx + ", 0, 0)", done]},
        1: {"inv": [idx + " == cnt2(M, y, x)", sub + " == c09_blk(S, " + idx + ", 0, 0)", done]},
        2: {"inv": [sub + " == c09_blk(S, " + idx + ", y1, 0)", done]},
        3: {"inv": [sub + " == c09_blk(S, " + idx + ", y1, x1)", done]},
    }


contract(
    U + "slim_index_for_sub_slim_index_via_mask_2d_from", props=["C09"],
    types={"mask_2d": "bool[2]", "sub_size": "int[1]"}, returns="real[1]", let=HW,
    requires=_REQ_TBL,
    ensures=[
        "result.shape[0] == c09_off(S, N)",
        # ordered pixel by pixel (slim order) then top-to-bottom, left-to-right: entry off(k) + a*S[k] + b belongs to pixel k
        _subpix("result[" + _IDX + "] == cnt2(M, y, x) and " + _CLOSED),
    ],
    loops=_walk("slim_index", "sub_slim_index",
                "forall(0, sub_slim_index, lambda t: slim_index_for_sub_slim_index[t] == c09_pk(S, t))"),
    sentence={"forall": "sub-pixels are ordered pixel by pixel (slim order) then top-to-bottom, left-to-right"},
)

# ----------------------------------------------------------------------------------------------- over-sampled grid
GEO = {**HW, "sy": "pixel_scales[0]", "sx": "pixel_scales[1]", "oy": "origin[0]", "ox": "origin[1]"}
_REQ_SUB = ["N == total(M)", "forall(0, N, lambda k: S[k] >= 1)"]

_GRID_DONE = ("forall(0, sub_index, lambda t:"
              " grid_slim[t, 0] == c09_ysub(cy(pixy(M, c09_pk(S, t)), H, sy, oy), sy, c09_pa(S, t), S[c09_pk(S, t)])"
              " and grid_slim[t, 1] == c09_xsub(cx(pixx(M, c09_pk(S, t)), W, sx, ox), sx, c09_pb(S, t), S[c09_pk(S, t)]))")
_grid_loops = _walk("index", "sub_index", _GRID_DONE)
_grid_loops[3]["assert_at"] = {0: [
    "-(y_scaled - y_sub_half + y1 * y_sub_step + y_sub_step / 2.0) == c09_ysub(cy(y, H, sy, oy), sy, y1, sub)",
    "x_scaled - x_sub_half + x1 * x_sub_step + x_sub_step / 2.0 == c09_xsub(cx(x, W, sx, ox), sx, x1, sub)",
]}

contract(
    U + "grid_2d_slim_over_sampled_via_mask_from", props=["C09", "C12"],
    types={"mask_2d": "bool[2]", "pixel_scales": "(real,real)", "sub_size": "int[1]", "origin": "(real,real)"},
    returns="real[2]", let=GEO,
    requires=_REQ_SUB + ["sy != 0", "sx != 0"],
    ensures=[
        # sub_size^2 points per unmasked pixel
        "result.shape[0] == c09_off(S, N)", "result.shape[0] == sumto(N, lambda k: S[k] ** 2)", "result.shape[1] == 2",
        # ... at the centres of a uniform sub x sub partition of that pixel, ordered pixel by pixel (slim order) then
        # top-to-bottom, left-to-right
        _subpix("result[" + _IDX + ", 0] == cy(y, H, sy, oy) + sy / 2 - (a + 1 / 2) * sy / S[cnt2(M, y, x)]"
                " and result[" + _IDX + ", 1] == cx(x, W, sx, ox) - sx / 2 + (b + 1 / 2) * sx / S[cnt2(M, y, x)]"
                " and " + _CLOSED),
    ],
    loops=_grid_loops,
    sentence={"forall": "the over-sampled grid holds sub_size^2 points per unmasked pixel at the centres of a uniform sub x sub "
                        "partition of that pixel, ordered pixel by pixel (slim order) then top-to-bottom, left-to-right"},
)
