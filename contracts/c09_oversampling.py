"""C09 -- over-sampling partitions pixels uniformly and bins by exact per-pixel means (kernels of over_sample_util / iterate).

Reading of the property statement used below (S = per-pixel sub-size map in slim order, N = number of unmasked pixels):
  * off(k) = sum_{j<k} S[j]^2 is the position of pixel k's block in every over-sampled (sub-slim) array,
  * sub-pixel (a, b) of pixel k (a counted from the top, b from the left) has sub-slim index off(k) + a*S[k] + b,
  * its centre is  y = cy(i) + s_y/2 - (a + 1/2) s_y/S[k],  x = cx(j) - s_x/2 + (b + 1/2) s_x/S[k]  for pixel k = (i, j),
  * binning returns for pixel k the arithmetic mean of the S[k]^2 values of its own block.
To keep the loop proofs linear the index is carried by the spec function c09_blk(S, k, a, b) (DESIGN Appendix A); the lemma
`c09_blk.closed` proves c09_blk(S, k, a, b) == off(k) + a*S[k] + b and every postcondition restates that equality.
"""
import numpy as np
from pyvc.contract import contract, corollary, macro, spec_fn, CONTRACTS
from pyvc import gens

U = "autoarray.operators.over_sampling.over_sample_util:"
IT = "autoarray.operators.over_sampling.iterate:"


# ----------------------------------------------------------------------------------------------- spec functions
def _off_py(S, k):
    S = np.asarray(S)
    return int(sum(int(s) * int(s) for s in S[: max(int(k), 0)]))


def _blk_py(S, k, a, b):
    S = np.asarray(S)
    sk = int(S[k]) if 0 <= k < S.shape[0] else 0
    return _off_py(S, k) + int(a) * sk + int(b)


def _owner(S, t):
    S = np.asarray(S)
    for k in range(S.shape[0]):
        s = int(S[k])
        o = _off_py(S, k)
        if s > 0 and o <= t < o + s * s:
            return k, (t - o) // s, (t - o) % s
    return -1, -1, -1


# an upper bound of the sub sizes: only the range of the induction that proves the closed form of c09_blk
spec_fn("c09_smax", params=[("S", "int[1]")], ret="int", let={"N": "S.shape[0]"},
        axioms=["c09_smax(S) >= 0", "forall(0, N, lambda k: S[k] <= c09_smax(S), pat=S[k])"],
        py=lambda S: int(max([0] + [int(s) for s in np.asarray(S)])),
        doc="any upper bound of the sub sizes (ghost; bounds the induction on the row number a)")

spec_fn(
    "c09_blk", params=[("S", "int[1]"), ("k", "int"), ("a", "int"), ("b", "int")], ret="int",
    let={"N": "S.shape[0]"},
    axioms=[
        # off(0) = 0, off(k+1) = off(k) + S[k]^2                      (off(k) is c09_blk(S, k, 0, 0))
        "c09_blk(S, 0, 0, 0) == 0",
        "forall(0, N, lambda k: c09_blk(S, k + 1, 0, 0) == c09_blk(S, k, 0, 0) + S[k] * S[k], pat=c09_blk(S, k + 1, 0, 0))",
        # inside the block of pixel k: row a starts S[k] after row a-1, column b is b after the row start
        "forall(0, N, lambda k: forall(0, S[k], lambda a: c09_blk(S, k, a + 1, 0) == c09_blk(S, k, a, 0) + S[k],"
        " pat=c09_blk(S, k, a + 1, 0)))",
        "forall(0, N, lambda k: forall(0, S[k] + 1, lambda a: forall(0, S[k] + 1, lambda b:"
        " c09_blk(S, k, a, b) == c09_blk(S, k, a, 0) + b, pat=c09_blk(S, k, a, b))))",
    ],
    lemmas=[
        dict(name="lin_a", induct="n", lo=0, hi="c09_smax(S)", export=False,
             stmt="forall(0, N, lambda k: implies(n <= S[k], c09_blk(S, k, n, 0) == c09_blk(S, k, 0, 0) + n * S[k]),"
                  " pat=c09_blk(S, k, n, 0))"),
        # the explicit index formula of the property statement
        dict(name="closed", noinduct=True,
             stmt="forall(0, N, lambda k: forall(0, S[k] + 1, lambda a: forall(0, S[k] + 1, lambda b:"
                  " c09_blk(S, k, a, b) == c09_blk(S, k, 0, 0) + a * S[k] + b, pat=c09_blk(S, k, a, b))))"),
        # the block of pixel k ends where the block of pixel k+1 starts
        dict(name="end", noinduct=True,
             stmt="forall(0, N, lambda k: implies(S[k] >= 0, c09_blk(S, k, S[k], 0) == c09_blk(S, k + 1, 0, 0)),"
                  " pat=(c09_blk(S, k, S[k], 0), c09_blk(S, k + 1, 0, 0)))"),
        dict(name="in_block", noinduct=True, export=False,
             stmt="forall(0, N, lambda k: forall(0, S[k], lambda a: forall(0, S[k], lambda b:"
                  " c09_blk(S, k, 0, 0) <= c09_blk(S, k, a, b) and c09_blk(S, k, a, b) < c09_blk(S, k + 1, 0, 0),"
                  " pat=c09_blk(S, k, a, b))))"),
        dict(name="off_mono", induct="n", lo=0, hi="N", export=False,
             stmt="forall(0, n + 1, lambda k1: c09_blk(S, k1, 0, 0) <= c09_blk(S, n, 0, 0),"
                  " pat=((c09_blk(S, k1, 0, 0), c09_blk(S, n, 0, 0)),))"),
        dict(name="off_bound", noinduct=True,
             stmt="forall(0, N + 1, lambda k: 0 <= c09_blk(S, k, 0, 0) and c09_blk(S, k, 0, 0) <= c09_blk(S, N, 0, 0),"
                  " pat=c09_blk(S, k, 0, 0))"),
        # every sub-pixel index lies inside the over-sampled array
        dict(name="bound", noinduct=True,
             stmt="forall(0, N, lambda k: forall(0, S[k], lambda a: forall(0, S[k], lambda b:"
                  " 0 <= c09_blk(S, k, a, b) and c09_blk(S, k, a, b) < c09_blk(S, N, 0, 0), pat=c09_blk(S, k, a, b))))"),
        # with sub size one everywhere the over-sampled (sub-slim) index is the slim index
        dict(name="unit", induct="n", lo=0, hi="N",
             stmt="implies(forall(0, n, lambda j: S[j] == 1), c09_blk(S, n, 0, 0) == n)"),
        # off(n) is the sum of the squared sub sizes (the form np.sum(sub_size ** 2) is linked to)
        dict(name="sum", induct="n", lo=0, hi="N",
             stmt="c09_blk(S, n, 0, 0) == sumto(n, lambda k: S[k] * S[k])"),
    ],
    py=_blk_py,
    doc="sub-slim index of sub-pixel (a, b) of slim pixel k: blocks of S[k]^2 entries in slim order, row-major inside",
)
macro("c09_off", ["S", "k"], "c09_blk(S, k, 0, 0)", py=_off_py)

# inverse of c09_blk on the sub-pixels: owner pixel, row and column of sub-slim index t
_DOM = "forall(0, N, lambda k: forall(0, S[k], lambda a: forall(0, S[k], lambda b: {f}(S, c09_blk(S, k, a, b)) == {v}, pat=c09_blk(S, k, a, b))))"
spec_fn("c09_pk", params=[("S", "int[1]"), ("t", "int")], ret="int", let={"N": "S.shape[0]"},
        axioms=[_DOM.format(f="c09_pk", v="k")], py=lambda S, t: _owner(S, t)[0])
spec_fn("c09_pa", params=[("S", "int[1]"), ("t", "int")], ret="int", let={"N": "S.shape[0]"},
        axioms=[_DOM.format(f="c09_pa", v="a")], py=lambda S, t: _owner(S, t)[1])
spec_fn("c09_pb", params=[("S", "int[1]"), ("t", "int")], ret="int", let={"N": "S.shape[0]"},
        axioms=[_DOM.format(f="c09_pb", v="b")], py=lambda S, t: _owner(S, t)[2],
        doc="(c09_pk, c09_pa, c09_pb)(t) = the (pixel, row, column) whose sub-slim index is t")

# sub size of native pixel (y, x): 0 sub-pixels for a masked pixel
macro("c09_sub", ["M", "S", "y", "x"], "(0 if M[y, x] else S[cnt2(M, y, x)])")
# centre of sub-interval a (of n equal parts) of a pixel centred on c with side s: counted downwards / rightwards
macro("c09_ysub", ["c", "s", "a", "n"], "c + s / 2 - (a + 1 / 2) * (s / n)", py=lambda c, s, a, n: c + s / 2 - (a + 0.5) * s / n)
macro("c09_xsub", ["c", "s", "b", "n"], "c - s / 2 + (b + 1 / 2) * (s / n)", py=lambda c, s, b, n: c - s / 2 + (b + 0.5) * s / n)

HW = {"H": "mask_2d.shape[0]", "W": "mask_2d.shape[1]", "S": "sub_size", "N": "sub_size.shape[0]", "M": "mask_2d"}
_IDX = "c09_blk(S, cnt2(M, y, x), a, b)"
_CLOSED = _IDX + " == c09_off(S, cnt2(M, y, x)) + a * S[cnt2(M, y, x)] + b"


def _subpix(body):
    """for every unmasked pixel (y, x) and every sub-pixel (a, b) of it"""
    return ("forall(0, H, lambda y: forall(0, W, lambda x: forall(0, c09_sub(M, S, y, x), lambda a:"
            " forall(0, c09_sub(M, S, y, x), lambda b: " + body + "))))")


# ----------------------------------------------------------------------------------------------- total
contract(
    U + "total_sub_pixels_2d_from", props=["C09"],
    types={"sub_size": "int[1]"}, returns="int", let={"S": "sub_size", "N": "sub_size.shape[0]"},
    ensures=["result == sumto(N, lambda k: sub_size[k] ** 2)", "result == c09_off(S, N)", "result >= 0"],
    sentence={"sumto": "the over-sampled grid holds sub_size^2 points per unmasked pixel (total = sum of the squares)"},
)

# ----------------------------------------------------------------------------------------------- index tables
_REQ_TBL = ["N == total(M)", "forall(0, N, lambda k: S[k] >= 0)"]


def _walk(idx, sub, done):
    """invariants of the four nested loops (y, x, y1, x1) shared by the sub-pixel kernels: `idx` counts unmasked pixels,
    `sub` counts sub-pixels, `done` describes the entries written so far (all t < sub)"""
    return {
        0: {"inv": [idx + " == cnt2(M, y, 0)", sub + " == c09_blk(S, " + idx + ", 0, 0)", done]},
        1: {"inv": [idx + " == cnt2(M, y, x)", sub + " == c09_blk(S, " + idx + ", 0, 0)", done]},
        2: {"inv": [sub + " == c09_blk(S, " + idx + ", y1, 0)", done]},
        3: {"inv": [sub + " == c09_blk(S, " + idx + ", y1, x1)", done]},
    }


contract(
    U + "slim_index_for_sub_slim_index_via_mask_2d_from", props=["C09"],
    types={"mask_2d": "bool[2]", "sub_size": "int[1]"}, returns="real[1]", let=HW,
    requires=_REQ_TBL,
    ensures=[
        "result.shape[0] == c09_off(S, N)",
        # ordered pixel by pixel (slim order) then top-to-bottom, left-to-right: entry off(k) + a*S[k] + b belongs to pixel k
        _subpix("result[" + _IDX + "] == cnt2(M, y, x) and " + _CLOSED),
    ],
    loops=_walk("slim_index", "sub_slim_index",
                "forall(0, sub_slim_index, lambda t: slim_index_for_sub_slim_index[t] == c09_pk(S, t))"),
    sentence={"forall": "sub-pixels are ordered pixel by pixel (slim order) then top-to-bottom, left-to-right"},
)

# (row, column) of sub-pixel (a, b) of the slim pixel k = cnt2(M, y, x) in the over-sampled frame, as functions of the integers
# k, a / k, b only (quantified invariants need congruence alone; the products y*S[k] are unfolded once per ground term)
_NATI = ("forall(0, H, lambda y: forall(0, W, lambda x: forall(0, c09_sub_g(M, S, y, x), lambda {v}:"
         " {f}(M, S, cnt2(M, y, x), {v}) == {c} * S[cnt2(M, y, x)] + {v}, pat={f}(M, S, cnt2(M, y, x), {v}))))")


def _nat_py(c):
    def f(M, S, k, v):
        i = _pix_py(M, k, c)
        return 0 if (i < 0 or not 0 <= k < len(S)) else i * int(S[k]) + int(v)
    return f


def _pix_py(M, k, c):
    idx = np.argwhere(~np.asarray(M, dtype=bool))
    return int(idx[k][c]) if 0 <= k < len(idx) else -1


# (as c09_sub, but also 0 when the sub-size map is too short for the mask: keeps the axioms below well-defined for every M, S)
macro("c09_sub_g", ["M", "S", "y", "x"], "(0 if (M[y, x] or cnt2(M, y, x) >= S.shape[0]) else S[cnt2(M, y, x)])")
spec_fn("c09_naty", params=[("M", "bool[2]"), ("S", "int[1]"), ("k", "int"), ("a", "int")], ret="int",
        let={"H": "M.shape[0]", "W": "M.shape[1]"}, axioms=[_NATI.format(f="c09_naty", v="a", c="y")], py=_nat_py(0))
spec_fn("c09_natx", params=[("M", "bool[2]"), ("S", "int[1]"), ("k", "int"), ("b", "int")], ret="int",
        let={"H": "M.shape[0]", "W": "M.shape[1]"}, axioms=[_NATI.format(f="c09_natx", v="b", c="x")], py=_nat_py(1))

_nat_loops = _walk("slim_index", "sub_slim_index",
                   "forall(0, sub_slim_index, lambda t:"
                   " sub_native_index_for_sub_slim_index_2d[t, 0] == c09_naty(M, S, c09_pk(S, t), c09_pa(S, t))"
                   " and sub_native_index_for_sub_slim_index_2d[t, 1] == c09_natx(M, S, c09_pk(S, t), c09_pb(S, t)))")
_nat_loops[3]["assert_at"] = {0: [
    "c09_pk(S, sub_slim_index) == slim_index and c09_pa(S, sub_slim_index) == y1 and c09_pb(S, sub_slim_index) == x1",
    "y * sub + y1 == c09_naty(M, S, slim_index, y1) and x * sub + x1 == c09_natx(M, S, slim_index, x1)"]}
contract(
    U + "native_sub_index_for_slim_sub_index_2d_from", props=["C09"],
    types={"mask_2d": "bool[2]", "sub_size": "int[1]"}, returns="real[2]", let=HW,
    requires=_REQ_TBL,
    ensures=[
        "result.shape[0] == c09_off(S, N)", "result.shape[1] == 2",
        # sub-pixel (a, b) of native pixel (y, x) is entry (y*sub + a, x*sub + b) of the over-sampled frame
        _subpix("result[" + _IDX + ", 0] == y * S[cnt2(M, y, x)] + a and result[" + _IDX + ", 1] == x * S[cnt2(M, y, x)] + b"),
        _subpix(_CLOSED),
    ],
    loops=_nat_loops,
    sentence={"forall": "sub-pixels are ordered pixel by pixel (slim order) then top-to-bottom, left-to-right"},
)

contract(
    U + "sub_slim_index_for_sub_native_index_from", props=["C09"],
    types={"sub_mask_2d": "bool[2]"}, returns="real[2]",
    let={"M": "sub_mask_2d", "H": "sub_mask_2d.shape[0]", "W": "sub_mask_2d.shape[1]"},
    ensures=["result.shape[0] == H", "result.shape[1] == W",
             # every unmasked entry holds its rank in row-major order, every masked entry -1
             "forall(0, H, lambda y: forall(0, W, lambda x: result[y, x] == (-1 if M[y, x] else cnt2(M, y, x))))"],
    loops={0: {"inv": ["sub_mask_1d_index == cnt2(M, sub_mask_y, 0)",
                       "forall(0, sub_mask_y, lambda y: forall(0, W, lambda x: sub_slim_index_for_sub_native_index[y, x] == (-1 if M[y, x] else cnt2(M, y, x))))",
                       "forall(sub_mask_y, H, lambda y: forall(0, W, lambda x: sub_slim_index_for_sub_native_index[y, x] == -1))"]},
           1: {"inv": ["sub_mask_1d_index == cnt2(M, sub_mask_y, sub_mask_x)",
                       "forall(0, sub_mask_y, lambda y: forall(0, W, lambda x: sub_slim_index_for_sub_native_index[y, x] == (-1 if M[y, x] else cnt2(M, y, x))))",
                       "forall(sub_mask_y + 1, H, lambda y: forall(0, W, lambda x: sub_slim_index_for_sub_native_index[y, x] == -1))",
                       "forall(0, sub_mask_x, lambda x: sub_slim_index_for_sub_native_index[sub_mask_y, x] == (-1 if M[sub_mask_y, x] else cnt2(M, sub_mask_y, x)))",
                       "forall(sub_mask_x, W, lambda x: sub_slim_index_for_sub_native_index[sub_mask_y, x] == -1)"]}},
    sentence={"forall": "the native-to-slim table of the over-sampled mask holds the row-major rank of every unmasked entry and -1 elsewhere"},
)


# ----------------------------------------------------------------------------------------------- over-sampled grid
GEO = {**HW, "sy": "pixel_scales[0]", "sx": "pixel_scales[1]", "oy": "origin[0]", "ox": "origin[1]"}
_REQ_SUB = ["N == total(M)", "forall(0, N, lambda k: S[k] >= 1)"]

# coordinates of sub-row a / sub-column b of slim pixel k, as functions of the integers only: the quantified invariants then
# need congruence alone, the (non-linear) formula is unfolded once per ground term
def _suby_py(M, S, sy, oy, k, a):
    n = int(S[k]) if 0 <= k < len(S) else 0
    return 0.0 if n == 0 else float(oy + ((M.shape[0] - 1) / 2 - _pix_py(M, k, 0)) * sy + sy / 2 - (a + 0.5) * (sy / n))


def _subx_py(M, S, sx, ox, k, b):
    n = int(S[k]) if 0 <= k < len(S) else 0
    return 0.0 if n == 0 else float(ox + (_pix_py(M, k, 1) - (M.shape[1] - 1) / 2) * sx - sx / 2 + (b + 0.5) * (sx / n))


_NAT = ("forall(0, H, lambda y: forall(0, W, lambda x: forall(0, c09_sub_g(M, S, y, x), lambda {v}:"
        " {f}(M, S, {s}, {o}, cnt2(M, y, x), {v}) == {body}, pat={f}(M, S, {s}, {o}, cnt2(M, y, x), {v}))))")
spec_fn("c09_suby", params=[("M", "bool[2]"), ("S", "int[1]"), ("sy", "$real"), ("oy", "$real"), ("k", "int"), ("a", "int")],
        ret="real", let={"H": "M.shape[0]", "W": "M.shape[1]", "N": "S.shape[0]"},
        axioms=[_NAT.format(f="c09_suby", s="sy", o="oy", v="a", body="c09_ysub(cy(y, H, sy, oy), sy, a, S[cnt2(M, y, x)])")],
        py=_suby_py, doc="y of the centre of sub-row a of the slim pixel k = cnt2(M, y, x) (a counted from the top)")
spec_fn("c09_subx", params=[("M", "bool[2]"), ("S", "int[1]"), ("sx", "$real"), ("ox", "$real"), ("k", "int"), ("b", "int")],
        ret="real", let={"H": "M.shape[0]", "W": "M.shape[1]", "N": "S.shape[0]"},
        axioms=[_NAT.format(f="c09_subx", s="sx", o="ox", v="b", body="c09_xsub(cx(x, W, sx, ox), sx, b, S[cnt2(M, y, x)])")],
        py=_subx_py, doc="x of the centre of sub-column b of the slim pixel k = cnt2(M, y, x) (b counted from the left)")

_GRID_DONE = ("forall(0, sub_index, lambda t: grid_slim[t, 0] == c09_suby(M, S, sy, oy, c09_pk(S, t), c09_pa(S, t))"
              " and grid_slim[t, 1] == c09_subx(M, S, sx, ox, c09_pk(S, t), c09_pb(S, t)))")
_grid_loops = _walk("index", "sub_index", _GRID_DONE)
_grid_loops[3]["assert_at"] = {0: [
    "y_scaled == -cy(y, H, sy, oy)", "x_scaled == cx(x, W, sx, ox)",
    "c09_pk(S, sub_index) == index and c09_pa(S, sub_index) == y1 and c09_pb(S, sub_index) == x1",
    "c09_suby(M, S, sy, oy, index, y1) == c09_ysub(cy(y, H, sy, oy), sy, y1, sub)",
    "c09_subx(M, S, sx, ox, index, x1) == c09_xsub(cx(x, W, sx, ox), sx, x1, sub)",
    "-(y_scaled - y_sub_half + y1 * y_sub_step + y_sub_step / 2.0) == c09_suby(M, S, sy, oy, index, y1)",
    "x_scaled - x_sub_half + x1 * x_sub_step + x_sub_step / 2.0 == c09_subx(M, S, sx, ox, index, x1)",
]}

contract(
    U + "grid_2d_slim_over_sampled_via_mask_from", props=["C09", "C12"],
    types={"mask_2d": "bool[2]", "pixel_scales": "(real,real)", "sub_size": "int[1]", "origin": "(real,real)"},
    returns="real[2]", let=GEO,
    requires=_REQ_SUB + ["sy != 0", "sx != 0"],
    ensures=[
        # sub_size^2 points per unmasked pixel
        "result.shape[0] == c09_off(S, N)", "result.shape[0] == sumto(N, lambda k: S[k] ** 2)", "result.shape[1] == 2",
        # ... at the centres of a uniform sub x sub partition of that pixel, ordered pixel by pixel (slim order) then
        # top-to-bottom, left-to-right
        _subpix("result[" + _IDX + ", 0] == cy(y, H, sy, oy) + sy / 2 - (a + 1 / 2) * (sy / S[cnt2(M, y, x)])"),
        _subpix("result[" + _IDX + ", 1] == cx(x, W, sx, ox) - sx / 2 + (b + 1 / 2) * (sx / S[cnt2(M, y, x)])"),
        _subpix(_CLOSED),
    ],
    loops=_grid_loops,
    sentence={"forall": "the over-sampled grid holds sub_size^2 points per unmasked pixel at the centres of a uniform sub x sub "
                        "partition of that pixel, ordered pixel by pixel (slim order) then top-to-bottom, left-to-right"},
)


# ----------------------------------------------------------------------------------------------- binning
# sum of the sub-values of pixel k: rows a (top to bottom), inside a row columns b (left to right), at the very indices
# c09_blk(S, k, a, b) == off(k) + a*S[k] + b at which the over-sampled grid holds the sub-pixel centres of pixel k
_FR = "(1 / (S[%s] * S[%s]))"                       # the code's sub_fraction[k]


def _row(k, a, n, scaled=False):
    return "sumto(%s, lambda b: A[c09_blk(S, %s, %s, b)]%s)" % (n, k, a, (" * " + _FR % (k, k)) if scaled else "")


def _rows(k, n, scaled=False):
    return "sumto(%s, lambda a: %s)" % (n, _row(k, "a", "S[%s]" % k, scaled))


_MEAN = _rows("k", "S[k]") + " / (S[k] * S[k])"
_C0 = "A[c09_blk(S, %s, 0, 0)]"
_ALLEQ = "forall(0, %s, lambda a: forall(0, S[%s], lambda b: A[c09_blk(S, %s, a, b)] == " + _C0 + "))"
_G = "A.shape[0] >= c09_blk(S, N, 0, 0)"           # the over-sampled array holds every block (guards the array reads)


def _mean_py(A, S, k):
    n = int(S[k]) if 0 <= k < len(S) else 0
    o = _off_py(S, k)
    if n <= 0 or o + n * n > len(A):
        return 0.0
    return float(sum(float(A[o + j]) for j in range(n * n)) / (n * n))


spec_fn(
    "c09_mean", params=[("A", "real[1]"), ("S", "int[1]"), ("k", "int")], ret="real", let={"N": "S.shape[0]"},
    axioms=["forall(0, N, lambda k: implies(" + _G + " and S[k] >= 1, c09_mean(A, S, k) == " + _MEAN + "), pat=c09_mean(A, S, k))"],
    lemmas=[
        # sum_j (x_j * f) == (sum_j x_j) * f : inside a row, then over the rows (the loops accumulate x_j * sub_fraction)
        dict(name="row_scaled", induct="n", lo=0, hi="c09_smax(S)", export=False,
             stmt="forall(0, N, lambda k: forall(0, S[k], lambda a: implies(" + _G + " and n <= S[k], "
                  + _row("k", "a", "n", True) + " == " + _row("k", "a", "n") + " * " + _FR % ("k", "k") + "),"
                  " pat=" + _row("k", "a", "n", True) + "))"),
        dict(name="rows_scaled", induct="n", lo=0, hi="c09_smax(S)", export=False,
             stmt="forall(0, N, lambda k: implies(" + _G + " and S[k] >= 1 and n <= S[k], "
                  + _rows("k", "n", True) + " == " + _rows("k", "n") + " * " + _FR % ("k", "k") + "),"
                  " pat=" + _rows("k", "n", True) + ")"),
        dict(name="scaled_is_mean", noinduct=True,
             stmt="forall(0, N, lambda k: implies(" + _G + " and S[k] >= 1, " + _rows("k", "S[k]", True) + " == c09_mean(A, S, k)),"
                  " pat=" + _rows("k", "S[k]", True) + ")"),
        # a pixel whose sub-values are all equal: the sums are multiples of that value, the mean is that value
        dict(name="row_const", induct="n", lo=0, hi="c09_smax(S)", export=False,
             stmt="forall(0, N, lambda k: forall(0, S[k], lambda a: implies(" + _G + " and n <= S[k]"
                  " and forall(0, n, lambda b: A[c09_blk(S, k, a, b)] == " + _C0 % "k" + "), "
                  + _row("k", "a", "n") + " == n * " + _C0 % "k" + "), pat=" + _row("k", "a", "n") + "))"),
        dict(name="rows_const", induct="n", lo=0, hi="c09_smax(S)", export=False,
             stmt="forall(0, N, lambda k: implies(" + _G + " and S[k] >= 1 and n <= S[k] and " + _ALLEQ % ("n", "k", "k", "k") + ", "
                  + _rows("k", "n") + " == (n * S[k]) * " + _C0 % "k" + "), pat=" + _rows("k", "n") + ")"),
        dict(name="const", noinduct=True,
             stmt="forall(0, N, lambda k: implies(" + _G + " and S[k] >= 1 and " + _ALLEQ % ("S[k]", "k", "k", "k") + ","
                  " c09_mean(A, S, k) == " + _C0 % "k" + "), pat=c09_mean(A, S, k))"),
    ],
    py=_mean_py, doc="arithmetic mean of the S[k]^2 sub-values of slim pixel k",
)

_BIN_DONE = "forall(0, index, lambda k: binned_array_2d_slim[k] == c09_mean(A, S, k))"
_bin_loops = {
    0: {"inv": ["index == cnt2(M, y, 0)", "sub_index == c09_off(S, index)", _BIN_DONE,
                "forall(index, N, lambda k: binned_array_2d_slim[k] == 0)"]},
    1: {"inv": ["index == cnt2(M, y, x)", "sub_index == c09_off(S, index)", _BIN_DONE,
                "forall(index, N, lambda k: binned_array_2d_slim[k] == 0)"]},
    2: {"inv": ["sub_index == c09_blk(S, index, y1, 0)", _BIN_DONE,
                "forall(index + 1, N, lambda k: binned_array_2d_slim[k] == 0)",
                "binned_array_2d_slim[index] == " + _rows("index", "y1", True)]},
    3: {"inv": ["sub_index == c09_blk(S, index, y1, x1)", _BIN_DONE,
                "forall(index + 1, N, lambda k: binned_array_2d_slim[k] == 0)",
                "binned_array_2d_slim[index] == " + _rows("index", "y1", True) + " + " + _row("index", "y1", "x1", True)],
        "assert_at": {0: ["sub_fraction[index] == " + _FR % ("index", "index")]}},
}

contract(
    U + "binned_array_2d_from", props=["C09"],
    types={"array_2d": "real[1]", "mask_2d": "bool[2]", "sub_size": "int[1]"}, returns="real[1]",
    let={**HW, "A": "array_2d"},
    requires=_REQ_SUB + ["A.shape[0] == c09_off(S, N)"],
    ensures=[
        "result.shape[0] == total(M)",
        # binning returns for each pixel the arithmetic mean of its own sub-values
        "forall(0, N, lambda k: result[k] == " + _MEAN + ")",
        # ... so a pixel whose sub-values are all equal gets exactly that value (constants are reproduced exactly)
        "forall(0, N, lambda k: implies(" + _ALLEQ % ("S[k]", "k", "k", "k") + ", result[k] == A[c09_off(S, k)]))",
    ],
    loops=_bin_loops,
    sentence={"sumto": "binning over-sampled values returns for each pixel the arithmetic mean of its own sub-values",
              "implies": "constants are reproduced exactly"},
)


# ----------------------------------------------------------------------------------------------- iterative scheme kernels
# agreement of a level with the previous one: ratio of the smaller to the larger value, defined only when the previous
# (lower sub-size) value l is positive -- otherwise no agreement (0)
macro("c09_agree", ["l", "h"], "((min(l, h) / max(l, h)) if l > 0 else 0)",
      py=lambda l, h: (min(l, h) / max(l, h)) if l > 0 else 0.0)
# a pixel is NOT yet accurate: the agreement misses the fractional accuracy or, if set, the absolute difference exceeds the tolerance
macro("c09_inacc_f", ["l", "h", "fa"], "(fa is not None and c09_agree(l, h) < fa)")
macro("c09_inacc_r", ["l", "h", "ra"], "(ra is not None and abs(l - h) > ra)")

_TM = {"T": "threshold_mask", "Hh": "array_higher_sub_2d", "L": "array_lower_sub_2d", "HM": "array_higher_mask",
       "fa": "fractional_accuracy_threshold", "ra": "relative_accuracy_threshold",
       "H": "threshold_mask.shape[0]", "W": "threshold_mask.shape[1]"}
_FF = "(not HM[{y}, {x}] and c09_inacc_f(L[{y}, {x}], Hh[{y}, {x}], fa))"
_RF = "(not HM[{y}, {x}] and c09_inacc_r(L[{y}, {x}], Hh[{y}, {x}], ra))"
_AFTER_F = "T[{y}, {x}] == (old(T)[{y}, {x}] and not " + _FF + ")"
_AFTER_R = "T[{y}, {x}] == (old(T)[{y}, {x}] and not " + _FF + " and not " + _RF + ")"
_STONE_F = ("implies(L[y, x] > 0 and Hh[y, x] != 0 and fa >= 0, ((L[y, x] / Hh[y, x] if L[y, x] / Hh[y, x] <= 1.0"
            " else 1.0 / (L[y, x] / Hh[y, x])) < fa) == (min(L[y, x], Hh[y, x]) / max(L[y, x], Hh[y, x]) < fa))")


def _all(body, ylo="0", yhi="H", xlo="0", xhi="W", y="yy", x="xx"):
    return "forall(%s, %s, lambda %s: forall(%s, %s, lambda %s: %s))" % (ylo, yhi, y, xlo, xhi, x, body.format(y=y, x=x))


_UNT = "T[{y}, {x}] == old(T)[{y}, {x}]"
contract(
    IT + "threshold_mask_via_arrays_jit_from", props=["C09"],
    types={"fractional_accuracy_threshold": "real", "relative_accuracy_threshold": "real", "threshold_mask": "bool[2]",
           "array_higher_sub_2d": "real[2]", "array_lower_sub_2d": "real[2]", "array_higher_mask": "bool[2]"},
    returns="bool[2]", result_alias="threshold_mask", modifies=["threshold_mask"], let=_TM,
    requires=["Hh.shape[0] == H and Hh.shape[1] == W and L.shape[0] == H and L.shape[1] == W and HM.shape[0] == H and HM.shape[1] == W",
              "fa is None or fa >= 0",
              # R1 (exact reals) has no inf: the kernel divides l / h whenever l > 0 (IEEE gives inf -> agreement 0 there;
              # those inputs are left to the bounded check C09:iterate-stopping-rule)
              _all("implies(fa is not None and not HM[{y}, {x}] and L[{y}, {x}] > 0, Hh[{y}, {x}] != 0)")],
    ensures=["result.shape[0] == H and result.shape[1] == W",
             # a pixel stays 'still to be refined' (False) exactly if it already was, or its agreement with the previous level
             # (ratio smaller/larger, only for a positive previous value) misses the fractional accuracy, or (if set) the
             # absolute difference exceeds the tolerance
             _all("result[{y}, {x}] == (old(threshold_mask)[{y}, {x}] and not " + _FF + " and not " + _RF + ")")],
    loops={
        0: {"inv": [_all(_AFTER_F, yhi="y"), _all(_UNT, ylo="y")]},
        1: {"inv": [_all(_AFTER_F, yhi="y"), _all(_UNT, ylo="y + 1"),
                    "forall(0, x, lambda xx: " + _AFTER_F.format(y="y", x="xx") + ")",
                    "forall(x, W, lambda xx: " + _UNT.format(y="y", x="xx") + ")"],
            "assert_at": {0: [_STONE_F]}},
        2: {"inv": [_all(_AFTER_R, yhi="y"), _all(_AFTER_F, ylo="y")]},
        3: {"inv": [_all(_AFTER_R, yhi="y"), _all(_AFTER_F, ylo="y + 1"),
                    "forall(0, x, lambda xx: " + _AFTER_R.format(y="y", x="xx") + ")",
                    "forall(x, W, lambda xx: " + _AFTER_F.format(y="y", x="xx") + ")"]},
    },
    sentence={"forall": "agreement with the previous level = ratio of the smaller to the larger value, defined only when the previous "
                        "value is positive, must meet the fractional accuracy and, if set, the absolute-difference tolerance"},
)

contract(
    IT + "iterated_array_jit_from", props=["C09"],
    types={"iterated_array": "real[2]", "threshold_mask_higher_sub": "bool[2]", "threshold_mask_lower_sub": "bool[2]",
           "array_higher_sub_2d": "real[2]"},
    returns="real[2]", result_alias="iterated_array", modifies=["iterated_array"],
    let={"R": "iterated_array", "TH": "threshold_mask_higher_sub", "TL": "threshold_mask_lower_sub", "V": "array_higher_sub_2d",
         "H": "iterated_array.shape[0]", "W": "iterated_array.shape[1]"},
    requires=["TH.shape[0] == H and TH.shape[1] == W and TL.shape[0] == H and TL.shape[1] == W and V.shape[0] == H and V.shape[1] == W"],
    ensures=["result.shape[0] == H and result.shape[1] == W",
             # a pixel that became accurate at this level (not before) takes this level's binned value; all others are untouched
             "forall(0, H, lambda y: forall(0, W, lambda x: result[y, x] =="
             " (V[y, x] if (TH[y, x] and not TL[y, x]) else old(iterated_array)[y, x])))"],
    loops={
        0: {"inv": ["forall(0, y, lambda yy: forall(0, W, lambda xx: R[yy, xx] == (V[yy, xx] if (TH[yy, xx] and not TL[yy, xx]) else old(R)[yy, xx])))",
                    "forall(y, H, lambda yy: forall(0, W, lambda xx: R[yy, xx] == old(R)[yy, xx]))"]},
        1: {"inv": ["forall(0, y, lambda yy: forall(0, W, lambda xx: R[yy, xx] == (V[yy, xx] if (TH[yy, xx] and not TL[yy, xx]) else old(R)[yy, xx])))",
                    "forall(y + 1, H, lambda yy: forall(0, W, lambda xx: R[yy, xx] == old(R)[yy, xx]))",
                    "forall(0, x, lambda xx: R[y, xx] == (V[y, xx] if (TH[y, xx] and not TL[y, xx]) else old(R)[y, xx]))",
                    "forall(x, W, lambda xx: R[y, xx] == old(R)[y, xx])"]},
    },
    sentence={"forall": "the iterative scheme returns for each pixel the binned value at the first sub-size whose agreement meets the accuracy"},
)


# ----------------------------------------------------------------------------------------------- over-sampled mask
# c09_up(s, B, y, a) = y*s + a (row / column a of the s x s block of native row / column y, 0 <= y <= B), defined by repeated
# addition so that the quantified loop invariants stay linear and have arithmetic-free triggers
spec_fn("c09_up", params=[("s", "$int"), ("B", "$int"), ("y", "int"), ("a", "int")], ret="int",
        axioms=["c09_up(s, B, 0, 0) == 0",
                "forall(0, B, lambda y: c09_up(s, B, y + 1, 0) == c09_up(s, B, y, 0) + s, pat=c09_up(s, B, y + 1, 0))",
                "forall(0, B + 1, lambda y: forall(0, s + 1, lambda a: c09_up(s, B, y, a) == c09_up(s, B, y, 0) + a, pat=c09_up(s, B, y, a)))"],
        lemmas=[
            dict(name="lin", induct="n", lo=0, hi="B", stmt="c09_up(s, B, n, 0) == n * s"),
            dict(name="closed", noinduct=True,
                 stmt="forall(0, B + 1, lambda y: forall(0, s + 1, lambda a: c09_up(s, B, y, a) == y * s + a, pat=c09_up(s, B, y, a)))"),
            dict(name="mono", induct="n", lo=0, hi="B",
                 stmt="forall(0, n, lambda y1: implies(s >= 0, c09_up(s, B, y1, 0) + s <= c09_up(s, B, n, 0)),"
                      " pat=((c09_up(s, B, y1, 0), c09_up(s, B, n, 0)),))"),
        ],
        py=lambda s, B, y, a: int(y) * int(s) + int(a), doc="over-sampled row / column index of sub-row / sub-column a of native row / column y")

_OM = "oversample_mask[c09_up(s, B, {y}, a), c09_up(s, B, {x}, b)]"


def _om(ylo, yhi, xlo, xhi, val, y="yy", x="xx"):
    q = "forall(0, s, lambda a: forall(0, s, lambda b: " + _OM.format(y=y, x=x) + " == " + val.format(y=y, x=x) + "))"
    if xlo is not None:
        q = "forall(%s, %s, lambda %s: %s)" % (xlo, xhi, x, q)
    if ylo is not None:
        q = "forall(%s, %s, lambda %s: %s)" % (ylo, yhi, y, q)
    return q


contract(
    U + "oversample_mask_2d_from", props=["C09"],
    types={"mask": "bool[2]", "sub_size": "int"}, returns="bool[2]",
    let={"H": "mask.shape[0]", "W": "mask.shape[1]", "s": "sub_size", "B": "mask.shape[0] + mask.shape[1]"},
    requires=["s >= 0"],
    ensures=["result.shape[0] == H * s", "result.shape[1] == W * s",
             # every mask value is expanded to an s x s block: entry (y*s + a, x*s + b) of the result is mask[y, x]
             "forall(0, H, lambda y: forall(0, W, lambda x: forall(0, s, lambda a: forall(0, s, lambda b:"
             " result[c09_up(s, B, y, a), c09_up(s, B, x, b)] == mask[y, x]"
             " and c09_up(s, B, y, a) == y * s + a and c09_up(s, B, x, b) == x * s + b))))"],
    loops={
        0: {"inv": [_om("0", "y", "0", "W", "mask[{y}, {x}]"), _om("y", "H", "0", "W", "True")]},
        1: {"inv": [_om("0", "y", "0", "W", "mask[{y}, {x}]"), _om("y + 1", "H", "0", "W", "True"),
                    _om(None, None, "0", "x", "mask[{y}, {x}]", y="y"), _om(None, None, "x", "W", "True", y="y")],
            "assert_at": {0: ["y * sub_size == c09_up(s, B, y, 0) and (y + 1) * sub_size == c09_up(s, B, y + 1, 0)",
                              "x * sub_size == c09_up(s, B, x, 0) and (x + 1) * sub_size == c09_up(s, B, x + 1, 0)",
                              "c09_up(s, B, y + 1, 0) <= c09_up(s, B, H, 0) and c09_up(s, B, x + 1, 0) <= c09_up(s, B, W, 0)",
                              "H * s == c09_up(s, B, H, 0) and W * s == c09_up(s, B, W, 0)"]}},
    },
    sentence={"forall": "the over-sampled mask expands every mask value to a sub_size x sub_size block"},
)

# ----------------------------------------------------------------------------------------------- radial bins
def _bin_spec(arr, i):
    """entry i holds the sub size of the FIRST radial bin whose edge exceeds its radius, else the last sub size"""
    return ("forall(0, m, lambda j: implies(R[{i}] < RL[j] and forall(0, j, lambda jj: not R[{i}] < RL[jj]), {a}[{i}] == SL[j]))"
            " and implies(forall(0, m, lambda j: not R[{i}] < RL[j]), {a}[{i}] == SL[SL.shape[0] - 1])").format(a=arr, i=i)


contract(
    U + "sub_size_radial_bins_from", props=["C09"],
    types={"radial_grid": "real[1]", "sub_size_list": "int[1]", "radial_list": "real[1]"}, returns="real[1]",
    let={"R": "radial_grid", "SL": "sub_size_list", "RL": "radial_list", "n": "radial_grid.shape[0]", "m": "radial_list.shape[0]"},
    requires=["SL.shape[0] >= 1", "m <= SL.shape[0]"],
    ensures=["result.shape[0] == n", "forall(0, n, lambda i: " + _bin_spec("result", "i") + ")"],
    loops={
        0: {"inv": ["forall(0, i, lambda ii: " + _bin_spec("sub_size", "ii") + ")",
                    "forall(i, n, lambda ii: sub_size[ii] == SL[SL.shape[0] - 1])"]},
        1: {"inv": ["forall(0, i, lambda ii: " + _bin_spec("sub_size", "ii") + ")",
                    "forall(i, n, lambda ii: sub_size[ii] == SL[SL.shape[0] - 1])",
                    "forall(0, j, lambda jj: not radial_grid[i] < RL[jj])"]},
    },
    sentence={"forall": "per-pixel sub-size map from radial bins: the sub size of the first bin whose edge exceeds the pixel's radius"},
)


# ----------------------------------------------------------------------------------------------- corollaries
_COR_VARS = {"A": "real[1]", "M": "bool[2]", "S": "int[1]"}
_COR_REQ = ["N == total(M)", "A.shape[0] == c09_off(S, N)"]
corollary("C09.bin_constant", props=["C09"], vars={**_COR_VARS, "c": "real"}, let={"N": "S.shape[0]"},
          requires=_COR_REQ + ["forall(0, N, lambda k: S[k] >= 1)", "forall(0, A.shape[0], lambda t: A[t] == c)"],
          calls=[("B", U + "binned_array_2d_from", {"array_2d": "A", "mask_2d": "M", "sub_size": "S"})],
          ensures=["B.shape[0] == total(M)", "forall(0, N, lambda k: B[k] == c)"],
          sentence="constants are reproduced exactly by binning (every sub-size map)")
corollary("C09.bin_sub1_identity", props=["C09"], vars=_COR_VARS, let={"N": "S.shape[0]"},
          requires=_COR_REQ + ["forall(0, N, lambda k: S[k] == 1)"],
          calls=[("B", U + "binned_array_2d_from", {"array_2d": "A", "mask_2d": "M", "sub_size": "S"})],
          ensures=["A.shape[0] == N", "forall(0, N, lambda k: B[k] == A[k])"],
          sentence="with sub-size one binning is the identity (the plain evaluation)")
corollary("C09.grid_sub1_is_plain_grid", props=["C09", "C02"],
          vars={"M": "bool[2]", "S": "int[1]", "ps": "(real,real)", "o": "(real,real)"},
          let={"N": "S.shape[0]", "H": "M.shape[0]", "W": "M.shape[1]"},
          requires=["N == total(M)", "forall(0, N, lambda k: S[k] == 1)", "ps[0] != 0", "ps[1] != 0"],
          calls=[("G", U + "grid_2d_slim_over_sampled_via_mask_from", {"mask_2d": "M", "pixel_scales": "ps", "sub_size": "S", "origin": "o"}),
                 ("P", "autoarray.structures.grids.grid_2d_util:grid_2d_slim_via_mask_from", {"mask_2d": "M", "pixel_scales": "ps", "origin": "o"})],
          ensures=["G.shape[0] == P.shape[0]",
                   "forall(0, H, lambda y: forall(0, W, lambda x: implies(not M[y, x],"
                   " c09_off(S, cnt2(M, y, x)) == cnt2(M, y, x) and G[c09_off(S, cnt2(M, y, x)), 0] == P[cnt2(M, y, x), 0]"
                   " and G[c09_off(S, cnt2(M, y, x)), 1] == P[cnt2(M, y, x), 1])))"],
          sentence="with sub-size one the over-sampled grid is the grid of pixel centres")


# ----------------------------------------------------------------------------------------------- engine C generators
import itertools


def _mask_sub(rng, tier, smin=1):
    """(mask, per-pixel sub-size map): exhaustive on tiny masks with sub sizes {smin..3}, then random up to 5x5 with 1..8"""
    for m in gens.all_masks(gens.budget(tier, 4, 5)):
        n = int((~m).sum())
        for subs in itertools.product(range(smin, 4), repeat=n):
            yield m, np.array(subs, dtype=int)
    for _ in range(gens.budget(tier, 60, 600)):
        m = gens.random_mask(rng, 5, 5)
        n = int((~m).sum())
        hi = rng.choice([2, 3, 4, 8])
        yield m, np.array([rng.randint(smin, hi) for _ in range(n)], dtype=int)


def _g_total(rng, tier):
    for n in range(0, 5):
        for subs in itertools.product(range(0, 4), repeat=n):
            yield {"sub_size": np.array(subs, dtype=int)}
    for _ in range(gens.budget(tier, 50, 500)):
        yield {"sub_size": np.array([rng.randint(1, 8) for _ in range(rng.randint(0, 12))], dtype=int)}


def _g_tbl(rng, tier):
    for m, s in _mask_sub(rng, tier, smin=0):
        yield {"mask_2d": m, "sub_size": s}


def _g_grid(rng, tier):
    for m, s in _mask_sub(rng, tier):
        yield {"mask_2d": m, "pixel_scales": (rng.choice([0.5, 1.0, 2.0, 0.1, 3.7]), rng.choice([0.5, 1.0, 2.0, 1.3])),
               "sub_size": s, "origin": (rng.choice([0.0, 1.5, -2.25]), rng.choice([0.0, -0.75, 3.0]))}


_nt_sub = lambda mask_2d, sub_size, **kw: bool(0 < mask_2d.sum() < mask_2d.size and len(set(sub_size.tolist())) > 1)
CONTRACTS[U + "total_sub_pixels_2d_from"].gen = _g_total
CONTRACTS[U + "slim_index_for_sub_slim_index_via_mask_2d_from"].gen = _g_tbl
CONTRACTS[U + "slim_index_for_sub_slim_index_via_mask_2d_from"].nontrivial = _nt_sub
CONTRACTS[U + "grid_2d_slim_over_sampled_via_mask_from"].gen = _g_grid
CONTRACTS[U + "grid_2d_slim_over_sampled_via_mask_from"].nontrivial = _nt_sub


def _g_bin(rng, tier):
    for m, sb in _mask_sub(rng, tier):
        n = int((sb * sb).sum())
        r = rng.random()
        if r < 0.15:
            a = np.full(n, rng.choice([0.0, 1.0, -2.5, 7.25]))
        else:
            a = gens.reals(rng, (n,), special=False)      # (no +-1e8 specials: cancellation would exceed the float tolerance)
            a[[i for i in range(n) if rng.random() < 0.1]] = 0.0
            if r < 0.4:                     # piecewise constant: one value per pixel
                a = np.repeat(gens.reals(rng, (len(sb),), special=False), sb * sb) if len(sb) else a
        yield {"array_2d": a, "mask_2d": m, "sub_size": sb}


CONTRACTS[U + "binned_array_2d_from"].gen = _g_bin
CONTRACTS[U + "binned_array_2d_from"].nontrivial = _nt_sub


CONTRACTS[U + "native_sub_index_for_slim_sub_index_2d_from"].gen = _g_tbl
CONTRACTS[U + "native_sub_index_for_slim_sub_index_2d_from"].nontrivial = _nt_sub


def _g_submask(rng, tier):
    for m in gens.all_masks(gens.budget(tier, 9, 12)):
        yield {"sub_mask_2d": m}
    for _ in range(gens.budget(tier, 40, 400)):
        yield {"sub_mask_2d": gens.random_mask(rng, 8, 8)}


CONTRACTS[U + "sub_slim_index_for_sub_native_index_from"].gen = _g_submask
CONTRACTS[U + "sub_slim_index_for_sub_native_index_from"].nontrivial = lambda sub_mask_2d: bool(0 < sub_mask_2d.sum() < sub_mask_2d.size)


_MULT = [1.0, 0.99995, 0.995, 1.005, 1.00005, 0.5, 2.0, -1.0]      # never exactly a threshold: no floating-point ties


def _g_thr(rng, tier):
    for _ in range(gens.budget(tier, 400, 4000)):
        H, W = rng.randint(1, 4), rng.randint(1, 4)
        lo = gens.reals(rng, (H, W), -3, 3, special=False)
        hi = lo * np.array([[rng.choice(_MULT) for _ in range(W)] for _ in range(H)])
        for a in (lo, hi):
            a[np.array([[rng.random() < 0.15 for _ in range(W)] for _ in range(H)])] = 0.0
        yield {"fractional_accuracy_threshold": rng.choice([0.9999, 0.99, 0.6, 1.0, 0.0, None]),
               "relative_accuracy_threshold": rng.choice([None, None, 0.001, 0.05, 1.0]),
               "threshold_mask": np.array([[rng.random() < 0.7 for _ in range(W)] for _ in range(H)]),
               "array_higher_sub_2d": hi, "array_lower_sub_2d": lo,
               "array_higher_mask": np.array([[rng.random() < 0.3 for _ in range(W)] for _ in range(H)])}


def _g_iter(rng, tier):
    for _ in range(gens.budget(tier, 300, 3000)):
        H, W = rng.randint(1, 4), rng.randint(1, 4)
        b = lambda p: np.array([[rng.random() < p for _ in range(W)] for _ in range(H)])
        yield {"iterated_array": gens.reals(rng, (H, W)), "threshold_mask_higher_sub": b(0.5), "threshold_mask_lower_sub": b(0.5),
               "array_higher_sub_2d": gens.reals(rng, (H, W))}


CONTRACTS[IT + "threshold_mask_via_arrays_jit_from"].gen = _g_thr
CONTRACTS[IT + "iterated_array_jit_from"].gen = _g_iter


def _g_radial(rng, tier):
    for _ in range(gens.budget(tier, 300, 3000)):
        m = rng.randint(0, 4)
        L = m + rng.randint(0 if m else 1, 2)
        rl = sorted(rng.uniform(0.1, 3.0) for _ in range(m)) if rng.random() < 0.7 else [rng.uniform(0.1, 3.0) for _ in range(m)]
        # radii include exact bin edges (the comparison is strict)
        yield {"radial_grid": np.array([(rng.choice(rl) if rl and rng.random() < 0.3 else rng.uniform(0, 3.5)) for _ in range(rng.randint(0, 6))]),
               "sub_size_list": np.array([rng.choice([1, 2, 4, 8, 16, 32]) for _ in range(L)], dtype=int),
               "radial_list": np.array(rl, dtype=float)}


CONTRACTS[U + "sub_size_radial_bins_from"].gen = _g_radial


def _g_omask(rng, tier):
    for m in gens.all_masks(gens.budget(tier, 6, 9)):
        for sub in (0, 1, 2, 3):
            yield {"mask": m, "sub_size": sub}
    for _ in range(gens.budget(tier, 30, 300)):
        yield {"mask": gens.random_mask(rng, 5, 5), "sub_size": rng.randint(1, 4)}


CONTRACTS[U + "oversample_mask_2d_from"].gen = _g_omask
CONTRACTS[U + "oversample_mask_2d_from"].nontrivial = lambda mask, sub_size: bool(0 < mask.sum() < mask.size and sub_size > 1)
