"""C13 -- direct Fourier transform, preloaded variant and adjoint are exact and consistent."""
import numpy as np
from pyvc.contract import contract, macro, corollary, CONTRACTS
from pyvc import gens

T = "autoarray.operators.transformer_util:"

# phase of pixel p against baseline k: theta = -2 pi (x_p u_k + y_p v_k), (y_p, x_p) = grid[p], (u_k, v_k) = uv[k]
macro("theta", ["g", "uv", "p", "k"], "-2 * pi * (g[p, 1] * uv[k, 0] + g[p, 0] * uv[k, 1])",
      py=lambda g, uv, p, k: float(-2 * np.pi * (g[p, 1] * uv[k, 0] + g[p, 0] * uv[k, 1])))

_G = {"N": "grid_radians.shape[0]", "K": "uv_wavelengths.shape[0]", "g": "grid_radians", "uv": "uv_wavelengths"}
_GREQ = ["grid_radians.shape[1] == 2", "uv_wavelengths.shape[1] == 2"]


def _preload(name, fn, var):
    contract(T + name, props=["C13"],
             types={"grid_radians": "real[2]", "uv_wavelengths": "real[2]"}, returns="real[2]", let=_G, requires=_GREQ,
             ensures=["result.shape[0] == N", "result.shape[1] == K",
                      "forall(0, N, lambda p: forall(0, K, lambda k: result[p, k] == %s(theta(g, uv, p, k))))" % fn],
             loops={0: {"inv": ["forall(0, image_1d_index, lambda p: forall(0, K, lambda k: %s[p, k] == %s(theta(g, uv, p, k))))" % (var, fn),
                                "forall(image_1d_index, N, lambda p: forall(0, K, lambda k: %s[p, k] == 0))" % var]},
                    1: {"inv": ["forall(0, image_1d_index, lambda p: forall(0, K, lambda k: %s[p, k] == %s(theta(g, uv, p, k))))" % (var, fn),
                                "forall(image_1d_index + 1, N, lambda p: forall(0, K, lambda k: %s[p, k] == 0))" % var,
                                "forall(0, vis_1d_index, lambda k: %s[image_1d_index, k] == %s(theta(g, uv, image_1d_index, k)))" % (var, fn),
                                "forall(vis_1d_index, K, lambda k: %s[image_1d_index, k] == 0)" % var]}},
             sentence={"forall": "preloaded tables hold cos / sin of the phase of every (pixel, baseline) pair"})


_preload("preload_real_transforms", "cos", "preloaded_real_transforms")
_preload("preload_imag_transforms", "sin", "preloaded_imag_transforms")

_VRE = "sumto({n}, lambda p: image_1d[p] * cos(theta(g, uv, p, {k})))"
_VIM = "sumto({n}, lambda p: image_1d[p] * sin(theta(g, uv, p, {k})))"
contract(
    T + "visibilities_jit", props=["C13"],
    types={"image_1d": "real[1]", "grid_radians": "real[2]", "uv_wavelengths": "real[2]"}, returns="complex[1]",
    let=_G, requires=_GREQ + ["image_1d.shape[0] == N"],
    ensures=["result.shape[0] == K",
             # V_k = sum_p I_p exp(-2 pi i (x_p u_k + y_p v_k))
             "forall(0, K, lambda k: creal(result[k]) == " + _VRE.format(n="N", k="k") + " and cimag(result[k]) == " + _VIM.format(n="N", k="k") + ")"],
    loops={
        0: {"inv": ["forall(0, K, lambda k: creal(visibilities[k]) == " + _VRE.format(n="image_1d_index", k="k")
                    + " and cimag(visibilities[k]) == " + _VIM.format(n="image_1d_index", k="k") + ")"]},
        1: {"inv": ["forall(0, vis_1d_index, lambda k: creal(visibilities[k]) == " + _VRE.format(n="image_1d_index + 1", k="k")
                    + " and cimag(visibilities[k]) == " + _VIM.format(n="image_1d_index + 1", k="k") + ")",
                    "forall(vis_1d_index, K, lambda k: creal(visibilities[k]) == " + _VRE.format(n="image_1d_index", k="k")
                    + " and cimag(visibilities[k]) == " + _VIM.format(n="image_1d_index", k="k") + ")"]},
    },
    sentence={"sumto": "V_k = sum_p I_p exp(-2 pi i (x_p u_k + y_p v_k)) with (y_p, x_p) the pixel centres in radians"},
)

_PRE = "sumto({n}, lambda p: image_1d[p] * preloaded_reals[p, {k}])"
_PIM = "sumto({n}, lambda p: image_1d[p] * preloaded_imags[p, {k}])"
contract(
    T + "visibilities_via_preload_jit_from", props=["C13"],
    types={"image_1d": "real[1]", "preloaded_reals": "real[2]", "preloaded_imags": "real[2]"}, returns="complex[1]",
    let={"N": "image_1d.shape[0]", "K": "preloaded_reals.shape[1]"},
    requires=["preloaded_reals.shape[0] == N", "preloaded_imags.shape[0] == N", "preloaded_imags.shape[1] == K"],
    ensures=["result.shape[0] == K",
             "forall(0, K, lambda k: creal(result[k]) == " + _PRE.format(n="N", k="k") + " and cimag(result[k]) == " + _PIM.format(n="N", k="k") + ")"],
    loops={
        0: {"inv": ["forall(0, K, lambda k: creal(visibilities[k]) == " + _PRE.format(n="image_1d_index", k="k")
                    + " and cimag(visibilities[k]) == " + _PIM.format(n="image_1d_index", k="k") + ")"]},
        1: {"inv": ["forall(0, vis_1d_index, lambda k: creal(visibilities[k]) == " + _PRE.format(n="image_1d_index + 1", k="k")
                    + " and cimag(visibilities[k]) == " + _PIM.format(n="image_1d_index + 1", k="k") + ")",
                    "forall(vis_1d_index, K, lambda k: creal(visibilities[k]) == " + _PRE.format(n="image_1d_index", k="k")
                    + " and cimag(visibilities[k]) == " + _PIM.format(n="image_1d_index", k="k") + ")"]},
    },
    sentence={"sumto": "the preloaded variant sums image values against the table entries"},
)


def _g_gu(rng, tier, extra):
    for _ in range(gens.budget(tier, 150, 2000)):
        n, k = rng.randint(1, 5), rng.randint(1, 4)
        g = gens.reals(rng, (n, 2), -1e-5, 1e-5, special=False)
        uv = gens.reals(rng, (k, 2), -3e4, 3e4)
        yield extra(rng, n, k, g, uv)


CONTRACTS[T + "preload_real_transforms"].gen = lambda rng, tier: _g_gu(rng, tier, lambda r, n, k, g, uv: {"grid_radians": g, "uv_wavelengths": uv})
CONTRACTS[T + "preload_imag_transforms"].gen = lambda rng, tier: _g_gu(rng, tier, lambda r, n, k, g, uv: {"grid_radians": g, "uv_wavelengths": uv})
CONTRACTS[T + "visibilities_jit"].gen = lambda rng, tier: _g_gu(rng, tier, lambda r, n, k, g, uv: {"image_1d": gens.reals(r, (n,)), "grid_radians": g, "uv_wavelengths": uv})
CONTRACTS[T + "visibilities_via_preload_jit_from"].gen = lambda rng, tier: _g_gu(rng, tier, lambda r, n, k, g, uv: {
    "image_1d": gens.reals(r, (n,)), "preloaded_reals": gens.reals(r, (n, k), -1, 1), "preloaded_imags": gens.reals(r, (n, k), -1, 1)})
