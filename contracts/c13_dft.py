"""C13 -- direct Fourier transform, preloaded variant and adjoint are exact and consistent."""
import numpy as np
from pyvc.contract import contract, macro, corollary, spec_fn, CONTRACTS
from pyvc import gens

T = "autoarray.operators.transformer_util:"

# phase of pixel p against baseline k: theta = -2 pi (x_p u_k + y_p v_k), (y_p, x_p) = grid[p], (u_k, v_k) = uv[k]
macro("theta", ["g", "uv", "p", "k"], "-2 * pi * (g[p, 1] * uv[k, 0] + g[p, 0] * uv[k, 1])",
      py=lambda g, uv, p, k: float(-2 * np.pi * (g[p, 1] * uv[k, 0] + g[p, 0] * uv[k, 1])))

_G = {"N": "grid_radians.shape[0]", "K": "uv_wavelengths.shape[0]", "g": "grid_radians", "uv": "uv_wavelengths"}
_GREQ = ["grid_radians.shape[1] == 2", "uv_wavelengths.shape[1] == 2"]


def _preload(name, fn, var):
    contract(T + name, props=["C13"],
             types={"grid_radians": "real[2]", "uv_wavelengths": "real[2]"}, returns="real[2]", let=_G, requires=_GREQ,
             ensures=["result.shape[0] == N", "result.shape[1] == K",
                      "forall(0, N, lambda p: forall(0, K, lambda k: result[p, k] == %s(theta(g, uv, p, k))))" % fn],
             loops={0: {"inv": ["forall(0, image_1d_index, lambda p: forall(0, K, lambda k: %s[p, k] == %s(theta(g, uv, p, k))))" % (var, fn),
                                "forall(image_1d_index, N, lambda p: forall(0, K, lambda k: %s[p, k] == 0))" % var]},
                    1: {"inv": ["forall(0, image_1d_index, lambda p: forall(0, K, lambda k: %s[p, k] == %s(theta(g, uv, p, k))))" % (var, fn),
                                "forall(image_1d_index + 1, N, lambda p: forall(0, K, lambda k: %s[p, k] == 0))" % var,
                                "forall(0, vis_1d_index, lambda k: %s[image_1d_index, k] == %s(theta(g, uv, image_1d_index, k)))" % (var, fn),
                                "forall(vis_1d_index, K, lambda k: %s[image_1d_index, k] == 0)" % var]}},
             sentence={"forall": "preloaded tables hold cos / sin of the phase of every (pixel, baseline) pair"})


_preload("preload_real_transforms", "cos", "preloaded_real_transforms")
_preload("preload_imag_transforms", "sin", "preloaded_imag_transforms")

_VRE = "sumto({n}, lambda p: image_1d[p] * cos(theta(g, uv, p, {k})))"
_VIM = "sumto({n}, lambda p: image_1d[p] * sin(theta(g, uv, p, {k})))"
contract(
    T + "visibilities_jit", props=["C13"],
    types={"image_1d": "real[1]", "grid_radians": "real[2]", "uv_wavelengths": "real[2]"}, returns="complex[1]",
    let=_G, requires=_GREQ + ["image_1d.shape[0] == N"],
    ensures=["result.shape[0] == K",
             # V_k = sum_p I_p exp(-2 pi i (x_p u_k + y_p v_k))
             "forall(0, K, lambda k: creal(result[k]) == " + _VRE.format(n="N", k="k") + " and cimag(result[k]) == " + _VIM.format(n="N", k="k") + ")"],
    loops={
        0: {"inv": ["forall(0, K, lambda k: creal(visibilities[k]) == " + _VRE.format(n="image_1d_index", k="k")
                    + " and cimag(visibilities[k]) == " + _VIM.format(n="image_1d_index", k="k") + ")"]},
        1: {"inv": ["forall(0, vis_1d_index, lambda k: creal(visibilities[k]) == " + _VRE.format(n="image_1d_index + 1", k="k")
                    + " and cimag(visibilities[k]) == " + _VIM.format(n="image_1d_index + 1", k="k") + ")",
                    "forall(vis_1d_index, K, lambda k: creal(visibilities[k]) == " + _VRE.format(n="image_1d_index", k="k")
                    + " and cimag(visibilities[k]) == " + _VIM.format(n="image_1d_index", k="k") + ")"]},
    },
    sentence={"sumto": "V_k = sum_p I_p exp(-2 pi i (x_p u_k + y_p v_k)) with (y_p, x_p) the pixel centres in radians"},
)

_PRE = "sumto({n}, lambda p: image_1d[p] * preloaded_reals[p, {k}])"
_PIM = "sumto({n}, lambda p: image_1d[p] * preloaded_imags[p, {k}])"
contract(
    T + "visibilities_via_preload_jit_from", props=["C13"],
    types={"image_1d": "real[1]", "preloaded_reals": "real[2]", "preloaded_imags": "real[2]"}, returns="complex[1]",
    let={"N": "image_1d.shape[0]", "K": "preloaded_reals.shape[1]"},
    requires=["preloaded_reals.shape[0] == N", "preloaded_imags.shape[0] == N", "preloaded_imags.shape[1] == K"],
    ensures=["result.shape[0] == K",
             "forall(0, K, lambda k: creal(result[k]) == " + _PRE.format(n="N", k="k") + " and cimag(result[k]) == " + _PIM.format(n="N", k="k") + ")"],
    loops={
        0: {"inv": ["forall(0, K, lambda k: creal(visibilities[k]) == " + _PRE.format(n="image_1d_index", k="k")
                    + " and cimag(visibilities[k]) == " + _PIM.format(n="image_1d_index", k="k") + ")"]},
        1: {"inv": ["forall(0, vis_1d_index, lambda k: creal(visibilities[k]) == " + _PRE.format(n="image_1d_index + 1", k="k")
                    + " and cimag(visibilities[k]) == " + _PIM.format(n="image_1d_index + 1", k="k") + ")",
                    "forall(vis_1d_index, K, lambda k: creal(visibilities[k]) == " + _PRE.format(n="image_1d_index", k="k")
                    + " and cimag(visibilities[k]) == " + _PIM.format(n="image_1d_index", k="k") + ")"]},
    },
    sentence={"sumto": "the preloaded variant sums image values against the table entries"},
)


def _zeroed(rng, v):
    """visibilities with some real parts exactly 0 next to a non-zero imaginary part, and vice versa (0 + 2i is a visibility)"""
    for k in range(v.shape[0]):
        r = rng.random()
        if r < 0.2:
            v[k, 0] = 0.0
        elif r < 0.3:
            v[k, 1] = 0.0
    return v


def _g_gu(rng, tier, extra):
    for _ in range(gens.budget(tier, 150, 2000)):
        n, k = rng.randint(1, 5), rng.randint(1, 4)
        g = gens.reals(rng, (n, 2), -1e-5, 1e-5, special=False)
        uv = gens.reals(rng, (k, 2), -3e4, 3e4)
        yield extra(rng, n, k, g, uv)


CONTRACTS[T + "preload_real_transforms"].gen = lambda rng, tier: _g_gu(rng, tier, lambda r, n, k, g, uv: {"grid_radians": g, "uv_wavelengths": uv})
CONTRACTS[T + "preload_imag_transforms"].gen = lambda rng, tier: _g_gu(rng, tier, lambda r, n, k, g, uv: {"grid_radians": g, "uv_wavelengths": uv})
CONTRACTS[T + "visibilities_jit"].gen = lambda rng, tier: _g_gu(rng, tier, lambda r, n, k, g, uv: {"image_1d": gens.reals(r, (n,)), "grid_radians": g, "uv_wavelengths": uv})
CONTRACTS[T + "visibilities_via_preload_jit_from"].gen = lambda rng, tier: _g_gu(rng, tier, lambda r, n, k, g, uv: {
    "image_1d": gens.reals(r, (n,)), "preloaded_reals": gens.reals(r, (n, k), -1, 1), "preloaded_imags": gens.reals(r, (n, k), -1, 1)})


# ----------------------------------------------------------------------------- adjoint: image from visibilities
# Re(A^H v)[p] = sum_k Re(conj(exp(i theta_pk)) * (vr_k + i vi_k)) = sum_k (vr_k cos(theta_pk) + vi_k sin(theta_pk)),
# with A[k, p] = exp(i theta_pk), theta as above; visibilities are passed as a (K, 2) real array (re, im).
# The kernel evaluates cos / sin at +2 pi (x u + y v) = -theta: the proof uses the two parity identities
# cos(-t) = cos(t), sin(-t) = -sin(t) (uses_math "trig_parity", pyvc/ext/c13.py) and nothing else about cos / sin.
_PHI = "2 * pi * (g[image_1d_index, 1] * uv[vis_1d_index, 0] + g[image_1d_index, 0] * uv[vis_1d_index, 1])"
_ADJ = "sumto({n}, lambda k: visibilities[k, 0] * cos(theta(g, uv, {p}, k)) + visibilities[k, 1] * sin(theta(g, uv, {p}, k)))"
contract(
    T + "image_via_jit_from", props=["C13"],
    types={"n_pixels": "int", "grid_radians": "real[2]", "uv_wavelengths": "real[2]", "visibilities": "real[2]"},
    returns="real[1]", let=_G, uses_math=["trig_parity"],
    requires=_GREQ + ["0 <= n_pixels", "n_pixels <= N", "visibilities.shape[0] == K", "visibilities.shape[1] == 2"],
    ensures=["result.shape[0] == n_pixels",
             "forall(0, n_pixels, lambda p: result[p] == " + _ADJ.format(n="K", p="p") + ")"],
    loops={
        0: {"inv": ["forall(0, image_1d_index, lambda p: image_1d[p] == " + _ADJ.format(n="K", p="p") + ")",
                    "forall(image_1d_index, n_pixels, lambda p: image_1d[p] == 0)"]},
        1: {"inv": ["forall(0, image_1d_index, lambda p: image_1d[p] == " + _ADJ.format(n="K", p="p") + ")",
                    "forall(image_1d_index + 1, n_pixels, lambda p: image_1d[p] == 0)",
                    "image_1d[image_1d_index] == " + _ADJ.format(n="vis_1d_index", p="image_1d_index")],
            "assert_at": {0: ["cos(" + _PHI + ") == cos(theta(g, uv, image_1d_index, vis_1d_index))",
                              "sin(" + _PHI + ") == -sin(theta(g, uv, image_1d_index, vis_1d_index))"]}},
    },
    sentence={"sumto": "the image returned from visibilities is the real part of the conjugate-transpose operator applied to them"},
)

# ----------------------------------------------------------------------------- transformed mapping matrix
# T[k, j] = sum_p M[p, j] exp(i theta_pk) for EVERY real matrix M (no sign restriction; the `!= 0` test only skips zero terms)


def _tmm(name, re_term, im_term, let, requires, types, K):
    RE = "sumto({n}, lambda p: mapping_matrix[p, {j}] * " + re_term + ")"
    IM = "sumto({n}, lambda p: mapping_matrix[p, {j}] * " + im_term + ")"
    TM = "transfomed_mapping_matrix"

    def both(arr, k, j, n):
        return ("creal(%s[%s, %s]) == " % (arr, k, j) + RE.format(n=n, j=j, k=k)
                + " and cimag(%s[%s, %s]) == " % (arr, k, j) + IM.format(n=n, j=j, k=k))
    done = "forall(0, %s, lambda k: forall(0, pixel_1d_index, lambda j: %s))" % (K, both(TM, "k", "j", "N"))
    zero = "forall(0, %s, lambda k: forall({lo}, P, lambda j: creal(%s[k, j]) == 0 and cimag(%s[k, j]) == 0))" % (K, TM, TM)
    contract(
        T + name, props=["C13", "C04"], types=types, returns="complex[2]", let=let, requires=requires,
        ensures=["result.shape[0] == " + K, "result.shape[1] == P",
                 "forall(0, %s, lambda k: forall(0, P, lambda j: %s))" % (K, both("result", "k", "j", "N"))],
        loops={
            0: {"inv": [done, zero.format(lo="pixel_1d_index")]},
            1: {"inv": [done, zero.format(lo="pixel_1d_index + 1"),
                        "forall(0, %s, lambda k: %s)" % (K, both(TM, "k", "pixel_1d_index", "image_1d_index"))]},
            2: {"inv": [done, zero.format(lo="pixel_1d_index + 1"),
                        "forall(0, vis_1d_index, lambda k: %s)" % both(TM, "k", "pixel_1d_index", "image_1d_index + 1"),
                        "forall(vis_1d_index, %s, lambda k: %s)" % (K, both(TM, "k", "pixel_1d_index", "image_1d_index"))]},
        },
        sentence={"sumto": "the transformed mapping matrix equals the operator applied to each column of any real-valued matrix"},
    )


_tmm("transformed_mapping_matrix_via_preload_jit_from", "preloaded_reals[p, {k}]", "preloaded_imags[p, {k}]",
     let={"N": "mapping_matrix.shape[0]", "P": "mapping_matrix.shape[1]", "K": "preloaded_reals.shape[1]"},
     requires=["preloaded_reals.shape[0] == N", "preloaded_imags.shape[0] == N", "preloaded_imags.shape[1] == K"],
     types={"mapping_matrix": "real[2]", "preloaded_reals": "real[2]", "preloaded_imags": "real[2]"}, K="K")
_tmm("transformed_mapping_matrix_jit", "cos(theta(g, uv, p, {k}))", "sin(theta(g, uv, p, {k}))",
     let={**_G, "P": "mapping_matrix.shape[1]"}, requires=_GREQ + ["mapping_matrix.shape[0] == N"],
     types={"mapping_matrix": "real[2]", "grid_radians": "real[2]", "uv_wavelengths": "real[2]"}, K="K")

# ----------------------------------------------------------------------------- interferometer data vector
IU = "autoarray.inversion.inversion.interferometer.inversion_interferometer_util:"
# D_j = sum_k ( Re V_k Re T_kj / Re(n_k)^2 + Im V_k Im T_kj / Im(n_k)^2 ): noise-weighted real-plus-imaginary products
_DV = ("sumto({n}, lambda k: creal(visibilities[k]) * creal(transformed_mapping_matrix[k, {j}]) / creal(noise_map[k]) ** 2"
       " + cimag(visibilities[k]) * cimag(transformed_mapping_matrix[k, {j}]) / cimag(noise_map[k]) ** 2)")
contract(
    IU + "data_vector_via_transformed_mapping_matrix_from", props=["C13", "C04"],
    types={"transformed_mapping_matrix": "complex[2]", "visibilities": "complex[1]", "noise_map": "complex[1]"},
    returns="real[1]",
    let={"K": "transformed_mapping_matrix.shape[0]", "P": "transformed_mapping_matrix.shape[1]"},
    requires=["visibilities.shape[0] == K", "noise_map.shape[0] == K",
              "forall(0, K, lambda k: creal(noise_map[k]) != 0 and cimag(noise_map[k]) != 0)"],
    ensures=["result.shape[0] == P", "forall(0, P, lambda j: result[j] == " + _DV.format(n="K", j="j") + ")"],
    loops={
        0: {"inv": ["forall(0, P, lambda j: data_vector[j] == " + _DV.format(n="vis_1d_index", j="j") + ")"]},
        1: {"inv": ["forall(0, pix_1d_index, lambda j: data_vector[j] == " + _DV.format(n="vis_1d_index + 1", j="j") + ")",
                    "forall(pix_1d_index, P, lambda j: data_vector[j] == " + _DV.format(n="vis_1d_index", j="j") + ")"],
            "assert_at": {2: ["real_value == creal(visibilities[vis_1d_index]) * creal(transformed_mapping_matrix[vis_1d_index, pix_1d_index])"
                              " / creal(noise_map[vis_1d_index]) ** 2",
                              "imag_value == cimag(visibilities[vis_1d_index]) * cimag(transformed_mapping_matrix[vis_1d_index, pix_1d_index])"
                              " / cimag(noise_map[vis_1d_index]) ** 2"]}},
    },
    sentence={"sumto": "the interferometer data vector equals the noise-weighted real-plus-imaginary products of the transformed mapping matrix with the visibilities"},
)


# mapped reconstructed visibilities: V_i = sum_j s_j T_ij (real and imaginary parts), the interferometer form of "the model data of a
# linear object equals its transformed mapping matrix times its slice of the reconstruction" (C05, last clause)
_MRE = "sumto({n}, lambda j: reconstruction[j] * creal(transformed_mapping_matrix[{i}, j]))"
_MIM = "sumto({n}, lambda j: reconstruction[j] * cimag(transformed_mapping_matrix[{i}, j]))"
_MBOTH = "creal({a}[{i}]) == " + _MRE + " and cimag({a}[{i}]) == " + _MIM
_MV = "mapped_reconstructed_visibilities"
contract(
    IU + "mapped_reconstructed_visibilities_from", props=["C05", "C13"],
    types={"transformed_mapping_matrix": "complex[2]", "reconstruction": "real[1]"}, returns="complex[1]",
    let={"K": "transformed_mapping_matrix.shape[0]", "P": "reconstruction.shape[0]"},
    requires=["transformed_mapping_matrix.shape[1] >= P"],
    ensures=["result.shape[0] == K", "forall(0, K, lambda i: " + _MBOTH.format(a="result", i="i", n="P") + ")"],
    loops={
        0: {"inv": ["forall(0, i, lambda a: " + _MBOTH.format(a=_MV, i="a", n="P") + ")",
                    "forall(i, K, lambda a: creal(%s[a]) == 0 and cimag(%s[a]) == 0)" % (_MV, _MV)]},
        1: {"inv": ["forall(0, i, lambda a: " + _MBOTH.format(a=_MV, i="a", n="P") + ")",
                    "forall(i + 1, K, lambda a: creal(%s[a]) == 0 and cimag(%s[a]) == 0)" % (_MV, _MV),
                    _MBOTH.format(a=_MV, i="i", n="j")]},
    },
    sentence={"sumto": "the mapped reconstructed visibilities equal the transformed mapping matrix times the reconstruction"},
)


# ----------------------------------------------------------------------------- preload == direct (corollaries)
# The two visibilities contracts (and the two mapping-matrix contracts) state their sums over different summands
# (table entry vs cos / sin of the phase), i.e. over two different partial-sum functions.  That the sums agree when the
# tables hold exactly cos / sin of the phases is an induction on the number of pixels summed; the ghost functions below
# only carry that induction (their own value -- the identity on n -- is irrelevant and trivially consistent).
_TABS = ("g.shape[0] == N and g.shape[1] == 2 and uv.shape[1] == 2 and PR.shape[0] == N and PR.shape[1] == K"
         " and PI.shape[0] == N and PI.shape[1] == K and forall(0, N, lambda p: forall(0, K, lambda k:"
         " PR[p, k] == cos(theta(g, uv, p, k)) and PI[p, k] == sin(theta(g, uv, p, k)), pat=(PR[p, k], PI[p, k])))")
spec_fn(
    "dft_vis_upto", params=[("I", "real[1]"), ("g", "real[2]"), ("uv", "real[2]"), ("PR", "real[2]"), ("PI", "real[2]"), ("n", "int")],
    ret="int", let={"N": "I.shape[0]", "K": "uv.shape[0]"},
    axioms=["forall(0, N + 1, lambda n: dft_vis_upto(I, g, uv, PR, PI, n) == n, pat=dft_vis_upto(I, g, uv, PR, PI, n))"],
    lemmas=[dict(name="agree", induct="n", lo=0, hi="N",
                 stmt="implies(" + _TABS + ", forall(0, K, lambda k:"
                      " sumto(n, lambda p: I[p] * PR[p, k]) == sumto(n, lambda p: I[p] * cos(theta(g, uv, p, k)))"
                      " and sumto(n, lambda p: I[p] * PI[p, k]) == sumto(n, lambda p: I[p] * sin(theta(g, uv, p, k))),"
                      " pat=(sumto(n, lambda p: I[p] * PR[p, k]), sumto(n, lambda p: I[p] * PI[p, k]))))")],
    py=lambda I, g, uv, PR, PI, n: int(n),
    doc="ghost carrier of the induction: table sums == phase sums when the tables are exact (visibilities)")
spec_fn(
    "dft_tmm_upto", params=[("M", "real[2]"), ("g", "real[2]"), ("uv", "real[2]"), ("PR", "real[2]"), ("PI", "real[2]"), ("n", "int")],
    ret="int", let={"N": "M.shape[0]", "P": "M.shape[1]", "K": "uv.shape[0]"},
    axioms=["forall(0, N + 1, lambda n: dft_tmm_upto(M, g, uv, PR, PI, n) == n, pat=dft_tmm_upto(M, g, uv, PR, PI, n))"],
    lemmas=[dict(name="agree", induct="n", lo=0, hi="N",
                 stmt="implies(" + _TABS + ", forall(0, K, lambda k: forall(0, P, lambda j:"
                      " sumto(n, lambda p: M[p, j] * PR[p, k]) == sumto(n, lambda p: M[p, j] * cos(theta(g, uv, p, k)))"
                      " and sumto(n, lambda p: M[p, j] * PI[p, k]) == sumto(n, lambda p: M[p, j] * sin(theta(g, uv, p, k))),"
                      " pat=(sumto(n, lambda p: M[p, j] * PR[p, k]), sumto(n, lambda p: M[p, j] * PI[p, k])))))")],
    py=lambda M, g, uv, PR, PI, n: int(n),
    doc="ghost carrier of the induction: table sums == phase sums when the tables are exact (mapping matrix columns)")

_GU = {"grid_radians": "grid_radians", "uv_wavelengths": "uv_wavelengths"}
corollary("C13.preload_equals_direct", props=["C13"],
          vars={"image_1d": "real[1]", "grid_radians": "real[2]", "uv_wavelengths": "real[2]"},
          let={"N": "grid_radians.shape[0]", "K": "uv_wavelengths.shape[0]"},
          requires=_GREQ + ["image_1d.shape[0] == N"],
          calls=[("PR", T + "preload_real_transforms", _GU), ("PI", T + "preload_imag_transforms", _GU),
                 ("VP", T + "visibilities_via_preload_jit_from", {"image_1d": "image_1d", "preloaded_reals": "PR", "preloaded_imags": "PI"}),
                 ("VD", T + "visibilities_jit", {"image_1d": "image_1d", **_GU})],
          ensures=["dft_vis_upto(image_1d, grid_radians, uv_wavelengths, PR, PI, N) == N",     # ghost: brings the induction lemma in
                   "VP.shape[0] == VD.shape[0]",
                   "forall(0, K, lambda k: creal(VP[k]) == creal(VD[k]) and cimag(VP[k]) == cimag(VD[k]))"],
          sentence="visibilities are identical with and without preloaded transform tables")
corollary("C13.preload_equals_direct_mapping_matrix", props=["C13"],
          vars={"mapping_matrix": "real[2]", "grid_radians": "real[2]", "uv_wavelengths": "real[2]"},
          let={"N": "grid_radians.shape[0]", "K": "uv_wavelengths.shape[0]", "P": "mapping_matrix.shape[1]"},
          requires=_GREQ + ["mapping_matrix.shape[0] == N"],
          calls=[("PR", T + "preload_real_transforms", _GU), ("PI", T + "preload_imag_transforms", _GU),
                 ("TP", T + "transformed_mapping_matrix_via_preload_jit_from",
                  {"mapping_matrix": "mapping_matrix", "preloaded_reals": "PR", "preloaded_imags": "PI"}),
                 ("TD", T + "transformed_mapping_matrix_jit", {"mapping_matrix": "mapping_matrix", **_GU})],
          ensures=["dft_tmm_upto(mapping_matrix, grid_radians, uv_wavelengths, PR, PI, N) == N",
                   "TP.shape[0] == TD.shape[0] and TP.shape[1] == TD.shape[1]",
                   "forall(0, K, lambda k: forall(0, P, lambda j: creal(TP[k, j]) == creal(TD[k, j]) and cimag(TP[k, j]) == cimag(TD[k, j])))"],
          sentence="the transformed mapping matrix is identical with and without preloaded transform tables")


def _g_uv(rng, k):
    """baselines including zero and repeated ones"""
    uv = gens.reals(rng, (k, 2), -3e4, 3e4, special=False)
    if rng.random() < 0.3:
        uv[rng.randrange(k)] = 0.0
    if k > 1 and rng.random() < 0.3:
        uv[k - 1] = uv[0]
    return uv


_CANCEL = [[1.0, -1.0], [0.5, -0.5], [2.0, -2.0], [1.5, -1.5], [0.5, 0.25, -0.75], [1.0, 1.0, -2.0], [0.25, 0.25, -0.5],
           [2.0, -1.0, -1.0], [-0.25, -0.75, 1.0], [1.0, -0.5, -0.25, -0.25]]
_DYADIC = [1.0, -1.0, 0.5, -0.5, 0.25, -0.75, 2.0, -2.0, 1.5, -0.25]


def _cancelling(rng, n):
    """a length-n vector whose NON-ZERO entries sum to exactly zero (small dyadic values), n >= 2"""
    pat = rng.choice([q for q in _CANCEL if len(q) <= n])
    v = np.zeros(n)
    for pos, x in zip(rng.sample(range(n), len(pat)), pat):
        v[pos] = x
    return v


def _structured(rng, shape):
    """small dyadic values with the structures a sparsity / emptiness shortcut can get wrong: rows and columns whose
    non-zero entries cancel exactly, all-zero rows / columns, single-entry rows, all-negative rows"""
    r, c = shape
    m = np.array([[rng.choice(_DYADIC + [0.0, 0.0, 0.0]) for _ in range(c)] for _ in range(r)], dtype=float).reshape(r, c)
    if rng.random() < 0.3:
        m[rng.randrange(r), :] = 0.0
    if rng.random() < 0.3:
        m[:, rng.randrange(c)] = 0.0
    if rng.random() < 0.3:
        i = rng.randrange(r)
        m[i, :] = 0.0
        m[i, rng.randrange(c)] = rng.choice(_DYADIC)
    if rng.random() < 0.3:
        m[rng.randrange(r), :] = [-abs(rng.choice(_DYADIC)) for _ in range(c)]
    if r >= 2 and rng.random() < 0.6:
        m[:, rng.randrange(c)] = _cancelling(rng, r)
    if c >= 2:                                    # last, so that at least one cancelling row survives
        for i in rng.sample(range(r), rng.randint(1, max(1, r // 2))):
            m[i, :] = _cancelling(rng, c)
    return m


def _signed(rng, shape):
    """real matrix of any sign with exact zeros (the sparsity shortcut); 45% structured (see _structured), a minority
    all-positive"""
    if rng.random() < 0.45:
        return _structured(rng, shape)
    m = gens.reals(rng, shape, -3, 3, special=False)
    m[np.array([[rng.random() < 0.3 for _ in range(shape[1])] for _ in range(shape[0])], dtype=bool).reshape(shape)] = 0.0
    # entries of 1e-18 are as non-zero as entries of order one (the operator is linear): magnitudes 2^-60, 2^-90, 2^40
    m = m * (1.0 if rng.random() < 0.75 else float(rng.choice([2.0 ** -60, 2.0 ** -90, 2.0 ** 40])))
    return np.abs(m) if rng.random() < 0.2 else m


def _g_adj(rng, tier):
    for _ in range(gens.budget(tier, 150, 2000)):
        n, k = rng.randint(1, 5), rng.randint(1, 4)
        yield {"n_pixels": rng.choice([n, n, rng.randint(0, n)]), "grid_radians": gens.reals(rng, (n, 2), -1e-5, 1e-5, special=False),
               "uv_wavelengths": _g_uv(rng, k), "visibilities": _zeroed(rng, gens.reals(rng, (k, 2), -5, 5, special=False))}


def _g_tmm_pre(rng, tier):
    for _ in range(gens.budget(tier, 300, 3000)):
        n, k, p = rng.randint(1, 4), rng.randint(1, 4), rng.choice([1, 2, 2, 3, 3, 4])
        yield {"mapping_matrix": _signed(rng, (n, p)), "preloaded_reals": gens.reals(rng, (n, k), -1, 1),
               "preloaded_imags": gens.reals(rng, (n, k), -1, 1)}


def _g_tmm(rng, tier):
    for _ in range(gens.budget(tier, 300, 3000)):
        n, k, p = rng.randint(1, 4), rng.randint(1, 4), rng.choice([1, 2, 2, 3, 3, 4])
        yield {"mapping_matrix": _signed(rng, (n, p)), "grid_radians": gens.reals(rng, (n, 2), -1e-5, 1e-5, special=False),
               "uv_wavelengths": _g_uv(rng, k)}


def _g_dv(rng, tier):
    for _ in range(gens.budget(tier, 150, 2000)):
        k, p = rng.randint(1, 5), rng.randint(1, 4)
        nre, nim = gens.reals(rng, (k,), 0.1, 3, special=False), gens.reals(rng, (k,), 0.1, 3, special=False)
        for i in range(k):
            if rng.random() < 0.3:
                nim[i] = nre[i]            # some visibilities with sigma_re == sigma_im exactly, others not (no entry speaks for the rest)
        yield {"transformed_mapping_matrix": gens.reals(rng, (k, p), -3, 3) + 1j * gens.reals(rng, (k, p), -3, 3),
               "visibilities": gens.reals(rng, (k,), -5, 5) + 1j * gens.reals(rng, (k,), -5, 5),
               "noise_map": nre + 1j * nim}


CONTRACTS[T + "image_via_jit_from"].gen = _g_adj
CONTRACTS[T + "transformed_mapping_matrix_via_preload_jit_from"].gen = _g_tmm_pre
CONTRACTS[T + "transformed_mapping_matrix_jit"].gen = _g_tmm
for _n in ("transformed_mapping_matrix_via_preload_jit_from", "transformed_mapping_matrix_jit"):
    CONTRACTS[T + _n].nontrivial = lambda mapping_matrix, **kw: bool((mapping_matrix < 0).any())
CONTRACTS[IU + "data_vector_via_transformed_mapping_matrix_from"].gen = _g_dv


def _g_mrv(rng, tier):
    for _ in range(gens.budget(tier, 150, 2000)):
        k, p = rng.randint(0, 5), rng.randint(0, 4)
        extra = rng.choice([0, 0, 0, 1])                       # the code reads only the first len(reconstruction) columns
        yield {"transformed_mapping_matrix": gens.reals(rng, (k, p + extra), -3, 3, special=False) + 1j * gens.reals(rng, (k, p + extra), -3, 3, special=False),
               "reconstruction": gens.reals(rng, (p,), -4, 4, special=False)}


CONTRACTS[IU + "mapped_reconstructed_visibilities_from"].gen = _g_mrv
