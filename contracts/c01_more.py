"""C01 (continued) -- 1-D kernels, flat <-> (y,x) index conversion, complex and (y,x)-grid variants, mask reconstruction,
and the round trips / partition of the statement as corollaries over the contracts."""
import numpy as np
from pyvc.contract import contract, corollary, spec_fn, CONTRACTS
from pyvc import gens

M1 = "autoarray.mask.mask_1d_util:"
A1 = "autoarray.structures.arrays.array_1d_util:"
M2 = "autoarray.mask.mask_2d_util:"
A2 = "autoarray.structures.arrays.array_2d_util:"
G2 = "autoarray.structures.grids.grid_2d_util:"


# ----------------------------------------------------------------------------- 1-D inverse of the rank function cnt1
def _pix1(M, k):
    idx = np.flatnonzero(~np.asarray(M, dtype=bool))
    return int(idx[k]) if 0 <= k < len(idx) else -1


_P1 = "0 <= pix1(M, k) and pix1(M, k) < N and not M[pix1(M, k)] and cnt1(M, pix1(M, k)) == k"
spec_fn(
    "pix1", params=[("M", "bool[1]"), ("k", "int")], ret="int", let={"N": "M.shape[0]"},
    axioms=["forall(0, N, lambda x: implies(not M[x], pix1(M, cnt1(M, x)) == x), pat=((cnt1(M, x), M[x]),))"],
    lemmas=[
        # helper facts about cnt1 proved here from cnt1's two axioms only, so that the proofs below do not depend on the
        # order in which the two spec functions are instantiated (cnt1's own lemmas mono/strict serve the clients)
        dict(name="mono", induct="n", lo=0, hi="N", export=False,
             stmt="forall(0, n + 1, lambda x1: 0 <= cnt1(M, x1) and cnt1(M, x1) <= cnt1(M, n),"
                  " pat=((cnt1(M, x1), cnt1(M, n)),))"),
        dict(name="bound", noinduct=True,
             stmt="0 <= cnt1(M, N) and forall(0, N + 1, lambda x: 0 <= cnt1(M, x) and cnt1(M, x) <= cnt1(M, N),"
                  " pat=cnt1(M, x))"),
        # every k below the count reached so far is the rank of its own pixel
        dict(name="surj_upto", induct="n", lo=0, hi="N", export=False,
             stmt="forall(0, cnt1(M, n), lambda k: " + _P1 + ", pat=pix1(M, k))"),
        dict(name="surj", noinduct=True,
             stmt="forall(0, cnt1(M, N), lambda k: " + _P1 + ", pat=pix1(M, k))"),
    ],
    py=_pix1,
    doc="pix1(k) is the k-th unmasked pixel of a 1-D mask; with cnt1 it forms the 1-D bijection of C01",
)

N1 = {"N": "mask_1d.shape[0]"}

contract(
    M1 + "total_pixels_1d_from", props=["C01"],
    types={"mask_1d": "bool[1]"}, returns="int", let=N1,
    ensures=["result == total1(mask_1d)"],
    loops={0: {"inv": ["total_regular_pixels == cnt1(mask_1d, x)"]}},
    sentence={"result == total1(mask_1d)": "the number of slim entries is the number of unmasked pixels (1-D)"},
)

_done1 = "forall(0, slim_index, lambda k: native_index_for_slim_index_1d[k] == pix1(mask_1d, k))"
contract(
    M1 + "native_index_for_slim_index_1d_from", props=["C01"],
    types={"mask_1d": "bool[1]"}, returns="real[1]", let=N1,
    ensures=[
        "result.shape[0] == total1(mask_1d)",
        "forall(0, total1(mask_1d), lambda k: result[k] == pix1(mask_1d, k))",
        "forall(0, N, lambda x: implies(not mask_1d[x], result[cnt1(mask_1d, x)] == x))",
    ],
    loops={0: {"inv": ["slim_index == cnt1(mask_1d, x)", _done1]}},
    sentence={"forall": "slim index k denotes the k-th unmasked pixel (1-D bijection)"},
)

contract(
    A1 + "array_1d_slim_from", props=["C01"],
    types={"array_1d_native": "real[1]", "mask_1d": "bool[1]"}, returns="real[1]", let=N1,
    requires=["array_1d_native.shape[0] == N"],
    ensures=[
        "result.shape[0] == total1(mask_1d)",
        "forall(0, N, lambda x: implies(not mask_1d[x], result[cnt1(mask_1d, x)] == array_1d_native[x]))",
    ],
    loops={0: {"inv": ["index == cnt1(mask_1d, x)",
                       "forall(0, x, lambda xx: implies(not mask_1d[xx],"
                       " line_1d_slim[cnt1(mask_1d, xx)] == array_1d_native[xx]))"]}},
    sentence={"forall": "the slim form lists exactly the values of the unmasked pixels in order (1-D)"},
)

contract(
    A1 + "array_1d_via_indexes_1d_from", props=["C01"],
    types={"array_1d_slim": "real[1]", "shape": "int", "native_index_for_slim_index_1d": "int[1]"},
    returns="real[1]",
    let={"K": "native_index_for_slim_index_1d.shape[0]", "T": "native_index_for_slim_index_1d"},
    requires=[
        "shape >= 0", "array_1d_slim.shape[0] >= K",
        "forall(0, K, lambda k: 0 <= T[k] and T[k] < shape)",
        "forall(0, K, lambda k1: forall(0, K, lambda k2: implies(T[k1] == T[k2], k1 == k2)))",
    ],
    ensures=[
        "result.shape[0] == shape",
        "forall(0, K, lambda k: result[T[k]] == array_1d_slim[k])",
        "forall(0, shape, lambda x: implies(forall(0, K, lambda k: not (T[k] == x)), result[x] == 0))",
    ],
    loops={0: {"inv": [
        "forall(0, slim_index, lambda k: array_1d_native[T[k]] == array_1d_slim[k])",
        "forall(0, shape, lambda x: implies(forall(0, slim_index, lambda k: not (T[k] == x)), array_1d_native[x] == 0))",
    ]}},
)

contract(
    A1 + "array_1d_native_from", props=["C01"],
    types={"array_1d_slim": "real[1]", "mask_1d": "bool[1]"}, returns="real[1]", let=N1,
    requires=["array_1d_slim.shape[0] == total1(mask_1d)"],
    ensures=[
        "result.shape[0] == N",
        "forall(0, N, lambda x: result[x] == (0 if mask_1d[x] else array_1d_slim[cnt1(mask_1d, x)]))",
    ],
    sentence={"forall": "the native form holds those same values at their original positions with every masked position zero (1-D)"},
)


# ----------------------------------------------------------------------------- engine C generators
def _masks1(rng, tier):
    n = gens.budget(tier, 9, 12)
    for L in range(0, n + 1):
        for bits in range(2 ** L):
            yield np.array([(bits >> i) & 1 == 1 for i in range(L)], dtype=bool)
    for _ in range(gens.budget(tier, 40, 400)):
        L = rng.randint(1, 30)
        yield np.array([rng.random() < 0.5 for _ in range(L)], dtype=bool)


def _g1_mask(rng, tier):
    for m in _masks1(rng, tier):
        yield {"mask_1d": m}


def _g1_slim(rng, tier):
    for m in _masks1(rng, tier):
        yield {"array_1d_native": gens.reals(rng, m.shape), "mask_1d": m}


def _g1_native(rng, tier):
    for m in _masks1(rng, tier):
        yield {"array_1d_slim": gens.reals(rng, (int((~m).sum()),)), "mask_1d": m}


def _g1_idx(rng, tier):
    for m in _masks1(rng, tier):
        t = np.flatnonzero(~m).astype(int)
        if len(t) > 1 and rng.random() < 0.5:
            t = t[rng.sample(range(len(t)), len(t))]          # any injective table, not only increasing ones
        yield {"array_1d_slim": gens.reals(rng, (t.shape[0],)), "shape": int(m.shape[0]), "native_index_for_slim_index_1d": t}


_nt = lambda **kw: any(np.asarray(v).size > 1 and 0 < np.count_nonzero(np.asarray(v)) < np.asarray(v).size
                       for v in kw.values() if isinstance(v, np.ndarray) and v.dtype == bool)
for _k, _g in [(M1 + "total_pixels_1d_from", _g1_mask), (M1 + "native_index_for_slim_index_1d_from", _g1_mask),
               (A1 + "array_1d_slim_from", _g1_slim), (A1 + "array_1d_native_from", _g1_native)]:
    CONTRACTS[_k].gen = _g
    CONTRACTS[_k].nontrivial = _nt
CONTRACTS[A1 + "array_1d_via_indexes_1d_from"].gen = _g1_idx


# ============================================================================= 2-D: flat index <-> (y, x) index
IW = {"n": "indexes_slim.shape[0]", "W": "shape_native[1]"}
contract(
    A2 + "index_2d_for_index_slim_from", props=["C01"],
    types={"indexes_slim": "int[1]", "shape_native": "(int,int)"}, returns="real[2]", let=IW,
    requires=["W >= 1"],
    ensures=[
        "result.shape[0] == n", "result.shape[1] == 2",
        # a non-negative flattened index p denotes pixel (p // W, p % W)
        "forall(0, n, lambda i: implies(indexes_slim[i] >= 0, result[i, 0] == indexes_slim[i] // W"
        " and result[i, 1] == indexes_slim[i] % W), pat=(result[i, 0], result[i, 1], indexes_slim[i]))",
        # ... i.e. the unique (y, x) with 0 <= x < W and y * W + x == p  (inverse of index_slim_for_index_2d_from)
        "forall(0, n, lambda i: implies(indexes_slim[i] >= 0, result[i, 0] * W + result[i, 1] == indexes_slim[i]"
        " and 0 <= result[i, 1] and result[i, 1] < W and 0 <= result[i, 0]), pat=indexes_slim[i])",
    ],
    loops={0: {"inv": [
        "forall(0, i, lambda j: implies(indexes_slim[j] >= 0, index_2d_for_index_slim[j, 0] == indexes_slim[j] // W"
        " and index_2d_for_index_slim[j, 1] == indexes_slim[j] % W),"
        " pat=indexes_slim[j])"],
        "assert_at": {0: ["implies(index_slim >= 0, toint(index_slim / W) == index_slim // W)"]}}},
    sentence={"forall": "flattened index p denotes the pixel in row p // W, column p % W (row-major)"},
)

contract(
    A2 + "index_slim_for_index_2d_from", props=["C01"],
    types={"indexes_2d": "int[2]", "shape_native": "(int,int)"}, returns="real[1]",
    let={"n": "indexes_2d.shape[0]", "W": "shape_native[1]"},
    requires=["indexes_2d.shape[1] == 2"],
    ensures=["result.shape[0] == n",
             "forall(0, n, lambda i: result[i] == indexes_2d[i, 0] * W + indexes_2d[i, 1], pat=result[i])"],
    loops={0: {"inv": ["forall(0, i, lambda j: index_slim_for_index_native_2d[j] == indexes_2d[j, 0] * W + indexes_2d[j, 1],"
                       " pat=indexes_2d[j, 0])"]}},
    sentence={"forall": "pixel (y, x) has flattened index y * W + x (row-major)"},
)


def _g_flat(rng, tier):
    for _ in range(gens.budget(tier, 300, 4000)):
        H, W = rng.randint(1, 9), rng.randint(1, 9)
        n = rng.randint(0, 8)
        yield {"indexes_slim": np.array([rng.randrange(H * W) for _ in range(n)], dtype=int), "shape_native": (H, W)}
    yield {"indexes_slim": np.array([0, 1, 2, 5]), "shape_native": (3, 3)}


def _g_yx(rng, tier):
    for _ in range(gens.budget(tier, 300, 4000)):
        H, W = rng.randint(1, 9), rng.randint(1, 9)
        n = rng.randint(0, 8)
        yield {"indexes_2d": np.array([[rng.randrange(H), rng.randrange(W)] for _ in range(n)], dtype=int).reshape(n, 2),
               "shape_native": (H, W)}


CONTRACTS[A2 + "index_2d_for_index_slim_from"].gen = _g_flat
CONTRACTS[A2 + "index_slim_for_index_2d_from"].gen = _g_yx


# ============================================================================= 2-D: complex arrays
HWm = {"H": "mask.shape[0]", "W": "mask.shape[1]"}
_CEQ = "creal({a}) == creal({b}) and cimag({a}) == cimag({b})"
_crow = ("forall(0, y, lambda yy: forall(0, W, lambda xx: implies(not mask[yy, xx], "
         + _CEQ.format(a="array_1d[cnt2(mask, yy, xx)]", b="array_2d_native[yy, xx]") + ")))")
contract(
    A2 + "array_2d_slim_complex_from", props=["C01", "C13"],
    types={"array_2d_native": "complex[2]", "mask": "bool[2]"}, returns="complex[1]", let=HWm,
    requires=["array_2d_native.shape[0] == H", "array_2d_native.shape[1] == W"],
    ensures=[
        "result.shape[0] == total(mask)",
        "forall(0, H, lambda y: forall(0, W, lambda x: implies(not mask[y, x], "
        + _CEQ.format(a="result[cnt2(mask, y, x)]", b="array_2d_native[y, x]") + ")))",
    ],
    loops={
        0: {"inv": ["index == cnt2(mask, y, 0)", _crow]},
        1: {"inv": ["index == cnt2(mask, y, x)", _crow,
                    "forall(0, x, lambda xx: implies(not mask[y, xx], "
                    + _CEQ.format(a="array_1d[cnt2(mask, y, xx)]", b="array_2d_native[y, xx]") + "))"]},
    },
    sentence={"forall": "the slim form of a complex array lists exactly the values of the unmasked pixels in row-major order"},
)

_CT = {"K": "native_index_for_slim_index_2d.shape[0]", "T": "native_index_for_slim_index_2d"}
contract(
    A2 + "array_2d_native_complex_via_indexes_from", props=["C01", "C13"],
    types={"array_2d_slim": "complex[1]", "shape_native": "(int,int)", "native_index_for_slim_index_2d": "int[2]"},
    returns="complex[2]", let=_CT,
    requires=[
        "shape_native[0] >= 0", "shape_native[1] >= 0", "T.shape[1] == 2", "array_2d_slim.shape[0] >= K",
        "forall(0, K, lambda k: 0 <= T[k, 0] and T[k, 0] < shape_native[0] and 0 <= T[k, 1] and T[k, 1] < shape_native[1])",
        "forall(0, K, lambda k1: forall(0, K, lambda k2: implies(T[k1, 0] == T[k2, 0] and T[k1, 1] == T[k2, 1], k1 == k2)))",
    ],
    ensures=[
        "result.shape[0] == shape_native[0]", "result.shape[1] == shape_native[1]",
        "forall(0, K, lambda k: " + _CEQ.format(a="result[T[k, 0], T[k, 1]]", b="array_2d_slim[k]") + ")",
        "forall(0, shape_native[0], lambda y: forall(0, shape_native[1], lambda x:"
        " implies(forall(0, K, lambda k: not (T[k, 0] == y and T[k, 1] == x)),"
        " creal(result[y, x]) == 0 and cimag(result[y, x]) == 0)))",
    ],
    loops={0: {"inv": [
        "forall(0, slim_index, lambda k: " + _CEQ.format(a="array_2d[T[k, 0], T[k, 1]]", b="array_2d_slim[k]") + ")",
        "forall(0, shape_native[0], lambda y: forall(0, shape_native[1], lambda x:"
        " implies(forall(0, slim_index, lambda k: not (T[k, 0] == y and T[k, 1] == x)),"
        " creal(array_2d[y, x]) == 0 and cimag(array_2d[y, x]) == 0)))",
    ]}},
    sentence={"forall": "the native form of a complex array holds the slim values at their pixel positions, zero elsewhere"},
)

# ============================================================================= 2-D: mask rebuilt from the slim-to-native table
contract(
    M2 + "mask_2d_via_shape_native_and_native_for_slim", props=["C01"],
    types={"shape_native": "(int,int)", "native_for_slim": "int[2]"}, returns="real[2]",
    let={"K": "native_for_slim.shape[0]", "T": "native_for_slim"},
    requires=[
        "shape_native[0] >= 0", "shape_native[1] >= 0", "T.shape[1] == 2",
        "forall(0, K, lambda k: 0 <= T[k, 0] and T[k, 0] < shape_native[0] and 0 <= T[k, 1] and T[k, 1] < shape_native[1])",
    ],
    ensures=[
        "result.shape[0] == shape_native[0]", "result.shape[1] == shape_native[1]",
        # 0.0 (False) exactly at the listed pixels, 1.0 (True) everywhere else
        "forall(0, K, lambda k: result[T[k, 0], T[k, 1]] == 0, pat=(T[k, 0], T[k, 1]))",
        "forall(0, shape_native[0], lambda y: forall(0, shape_native[1], lambda x:"
        " implies(forall(0, K, lambda k: not (T[k, 0] == y and T[k, 1] == x)), result[y, x] == 1), pat=result[y, x]))",
        "forall(0, shape_native[0], lambda y: forall(0, shape_native[1], lambda x: result[y, x] == 0 or result[y, x] == 1,"
        " pat=result[y, x]))",
    ],
    loops={0: {"inv": [
        "forall(0, index, lambda k: mask[T[k, 0], T[k, 1]] == 0)",
        "forall(0, shape_native[0], lambda y: forall(0, shape_native[1], lambda x:"
        " implies(forall(0, index, lambda k: not (T[k, 0] == y and T[k, 1] == x)), mask[y, x] == 1)))",
        "forall(0, shape_native[0], lambda y: forall(0, shape_native[1], lambda x: mask[y, x] == 0 or mask[y, x] == 1))",
    ]}},
    sentence={"forall": "the mask rebuilt from a slim-to-native table is unmasked exactly at the listed pixels"},
)

# ============================================================================= 2-D: (y,x) grids (np.stack: pyvc/ext/c01.py)
contract(
    G2 + "grid_2d_slim_from", props=["C01"],
    types={"grid_2d_native": "real[3]", "mask": "bool[2]"}, returns="real[2]", let=HWm,
    requires=["grid_2d_native.shape[0] == H", "grid_2d_native.shape[1] == W", "grid_2d_native.shape[2] == 2"],
    ensures=[
        "result.shape[0] == total(mask)", "result.shape[1] == 2",
        "forall(0, H, lambda y: forall(0, W, lambda x: implies(not mask[y, x],"
        " result[cnt2(mask, y, x), 0] == grid_2d_native[y, x, 0] and result[cnt2(mask, y, x), 1] == grid_2d_native[y, x, 1])))",
    ],
    sentence={"forall": "the slim form of a (y,x) grid lists exactly the coordinates of the unmasked pixels in row-major order"},
)

contract(
    G2 + "grid_2d_native_from", props=["C01"],
    types={"grid_2d_slim": "real[2]", "mask_2d": "bool[2]"}, returns="real[3]",
    let={"H": "mask_2d.shape[0]", "W": "mask_2d.shape[1]"},
    requires=["grid_2d_slim.shape[0] == total(mask_2d)", "grid_2d_slim.shape[1] == 2"],
    ensures=[
        "result.shape[0] == H", "result.shape[1] == W", "result.shape[2] == 2",
        "forall(0, H, lambda y: forall(0, W, lambda x:"
        " result[y, x, 0] == (0 if mask_2d[y, x] else grid_2d_slim[cnt2(mask_2d, y, x), 0])"
        " and result[y, x, 1] == (0 if mask_2d[y, x] else grid_2d_slim[cnt2(mask_2d, y, x), 1])))",
    ],
    sentence={"forall": "the native form of a (y,x) grid holds those coordinates at their pixel positions with every masked position zero"},
)


# ----------------------------------------------------------------------------- engine C generators (2-D)
def _masks2(rng, tier, cells_q=8, cells_t=10, n_q=40, n_t=300):
    for m in gens.all_masks(gens.budget(tier, cells_q, cells_t)):
        yield m
    for _ in range(gens.budget(tier, n_q, n_t)):
        yield gens.random_mask(rng, 7, 7)


def _cplx(rng, shape):
    return gens.reals(rng, shape) + 1j * gens.reals(rng, shape)


def _table(rng, m, shuffle=True):
    t = np.argwhere(~m).astype(int).reshape(-1, 2)
    if shuffle and len(t) > 1 and rng.random() < 0.5:
        t = t[rng.sample(range(len(t)), len(t))]              # any injective table, not only the row-major one
    return t


def _g_cslim(rng, tier):
    for m in _masks2(rng, tier):
        yield {"array_2d_native": _cplx(rng, m.shape), "mask": m}


def _g_cnative(rng, tier):
    for m in _masks2(rng, tier):
        t = _table(rng, m)
        yield {"array_2d_slim": _cplx(rng, (t.shape[0],)), "shape_native": tuple(int(s) for s in m.shape),
               "native_index_for_slim_index_2d": t}


def _g_rebuild(rng, tier):
    for m in _masks2(rng, tier):
        t = _table(rng, m)
        if len(t) and rng.random() < 0.3:
            t = np.concatenate([t, t[:1]])                    # repeated entries are allowed here
        yield {"shape_native": tuple(int(s) for s in m.shape), "native_for_slim": t}


def _g_gslim(rng, tier):
    for m in _masks2(rng, tier):
        yield {"grid_2d_native": gens.reals(rng, m.shape + (2,)), "mask": m}


def _g_gnative(rng, tier):
    for m in _masks2(rng, tier):
        yield {"grid_2d_slim": gens.reals(rng, (int((~m).sum()), 2)), "mask_2d": m}


for _k, _g in [(A2 + "array_2d_slim_complex_from", _g_cslim), (A2 + "array_2d_native_complex_via_indexes_from", _g_cnative),
               (M2 + "mask_2d_via_shape_native_and_native_for_slim", _g_rebuild),
               (G2 + "grid_2d_slim_from", _g_gslim), (G2 + "grid_2d_native_from", _g_gnative)]:
    CONTRACTS[_k].gen = _g
for _k in [A2 + "array_2d_slim_complex_from", G2 + "grid_2d_slim_from", G2 + "grid_2d_native_from"]:
    CONTRACTS[_k].nontrivial = _nt


# ============================================================================= the round trips and bijections of the statement
# (corollaries over the contracts only; no code is re-verified)
corollary("C01.roundtrip_slim_2d", props=["C01"],
          vars={"S": "real[1]", "M": "bool[2]"}, requires=["S.shape[0] == total(M)"],
          calls=[("Nv", A2 + "array_2d_native_from", {"array_2d_slim": "S", "mask_2d": "M"}),
                 ("S2", A2 + "array_2d_slim_from", {"array_2d_native": "Nv", "mask_2d": "M"})],
          ensures=["S2.shape[0] == S.shape[0]",
                   # every slim index k is the rank of its own pixel (pixy(k), pixx(k)) -- lemma pixx.surj
                   # (the index k is written as the rank term _RK == k: keeps the proof on e-matching)
                   "forall(0, total(M), lambda k: _RK == k and S2[_RK] == S[_RK])".replace("_RK", "cnt2(M, pixy(M, k), pixx(M, k))")],
          sentence="converting slim to native and back returns the identical slim values (2-D)")

corollary("C01.roundtrip_native_2d", props=["C01"],
          vars={"A": "real[2]", "M": "bool[2]"}, let={"H": "M.shape[0]", "W": "M.shape[1]"},
          requires=["A.shape[0] == H", "A.shape[1] == W"],
          calls=[("S", A2 + "array_2d_slim_from", {"array_2d_native": "A", "mask_2d": "M"}),
                 ("Nv", A2 + "array_2d_native_from", {"array_2d_slim": "S", "mask_2d": "M"})],
          ensures=["Nv.shape[0] == H and Nv.shape[1] == W",
                   "forall(0, H, lambda y: forall(0, W, lambda x: Nv[y, x] == (0 if M[y, x] else A[y, x])))"],
          sentence="converting native to slim and back returns the native values with masked positions zeroed (2-D)")

corollary("C01.roundtrip_slim_1d", props=["C01"],
          vars={"S": "real[1]", "M": "bool[1]"}, requires=["S.shape[0] == total1(M)"],
          calls=[("Nv", A1 + "array_1d_native_from", {"array_1d_slim": "S", "mask_1d": "M"}),
                 ("S2", A1 + "array_1d_slim_from", {"array_1d_native": "Nv", "mask_1d": "M"})],
          ensures=["S2.shape[0] == S.shape[0]",
                   "forall(0, total1(M), lambda k: _RK == k and S2[_RK] == S[_RK])".replace("_RK", "cnt1(M, pix1(M, k))")],
          sentence="converting slim to native and back returns the identical slim values (1-D)")

corollary("C01.roundtrip_native_1d", props=["C01"],
          vars={"A": "real[1]", "M": "bool[1]"}, let={"N": "M.shape[0]"}, requires=["A.shape[0] == N"],
          calls=[("S", A1 + "array_1d_slim_from", {"array_1d_native": "A", "mask_1d": "M"}),
                 ("Nv", A1 + "array_1d_native_from", {"array_1d_slim": "S", "mask_1d": "M"})],
          ensures=["Nv.shape[0] == N", "forall(0, N, lambda x: Nv[x] == (0 if M[x] else A[x]))"],
          sentence="converting native to slim and back returns the native values with masked positions zeroed (1-D)")

corollary("C01.roundtrip_grid_slim_2d", props=["C01"],
          vars={"S": "real[2]", "M": "bool[2]"}, requires=["S.shape[0] == total(M)", "S.shape[1] == 2"],
          calls=[("Nv", G2 + "grid_2d_native_from", {"grid_2d_slim": "S", "mask_2d": "M"}),
                 ("S2", G2 + "grid_2d_slim_from", {"grid_2d_native": "Nv", "mask": "M"})],
          ensures=["S2.shape[0] == S.shape[0] and S2.shape[1] == 2",
                   "forall(0, total(M), lambda k: _RK == k and S2[_RK, 0] == S[_RK, 0] and S2[_RK, 1] == S[_RK, 1])"
                   .replace("_RK", "cnt2(M, pixy(M, k), pixx(M, k))")],
          sentence="(y,x) grids: converting slim to native and back returns the identical slim values")

corollary("C01.roundtrip_grid_native_2d", props=["C01"],
          vars={"A": "real[3]", "M": "bool[2]"}, let={"H": "M.shape[0]", "W": "M.shape[1]"},
          requires=["A.shape[0] == H", "A.shape[1] == W", "A.shape[2] == 2"],
          calls=[("S", G2 + "grid_2d_slim_from", {"grid_2d_native": "A", "mask": "M"}),
                 ("Nv", G2 + "grid_2d_native_from", {"grid_2d_slim": "S", "mask_2d": "M"})],
          ensures=["forall(0, H, lambda y: forall(0, W, lambda x: Nv[y, x, 0] == (0 if M[y, x] else A[y, x, 0])"
                   " and Nv[y, x, 1] == (0 if M[y, x] else A[y, x, 1])))"],
          sentence="(y,x) grids: converting native to slim and back returns the native values with masked positions zeroed")

# the unmasked and masked index lists partition the flattened pixel indices: their lengths add up to H*W (lemma
# cntf.part) and every pixel's flattened index y*W+x sits in the list of its kind, at its rank among that kind
corollary("C01.index_lists_partition", props=["C01"],
          vars={"M": "bool[2]"}, let={"H": "M.shape[0]", "W": "M.shape[1]"}, requires=[],
          calls=[("U", M2 + "mask_slim_indexes_from", {"mask_2d": "M", "return_masked_indexes": "False"}),
                 ("Km", M2 + "mask_slim_indexes_from", {"mask_2d": "M", "return_masked_indexes": "True"})],
          ensures=["U.shape[0] + Km.shape[0] == H * W",
                   "forall(0, H, lambda y: forall(0, W, lambda x: implies(not M[y, x],"
                   " 0 <= cntf(M, False, y, x) and cntf(M, False, y, x) < U.shape[0] and U[cntf(M, False, y, x)] == y * W + x)))",
                   "forall(0, H, lambda y: forall(0, W, lambda x: implies(M[y, x],"
                   " 0 <= cntf(M, True, y, x) and cntf(M, True, y, x) < Km.shape[0] and Km[cntf(M, True, y, x)] == y * W + x)))"],
          sentence="the unmasked and masked lists partition the flattened pixel indices")

# the published slim-to-native table is a bijection between slim indices and unmasked pixels ...
corollary("C01.native_for_slim_bijection", props=["C01"],
          vars={"mask_2d": "bool[2]"}, let={"H": "mask_2d.shape[0]", "W": "mask_2d.shape[1]"}, requires=[],
          calls=[("T", M2 + "native_index_for_slim_index_2d_from", {"mask_2d": "mask_2d"})],
          ensures=["forall(0, total(mask_2d), lambda k: 0 <= pixy(mask_2d, k) and pixy(mask_2d, k) < H and 0 <= pixx(mask_2d, k) and pixx(mask_2d, k) < W"
                   " and T[k, 0] == pixy(mask_2d, k) and T[k, 1] == pixx(mask_2d, k) and not mask_2d[pixy(mask_2d, k), pixx(mask_2d, k)])",
                   "forall(0, total(mask_2d), lambda k1: forall(0, total(mask_2d), lambda k2:"
                   " implies(T[k1, 0] == T[k2, 0] and T[k1, 1] == T[k2, 1], k1 == k2)))",
                   "forall(0, H, lambda y: forall(0, W, lambda x: implies(not mask_2d[y, x], cnt2(mask_2d, y, x) < total(mask_2d)"
                   " and T[cnt2(mask_2d, y, x), 0] == y and T[cnt2(mask_2d, y, x), 1] == x)))"],
          sentence="the slim-to-native table is a bijection between slim indices and unmasked pixels")

# ... and the mask rebuilt from it is the mask itself (Ti: the table as the integer array callers pass,
# related to the published table T elementwise through T's contract: T[k] == (pixy(k), pixx(k)))
corollary("C01.mask_from_native_for_slim", props=["C01"],
          vars={"M": "bool[2]", "Ti": "int[2]"}, let={"H": "M.shape[0]", "W": "M.shape[1]"},
          requires=["Ti.shape[0] == total(M)", "Ti.shape[1] == 2",
                    "forall(0, total(M), lambda k: Ti[k, 0] == pixy(M, k) and Ti[k, 1] == pixx(M, k), pat=(Ti[k, 0], Ti[k, 1]))"],
          calls=[("R", M2 + "mask_2d_via_shape_native_and_native_for_slim", {"shape_native": "(H, W)", "native_for_slim": "Ti"})],
          ensures=["R.shape[0] == H and R.shape[1] == W",
                   # unmasked pixels (first conjuncts: the witness -- an unmasked pixel is listed at its own rank) ...
                   "forall(0, H, lambda y: forall(0, W, lambda x: implies(not M[y, x], cnt2(M, y, x) < total(M)"
                   " and Ti[cnt2(M, y, x), 0] == y and Ti[cnt2(M, y, x), 1] == x and R[y, x] == 0)))",
                   # ... and masked pixels (no entry of the table is a masked pixel: lemma pixx.surj)
                   "forall(0, H, lambda y: forall(0, W, lambda x: implies(M[y, x], R[y, x] == 1)))"],
          sentence="the mask rebuilt from the slim-to-native table is the mask itself")

# flat index <-> (y,x) index conversions are mutually inverse on valid pixel indices (F is real-valued; Fi is the same
# list as the integer array the inverse function takes, related to F elementwise through F's contract)
corollary("C01.flat_index_roundtrip", props=["C01"],
          vars={"P": "int[2]", "Fi": "int[1]", "shape_native": "(int,int)"}, let={"W": "shape_native[1]", "n": "P.shape[0]"},
          requires=["W >= 1", "P.shape[1] == 2", "Fi.shape[0] == n",
                    "forall(0, n, lambda i: 0 <= P[i, 0] and 0 <= P[i, 1] and P[i, 1] < W)",
                    "forall(0, n, lambda i: Fi[i] == P[i, 0] * W + P[i, 1], pat=Fi[i])"],
          calls=[("F", A2 + "index_slim_for_index_2d_from", {"indexes_2d": "P", "shape_native": "shape_native"}),
                 ("Q", A2 + "index_2d_for_index_slim_from", {"indexes_slim": "Fi", "shape_native": "shape_native"})],
          ensures=["forall(0, n, lambda i: F[i] == Fi[i], pat=Fi[i])",
                   # (first conjunct: the integer stepping stone (y * W + x) // W == y, kept explicit for the solver)
                   "forall(0, n, lambda i: Fi[i] // W == P[i, 0] and Q[i, 0] == P[i, 0] and Q[i, 1] == P[i, 1], pat=Fi[i])"],
          sentence="(y,x) -> flattened -> (y,x) is the identity on valid pixel indices")
