"""C18 -- border relocation only pulls outliers radially inward to the border.

Vectorised numpy primitives (np.mean, np.min, np.max, np.argmin, np.sqrt of arrays, np.add / np.subtract, `a[:, :] = b`)
are read through the minimal facts listed in pyvc/ext/c18.py.
"""
import math
import numpy as np
from pyvc.contract import contract, corollary, macro, CONTRACTS
from pyvc import gens
from pyvc.ext import c18 as _ext

G2 = "autoarray.structures.grids.grid_2d_util:"

# x * x, kept as an uninterpreted symbol (definition: opt-in axiom "sq18", see pyvc/ext/c18.py (7))
macro("sq18", ["x"], "x * x", py=lambda x: x * x, opaque=(["real"], "real"))
# identity, used only as the trigger that unfolds sq18 at chosen terms in ghost assertions
macro("unf18", ["x"], "x", py=lambda x: x, opaque=(["real"], "real"))
# distance of point i of the (n, 2) array A from (c0, c1)
macro("rad18", ["A", "i", "c0", "c1"], "sqrt(sq18(A[i, 0] - c0) + sq18(A[i, 1] - c1))",
      py=lambda A, i, c0, c1: float(np.sqrt((A[i, 0] - c0) ** 2 + (A[i, 1] - c1) ** 2)))
# squared distance between point i of P and point j of Q ("nearest" is the same for distance and squared distance)
macro("dsq18", ["P", "i", "Q", "j"], "sq18(P[i, 0] - Q[j, 0]) + sq18(P[i, 1] - Q[j, 1])",
      py=lambda P, i, Q, j: float((P[i, 0] - Q[j, 0]) ** 2 + (P[i, 1] - Q[j, 1]) ** 2))
# bit-for-bit equality: two exact comparisons (the DSL's `==` is tolerant at run time, `<=` is not)
macro("same18", ["a", "b"], "a <= b and b <= a", py=lambda a, b: bool(a == b))
# a <= b up to the run-time tolerance of `==` (identical to <= for the prover)
macro("le18", ["a", "b"], "a < b or a == b")

_R = "rad18(grid, i, c0, c1)"            # distance of coordinate i from the border centroid
_RB = "rad18(border_grid, {j}, c0, c1)"  # radius of border point j
_UNCH = "same18({o}[i, 0], grid[i, 0]) and same18({o}[i, 1], grid[i, 1])"


def _rule(o):
    """the relocation rule for coordinate i, output array `o` (three clauses of the property statement)"""
    inside = ("implies(forall(0, B, lambda j: " + _R + " <= " + _RB.format(j="j") + ", pat=" + _RB.format(j="j") + "), " + _UNCH.format(o=o) + ")")
    nearest = "forall(0, B, lambda j: dsq18(grid, i, border_grid, b) <= dsq18(grid, i, border_grid, j), pat=border_grid[j, 0])"
    m = _RB.format(j="b") + " / " + _R
    moved = ("(" + _RB.format(j="b") + " < " + _R + " and 0 <= " + m + " and " + m + " < 1"
             " and {o}[i, 0] == c0 + " + m + " * (grid[i, 0] - c0) and {o}[i, 1] == c1 + " + m + " * (grid[i, 1] - c1))").format(o=o)
    kept = "(" + _RB.format(j="b") + " >= " + _R + " and " + _UNCH.format(o=o) + ")"
    outside = ("implies(exists(0, B, lambda j: " + _RB.format(j="j") + " < " + _R + ", pat=" + _RB.format(j="j") + "),"
               " exists(0, B, lambda b: " + nearest + " and (" + moved + " or " + kept + "), pat=" + _RB.format(j="b") + "))")
    bounded = ("le18(rad18(%s, i, c0, c1), %s) and exists(0, B, lambda j: le18(rad18(%s, i, c0, c1), %s), pat=%s)"
               % (o, _R, o, _RB.format(j="j"), _RB.format(j="j")))
    return inside, outside, bounded


# ghost stepping stones at the end of the loop body (i = pixel_index, cl = closest_pixel_index, o = grid_relocated)
_I = "pixel_index"
_RI = "rad18(grid, pixel_index, c0, c1)"
_RC = "rad18(border_grid, closest_pixel_index, c0, c1)"
_OUTSIDE = "grid_radii[pixel_index] > border_min_radii"
_MOVED = "(" + _OUTSIDE + " and move_factor < 1)"
_DY, _DX = "(grid[pixel_index, 0] - c0)", "(grid[pixel_index, 1] - c1)"
_OY, _OX = "(grid_relocated[pixel_index, 0] - c0)", "(grid_relocated[pixel_index, 1] - c1)"
_SAMEROW = "same18(grid_relocated[pixel_index, 0], grid[pixel_index, 0]) and same18(grid_relocated[pixel_index, 1], grid[pixel_index, 1])"
_STEPS = [
    # not outside: row untouched, and its radius does not exceed any border radius
    "implies(not " + _OUTSIDE + ", " + _SAMEROW + ")",
    "implies(not " + _OUTSIDE + ", forall(0, B, lambda j: " + _RI + " <= " + _RB.format(j="j") + ", pat=" + _RB.format(j="j") + "))",
    # outside: some border radius is smaller; cl is a nearest border point; radii are those of the statement
    "implies(" + _OUTSIDE + ", exists(0, B, lambda j: " + _RB.format(j="j") + " < " + _RI + ", pat=" + _RB.format(j="j") + "))",
    "implies(" + _OUTSIDE + ", 0 <= closest_pixel_index and closest_pixel_index < B)",
    "implies(" + _OUTSIDE + ", forall(0, B, lambda j: dsq18(grid, pixel_index, border_grid, closest_pixel_index)"
    " <= dsq18(grid, pixel_index, border_grid, j), pat=border_grid[j, 0]))",
    "implies(" + _OUTSIDE + ", " + _RI + " > 0 and " + _RC + " >= 0 and move_factor == " + _RC + " / " + _RI + ")",
    "implies(" + _OUTSIDE + " and not move_factor < 1, " + _RC + " >= " + _RI + " and " + _SAMEROW + ")",
    "implies(" + _MOVED + ", " + _RC + " < " + _RI + " and 0 <= " + _RC + " / " + _RI + " and " + _RC + " / " + _RI + " < 1)",
    "implies(" + _MOVED + ", grid_relocated[pixel_index, 0] == c0 + " + _RC + " / " + _RI + " * " + _DY
    + " and grid_relocated[pixel_index, 1] == c1 + " + _RC + " / " + _RI + " * " + _DX + ")",
    # moved: the new radius is the radius of the nearest border point  (sqrt(m^2 r^2) = m r = r_b)
    "implies(" + _MOVED + ", " + _OY + " == move_factor * " + _DY + " and " + _OX + " == move_factor * " + _DX + ")",
    "implies(" + _MOVED + ", sq18(unf18(" + _OY + ")) + sq18(unf18(" + _OX + ")) == move_factor * move_factor * (sq18(unf18(" + _DY + ")) + sq18(unf18(" + _DX + "))))",
    "implies(" + _MOVED + ", sq18(" + _DY + ") + sq18(" + _DX + ") >= 0 and " + _RI + " * " + _RI + " == sq18(unf18(" + _DY + ")) + sq18(unf18(" + _DX + ")))",
    "implies(" + _MOVED + ", move_factor * " + _RI + " == " + _RC + ")",
    "implies(" + _MOVED + ", move_factor * move_factor * (sq18(" + _DY + ") + sq18(" + _DX + ")) == " + _RC + " * " + _RC + ")",
    "implies(" + _MOVED + ", sqrt(" + _RC + " * " + _RC + ") == " + _RC + ")",
    "implies(" + _MOVED + ", sq18(" + _OY + ") + sq18(" + _OX + ") == " + _RC + " * " + _RC + ")",
    "implies(" + _MOVED + ", rad18(grid_relocated, pixel_index, c0, c1) == " + _RC + ")",
]

_ext.OPAQUE_SQUARE.add(G2 + "relocated_grid_via_jit_from")
_ext.ROW_LEN[G2 + "relocated_grid_via_jit_from"] = 2
_ext.NO_ARRAY_EXT.add(G2 + "relocated_grid_via_jit_from")
_INS, _OUT, _BND = _rule("result")
_INS_L, _OUT_L, _BND_L = _rule("grid_relocated")
# ... and, last, the three clauses of the rule for the current row (the invariant bodies at i = pixel_index)
_STEPS += [x.replace("[i, ", "[pixel_index, ").replace(", i, ", ", pixel_index, ") for x in (_INS_L, _OUT_L, _BND_L)]

contract(
    G2 + "relocated_grid_via_jit_from", props=["C18"],
    types={"grid": "real[2]", "border_grid": "real[2]"}, returns="real[2]", uses_math=["sqrt", "sq18"],
    let={"N": "grid.shape[0]", "B": "border_grid.shape[0]",
         # the border centroid: mean of the border points
         "c0": "np.mean(border_grid[:, 0])", "c1": "np.mean(border_grid[:, 1])"},
    requires=["grid.shape[1] == 2", "border_grid.shape[1] == 2", "B >= 1"],
    ensures=[
        # number and order of coordinates preserved (row i of the result is the image of row i of the input)
        "result.shape[0] == N", "result.shape[1] == 2",
        "forall(0, N, lambda i: " + _INS + ", pat=grid[i, 0])",
        "forall(0, N, lambda i: " + _OUT + ", pat=grid[i, 0])",
        "forall(0, N, lambda i: " + _BND + ", pat=grid[i, 0])",
    ],
    loops={0: {"inv": [
        "border_origin[0] == c0 and border_origin[1] == c1",
        "forall(0, B, lambda j: border_grid_radii[j] == " + _RB.format(j="j") + ", pat=(border_grid_radii[j], " + _RB.format(j="j") + "))",
        "forall(0, N, lambda i: grid_radii[i] == " + _R + ", pat=(grid_radii[i], " + _R + "))",
        "forall(0, B, lambda j: border_min_radii <= border_grid_radii[j], pat=border_grid_radii[j])",
        "exists(0, B, lambda j: border_min_radii == border_grid_radii[j])",
        "forall(0, pixel_index, lambda i: " + _INS_L + ", pat=grid[i, 0])",
        "forall(0, pixel_index, lambda i: " + _OUT_L + ", pat=grid[i, 0])",
        "forall(0, pixel_index, lambda i: " + _BND_L + ", pat=grid[i, 0])",
        "forall(pixel_index, N, lambda i: grid_relocated[i, 0] == grid[i, 0] and grid_relocated[i, 1] == grid[i, 1], pat=grid[i, 0])",
    ], "assert_at": {1: _STEPS}}},
    sentence={
        "implies(forall": "every coordinate whose distance from the border centroid does not exceed the smallest border radius is bit-for-bit unchanged",
        "implies(exists": "any other coordinate moves only along its ray from the centroid, never outward (out = c + m (p - c), 0 <= m < 1), "
                          "to the radius of its nearest border point when that is smaller than its own",
        "le18": "never outward: no output lies farther from the centroid than its input, nor than the farthest border point",
        "result.shape[0] == N": "the number and order of coordinates are preserved",
    },
)
