"""C18 -- border relocation only pulls outliers radially inward to the border.

Vectorised numpy primitives (np.mean, np.min, np.max, np.argmin, np.sqrt of arrays, np.add / np.subtract, `a[:, :] = b`)
are read through the minimal facts listed in pyvc/ext/c18.py (A).  Squares, products, quotients and the moved coordinate
are opaque symbols for the prover, shared by the program and the specification; what is needed of their arithmetic meaning
is isolated in two lemmas that are proved on every run -- see (7) there.
"""
import math
import numpy as np
from pyvc.contract import contract, corollary, macro, CONTRACTS
from pyvc import gens
from pyvc.ext import c18 as _ext

G2 = "autoarray.structures.grids.grid_2d_util:"
_RELOC = G2 + "relocated_grid_via_jit_from"

macro("sq18", ["x"], "x * x", py=lambda x: x * x, opaque=(["real"], "real"))
macro("mfac18", ["a", "b"], "a / b", py=lambda a, b: a / b, opaque=(["real", "real"], "real"))       # move factor r_b / r
macro("mv18", ["c", "m", "p"], "c + m * (p - c)", py=lambda c, m, p: c + m * (p - c),                # c + m (p - c)
      opaque=(["real", "real", "real"], "real"))
for _n in ("ins18", "out18", "bnd18", "wit18"):       # per-clause row markers / witness marker (triggers only; `True`)
    macro(_n, ["i"], "True", py=lambda i: True, opaque=(["int"], "bool"))
macro("scale18", ["c0", "c1", "p0", "p1", "rb"], "True", py=lambda *a: True, opaque=(["real"] * 5, "bool"))   # lemma trigger
# distance of point i of the (n, 2) array A from (c0, c1)
macro("rad18", ["A", "i", "c0", "c1"], "sqrt(sq18(A[i, 0] - c0) + sq18(A[i, 1] - c1))",
      py=lambda A, i, c0, c1: float(np.sqrt((A[i, 0] - c0) ** 2 + (A[i, 1] - c1) ** 2)))
# squared distance between point i of P and point j of Q ("nearest" is the same for distance and squared distance)
macro("dsq18", ["P", "i", "Q", "j"], "sq18(P[i, 0] - Q[j, 0]) + sq18(P[i, 1] - Q[j, 1])",
      py=lambda P, i, Q, j: float((P[i, 0] - Q[j, 0]) ** 2 + (P[i, 1] - Q[j, 1]) ** 2))
# bit-for-bit equality: plain equality for the prover; at run time EXACT float equality (the DSL's own `==` is tolerant)
macro("same18", ["a", "b"], "a == b", py=lambda a, b: bool(a == b))
# a <= b; at run time up to the tolerance of the DSL's `==` (rounding of a computed radius)
macro("le18", ["a", "b"], "a <= b", py=lambda a, b: bool(a <= b or abs(a - b) <= 1e-9 * max(1.0, abs(a), abs(b))))

_R = "rad18(grid, i, c0, c1)"            # distance of coordinate i from the border centroid
_RB = "rad18(border_grid, {j}, c0, c1)"  # radius of border point j
_UNCH = "same18({o}[i, 0], grid[i, 0]) and same18({o}[i, 1], grid[i, 1])"


def _rule(o):
    """the relocation rule for coordinate i, output array `o` (three clauses of the property statement).
    Triggers: border quantifiers whose body mentions the radius of border point j fire on that radius term, `nearest`
    fires on the border coordinate -- so that the Skolem index of a refuted `nearest` never re-triggers the search for b."""
    inside = ("ins18(i) and implies(forall(0, B, lambda j: " + _R + " <= " + _RB.format(j="j") + ", pat=" + _RB.format(j="j") + "), "
              + _UNCH.format(o=o) + ")")
    nearest = "forall(0, B, lambda j: dsq18(grid, i, border_grid, b) <= dsq18(grid, i, border_grid, j), pat=border_grid[j, 0])"
    m = "mfac18(" + _RB.format(j="b") + ", " + _R + ")"
    moved = ("(" + _RB.format(j="b") + " < " + _R + " and 0 <= " + m + " and " + m + " < 1"
             " and {o}[i, 0] == mv18(c0, " + m + ", grid[i, 0]) and {o}[i, 1] == mv18(c1, " + m + ", grid[i, 1]))").format(o=o)
    kept = "(" + _RB.format(j="b") + " >= " + _R + " and " + _UNCH.format(o=o) + ")"
    outside = ("out18(i) and implies(exists(0, B, lambda j: " + _RB.format(j="j") + " < " + _R + ", pat=" + _RB.format(j="j") + "),"
               " exists(0, B, lambda b: wit18(b) and " + nearest + " and (" + moved + " or " + kept + "), pat=wit18(b)))")
    bounded = ("bnd18(i) and le18(rad18(%s, i, c0, c1), %s) and exists(0, B, lambda j: le18(rad18(%s, i, c0, c1), %s), pat=%s)"
               % (o, _R, o, _RB.format(j="j"), _RB.format(j="j")))
    return inside, outside, bounded


# ghost stepping stones at the end of the loop body (k = pixel_index, cl = closest_pixel_index, o = grid_relocated)
_RI = "rad18(grid, pixel_index, c0, c1)"
_RC = "rad18(border_grid, closest_pixel_index, c0, c1)"
_MF = "mfac18(" + _RC + ", " + _RI + ")"
_OUTSIDE = "grid_radii[pixel_index] > border_min_radii"
_MOVED = "(" + _OUTSIDE + " and move_factor < 1)"
_DY, _DX = "(grid[pixel_index, 0] - c0)", "(grid[pixel_index, 1] - c1)"
_OY, _OX = "(grid_relocated[pixel_index, 0] - c0)", "(grid_relocated[pixel_index, 1] - c1)"
_SAMEROW = "same18(grid_relocated[pixel_index, 0], grid[pixel_index, 0]) and same18(grid_relocated[pixel_index, 1], grid[pixel_index, 1])"
_STEPS = [
    # not outside: row untouched, and its radius does not exceed any border radius
    "implies(not " + _OUTSIDE + ", " + _SAMEROW + ")",
    "implies(not " + _OUTSIDE + ", forall(0, B, lambda j: " + _RI + " <= " + _RB.format(j="j") + ", pat=" + _RB.format(j="j") + "))",
    # outside: some border radius is smaller; cl is a nearest border point; radii are those of the statement
    "implies(" + _OUTSIDE + ", exists(0, B, lambda j: " + _RB.format(j="j") + " < " + _RI + ", pat=" + _RB.format(j="j") + "))",
    "implies(" + _OUTSIDE + ", 0 <= closest_pixel_index and closest_pixel_index < B and wit18(closest_pixel_index))",
    "implies(" + _OUTSIDE + ", forall(0, B, lambda j: dsq18(grid, pixel_index, border_grid, closest_pixel_index)"
    " <= dsq18(grid, pixel_index, border_grid, j), pat=border_grid[j, 0]))",
    "implies(" + _OUTSIDE + ", " + _RI + " > 0 and " + _RC + " >= 0 and move_factor == " + _MF + ")",
    "implies(" + _OUTSIDE + " and not move_factor < 1, " + _RC + " >= " + _RI + " and " + _SAMEROW + ")",
    "implies(" + _MOVED + ", " + _RC + " < " + _RI + " and 0 <= " + _MF + " and " + _MF + " < 1)",
    "implies(" + _MOVED + ", grid_relocated[pixel_index, 0] == mv18(c0, " + _MF + ", grid[pixel_index, 0])"
    " and grid_relocated[pixel_index, 1] == mv18(c1, " + _MF + ", grid[pixel_index, 1]))",
    # moved: the new radius is the radius of the nearest border point (proved lemma "scale" of pyvc/ext/c18.py)
    "implies(" + _MOVED + ", scale18(c0, c1, grid[pixel_index, 0], grid[pixel_index, 1], " + _RC + ")"
    " and rad18(grid_relocated, pixel_index, c0, c1) == " + _RC + ")",
]

_ext.OPAQUE_ARITH.add(_RELOC)
_ext.ROW_LEN[_RELOC] = 2
_ext.NO_ARRAY_EXT.add(_RELOC)
_INS, _OUT, _BND = _rule("result")
_INS_L, _OUT_L, _BND_L = _rule("grid_relocated")
_RO = "rad18(grid_relocated, pixel_index, c0, c1)"
_STEPS += [
    # the new radius in the three cases
    "implies(not " + _OUTSIDE + ", " + _RO + " == " + _RI + ")",
    "implies(" + _OUTSIDE + " and not move_factor < 1, " + _RO + " == " + _RI + " and " + _RI + " <= " + _RC + ")",
    "le18(" + _RO + ", " + _RI + ")",
    "exists(0, B, lambda j: le18(" + _RO + ", " + _RB.format(j="j") + "), pat=" + _RB.format(j="j") + ")",
]
# ... and, last, the three clauses of the rule for the current row (the invariant bodies at i = pixel_index)
_STEPS += [x.replace("[i, ", "[pixel_index, ").replace(", i, ", ", pixel_index, ").replace("18(i)", "18(pixel_index)") for x in (_INS_L, _OUT_L, _BND_L)]

# ... and the rows before the current one keep theirs (they are not written)
_STEPS += ["forall(0, pixel_index, lambda i: " + x + ", pat=" + mk + "(i))" for x, mk in ((_INS_L, "ins18"), (_OUT_L, "out18"), (_BND_L, "bnd18"))]

contract(
    _RELOC, props=["C18"],
    types={"grid": "real[2]", "border_grid": "real[2]"}, returns="real[2]",
    uses_math=["sqrt_nonneg", "mv18", "scale18", "rowmark18"],
    let={"N": "grid.shape[0]", "B": "border_grid.shape[0]",
         # the border centroid: mean of the border points
         "c0": "np.mean(border_grid[:, 0])", "c1": "np.mean(border_grid[:, 1])"},
    requires=["grid.shape[1] == 2", "border_grid.shape[1] == 2", "B >= 1"],
    ensures=[
        # number and order of coordinates preserved (row i of the result is the image of row i of the input)
        "result.shape[0] == N", "result.shape[1] == 2",
        "forall(0, N, lambda i: " + _INS + ", pat=ins18(i))",
        "forall(0, N, lambda i: " + _OUT + ", pat=out18(i))",
        "forall(0, N, lambda i: " + _BND + ", pat=bnd18(i))",
    ],
    loops={0: {"inv": [
        "border_origin[0] == c0 and border_origin[1] == c1",
        # (trigger: the specification's radius term only -- never derive it from a program array element, or the Skolem
        #  index of a refuted `nearest` climbs through the element-wise facts back to a radius term and re-triggers `b`)
        "forall(0, B, lambda j: border_grid_radii[j] == " + _RB.format(j="j") + ", pat=" + _RB.format(j="j") + ")",
        "forall(0, N, lambda i: grid_radii[i] == " + _R + ", pat=(grid_radii[i], " + _R + "))",
        "forall(0, B, lambda j: border_min_radii <= border_grid_radii[j], pat=border_grid_radii[j])",
        "exists(0, B, lambda j: border_min_radii == border_grid_radii[j] and border_min_radii == " + _RB.format(j="j") + ")",
        "forall(0, pixel_index, lambda i: " + _INS_L + ", pat=ins18(i))",
        "forall(0, pixel_index, lambda i: " + _OUT_L + ", pat=out18(i))",
        "forall(0, pixel_index, lambda i: " + _BND_L + ", pat=bnd18(i))",
        "forall(pixel_index, N, lambda i: grid_relocated[i, 0] == grid[i, 0] and grid_relocated[i, 1] == grid[i, 1], pat=grid[i, 0])",
    ], "assert_at": {1: _STEPS}}},
    sentence={
        "ins18": "every coordinate whose distance from the border centroid does not exceed the smallest border radius is bit-for-bit unchanged",
        "out18": "any other coordinate moves only along its ray from the centroid, never outward (out = c + m (p - c), 0 <= m < 1), "
                          "to the radius of its nearest border point when that is smaller than its own",
        "bnd18": "never outward: no output lies farther from the centroid than its input, nor than the farthest border point",
        "result.shape[0] == N": "the number and order of coordinates are preserved",
    },
)


# ----------------------------------------------------------------------------- farthest sub-pixel of a border pixel
# squared distance of the t-th listed grid point from `coordinate` = (c0, c1) (farthest is the same for distance and its square)
macro("dc18", ["G", "S", "t", "c0", "c1"], "(G[S[t], 1] - c1) ** 2 + (G[S[t], 0] - c0) ** 2",
      py=lambda G, S, t, c0, c1: float((G[int(S[t]), 1] - c1) ** 2 + (G[int(S[t]), 0] - c0) ** 2))
_D = "dc18(grid_2d_slim, slim_indexes, {t}, coordinate[0], coordinate[1])"
_FAR = ("{r} == slim_indexes[t] and forall(0, {n}, lambda u: " + _D.format(t="u") + " <= " + _D.format(t="t") + ")"
        " and forall(t + 1, {n}, lambda u: " + _D.format(t="u") + " < " + _D.format(t="t") + ")")
contract(
    G2 + "furthest_grid_2d_slim_index_from", props=["C18"],
    types={"grid_2d_slim": "real[2]", "slim_indexes": "int[1]", "coordinate": "(real,real)"}, returns="int",
    let={"n": "slim_indexes.shape[0]", "P": "grid_2d_slim.shape[0]"},
    # the list is non-empty (every pixel has sub_size ** 2 >= 1 sub-pixels; with an empty list the function fails with
    # UnboundLocalError) and lists rows of the grid
    requires=["grid_2d_slim.shape[1] == 2", "n >= 1", "forall(0, n, lambda t: 0 <= slim_indexes[t] and slim_indexes[t] < P)"],
    ensures=[
        # the result is a listed index whose point is farthest from the coordinate (the LAST such index on exact ties)
        "exists(0, n, lambda t: " + _FAR.format(r="result", n="n") + ")"],
    loops={0: {"types": {"furthest_grid_2d_slim_index": "int"},
               "inv": ["distance_to_centre >= 0",
                       "implies(pos_L0 == 0, distance_to_centre == 0)",
                       "implies(pos_L0 >= 1, exists(0, pos_L0, lambda t: distance_to_centre == " + _D.format(t="t") + " and "
                       + _FAR.format(r="furthest_grid_2d_slim_index", n="pos_L0") + "))"],
               "assert_at": {3: ["distance_to_centre_new == " + _D.format(t="pos_L0"), "distance_to_centre_new >= 0"]}}},
    sentence={"exists": "the selected sub-pixel is the one (of the listed sub-pixels of that pixel) that is farthest from the given centre"},
)

# centre of the bounding box of a set of points
contract(
    G2 + "grid_2d_centre_from", props=["C18"],
    types={"grid_2d_slim": "real[2]"}, returns="(real,real)",
    let={"P": "grid_2d_slim.shape[0]", "G": "grid_2d_slim"},
    requires=["grid_2d_slim.shape[1] == 2", "P >= 1"],
    ensures=[
        "exists(0, P, lambda a: exists(0, P, lambda b: result[0] == (G[a, 0] + G[b, 0]) / 2"
        " and forall(0, P, lambda j: G[b, 0] <= G[j, 0] and G[j, 0] <= G[a, 0])))",
        "exists(0, P, lambda a: exists(0, P, lambda b: result[1] == (G[a, 1] + G[b, 1]) / 2"
        " and forall(0, P, lambda j: G[b, 1] <= G[j, 1] and G[j, 1] <= G[a, 1])))"],
    sentence={"exists": "the centre is the centre of the bounding box of the points: midpoint of the extreme coordinates on each axis"},
)
_ext.NO_ARRAY_EXT.add(G2 + "grid_2d_centre_from")


# ----------------------------------------------------------------------------- engine C generators
def _border_set(rng):
    kind = rng.choice(["star", "cluster", "tiny", "square", "dupes", "line"])
    cy, cx = rng.uniform(-3, 3), rng.uniform(-3, 3)
    if kind == "tiny":
        return np.array([[cy + rng.uniform(-2, 2), cx + rng.uniform(-2, 2)] for _ in range(rng.randint(1, 3))])
    if kind == "square":
        return np.array([[cy + a, cx + b] for a in (-1.0, 0.0, 1.0) for b in (-1.0, 0.0, 1.0) if (a, b) != (0.0, 0.0)])
    if kind == "line":
        return np.array([[cy, cx + t] for t in range(rng.randint(2, 5))], dtype=float)
    n = rng.randint(4, 9)
    pts = []
    for k in range(n):
        th = 2 * math.pi * k / n + rng.uniform(-0.2, 0.2)
        rad = rng.uniform(0.4, 3.0)                                              # non-convex star
        pts.append([cy + rad * math.sin(th), cx + rad * math.cos(th)])
    if kind == "cluster":                                                        # off-centre centroid
        for _ in range(rng.randint(2, 5)):
            pts.append([cy + 2.5 + rng.uniform(-0.2, 0.2), cx + 2.5 + rng.uniform(-0.2, 0.2)])
    if kind == "dupes":
        pts.append(list(pts[0]))
        pts.append(list(pts[2]))
    return np.array(pts)


def _point_set(rng, border, n):
    c = border.mean(axis=0)
    pts = []
    for _ in range(n):
        r = rng.random()
        if r < 0.2:
            pts.append(list(border[rng.randrange(len(border))]))                       # exactly at a border point
        elif r < 0.3:
            pts.append([c[0] + rng.uniform(-300, 300), c[1] + rng.uniform(-300, 300)])  # far outside
        elif r < 0.35:
            pts.append([c[0], c[1]])                                                    # the centroid itself
        elif r < 0.55:
            pts.append([c[0] + rng.uniform(-0.5, 0.5), c[1] + rng.uniform(-0.5, 0.5)])  # deep inside
        else:
            pts.append([c[0] + rng.uniform(-5, 5), c[1] + rng.uniform(-5, 5)])
    return np.array(pts, dtype=float).reshape(-1, 2)


def _g_reloc(rng, tier):
    for _ in range(gens.budget(tier, 250, 4000)):
        border = _border_set(rng)
        yield {"grid": _point_set(rng, border, rng.randint(0, 8)), "border_grid": border}


def _reloc_nontrivial(grid, border_grid):
    """at least one point is moved and one is kept"""
    c = border_grid.mean(axis=0)
    rb = np.hypot(border_grid[:, 0] - c[0], border_grid[:, 1] - c[1])
    r = np.hypot(grid[:, 0] - c[0], grid[:, 1] - c[1]) if len(grid) else np.zeros(0)
    return bool(border_grid.shape[0] >= 3 and (r > rb.max()).any() and (r <= rb.min()).any())


CONTRACTS[_RELOC].gen = _g_reloc
CONTRACTS[_RELOC].nontrivial = _reloc_nontrivial


def _g_furthest(rng, tier):
    for _ in range(gens.budget(tier, 300, 4000)):
        P = rng.randint(1, 9)
        g = gens.reals(rng, (P, 2), -3, 3, special=False)
        if rng.random() < 0.4:                                    # exact ties: symmetric points / duplicates
            g = np.round(g)
        n = rng.randint(1, 6)
        yield {"grid_2d_slim": g, "slim_indexes": np.array([rng.randrange(P) for _ in range(n)], dtype=int),
               "coordinate": (rng.choice([0.0, 0.5, rng.uniform(-2, 2)]), rng.choice([0.0, -0.5, rng.uniform(-2, 2)]))}


def _g_centre(rng, tier):
    for _ in range(gens.budget(tier, 300, 4000)):
        P = rng.randint(1, 8)
        g = gens.reals(rng, (P, 2), -5, 5, special=False)
        yield {"grid_2d_slim": np.round(g) if rng.random() < 0.3 else g}


CONTRACTS[G2 + "furthest_grid_2d_slim_index_from"].gen = _g_furthest
CONTRACTS[G2 + "furthest_grid_2d_slim_index_from"].nontrivial = lambda slim_indexes, **kw: len(set(slim_indexes.tolist())) >= 2
CONTRACTS[G2 + "grid_2d_centre_from"].gen = _g_centre
