"""C18 -- border relocation only pulls outliers radially inward to the border.

Vectorised numpy primitives (np.mean, np.min, np.max, np.argmin, np.sqrt of arrays, np.add / np.subtract, `a[:, :] = b`)
are read through the minimal facts listed in pyvc/ext/c18.py (A).  Squares, products, quotients and the moved coordinate
are opaque symbols for the prover, shared by the program and the specification; what is needed of their arithmetic meaning
is isolated in two lemmas that are proved on every run -- see (7) there.
"""
import math
import numpy as np
from pyvc.contract import contract, corollary, macro, spec_fn, CONTRACTS
from pyvc import gens
from pyvc.ext import c18 as _ext

G2 = "autoarray.structures.grids.grid_2d_util:"
_RELOC = G2 + "relocated_grid_via_jit_from"

macro("sq18", ["x"], "x * x", py=lambda x: x * x, opaque=(["real"], "real"))
macro("mfac18", ["a", "b"], "a / b", py=lambda a, b: a / b, opaque=(["real", "real"], "real"))       # move factor r_b / r
macro("mv18", ["c", "m", "p"], "c + m * (p - c)", py=lambda c, m, p: c + m * (p - c),                # c + m (p - c)
      opaque=(["real", "real", "real"], "real"))
for _n in ("ins18", "out18", "bnd18", "wit18"):       # per-clause row markers / witness marker (triggers only; `True`)
    macro(_n, ["i"], "True", py=lambda i: True, opaque=(["int"], "bool"))
macro("scale18", ["c0", "c1", "p0", "p1", "rb"], "True", py=lambda *a: True, opaque=(["real"] * 5, "bool"))   # lemma trigger
# squared coordinate difference and distance of (y, x) from (c0, c1), as symbols of their own (plain triggers)
macro("sqd18", ["a", "b"], "sq18(a - b)", py=lambda a, b: (a - b) * (a - b), opaque=(["real", "real"], "real"))
macro("radp18", ["y", "x", "c0", "c1"], "sqrt(sq18(y - c0) + sq18(x - c1))",
      py=lambda y, x, c0, c1: float(np.sqrt((y - c0) ** 2 + (x - c1) ** 2)), opaque=(["real"] * 4, "real"))
# distance of point i of the (n, 2) array A from (c0, c1)
macro("rad18", ["A", "i", "c0", "c1"], "radp18(A[i, 0], A[i, 1], c0, c1)",
      py=lambda A, i, c0, c1: float(np.sqrt((A[i, 0] - c0) ** 2 + (A[i, 1] - c1) ** 2)))
# squared distance between point i of P and point j of Q ("nearest" is the same for distance and squared distance)
macro("dsq18", ["P", "i", "Q", "j"], "sqd18(P[i, 0], Q[j, 0]) + sqd18(P[i, 1], Q[j, 1])",
      py=lambda P, i, Q, j: float((P[i, 0] - Q[j, 0]) ** 2 + (P[i, 1] - Q[j, 1]) ** 2))
# bit-for-bit equality: plain equality for the prover; at run time EXACT float equality (the DSL's own `==` is tolerant)
macro("same18", ["a", "b"], "a == b", py=lambda a, b: bool(a == b))
# a <= b; at run time up to the tolerance of the DSL's `==` (rounding of a computed radius)
macro("le18", ["a", "b"], "a <= b", py=lambda a, b: bool(a <= b or abs(a - b) <= 1e-9 * max(1.0, abs(a), abs(b))))

# ----------------------------------------------------------------------------- spec functions (mirror of the kernel)
# border centroid coordinate d: the mean of column d of the border points
macro("cen18", ["Bd", "d"], "np.mean(Bd[:, d])", py=lambda Bd, d: float(np.mean(Bd[:, d])))
_GUARD = "G.shape[1] == 2 and Bd.shape[1] == 2 and B >= 1"
_C0, _C1 = "cen18(Bd, 0)", "cen18(Bd, 1)"


def _nb_py(G, Bd, i):
    return int(np.argmin([(G[i, 0] - Bd[j, 0]) ** 2 + (G[i, 1] - Bd[j, 1]) ** 2 for j in range(Bd.shape[0])]))


def _bmin_py(Bd, t):
    c0, c1 = float(np.mean(Bd[:, 0])), float(np.mean(Bd[:, 1]))
    return float(min(float(np.sqrt((Bd[j, 0] - c0) ** 2 + (Bd[j, 1] - c1) ** 2)) for j in range(Bd.shape[0])))


# smallest border radius (t is a dummy argument, always 0: a spec function needs one scalar argument)
spec_fn("bmin18", params=[("Bd", "real[2]"), ("t", "int")], ret="real", let={"B": "Bd.shape[0]"},
        axioms=["implies(Bd.shape[1] == 2 and B >= 1, forall(0, 1, lambda t: forall(0, B, lambda j:"
                " bmin18(Bd, t) <= rad18(Bd, j, " + _C0 + ", " + _C1 + "), pat=((bmin18(Bd, t), rad18(Bd, j, " + _C0 + ", " + _C1 + ")),))))",
                "implies(Bd.shape[1] == 2 and B >= 1, forall(0, 1, lambda t: exists(0, B, lambda j:"
                " bmin18(Bd, t) == rad18(Bd, j, " + _C0 + ", " + _C1 + ")), pat=bmin18(Bd, t)))"],
        py=_bmin_py, doc="smallest distance of a border point from the border centroid (declarative: a lower bound that is attained)")


def _exp(G, Bd, i, d, c0="c0", c1="c1"):
    """expected output coordinate d of point i: the statement's rule with the FIRST nearest border point"""
    r = "rad18(%s, %s, %s, %s)" % (G, i, c0, c1)
    rb = "rad18(%s, nb18(%s, %s, %s), %s, %s)" % (Bd, G, Bd, i, c0, c1)
    return ("(mv18(%s, mfac18(%s, %s), %s[%s, %d]) if (%s > bmin18(%s, 0) and %s < %s) else %s[%s, %d])"
            % ((c0, c1)[d], rb, r, G, i, d, r, Bd, rb, r, G, i, d))


def _rule(o0, o1, G="grid", Bd="border_grid", c0="c0", c1="c1"):
    """the three clauses of the property statement for coordinate i whose output is (o0, o1).
    Triggers: border quantifiers whose body mentions the radius of border point j fire on that radius term, `nearest`
    fires on the squared coordinate difference sqd18(p_i, q_j) (goal-directed), the witness b only on the marker wit18(b) -- so that the Skolem index of a refuted
    `nearest` never re-triggers the search for b."""
    R = "rad18(%s, i, %s, %s)" % (G, c0, c1)
    RB = "rad18(%s, {j}, %s, %s)" % (Bd, c0, c1)
    RO = "radp18(%s, %s, %s, %s)" % (o0, o1, c0, c1)
    unch = "same18(%s, %s[i, 0]) and same18(%s, %s[i, 1])" % (o0, G, o1, G)
    inside = "ins18(i) and implies(forall(0, B, lambda j: " + R + " <= " + RB.format(j="j") + ", pat=" + RB.format(j="j") + "), " + unch + ")"
    nearest = "forall(0, B, lambda j: dsq18(%s, i, %s, b) <= dsq18(%s, i, %s, j), pat=sqd18(%s[i, 0], %s[j, 0]))" % (G, Bd, G, Bd, G, Bd)
    m = "mfac18(" + RB.format(j="b") + ", " + R + ")"
    moved = ("(" + RB.format(j="b") + " < " + R + " and 0 <= " + m + " and " + m + " < 1 and " + o0 + " == mv18(" + c0 + ", " + m + ", "
             + G + "[i, 0]) and " + o1 + " == mv18(" + c1 + ", " + m + ", " + G + "[i, 1]))")
    kept = "(" + RB.format(j="b") + " >= " + R + " and " + unch + ")"
    outside = ("out18(i) and implies(exists(0, B, lambda j: " + RB.format(j="j") + " < " + R + ", pat=" + RB.format(j="j") + "),"
               " exists(0, B, lambda b: wit18(b) and " + nearest + " and (" + moved + " or " + kept + "), pat=wit18(b)))")
    bounded = ("bnd18(i) and le18(" + RO + ", " + R + ") and exists(0, B, lambda j: le18(" + RO + ", " + RB.format(j="j") + "), pat="
               + RB.format(j="j") + ")")
    return inside, outside, bounded


_E0, _E1 = _exp("G", "Bd", "i", 0, _C0, _C1), _exp("G", "Bd", "i", 1, _C0, _C1)
_LI, _LO, _LB = _rule(_E0, _E1, "G", "Bd", _C0, _C1)
_NB = "nb18(G, Bd, i)"
_SCALE_AT = "scale18(" + _C0 + ", " + _C1 + ", G[i, 0], G[i, 1], rad18(Bd, " + _NB + ", " + _C0 + ", " + _C1 + "))"
# first nearest border point of grid point i
spec_fn("nb18", params=[("G", "real[2]"), ("Bd", "real[2]"), ("i", "int")], ret="int",
        let={"N": "G.shape[0]", "B": "Bd.shape[0]"},
        axioms=["implies(" + _GUARD + ", forall(0, N, lambda i: 0 <= " + _NB + " and " + _NB + " < B, pat=" + _NB + "))",
                "implies(" + _GUARD + ", forall(0, N, lambda i: forall(0, B, lambda j:"
                " dsq18(G, i, Bd, " + _NB + ") <= dsq18(G, i, Bd, j), pat=sqd18(G[i, 0], Bd[j, 0]))))",
                "implies(" + _GUARD + ", forall(0, N, lambda i: forall(0, B, lambda j:"
                " implies(j < " + _NB + ", dsq18(G, i, Bd, j) > dsq18(G, i, Bd, " + _NB + ")), pat=sqd18(G[i, 0], Bd[j, 0]))))"],
        py=_nb_py, doc="index of the first border point at minimal distance from grid point i")

# ghost carrier of the three lemmas "the expected output satisfies the three clauses of the property statement" (pure
# specification, no program state); only the corollary C18.relocation_rule refers to it, so only that run proves them
spec_fn("reloc_rule18", params=[("G", "real[2]"), ("Bd", "real[2]"), ("i", "int")], ret="int",
        let={"N": "G.shape[0]", "B": "Bd.shape[0]"},
        axioms=["forall(0, N + 1, lambda i: reloc_rule18(G, Bd, i) == i, pat=reloc_rule18(G, Bd, i))"],
        lemmas=[
            dict(name="ins", noinduct=True, stmt="implies(" + _GUARD + ", forall(0, N, lambda i: " + _LI + ", pat=ins18(i)))"),
            dict(name="out", noinduct=True, stmt="implies(" + _GUARD + ", forall(0, N, lambda i: wit18(" + _NB + ") and " + _LO + ", pat=out18(i)))"),
            dict(name="bnd", noinduct=True, stmt="implies(" + _GUARD + ", forall(0, N, lambda i: " + _SCALE_AT + " and " + _LB + ", pat=bnd18(i)))"),
        ],
        py=lambda G, Bd, i: int(i), doc="ghost: identity on i; carries the lemmas rule ins / out / bnd")

# ----------------------------------------------------------------------------- the kernel
_X0, _X1 = _exp("grid", "border_grid", "i", 0), _exp("grid", "border_grid", "i", 1)
_K0, _K1 = _exp("grid", "border_grid", "pixel_index", 0), _exp("grid", "border_grid", "pixel_index", 1)
_INS, _OUT, _BND = _rule("result[i, 0]", "result[i, 1]")
_RB = "rad18(border_grid, {j}, c0, c1)"
_RI = "rad18(grid, pixel_index, c0, c1)"
_RC = "rad18(border_grid, closest_pixel_index, c0, c1)"
_NBK = "nb18(grid, border_grid, pixel_index)"
_OUTSIDE = "grid_radii[pixel_index] > border_min_radii"
_MOVED = "(" + _OUTSIDE + " and move_factor < 1)"
_SAMEROW = "grid_relocated[pixel_index, 0] == grid[pixel_index, 0] and grid_relocated[pixel_index, 1] == grid[pixel_index, 1]"
# ghost stepping stones at the end of the loop body (k = pixel_index, cl = closest_pixel_index, o = grid_relocated)
_STEPS = [
    "implies(not " + _OUTSIDE + ", " + _SAMEROW + " and not " + _RI + " > bmin18(border_grid, 0))",
    "implies(" + _OUTSIDE + ", " + _RI + " > bmin18(border_grid, 0) and 0 <= closest_pixel_index and closest_pixel_index < B)",
    # cl is the FIRST nearest border point
    "implies(" + _OUTSIDE + ", forall(0, B, lambda j: dsq18(grid, pixel_index, border_grid, closest_pixel_index)"
    " <= dsq18(grid, pixel_index, border_grid, j), pat=sqd18(grid[pixel_index, 0], border_grid[j, 0])))",
    "implies(" + _OUTSIDE + ", forall(0, closest_pixel_index, lambda j: dsq18(grid, pixel_index, border_grid, closest_pixel_index)"
    " < dsq18(grid, pixel_index, border_grid, j), pat=sqd18(grid[pixel_index, 0], border_grid[j, 0])))",
    "implies(" + _OUTSIDE + ", 0 <= " + _NBK + " and " + _NBK + " < B)",
    "implies(" + _OUTSIDE + ", dsq18(grid, pixel_index, border_grid, " + _NBK + ") <= dsq18(grid, pixel_index, border_grid, closest_pixel_index))",
    "implies(" + _OUTSIDE + ", dsq18(grid, pixel_index, border_grid, closest_pixel_index) <= dsq18(grid, pixel_index, border_grid, " + _NBK + "))",
    "implies(" + _OUTSIDE + " and closest_pixel_index < " + _NBK + ", dsq18(grid, pixel_index, border_grid, closest_pixel_index)"
    " > dsq18(grid, pixel_index, border_grid, " + _NBK + "))",
    "implies(" + _OUTSIDE + " and " + _NBK + " < closest_pixel_index, dsq18(grid, pixel_index, border_grid, closest_pixel_index)"
    " < dsq18(grid, pixel_index, border_grid, " + _NBK + "))",
    "implies(" + _OUTSIDE + ", not closest_pixel_index < " + _NBK + ")",
    "implies(" + _OUTSIDE + ", not " + _NBK + " < closest_pixel_index)",
    "implies(" + _OUTSIDE + ", closest_pixel_index == " + _NBK + ")",
    "implies(" + _OUTSIDE + ", move_factor == mfac18(" + _RC + ", " + _RI + ") and " + _RI + " > 0)",
    "implies(" + _OUTSIDE + " and not move_factor < 1, " + _RC + " >= " + _RI + " and " + _SAMEROW + ")",
    "implies(" + _MOVED + ", " + _RC + " < " + _RI + ")",
    "implies(" + _MOVED + ", grid_relocated[pixel_index, 0] == mv18(c0, mfac18(" + _RC + ", " + _RI + "), grid[pixel_index, 0])"
    " and grid_relocated[pixel_index, 1] == mv18(c1, mfac18(" + _RC + ", " + _RI + "), grid[pixel_index, 1]))",
    # the current row holds the expected output
    "grid_relocated[pixel_index, 0] == " + _K0,
    "grid_relocated[pixel_index, 1] == " + _K1,
]

_ext.OPAQUE_ARITH.add(_RELOC)
_ext.ROW_LEN[_RELOC] = 2
_ext.NO_ARRAY_EXT.add(_RELOC)
_ext.COROLLARY_MATH[_RELOC] = ["scale18", "rowmark18"]

contract(
    _RELOC, props=["C18"],
    types={"grid": "real[2]", "border_grid": "real[2]"}, returns="real[2]",
    uses_math=["sqrt_nonneg", "mv18", "sqd18", "radp18", "scale18", "rowmark18"],
    let={"N": "grid.shape[0]", "B": "border_grid.shape[0]",
         # the border centroid: mean of the border points
         "c0": "np.mean(border_grid[:, 0])", "c1": "np.mean(border_grid[:, 1])"},
    requires=["grid.shape[1] == 2", "border_grid.shape[1] == 2", "B >= 1"],
    ensures=[
        # number and order of coordinates preserved (row i of the result is the image of row i of the input)
        "result.shape[0] == N", "result.shape[1] == 2",
        # every output coordinate is the expected one: the relocation rule of the property statement, made deterministic by
        # taking the FIRST nearest border point on exact ties.  The three clauses of the statement follow: C18.relocation_rule
        "forall(0, N, lambda i: result[i, 0] == " + _X0 + " and result[i, 1] == " + _X1 + ", pat=grid[i, 0])",
    ],
    loops={0: {"inv": [
        "border_origin[0] == c0 and border_origin[1] == c1",
        # (triggers: the program's array elements only -- these two facts are needed where the kernel READS a radius, and
        #  stay silent in every obligation that only talks about the specification's radii, e.g. the postconditions)
        "forall(0, B, lambda j: border_grid_radii[j] == " + _RB.format(j="j") + ", pat=border_grid_radii[j])",
        "forall(0, N, lambda i: grid_radii[i] == rad18(grid, i, c0, c1), pat=grid_radii[i])",
        "border_min_radii == bmin18(border_grid, 0)",
        "forall(0, pixel_index, lambda i: grid_relocated[i, 0] == " + _X0 + " and grid_relocated[i, 1] == " + _X1 + ", pat=grid[i, 0])",
        "forall(pixel_index, N, lambda i: grid_relocated[i, 0] == grid[i, 0] and grid_relocated[i, 1] == grid[i, 1], pat=grid[i, 0])",
    ], "assert_at": {1: _STEPS}}},
    sentence={
        "mv18": "every coordinate is unchanged unless it lies farther from the border centroid than the smallest border radius AND than its "
                "nearest border point; it is then moved along its ray from the centroid to the radius of that border point",
        "result.shape[0] == N": "the number and order of coordinates are preserved",
    },
)

corollary("C18.relocation_rule", props=["C18"],
          vars={"grid": "real[2]", "border_grid": "real[2]"},
          let={"N": "grid.shape[0]", "B": "border_grid.shape[0]", "c0": "np.mean(border_grid[:, 0])", "c1": "np.mean(border_grid[:, 1])"},
          requires=["grid.shape[1] == 2", "border_grid.shape[1] == 2", "B >= 1"],
          calls=[("result", _RELOC, {"grid": "grid", "border_grid": "border_grid"})],
          ensures=["reloc_rule18(grid, border_grid, 0) == 0",        # ghost: brings the three lemmas in
                   "result.shape[0] == N and result.shape[1] == 2",
                   "forall(0, N, lambda i: " + _INS + ", pat=ins18(i))",
                   "forall(0, N, lambda i: " + _OUT + ", pat=out18(i))",
                   "forall(0, N, lambda i: " + _BND + ", pat=bnd18(i))"],
          sentence="every coordinate whose distance from the border centroid does not exceed the smallest border radius is bit-for-bit "
                   "unchanged; any other coordinate moves only along its ray from the centroid, never outward (out = c + m (p - c), "
                   "0 <= m < 1), to the radius of its nearest border point when that is smaller than its own; no output lies farther "
                   "from the centroid than its input, nor than the farthest border point; number and order preserved")


# ----------------------------------------------------------------------------- farthest sub-pixel of a border pixel
# squared distance of the t-th listed grid point from `coordinate` = (c0, c1) (farthest is the same for distance and its square)
macro("dc18", ["G", "S", "t", "c0", "c1"], "(G[S[t], 1] - c1) ** 2 + (G[S[t], 0] - c0) ** 2",
      py=lambda G, S, t, c0, c1: float((G[int(S[t]), 1] - c1) ** 2 + (G[int(S[t]), 0] - c0) ** 2))
_D = "dc18(grid_2d_slim, slim_indexes, {t}, coordinate[0], coordinate[1])"
_FAR = ("{r} == slim_indexes[t] and forall(0, {n}, lambda u: " + _D.format(t="u") + " <= " + _D.format(t="t") + ")"
        " and forall(t + 1, {n}, lambda u: " + _D.format(t="u") + " < " + _D.format(t="t") + ")")
contract(
    G2 + "furthest_grid_2d_slim_index_from", props=["C18"],
    types={"grid_2d_slim": "real[2]", "slim_indexes": "int[1]", "coordinate": "(real,real)"}, returns="int",
    let={"n": "slim_indexes.shape[0]", "P": "grid_2d_slim.shape[0]"},
    # the list is non-empty (every pixel has sub_size ** 2 >= 1 sub-pixels; with an empty list the function fails with
    # UnboundLocalError) and lists rows of the grid
    requires=["grid_2d_slim.shape[1] == 2", "n >= 1", "forall(0, n, lambda t: 0 <= slim_indexes[t] and slim_indexes[t] < P)"],
    ensures=[
        # the result is a listed index whose point is farthest from the coordinate (the LAST such index on exact ties)
        "exists(0, n, lambda t: " + _FAR.format(r="result", n="n") + ")"],
    loops={0: {"types": {"furthest_grid_2d_slim_index": "int"},
               "inv": ["distance_to_centre >= 0",
                       "implies(pos_L0 == 0, distance_to_centre == 0)",
                       "implies(pos_L0 >= 1, exists(0, pos_L0, lambda t: distance_to_centre == " + _D.format(t="t") + " and "
                       + _FAR.format(r="furthest_grid_2d_slim_index", n="pos_L0") + "))"],
               "assert_at": {3: ["distance_to_centre_new == " + _D.format(t="pos_L0"), "distance_to_centre_new >= 0"]}}},
    sentence={"exists": "the selected sub-pixel is the one (of the listed sub-pixels of that pixel) that is farthest from the given centre"},
)

# centre of the bounding box of a set of points
contract(
    G2 + "grid_2d_centre_from", props=["C18"],
    types={"grid_2d_slim": "real[2]"}, returns="(real,real)",
    let={"P": "grid_2d_slim.shape[0]", "G": "grid_2d_slim"},
    requires=["grid_2d_slim.shape[1] == 2", "P >= 1"],
    ensures=[
        "exists(0, P, lambda a: exists(0, P, lambda b: result[0] == (G[a, 0] + G[b, 0]) / 2"
        " and forall(0, P, lambda j: G[b, 0] <= G[j, 0] and G[j, 0] <= G[a, 0])))",
        "exists(0, P, lambda a: exists(0, P, lambda b: result[1] == (G[a, 1] + G[b, 1]) / 2"
        " and forall(0, P, lambda j: G[b, 1] <= G[j, 1] and G[j, 1] <= G[a, 1])))"],
    sentence={"exists": "the centre is the centre of the bounding box of the points: midpoint of the extreme coordinates on each axis"},
)
_ext.NO_ARRAY_EXT.add(G2 + "grid_2d_centre_from")


# ----------------------------------------------------------------------------- engine C generators
def _border_set(rng):
    kind = rng.choice(["star", "cluster", "tiny", "square", "dupes", "line"])
    cy, cx = rng.uniform(-3, 3), rng.uniform(-3, 3)
    if kind == "tiny":
        return np.array([[cy + rng.uniform(-2, 2), cx + rng.uniform(-2, 2)] for _ in range(rng.randint(1, 3))])
    if kind == "square":
        return np.array([[cy + a, cx + b] for a in (-1.0, 0.0, 1.0) for b in (-1.0, 0.0, 1.0) if (a, b) != (0.0, 0.0)])
    if kind == "line":
        return np.array([[cy, cx + t] for t in range(rng.randint(2, 5))], dtype=float)
    n = rng.randint(4, 9)
    pts = []
    for k in range(n):
        th = 2 * math.pi * k / n + rng.uniform(-0.2, 0.2)
        rad = rng.uniform(0.4, 3.0)                                              # non-convex star
        pts.append([cy + rad * math.sin(th), cx + rad * math.cos(th)])
    if kind == "cluster":                                                        # off-centre centroid
        for _ in range(rng.randint(2, 5)):
            pts.append([cy + 2.5 + rng.uniform(-0.2, 0.2), cx + 2.5 + rng.uniform(-0.2, 0.2)])
    if kind == "dupes":
        pts.append(list(pts[0]))
        pts.append(list(pts[2]))
    return np.array(pts)


def _point_set(rng, border, n):
    c = border.mean(axis=0)
    pts = []
    for _ in range(n):
        r = rng.random()
        if r < 0.2:
            pts.append(list(border[rng.randrange(len(border))]))                       # exactly at a border point
        elif r < 0.3:
            pts.append([c[0] + rng.uniform(-300, 300), c[1] + rng.uniform(-300, 300)])  # far outside
        elif r < 0.35:
            pts.append([c[0], c[1]])                                                    # the centroid itself
        elif r < 0.55:
            pts.append([c[0] + rng.uniform(-0.5, 0.5), c[1] + rng.uniform(-0.5, 0.5)])  # deep inside
        else:
            pts.append([c[0] + rng.uniform(-5, 5), c[1] + rng.uniform(-5, 5)])
    return np.array(pts, dtype=float).reshape(-1, 2)


def _g_reloc(rng, tier):
    for _ in range(gens.budget(tier, 250, 4000)):
        border = _border_set(rng)
        yield {"grid": _point_set(rng, border, rng.randint(0, 8)), "border_grid": border}


def _reloc_nontrivial(grid, border_grid):
    """at least one point is moved and one is kept"""
    c = border_grid.mean(axis=0)
    rb = np.hypot(border_grid[:, 0] - c[0], border_grid[:, 1] - c[1])
    r = np.hypot(grid[:, 0] - c[0], grid[:, 1] - c[1]) if len(grid) else np.zeros(0)
    return bool(border_grid.shape[0] >= 3 and (r > rb.max()).any() and (r <= rb.min()).any())


CONTRACTS[_RELOC].gen = _g_reloc
CONTRACTS[_RELOC].nontrivial = _reloc_nontrivial


def _g_furthest(rng, tier):
    for _ in range(gens.budget(tier, 300, 4000)):
        P = rng.randint(1, 9)
        g = gens.reals(rng, (P, 2), -3, 3, special=False)
        if rng.random() < 0.4:                                    # exact ties: symmetric points / duplicates
            g = np.round(g)
        n = rng.randint(1, 6)
        yield {"grid_2d_slim": g, "slim_indexes": np.array([rng.randrange(P) for _ in range(n)], dtype=int),
               "coordinate": (rng.choice([0.0, 0.5, rng.uniform(-2, 2)]), rng.choice([0.0, -0.5, rng.uniform(-2, 2)]))}


def _g_centre(rng, tier):
    for _ in range(gens.budget(tier, 300, 4000)):
        P = rng.randint(1, 8)
        g = gens.reals(rng, (P, 2), -5, 5, special=False)
        yield {"grid_2d_slim": np.round(g) if rng.random() < 0.3 else g}


CONTRACTS[G2 + "furthest_grid_2d_slim_index_from"].gen = _g_furthest
CONTRACTS[G2 + "furthest_grid_2d_slim_index_from"].nontrivial = lambda slim_indexes, **kw: len(set(slim_indexes.tolist())) >= 2
CONTRACTS[G2 + "grid_2d_centre_from"].gen = _g_centre


# ----------------------------------------------------------------------------- sub-border indices (bounded: engine C only)
# `sub_border_pixel_slim_indexes_from` builds a Python list of lists (`[[] for _ in range(n)]`, `.append`) and iterates an
# array with enumerate over float-typed indices: outside the engine-A subset.  Its two numeric kernels are under contract
# (furthest_grid_2d_slim_index_from, grid_2d_centre_from above; border_slim_indexes_from and the over-sampling kernels in
# c10 / c09).  The whole function is checked at run time against the statement.
BR = "autoarray.inversion.pixelization.border_relocator:"


def _sub_border_ok(mask_2d, sub_size, result):
    """for each border pixel (the library's own border list, C10's business): the selected index is a sub-pixel OF THAT
    PIXEL and is farthest, in pixel units, from the centre of the bounding box of the unmasked region (exact ties: any)"""
    from autoarray.mask import mask_2d_util
    mask = np.asarray(mask_2d, dtype=bool)
    sub = np.asarray(sub_size).astype(int).ravel()
    border = np.asarray(mask_2d_util.border_slim_indexes_from(mask_2d=mask.copy())).astype(int)
    res = np.asarray(result)
    if res.shape != border.shape:
        return False
    ii, jj = np.nonzero(~mask)
    cy, cx = (ii.min() + ii.max()) / 2.0, (jj.min() + jj.max()) / 2.0
    offs = np.concatenate([[0], np.cumsum(sub ** 2)])
    for t, k in enumerate(border):
        i, j, s = int(ii[k]), int(jj[k]), int(sub[k])
        d = {}
        for a in range(s):
            for b in range(s):
                d[int(offs[k]) + a * s + b] = math.hypot(i + (a + 0.5) / s - 0.5 - cy, j + (b + 0.5) / s - 0.5 - cx)
        g = res[t]
        if int(g) != g or int(g) not in d or d[int(g)] < max(d.values()) - 1e-9:
            return False
    return True


macro("sub_border_ok18", ["mask_2d", "sub_size", "result"], "True", py=_sub_border_ok)
contract(
    BR + "sub_border_pixel_slim_indexes_from", props=["C18"], mode="bounded",
    types={"mask_2d": "bool[2]", "sub_size": "int[1]"}, returns="real[1]",
    requires=["sub_size.shape[0] == total(mask_2d)", "total(mask_2d) >= 1", "forall(0, sub_size.shape[0], lambda k: sub_size[k] >= 1)"],
    ensures=["sub_border_ok18(mask_2d, sub_size, result)"],
    sentence={"sub_border_ok18": "the sub-pixel border indices select, for each border pixel of the mask, the sub-pixel of that pixel that is "
                                 "farthest, measured in pixel units, from the centre of the bounding box of the unmasked region"},
    note="bounded: list-of-lists construction is outside the engine-A subset",
)


def _g_sub_border(rng, tier):
    for m in gens.all_masks(gens.budget(tier, 9, 12), min_unmasked=1):
        n = int((~m).sum())
        yield {"mask_2d": m, "sub_size": np.array([rng.randint(1, 3) for _ in range(n)], dtype=int)}
    for _ in range(gens.budget(tier, 150, 3000)):
        m = gens.random_mask(rng, 6, 6, min_unmasked=1)
        n = int((~m).sum())
        s = rng.randint(1, 3)
        yield {"mask_2d": m, "sub_size": np.full(n, s, dtype=int) if rng.random() < 0.5 else np.array([rng.randint(1, 3) for _ in range(n)], dtype=int)}


CONTRACTS[BR + "sub_border_pixel_slim_indexes_from"].gen = _g_sub_border
CONTRACTS[BR + "sub_border_pixel_slim_indexes_from"].nontrivial = lambda mask_2d, sub_size: int(sub_size.max()) > 1 and int((~mask_2d).sum()) > 1
