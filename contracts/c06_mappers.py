"""C06 -- mapping matrices conserve flux and encode the claimed interpolation; the sparse unique-mapping
representation encodes the same matrix; rectangular neighbour lists are the 4-connectivity (symmetric)."""
import numpy as np
from pyvc.contract import contract, corollary, macro, spec_fn, CONTRACTS
from pyvc import gens

MU = "autoarray.inversion.pixelization.mappers.mapper_util:"
ME = "autoarray.inversion.pixelization.mesh.mesh_util:"


# ----------------------------------------------------------------------------------------------- mapping matrix
# interpolation weight of source pixel p for sub-pixel s: the weights of those of its entries that name p
def _c06_wt_py(idx, w, sz, s, p):
    return float(sum(w[s, c] for c in range(int(sz[s])) if int(idx[s, c]) == p))


macro("c06_wt", ["idx", "w", "sz", "s", "p"], "sumto(sz[s], lambda c: (w[s, c] if idx[s, c] == p else 0))", py=_c06_wt_py)

# entry (i, p) of the matrix the property describes: sum over the sub-pixels s of image pixel i of frac[i] * weight_s(p)
_MM = "sumto({n}, lambda s: (fr[i] * c06_wt(idx, w, sz, s, p) if sl[s] == i else 0))"

_MM_LET = {"S": "slim_index_for_sub_slim_index.shape[0]", "C": "pix_indexes_for_sub_slim_index.shape[1]",
           "idx": "pix_indexes_for_sub_slim_index", "w": "pix_weights_for_sub_slim_index",
           "sz": "pix_size_for_sub_slim_index", "sl": "slim_index_for_sub_slim_index", "fr": "sub_fraction",
           "N": "total_mask_pixels", "P": "pixels"}
_MM_REQ = ["N >= 0", "P >= 0", "idx.shape[0] == S", "w.shape[0] == S", "w.shape[1] == C", "sz.shape[0] == S", "fr.shape[0] == N",
           "forall(0, S, lambda s: 0 <= sz[s] and sz[s] <= C)",
           "forall(0, S, lambda s: 0 <= sl[s] and sl[s] < N)",
           "forall(0, S, lambda s: forall(0, sz[s], lambda c: 0 <= idx[s, c] and idx[s, c] < P))"]

contract(
    MU + "mapping_matrix_from", props=["C06"],
    types={"pix_indexes_for_sub_slim_index": "int[2]", "pix_size_for_sub_slim_index": "int[1]",
           "pix_weights_for_sub_slim_index": "real[2]", "pixels": "int", "total_mask_pixels": "int",
           "slim_index_for_sub_slim_index": "int[1]", "sub_fraction": "real[1]"},
    returns="real[2]", let=_MM_LET, requires=_MM_REQ,
    ensures=["result.shape[0] == N", "result.shape[1] == P",
             "forall(0, N, lambda i: forall(0, P, lambda p: result[i, p] == " + _MM.format(n="S") + "))"],
    loops={
        0: {"inv": ["forall(0, N, lambda i: forall(0, P, lambda p: mapping_matrix[i, p] == " + _MM.format(n="sub_slim_index") + "))"]},
        1: {"inv": ["forall(0, N, lambda i: forall(0, P, lambda p: mapping_matrix[i, p] == " + _MM.format(n="sub_slim_index")
                    + " + (fr[i] * sumto(pix_count, lambda c: (w[sub_slim_index, c] if idx[sub_slim_index, c] == p else 0))"
                      " if sl[sub_slim_index] == i else 0)))"]},
    },
    sentence={"sumto": "entry (i,p) is the sum over the sub-pixels of image pixel i of the sub-fraction times the interpolation weight of source pixel p"},
)


def _mm_tables(rng, S, C, P):
    idx = -np.ones((S, C), dtype=int)
    w = np.zeros((S, C))
    sz = np.zeros(S, dtype=int)
    for s in range(S):
        sz[s] = rng.randint(0, C) if rng.random() < 0.3 else rng.randint(1, C)
        for c in range(sz[s]):
            idx[s, c] = rng.randrange(P)
            w[s, c] = rng.choice([rng.uniform(-1, 2), rng.uniform(0, 1), 0.0, 1.0])
    return idx, sz, w


def _g_mm(rng, tier):
    for _ in range(gens.budget(tier, 200, 3000)):
        N, P, C = rng.randint(1, 4), rng.randint(1, 5), rng.randint(1, 3)
        S = rng.randint(0, 8)
        idx, sz, w = _mm_tables(rng, S, C, P)
        yield {"pix_indexes_for_sub_slim_index": idx, "pix_size_for_sub_slim_index": sz, "pix_weights_for_sub_slim_index": w,
               "pixels": P, "total_mask_pixels": N,
               "slim_index_for_sub_slim_index": np.array([rng.randrange(N) for _ in range(S)], dtype=int),
               "sub_fraction": gens.reals(rng, (N,), 0, 1)}


CONTRACTS[MU + "mapping_matrix_from"].gen = _g_mm
CONTRACTS[MU + "mapping_matrix_from"].nontrivial = lambda **kw: kw["slim_index_for_sub_slim_index"].shape[0] > 1
