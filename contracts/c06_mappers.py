"""C06 -- mapping matrices conserve flux and encode the claimed interpolation; the sparse unique-mapping
representation encodes the same matrix; rectangular neighbour lists are the 4-connectivity (symmetric)."""
import numpy as np
from pyvc.contract import contract, corollary, macro, spec_fn, CONTRACTS
from pyvc import gens
from pyvc.ext import c06 as _c06_ext

_c06_ext.install()      # after every extension module is loaded: keep this module's numpy handlers in front

MU = "autoarray.inversion.pixelization.mappers.mapper_util:"
ME = "autoarray.inversion.pixelization.mesh.mesh_util:"


# ----------------------------------------------------------------------------------------------- mapping matrix
# interpolation weight of source pixel p for sub-pixel s: the weights of those of its entries that name p
def _c06_wt_py(idx, w, sz, s, p):
    return float(sum(w[s, c] for c in range(int(sz[s])) if int(idx[s, c]) == p))


macro("c06_wt", ["idx", "w", "sz", "s", "p"], "sumto(sz[s], lambda c: (w[s, c] if idx[s, c] == p else 0))", py=_c06_wt_py)

# entry (i, p) of the matrix the property describes: sum over the sub-pixels s of image pixel i of frac[i] * weight_s(p)
_MM = "sumto({n}, lambda s: (fr[i] * c06_wt(idx, w, sz, s, p) if sl[s] == i else 0))"

_MM_LET = {"S": "slim_index_for_sub_slim_index.shape[0]", "C": "pix_indexes_for_sub_slim_index.shape[1]",
           "idx": "pix_indexes_for_sub_slim_index", "w": "pix_weights_for_sub_slim_index",
           "sz": "pix_size_for_sub_slim_index", "sl": "slim_index_for_sub_slim_index", "fr": "sub_fraction",
           "N": "total_mask_pixels", "P": "pixels"}
_MM_REQ = ["N >= 0", "P >= 0", "idx.shape[0] == S", "w.shape[0] == S", "w.shape[1] == C", "sz.shape[0] == S", "fr.shape[0] == N",
           "forall(0, S, lambda s: 0 <= sz[s] and sz[s] <= C)",
           "forall(0, S, lambda s: 0 <= sl[s] and sl[s] < N)",
           "forall(0, S, lambda s: forall(0, sz[s], lambda c: 0 <= idx[s, c] and idx[s, c] < P))"]


# ---- row sums.  c06_dep(i, n, s, c): total weight deposited into columns [0, n) of row i by the interpolation entries
# scanned strictly before entry c of sub-pixel s ((s, sz[s]) == (s+1, 0)) -- the scan-order reading of "sum over the
# sub-pixels of pixel i, over their entries".  Lemmas: summing the matrix formula over the columns p < n gives exactly
# that deposit (Fubini, by induction), and when every entry names a column in [0, P) the deposit is the sum of the
# sub-fractions times the total weight of each sub-pixel.
def _c06_dep_py(idx, w, sz, sl, fr, P, i, n, s, c):
    tot = 0.0
    for t in range(0, s + 1):
        if t >= sl.shape[0]:
            break
        hi = int(sz[t]) if t < s else c
        for k in range(hi):
            if int(sl[t]) == i and 0 <= int(idx[t, k]) < n:
                tot += fr[i] * w[t, k]
    return float(tot)


_DP = "c06_dep(idx, w, sz, sl, fr, P, {i}, {n}, {s}, {c})"
_D = lambda i="i", n="n", s="s", c="c": _DP.format(i=i, n=n, s=s, c=c)
_SHP = "idx.shape[0] == S and w.shape[0] == S and w.shape[1] == C and sz.shape[0] == S and P >= 0"
_SHP2 = "idx.shape[0] == S and w.shape[0] == S and w.shape[1] == C and sz.shape[0] == S"
_SZOK = "forall(0, S, lambda s: 0 <= sz[s] and sz[s] <= C)"
_MMS = "sumto({n}, lambda t: (fr[i] * c06_wt(idx, w, sz, t, {p}) if sl[t] == i else 0))"
_ENT = "(fr[i] * w[s, c] if sl[s] == i and 0 <= idx[s, c] and idx[s, c] < n else 0)"
_INR = "forall(0, {hi}, lambda k: 0 <= idx[{s}, k] and idx[{s}, k] < P)"
spec_fn(
    "c06_dep", params=[("idx", "int[2]"), ("w", "real[2]"), ("sz", "int[1]"), ("sl", "int[1]"), ("fr", "real[1]"), ("P", "$int"),
                       ("i", "int"), ("n", "int"), ("s", "int"), ("c", "int")], ret="real",
    let={"S": "sl.shape[0]", "C": "idx.shape[1]", "N": "fr.shape[0]"},
    axioms=[
        "forall(0, N, lambda i: forall(0, P + 1, lambda n: " + _D(s="0", c="0") + " == 0, pat=" + _D(s="0", c="0") + "))",
        "forall(0, N, lambda i: forall(0, P + 1, lambda n: forall(0, S, lambda s: forall(0, C, lambda c:"
        " implies(" + _SHP + " and c < sz[s], " + _D(c="c + 1") + " == " + _D() + " + " + _ENT + "), pat=" + _D(c="c + 1") + "))))",
        "forall(0, N, lambda i: forall(0, P + 1, lambda n: forall(0, S, lambda s:"
        " implies(" + _SHP + ", " + _D(s="s + 1", c="0") + " == " + _D(c="sz[s]") + "), pat=(" + _D(s="s + 1", c="0") + ", " + _D(c="sz[s]") + "))))",
    ],
    lemmas=[
        # inside one sub-pixel: widening the column range by column n adds exactly the entries that name n
        dict(name="col_row", induct="c", lo=0, hi="C", export=False,
             stmt="forall(0, N, lambda i: forall(0, P, lambda n: forall(0, S, lambda s: implies(" + _SHP + " and c <= sz[s],"
                  " " + _D(n="n + 1") + " - " + _D(n="n + 1", c="0") + " == " + _D() + " - " + _D(c="0")
                  + " + (fr[i] * sumto(c, lambda k: (w[s, k] if idx[s, k] == n else 0)) if sl[s] == i else 0)), pat=" + _D(n="n + 1") + ")))"),
        dict(name="zero_row", induct="c", lo=0, hi="C", export=False,
             stmt="forall(0, N, lambda i: forall(0, S, lambda s: implies(" + _SHP + " and c <= sz[s],"
                  " " + _D(n="0") + " == " + _D(n="0", c="0") + "), pat=" + _D(n="0") + "))"),
        dict(name="zero", induct="s", lo=0, hi="S", export=False,
             stmt="forall(0, N, lambda i: implies(" + _SHP + " and " + _SZOK + ", " + _D(n="0", c="0") + " == 0), pat=" + _D(n="0", c="0") + ")"),
        # across sub-pixels: column n of the matrix formula is the increment of the deposit
        dict(name="col", induct="s", lo=0, hi="S", export=False,
             stmt="forall(0, N, lambda i: forall(0, P, lambda n: implies(" + _SHP + " and " + _SZOK + ","
                  " " + _D(n="n + 1", c="0") + " == " + _D(c="0") + " + " + _MMS.format(n="s", p="n") + "), pat=" + _D(n="n + 1", c="0") + "))"),
        # Fubini: the matrix formula summed over the columns p < n is the deposit into those columns
        dict(name="fubini", induct="n", lo=0, hi="P",
             stmt="forall(0, N, lambda i: implies(" + _SHP + " and " + _SZOK + ","
                  " sumto(n, lambda p: " + _MMS.format(n="S", p="p") + ") == " + _D(s="S", c="0") + "), pat=" + _D(s="S", c="0") + ")"),
        # when every entry names a column in [0, P) nothing is lost: the deposit is frac * (total weight)
        dict(name="full_row", induct="c", lo=0, hi="C", export=False,
             stmt="forall(0, N, lambda i: forall(0, S, lambda s: implies(" + _SHP + " and c <= sz[s] and " + _INR.format(hi="c", s="s") + ","
                  " " + _D(n="P") + " == " + _D(n="P", c="0") + " + (fr[i] * sumto(c, lambda k: w[s, k]) if sl[s] == i else 0)), pat=" + _D(n="P") + "))"),
        dict(name="full", induct="s", lo=0, hi="S",
             stmt="forall(0, N, lambda i: implies(" + _SHP + " and " + _SZOK + " and forall(0, s, lambda t: " + _INR.format(hi="sz[t]", s="t")
                  + " and sumto(sz[t], lambda k: w[t, k]) == 1),"
                  " " + _D(n="P", c="0") + " == sumto(s, lambda t: (fr[i] if sl[t] == i else 0))), pat=" + _D(n="P", c="0") + ")"),
    ],
    py=_c06_dep_py,
    doc="scan-order deposit of interpolation weight into the leading columns of one row of the mapping matrix (C06 row sums)",
)

# c06_rs(R, ..., i, n) = sum_{p<n} R[i, p]; the other arrays only serve the congruence lemma (R agrees with the formula)
_RS = lambda i="i", n="n": "c06_rs(R, idx, w, sz, sl, fr, %s, %s)" % (i, n)
spec_fn(
    "c06_rs", params=[("R", "real[2]"), ("idx", "int[2]"), ("w", "real[2]"), ("sz", "int[1]"), ("sl", "int[1]"), ("fr", "real[1]"),
                      ("i", "int"), ("n", "int")], ret="real",
    let={"S": "sl.shape[0]", "C": "idx.shape[1]", "N": "fr.shape[0]", "RN": "R.shape[0]", "RP": "R.shape[1]"},
    axioms=["forall(0, RN, lambda i: " + _RS(n="0") + " == 0, pat=" + _RS(n="0") + ")",
            "forall(0, RN, lambda i: forall(0, RP, lambda n: " + _RS(n="n + 1") + " == " + _RS() + " + R[i, n], pat=" + _RS(n="n + 1") + "))"],
    lemmas=[
        dict(name="sum", induct="n", lo=0, hi="RP",
             stmt="forall(0, RN, lambda i: sumto(n, lambda p: R[i, p]) == " + _RS() + ", pat=sumto(n, lambda p: R[i, p]))"),
        dict(name="cong", induct="n", lo=0, hi="RP",
             stmt="forall(0, RN, lambda i: implies(i < N and " + _SHP2 + " and forall(0, n, lambda p: R[i, p] == " + _MMS.format(n="S", p="p") + "),"
                  " " + _RS() + " == sumto(n, lambda p: " + _MMS.format(n="S", p="p") + ")), pat=" + _RS() + ")"),
    ],
    py=lambda R, idx, w, sz, sl, fr, i, n: float(np.sum(np.asarray(R, dtype=float)[i, :n])),
    doc="partial row sum of a matrix (C06: every row of the mapping matrix sums to one)",
)

_H1 = "forall(0, S, lambda s: sumto(sz[s], lambda c: w[s, c]) == 1)"
_H2 = "forall(0, N, lambda i: sumto(S, lambda s: (fr[i] if sl[s] == i else 0)) == 1)"
_NONNEG = "forall(0, S, lambda s: forall(0, sz[s], lambda c: w[s, c] >= 0)) and forall(0, N, lambda i: fr[i] >= 0)"

contract(
    MU + "mapping_matrix_from", props=["C06"],
    types={"pix_indexes_for_sub_slim_index": "int[2]", "pix_size_for_sub_slim_index": "int[1]",
           "pix_weights_for_sub_slim_index": "real[2]", "pixels": "int", "total_mask_pixels": "int",
           "slim_index_for_sub_slim_index": "int[1]", "sub_fraction": "real[1]"},
    returns="real[2]", let=_MM_LET, requires=_MM_REQ,
    ensures=["result.shape[0] == N", "result.shape[1] == P",
             "forall(0, N, lambda i: forall(0, P, lambda p: result[i, p] == " + _MM.format(n="S") + "))",
             # every row sums to the weight deposited in it ...
             "forall(0, N, lambda i: c06_rs(result, idx, w, sz, sl, fr, i, P) == c06_dep(idx, w, sz, sl, fr, P, i, P, S, 0))",
             # ... which is one when each sub-pixel's weights sum to one and the sub-fractions of a pixel's sub-pixels sum to one
             "implies(" + _H1 + " and " + _H2 + ", forall(0, N, lambda i: sumto(P, lambda p: result[i, p]) == 1))",
             "implies(" + _NONNEG + ", forall(0, N, lambda i: forall(0, P, lambda p: result[i, p] >= 0)))"],
    loops={
        0: {"inv": ["forall(0, N, lambda i: forall(0, P, lambda p: mapping_matrix[i, p] == " + _MM.format(n="sub_slim_index") + "))",
                    "implies(" + _NONNEG + ", forall(0, N, lambda i: forall(0, P, lambda p: mapping_matrix[i, p] >= 0)))"]},
        1: {"inv": ["forall(0, N, lambda i: forall(0, P, lambda p: mapping_matrix[i, p] == " + _MM.format(n="sub_slim_index")
                    + " + (fr[i] * sumto(pix_count, lambda c: (w[sub_slim_index, c] if idx[sub_slim_index, c] == p else 0))"
                      " if sl[sub_slim_index] == i else 0)))",
                    "implies(" + _NONNEG + ", forall(0, N, lambda i: forall(0, P, lambda p: mapping_matrix[i, p] >= 0)))"]},
    },
    sentence={"sumto": "entry (i,p) is the sum over the sub-pixels of image pixel i of the sub-fraction times the interpolation weight of source pixel p"},
)


def _mm_tables(rng, S, C, P):
    idx = -np.ones((S, C), dtype=int)
    w = np.zeros((S, C))
    sz = np.zeros(S, dtype=int)
    for s in range(S):
        sz[s] = rng.randint(0, C) if rng.random() < 0.3 else rng.randint(1, C)
        for c in range(sz[s]):
            idx[s, c] = rng.randrange(P)
            w[s, c] = rng.choice([rng.uniform(-1, 2), rng.uniform(0, 1), 0.0, 1.0])
    return idx, sz, w


def _g_mm(rng, tier):
    for _ in range(gens.budget(tier, 200, 3000)):
        N, P, C = rng.randint(1, 4), rng.randint(1, 5), rng.randint(1, 3)
        S = rng.randint(0, 8)
        idx, sz, w = _mm_tables(rng, S, C, P)
        yield {"pix_indexes_for_sub_slim_index": idx, "pix_size_for_sub_slim_index": sz, "pix_weights_for_sub_slim_index": w,
               "pixels": P, "total_mask_pixels": N,
               "slim_index_for_sub_slim_index": np.array([rng.randrange(N) for _ in range(S)], dtype=int),
               "sub_fraction": gens.reals(rng, (N,), 0, 1)}


CONTRACTS[MU + "mapping_matrix_from"].gen = _g_mm
CONTRACTS[MU + "mapping_matrix_from"].nontrivial = lambda **kw: kw["slim_index_for_sub_slim_index"].shape[0] > 1


# ----------------------------------------------------------------------------------------------- rectangular neighbours
# flat index of cell (r, c) of an H x W grid (row-major).  The lemma gives bounds and injectivity without asking the solver
# for non-linear integer reasoning: cells of an earlier row lie strictly below every cell of a later row.
_FL = lambda r, c: "c06_flat(H, W, %s, %s)" % (r, c)
spec_fn(
    "c06_flat", params=[("H", "$int"), ("W", "$int"), ("r", "int"), ("c", "int")], ret="int",
    axioms=["forall(0, H + 1, lambda r: forall(0, W + 1, lambda c: " + _FL("r", "c") + " == r * W + c, pat=" + _FL("r", "c") + "))"],
    lemmas=[dict(name="lt", induct="n", lo=0, hi="H", hints=[_FL("n", "0")],
                 stmt="forall(0, n, lambda r1: forall(0, W, lambda c1: forall(0, W, lambda c2:"
                      " " + _FL("r1", "c1") + " + W - c1 + c2 <= " + _FL("n", "c2") + ", pat=((" + _FL("r1", "c1") + ", " + _FL("n", "c2") + "),))))")],
    py=lambda H, W, r, c: int(r * W + c),
    doc="row-major flat index r*W + c of a rectangular mesh cell (C06 neighbour lists)",
)

# number of 4-connected neighbours of cell (r, c), and the k-th of them in ascending flat order (-1 beyond the degree):
# the candidates in ascending order are up (r-1,c), left (r,c-1), right (r,c+1), down (r+1,c), each present iff inside the grid
macro("c06_deg", ["H", "W", "r", "c"], "(1 if r > 0 else 0) + (1 if c > 0 else 0) + (1 if c < W - 1 else 0) + (1 if r < H - 1 else 0)")
macro("c06_nbk", ["H", "W", "r", "c", "k"],
      "(c06_flat(H, W, r - 1, c) if r > 0 and k < 1 else"
      " (c06_flat(H, W, r, c - 1) if c > 0 and k < (1 if r > 0 else 0) + 1 else"
      " (c06_flat(H, W, r, c + 1) if c < W - 1 and k < (1 if r > 0 else 0) + (1 if c > 0 else 0) + 1 else"
      " (c06_flat(H, W, r + 1, c) if r < H - 1 and k < c06_deg(H, W, r, c) else -1))))")

_RT = {"neighbors": "real[2]", "neighbors_sizes": "real[1]", "shape_native": "(int,int)"}
_RL = {"H": "shape_native[0]", "W": "shape_native[1]", "NB": "neighbors", "SZ": "neighbors_sizes"}
_RREQ = ["H >= 3", "W >= 3", "NB.shape[0] == H * W", "NB.shape[1] == 4", "SZ.shape[0] == H * W"]
# the helpers return (aliases of) their array arguments; callers see the returned pair as arrays with the same contents
_RRES = ["result[0].shape[0] == H * W", "result[0].shape[1] == 4", "result[1].shape[0] == H * W",
         "forall(0, H * W, lambda p: forall(0, 4, lambda k: result[0][p, k] == NB[p, k]))",
         "forall(0, H * W, lambda p: result[1][p] == SZ[p])",
         # (the same, per cell: lets callers chain the helpers without re-deriving 0 <= r*W + c < H*W each time)
         "forall(0, H, lambda r: forall(0, W, lambda c: forall(0, 4, lambda k: result[0][" + _FL("r", "c") + ", k] == NB[" + _FL("r", "c") + ", k])"
         " and result[1][" + _FL("r", "c") + "] == SZ[" + _FL("r", "c") + "]))"]


def _rows(region, lo, hi=None):
    """cells of `region` (a condition on r, c): the first `lo` entries of the row are the neighbours, the rest and every
    other cell's row are unchanged"""
    return ["forall(0, H, lambda r: forall(0, W, lambda c: implies(" + region + ", forall(0, 4, lambda k:"
            " NB[" + _FL("r", "c") + ", k] == (c06_nbk(H, W, r, c, k) if k < " + str(lo) + " else old(NB)[" + _FL("r", "c") + ", k]))"
            " and SZ[" + _FL("r", "c") + "] == c06_deg(H, W, r, c))))",
            "forall(0, H, lambda r: forall(0, W, lambda c: implies(not (" + region + "), forall(0, 4, lambda k:"
            " NB[" + _FL("r", "c") + ", k] == old(NB)[" + _FL("r", "c") + ", k])"
            " and SZ[" + _FL("r", "c") + "] == old(SZ)[" + _FL("r", "c") + "])))"]


def _helper(name, region, lo, loops):
    contract(ME + name, props=["C06"], types=_RT, returns="(real[2],real[1])", let=_RL, requires=_RREQ,
             modifies=["neighbors", "neighbors_sizes"], ensures=_rows(region, lo) + _RRES, loops=loops,
             sentence={"c06_nbk": "the rows of these cells hold their 4-connected neighbours in ascending order; neighbors_sizes is the degree; all other rows are untouched"})


_CORNER = "(r == 0 or r == H - 1) and (c == 0 or c == W - 1)"
_helper("rectangular_corner_neighbors", _CORNER, 2, {})

_TOP = "r == 0 and 1 <= c and c < W - 1"
_helper("rectangular_top_edge_neighbors", _TOP, 3,
        {0: {"inv": _rows("r == 0 and 1 <= c and c < pix", 3), "assert_at": {1: ["pixel_index == " + _FL("0", "pix")]}}})

_LEFT = "c == 0 and 1 <= r and r < H - 1"
_helper("rectangular_left_edge_neighbors", _LEFT, 3,
        {0: {"inv": _rows("c == 0 and 1 <= r and r < pix", 3), "assert_at": {1: ["pixel_index == " + _FL("pix", "0")]}}})

_RIGHT = "c == W - 1 and 1 <= r and r < H - 1"
_helper("rectangular_right_edge_neighbors", _RIGHT, 3,
        {0: {"inv": _rows("c == W - 1 and 1 <= r and r < pix", 3), "assert_at": {1: ["pixel_index == " + _FL("pix", "W - 1")]}}})

_BOT = "r == H - 1 and 1 <= c and c < W - 1"
_helper("rectangular_bottom_edge_neighbors", _BOT, 3,
        {0: {"inv": _rows("r == H - 1 and W - 1 - pix < c and c < W - 1", 3), "assert_at": {1: ["pixel_index == " + _FL("H - 1", "W - 1 - pix")]}}})

_CEN = "1 <= r and r < H - 1 and 1 <= c and c < W - 1"
_helper("rectangular_central_neighbors", _CEN, 4,
        {0: {"inv": _rows("1 <= r and r < x and 1 <= c and c < W - 1", 4)},
         1: {"inv": _rows("1 <= c and c < W - 1 and ((1 <= r and r < x) or (r == x and c < y))", 4),
             "assert_at": {1: ["pixel_index == " + _FL("x", "y")]}}})

contract(
    ME + "rectangular_neighbors_from", props=["C06", "C07"], types={"shape_native": "(int,int)"}, returns="(real[2],real[1])",
    let={"H": "shape_native[0]", "W": "shape_native[1]"}, requires=["H >= 3", "W >= 3"],
    ensures=["result[0].shape[0] == H * W", "result[0].shape[1] == 4", "result[1].shape[0] == H * W",
             # row r*W+c holds the 4-connected neighbours of cell (r,c) in ascending order followed by -1; sizes is the degree
             "forall(0, H, lambda r: forall(0, W, lambda c: forall(0, 4, lambda k: result[0][" + _FL("r", "c") + ", k] == c06_nbk(H, W, r, c, k))))",
             "forall(0, H, lambda r: forall(0, W, lambda c: result[1][" + _FL("r", "c") + "] == c06_deg(H, W, r, c)))"],
    sentence={"c06_nbk": "row r*W+c of neighbors holds the 4-connected neighbours of cell (r,c) in ascending order followed by -1, and neighbors_sizes is the degree"},
)


def _g_rect_helper(rng, tier):
    for H in range(3, gens.budget(tier, 6, 8)):
        for W in range(3, gens.budget(tier, 7, 9)):
            for fill in (0, 1):
                nb = -np.ones((H * W, 4)) if fill == 0 else gens.reals(rng, (H * W, 4), -5, 50, special=False).round()
                sz = np.zeros(H * W) if fill == 0 else gens.reals(rng, (H * W,), 0, 9, special=False).round()
                yield {"neighbors": nb, "neighbors_sizes": sz, "shape_native": (H, W)}


def _g_rect(rng, tier):
    for H in range(3, gens.budget(tier, 8, 12)):
        for W in range(3, gens.budget(tier, 9, 13)):
            yield {"shape_native": (H, W)}


for _n in ("corner_neighbors", "top_edge_neighbors", "left_edge_neighbors", "right_edge_neighbors", "bottom_edge_neighbors", "central_neighbors"):
    CONTRACTS[ME + "rectangular_" + _n].gen = _g_rect_helper
    CONTRACTS[ME + "rectangular_" + _n].nontrivial = lambda shape_native, **kw: shape_native[0] != shape_native[1]
CONTRACTS[ME + "rectangular_neighbors_from"].gen = _g_rect
CONTRACTS[ME + "rectangular_neighbors_from"].nontrivial = lambda shape_native: shape_native[0] != shape_native[1]

_ADJ4 = "((r2 == r and (c2 == c + 1 or c2 == c - 1)) or (c2 == c and (r2 == r + 1 or r2 == r - 1)))"
_LISTED = "(" + " or ".join("R[0][" + _FL("{a}", "{b}") + ", %d] == " % k + _FL("{c}", "{d}") for k in range(4)) + ")"   # q in neighbors[p]
corollary("C06.rect_neighbors_adjacency", props=["C06", "C07"],
          vars={"shape_native": "(int,int)"}, let={"H": "shape_native[0]", "W": "shape_native[1]"}, requires=["H >= 3", "W >= 3"],
          calls=[("R", ME + "rectangular_neighbors_from", {"shape_native": "shape_native"})],
          ensures=[
              # the neighbour list of a cell names exactly the cells at city-block distance one (mesh adjacency) ...
              "forall(0, H, lambda r: forall(0, W, lambda c: forall(0, H, lambda r2: forall(0, W, lambda c2:"
              " iff(" + _LISTED.format(a="r", b="c", c="r2", d="c2") + ", " + _ADJ4 + ")))))",
              # ... so the lists are symmetric: q is listed for p iff p is listed for q
              "forall(0, H, lambda r: forall(0, W, lambda c: forall(0, H, lambda r2: forall(0, W, lambda c2:"
              " iff(" + _LISTED.format(a="r", b="c", c="r2", d="c2") + ", " + _LISTED.format(a="r2", b="c2", c="r", d="c") + ")))))",
              # ascending order, padded with -1 beyond the degree
              "forall(0, H, lambda r: forall(0, W, lambda c: forall(0, 4, lambda k:"
              " (R[0][" + _FL("r", "c") + ", k] == -1 if k >= R[1][" + _FL("r", "c") + "] else"
              " (0 <= R[0][" + _FL("r", "c") + ", k] and R[0][" + _FL("r", "c") + ", k] < H * W and (k == 0 or R[0][" + _FL("r", "c") + ", k - 1] < R[0][" + _FL("r", "c") + ", k]))))))",
          ],
          sentence="source-pixel neighbour lists of a rectangular mesh are symmetric and equal its 4-connectivity")


# ----------------------------------------------------------------------------------------------- Delaunay weights
# twice the signed area of triangle (a, b, c) by the shoelace formula; points are (first, second) coordinate.  The 2x2
# determinant is opaque outside the contract of `delaunay_triangle_area_from`, so callers reason linearly over determinants.
macro("c06_det", ["u0", "u1", "v0", "v1"], "u0 * v1 - u1 * v0", opaque=(["real"] * 4, "real"),
      py=lambda u0, u1, v0, v1: float(u0 * v1 - u1 * v0))
macro("c06_cross", ["a0", "a1", "b0", "b1", "c0", "c1"], "c06_det(a0, a1, b0, b1) + c06_det(b0, b1, c0, c1) + c06_det(c0, c1, a0, a1)")

_ANTI = lambda a, b: "c06_det({a}[0], {a}[1], {b}[0], {b}[1]) == -c06_det({b}[0], {b}[1], {a}[0], {a}[1])".format(a=a, b=b)
contract(
    ME + "delaunay_triangle_area_from", props=["C06"],
    types={"corner_0": "real[1]", "corner_1": "real[1]", "corner_2": "real[1]"}, returns="real",
    requires=["corner_0.shape[0] >= 2", "corner_1.shape[0] >= 2", "corner_2.shape[0] >= 2"], reveal=["c06_det"],
    ensures=["result >= 0",
             "result == abs(c06_cross(corner_0[0], corner_0[1], corner_1[0], corner_1[1], corner_2[0], corner_2[1])) / 2",
             # ghost facts for callers (where c06_det is an opaque symbol): the determinant is antisymmetric
             _ANTI("corner_0", "corner_1"), _ANTI("corner_0", "corner_2"), _ANTI("corner_1", "corner_2")],
    sentence={"c06_cross": "the area of the triangle spanned by the three corners"},
)


def _g_area(rng, tier):
    for _ in range(gens.budget(tier, 300, 3000)):
        yield {"corner_0": gens.reals(rng, (2,), -3, 3, special=False), "corner_1": gens.reals(rng, (2,), -3, 3, special=False),
               "corner_2": gens.reals(rng, (2,), -3, 3, special=False)}


CONTRACTS[ME + "delaunay_triangle_area_from"].gen = _g_area

# partial row sums of a weight table, with the closed forms for the two row lengths the mappers produce (1 and 3)
_PS = lambda i="i", n="n": "c06_psum(A, %s, %s)" % (i, n)
spec_fn(
    "c06_psum", params=[("A", "real[2]"), ("i", "int"), ("n", "int")], ret="real", let={"RN": "A.shape[0]", "RP": "A.shape[1]"},
    axioms=["forall(0, RN, lambda i: " + _PS(n="0") + " == 0, pat=" + _PS(n="0") + ")",
            "forall(0, RN, lambda i: forall(0, RP, lambda n: " + _PS(n="n + 1") + " == " + _PS() + " + A[i, n], pat=" + _PS(n="n + 1") + "))"],
    lemmas=[dict(name="sum", induct="n", lo=0, hi="RP",
                 stmt="forall(0, RN, lambda i: sumto(n, lambda c: A[i, c]) == " + _PS() + ", pat=sumto(n, lambda c: A[i, c]))"),
            dict(name="small", noinduct=True,
                 stmt="forall(0, RN, lambda i: implies(RP >= 1, " + _PS(n="1") + " == A[i, 0]) and implies(RP >= 3, " + _PS(n="3") + " == A[i, 0] + A[i, 1] + A[i, 2]),"
                      " pat=(" + _PS(n="1") + ", " + _PS(n="3") + "))")],
    py=lambda A, i, n: float(np.sum(np.asarray(A, dtype=float)[i, :n])),
    doc="partial row sum of a weight table",
)

# vertex j (0, 1, 2) of the simplex of sub-pixel s and the data point, by coordinate
_V = lambda j, d, s="s": "M[idx[%s, %d], %d]" % (s, j, d)
_PT = lambda d, s="s": "G[%s, %d]" % (s, d)
_ABC = lambda s="s": ", ".join(_V(j, d, s) for j in range(3) for d in range(2))
_TRI = lambda s="s": "c06_cross(" + _ABC(s) + ")"                                                            # 2 * signed area(A, B, C)
_SA = lambda s="s": "c06_cross(%s, %s, %s, %s, %s, %s)" % (_PT(0, s), _PT(1, s), _V(1, 0, s), _V(1, 1, s), _V(2, 0, s), _V(2, 1, s))   # (P, B, C)
_SB = lambda s="s": "c06_cross(%s, %s, %s, %s, %s, %s)" % (_V(0, 0, s), _V(0, 1, s), _PT(0, s), _PT(1, s), _V(2, 0, s), _V(2, 1, s))   # (A, P, C)
_SC = lambda s="s": "c06_cross(%s, %s, %s, %s, %s, %s)" % (_V(0, 0, s), _V(0, 1, s), _V(1, 0, s), _V(1, 1, s), _PT(0, s), _PT(1, s))   # (A, B, P)


def _dw_lin(W, s="s"):
    """what the property says about the weights of sub-pixel s, linear part: non-negative, sum to one, nearest vertex alone outside the hull"""
    return ("(" + W + "[{s}, 0] == 1 and " + W + "[{s}, 1] == 0 and " + W + "[{s}, 2] == 0 if idx[{s}, 1] == -1 else "
            + W + "[{s}, 0] >= 0 and " + W + "[{s}, 1] >= 0 and " + W + "[{s}, 2] >= 0 and " + W + "[{s}, 0] + " + W + "[{s}, 1] + " + W + "[{s}, 2] == 1)").format(s=s)


def _dw_bary(W, s="s"):
    """... and: inside the triangle (all three barycentric coordinates non-negative) the weights ARE the barycentric coordinates"""
    bary = [x(s) + " / " + _TRI(s) for x in (_SA, _SB, _SC)]
    return ("implies(idx[{s}, 1] != -1 and " + " and ".join(b + " >= 0" for b in bary) + ", "
            + " and ".join(W + "[{s}, %d] == " % j + b for j, b in enumerate(bary)) + ")").format(s=s)


# trigger for the barycentric clause: the (opaque) determinant of the first two vertices -- it is instantiated only where a proof
# talks about that triangle, so clients that need just "non-negative, sum to one" never see the non-linear terms
_DW_PAT = "c06_det(" + _V(0, 0) + ", " + _V(0, 1) + ", " + _V(1, 0) + ", " + _V(1, 1) + ")"

contract(
    MU + "pixel_weights_delaunay_from", props=["C06"],
    types={"source_plane_data_grid": "real[2]", "source_plane_mesh_grid": "real[2]", "slim_index_for_sub_slim_index": "int[1]",
           "pix_indexes_for_sub_slim_index": "int[2]"},
    returns="real[2]",
    let={"G": "source_plane_data_grid", "M": "source_plane_mesh_grid", "idx": "pix_indexes_for_sub_slim_index",
         "S": "slim_index_for_sub_slim_index.shape[0]", "V": "source_plane_mesh_grid.shape[0]"},
    requires=["idx.shape[0] == S", "idx.shape[1] == 3", "G.shape[0] == S", "G.shape[1] == 2", "M.shape[1] == 2",
              # a sub-pixel either lies in a simplex (three vertices in general position) or maps to one vertex followed by -1
              "forall(0, S, lambda s: idx[s, 1] == -1 or (0 <= idx[s, 0] and idx[s, 0] < V and 0 <= idx[s, 1] and idx[s, 1] < V"
              " and 0 <= idx[s, 2] and idx[s, 2] < V and " + _TRI() + " != 0))"],
    ensures=["result.shape[0] == S", "result.shape[1] == 3",
             # weights are non-negative, sum to one, and are the barycentric coordinates of the point when it lies in the triangle;
             # outside the hull the nearest vertex alone carries the weight
             "forall(0, S, lambda s: " + _dw_lin("result") + ")",
             "forall(0, S, lambda s: " + _dw_bary("result") + ", pat=" + _DW_PAT + ")",
             # the same normalisation in the summation form mapping_matrix_from asks for (1 mapping outside the hull, 3 inside)
             "forall(0, S, lambda s: implies(idx[s, 1] == -1, c06_psum(result, s, 1) == 1 and sumto(1, lambda c: result[s, c]) == 1))",
             "forall(0, S, lambda s: implies(idx[s, 1] != -1, c06_psum(result, s, 3) == 1 and sumto(3, lambda c: result[s, c]) == 1))"],
    loops={0: {"inv": ["forall(0, sub_slim_index, lambda s: " + _dw_lin("pixel_weights") + ")",
                       "forall(0, sub_slim_index, lambda s: " + _dw_bary("pixel_weights") + ", pat=" + _DW_PAT + ")",
                       "forall(sub_slim_index, S, lambda s: pixel_weights[s, 0] == 0 and pixel_weights[s, 1] == 0 and pixel_weights[s, 2] == 0)"],
               # ghost steps for the current sub-pixel k: first the facts that need quantifier instantiation (linear), then the
               # quantifier-free real arithmetic (areas are |cross|/2; the three sub-triangle crosses add up to the triangle's)
               "assert_at": {2: [
                   "implies(idx[sub_slim_index, 1] != -1, weight_abc[0] == area_0 / norm and weight_abc[1] == area_1 / norm and weight_abc[2] == area_2 / norm)",
                   "implies(idx[sub_slim_index, 1] != -1, pixel_weights[sub_slim_index, 0] == weight_abc[0] and pixel_weights[sub_slim_index, 1] == weight_abc[1] and pixel_weights[sub_slim_index, 2] == weight_abc[2])",
                   "implies(idx[sub_slim_index, 1] == -1, pixel_weights[sub_slim_index, 0] == 1 and pixel_weights[sub_slim_index, 1] == 0 and pixel_weights[sub_slim_index, 2] == 0)",
                   "implies(idx[sub_slim_index, 1] != -1, " + _TRI("sub_slim_index") + " != 0)",
                   "implies(idx[sub_slim_index, 1] != -1, area_0 == abs(" + _SA("sub_slim_index") + ") / 2 and area_1 == abs(" + _SB("sub_slim_index") + ") / 2 and area_2 == abs(" + _SC("sub_slim_index") + ") / 2)",
                   "implies(idx[sub_slim_index, 1] != -1, " + _SA("sub_slim_index") + " + " + _SB("sub_slim_index") + " + " + _SC("sub_slim_index") + " == " + _TRI("sub_slim_index") + ")",
                   "implies(idx[sub_slim_index, 1] != -1, norm > 0)",
                   _dw_lin("pixel_weights", "sub_slim_index"), _dw_bary("pixel_weights", "sub_slim_index")]}}},
    sentence={"c06_cross": "the weights of a sub-pixel are the barycentric coordinates of its source-plane position in the triangle containing it (the nearest vertex alone if outside the hull)"},
)


def _g_dw(rng, tier):
    for _ in range(gens.budget(tier, 200, 3000)):
        V, S = rng.randint(3, 7), rng.randint(0, 6)
        M = gens.reals(rng, (V, 2), -2, 2, special=False)
        G = gens.reals(rng, (S, 2), -2, 2, special=False)
        idx = -np.ones((S, 3), dtype=int)
        for s in range(S):
            if rng.random() < 0.25:
                idx[s, 0] = rng.randrange(V)
                continue
            tri = rng.sample(range(V), 3)
            idx[s] = tri
            if rng.random() < 0.6:          # a point inside the triangle (or on an edge / at a vertex)
                lam = np.array([rng.random(), rng.random(), rng.choice([0.0, rng.random()])])
                lam = lam / lam.sum() if lam.sum() > 0 else np.array([1.0, 0.0, 0.0])
                G[s] = lam @ M[tri]
        yield {"source_plane_data_grid": G, "source_plane_mesh_grid": M, "slim_index_for_sub_slim_index": np.zeros(S, dtype=int),
               "pix_indexes_for_sub_slim_index": idx}


CONTRACTS[MU + "pixel_weights_delaunay_from"].gen = _g_dw
CONTRACTS[MU + "pixel_weights_delaunay_from"].nontrivial = lambda **kw: bool((kw["pix_indexes_for_sub_slim_index"][:, 1] >= 0).any())


# ----------------------------------------------------------------------------------------------- sparse unique mappings
# first sub-pixel of image pixel j when pixel i owns sub_size[i]^2 consecutive sub-pixels
spec_fn(
    "c06_off", params=[("ss", "int[1]"), ("j", "int")], ret="int", let={"D": "ss.shape[0]"},
    axioms=["c06_off(ss, 0) == 0",
            "forall(0, D, lambda j: c06_off(ss, j + 1) == c06_off(ss, j) + ss[j] * ss[j], pat=c06_off(ss, j + 1))"],
    lemmas=[dict(name="mono", induct="n", lo=0, hi="D",
                 stmt="forall(0, n + 1, lambda j1: 0 <= c06_off(ss, j1) and c06_off(ss, j1) <= c06_off(ss, n),"
                      " pat=((c06_off(ss, j1), c06_off(ss, n)),))")],
    py=lambda ss, j: int(sum(int(v) ** 2 for v in np.asarray(ss)[:j])),
    doc="offset of the first sub-pixel of an image pixel in the sub-pixel ordering (C06 / C09)",
)

# entry (ip, p) of the matrix: sum over the sub_size[ip]^2 sub-pixels of image pixel ip, over each sub-pixel's interpolation
# entries c, of [idx == p] * (1/sub_size[ip]^2) * weight.  c06_mf is the partial entry after m complete sub-pixels and the first
# k interpolation entries of the next sub-pixel, c06_off(ss, ip) + m (the loops' progress).
macro("c06_wtf", ["idx", "w", "sz", "ss", "ip", "s", "p"],
      "sumto(sz[s], lambda c: ((1 / (ss[ip] * ss[ip])) * w[s, c] if idx[s, c] == p else 0))")
macro("c06_me", ["idx", "w", "sz", "ss", "ip", "p"],
      "sumto(ss[ip] * ss[ip], lambda t: c06_wtf(idx, w, sz, ss, ip, c06_off(ss, ip) + t, p))")
macro("c06_mf", ["idx", "w", "sz", "ss", "ip", "p", "m", "k"],
      "sumto(m, lambda t: c06_wtf(idx, w, sz, ss, ip, c06_off(ss, ip) + t, p))"
      " + sumto(k, lambda c: ((1 / (ss[ip] * ss[ip])) * w[c06_off(ss, ip) + m, c] if idx[c06_off(ss, ip) + m, c] == p else 0))")

_UQ_LET = {"DP": "data_pixels", "PP": "pix_pixels", "idx": "pix_indexes_for_sub_slim_index", "w": "pix_weights_for_sub_slim_index",
           "sz": "pix_sizes_for_sub_slim_index", "ss": "sub_size", "T": "pix_indexes_for_sub_slim_index.shape[0]",
           "C": "pix_indexes_for_sub_slim_index.shape[1]"}
_UQ_REQ = ["DP >= 1", "PP >= 0", "ss.shape[0] == DP", "sz.shape[0] == T", "w.shape[0] == T", "w.shape[1] == C",
           "forall(0, DP, lambda j: ss[j] >= 1)",
           "c06_off(ss, DP) == T",                               # pixel j owns sub_size[j]^2 consecutive sub-pixels
           "forall(0, T, lambda t: 0 <= sz[t] and sz[t] <= C)",
           "forall(0, T, lambda t: forall(0, sz[t], lambda k: 0 <= idx[t, k] and idx[t, k] < PP))"]


def _uq_row(U, Wt, n, entry, ip="ip"):
    """columns c < n of row ip: integer source-pixel indices in range carrying the (partial) matrix entry; the rest is empty"""
    u = "%s[%s, c]" % (U, ip)
    return ["forall(0, {n}, lambda c: {u} == toreal(toint({u})) and 0 <= toint({u}) and toint({u}) < PP)".format(n=n, u=u),
            # (p ranges over source pixels so that the sums are functions of the scalar p, not of the array U)
            "forall(0, {n}, lambda c: forall(0, PP, lambda p: implies({u} == p, {Wt}[{ip}, c] == {e})))".format(n=n, u=u, Wt=Wt, ip=ip, e=entry("p")),
            "forall({n}, {U}.shape[1], lambda c: {u} == -1 and {Wt}[{ip}, c] == 0)".format(n=n, U=U, u=u, Wt=Wt, ip=ip)]


_ME = lambda p: "c06_me(idx, w, sz, ss, ip, %s)" % p


def _uq_done(U, Wt, L, hi):
    """rows ip < hi are finished: the statement's sparse encoding of the matrix"""
    n = "toint(%s[ip])" % L
    out = ["forall(0, {hi}, lambda ip: {L}[ip] == toreal({n}) and 0 <= {n} and {n} <= {U}.shape[1])".format(hi=hi, L=L, n=n, U=U)]
    for cl in _uq_row(U, Wt, n, _ME):
        out.append("forall(0, %s, lambda ip: %s)" % (hi, cl))
    # distinct columns
    out.append("forall(0, {hi}, lambda ip: forall(0, {n}, lambda c1: forall(0, {n}, lambda c2: implies(c1 != c2, {U}[ip, c1] != {U}[ip, c2]))))".format(hi=hi, n=n, U=U))
    # a source pixel that is not listed has a zero matrix entry
    out.append("forall(0, {hi}, lambda ip: forall(0, PP, lambda p: implies(forall(0, {n}, lambda c: {U}[ip, c] != p), {me} == 0)))".format(hi=hi, n=n, U=U, me=_ME("p")))
    return out


def _uq_untouched(lo):
    return ["forall(%s, DP, lambda i2: forall(0, data_to_pix_unique.shape[1], lambda c: data_to_pix_unique[i2, c] == -1 and data_weights[i2, c] == 0))" % lo]


def _uq_cur(m, k):
    """the row being built (loop variables ip, pix_size; pix_check[p] is the column of source pixel p or -1)"""
    mf = lambda p: "c06_mf(idx, w, sz, ss, ip, %s, %s, %s)" % (p, m, k)
    pc = "pix_check[p]"
    return (["0 <= pix_size", "pix_size <= (%s) * max_pix_mappings + %s" % (m, k)]
            + _uq_row("data_to_pix_unique", "data_weights", "pix_size", mf)
            # pix_check and the listed columns are mutually inverse tables (stated without nested indices, so that the clauses
            # do not feed each other's triggers)
            + ["forall(0, pix_size, lambda c: forall(0, PP, lambda p: implies(data_to_pix_unique[ip, c] == p, pix_check[p] == c)))",
               "forall(0, PP, lambda p: forall(0, pix_size, lambda c: implies(pix_check[p] == c, data_to_pix_unique[ip, c] == p)))",
               "forall(0, PP, lambda p: {pc} == toreal(toint({pc})) and ({pc} == -1 or (0 <= {pc} and {pc} < pix_size)))".format(pc=pc),
               "forall(0, PP, lambda p: implies({pc} == -1, {mf} == 0))".format(pc=pc, mf=mf("p"))])


_UQ_K = MU + "data_slim_to_pixelization_unique_from"
_M1 = "ip_sub - ip_sub_start"
contract(
    _UQ_K, props=["C06"],
    types={"data_pixels": "int", "pix_indexes_for_sub_slim_index": "int[2]", "pix_sizes_for_sub_slim_index": "int[1]",
           "pix_weights_for_sub_slim_index": "real[2]", "pix_pixels": "int", "sub_size": "int[1]"},
    returns="(real[2],real[2],real[1])", let=_UQ_LET, requires=_UQ_REQ,
    ensures=["result[0].shape[0] == DP", "result[1].shape[0] == DP", "result[1].shape[1] == result[0].shape[1]", "result[2].shape[0] == DP"]
            + _uq_done("result[0]", "result[1]", "result[2]", "DP"),
    loops={
        0: {"inv": ["ip_sub_start == c06_off(ss, ip)"] + _uq_done("data_to_pix_unique", "data_weights", "pix_lengths", "ip") + _uq_untouched("ip"),
            "assert_at": {0: ["sub_fraction[ip] == 1 / (ss[ip] * ss[ip])"],
                          # row ip is complete (after the sub-pixel loop): the inverse tables give distinct columns, and a source
                          # pixel that is not listed was never named, so its matrix entry is zero
                          4: ["forall(0, pix_size, lambda c: pix_check[toint(data_to_pix_unique[ip, c])] == c)",
                              "forall(0, pix_size, lambda c1: forall(0, pix_size, lambda c2: implies(c1 != c2, data_to_pix_unique[ip, c1] != data_to_pix_unique[ip, c2])))",
                              "forall(0, PP, lambda p: pix_check[p] == -1 or (0 <= toint(pix_check[p]) and toint(pix_check[p]) < pix_size"
                              " and data_to_pix_unique[ip, toint(pix_check[p])] == p))",
                              "forall(0, PP, lambda p: implies(forall(0, pix_size, lambda c: data_to_pix_unique[ip, c] != p), pix_check[p] == -1))",
                              "forall(0, PP, lambda p: implies(forall(0, pix_size, lambda c: data_to_pix_unique[ip, c] != p), " + _ME("p") + " == 0))"]}},
        1: {"inv": _uq_done("data_to_pix_unique", "data_weights", "pix_lengths", "ip") + _uq_untouched("ip + 1") + _uq_cur(_M1, "0"),
            "assert_at": {0: ["ip_sub_end == c06_off(ss, ip + 1)", "c06_off(ss, ip + 1) <= T", "0 <= ip_sub and ip_sub < T",
                              "ip_sub == c06_off(ss, ip) + (" + _M1 + ")"],
                          # hand-over: all entries of sub-pixel ip_sub are in, i.e. one more complete sub-pixel
                          1: ["forall(0, PP, lambda p: c06_mf(idx, w, sz, ss, ip, p, " + _M1 + " + 1, 0) == c06_mf(idx, w, sz, ss, ip, p, " + _M1 + ", sz[ip_sub]))"]}},
        2: {"inv": _uq_done("data_to_pix_unique", "data_weights", "pix_lengths", "ip") + _uq_untouched("ip + 1") + _uq_cur(_M1, "pix_interp_index"),
            # counting argument for the column bound: at most max_pix_mappings entries per sub-pixel, sub_size^2 sub-pixels
            "assert_at": {0: [_M1 + " + 1 <= ss[ip] * ss[ip]", "pix_interp_index + 1 <= max_pix_mappings",
                              "(" + _M1 + " + 1) * max_pix_mappings <= ss[ip] * ss[ip] * max_pix_mappings",
                              "ss[ip] * ss[ip] * max_pix_mappings <= data_to_pix_unique.shape[1]",
                              "pix_size < data_to_pix_unique.shape[1] and data_weights.shape[1] == data_to_pix_unique.shape[1]"],
                          # the entry being processed names source pixel `pix`: only that pixel's partial matrix entry grows
                          2: ["0 <= pix and pix < PP",
                              "pix == idx[c06_off(ss, ip) + (" + _M1 + "), pix_interp_index] and pixel_weight == w[c06_off(ss, ip) + (" + _M1 + "), pix_interp_index]",
                              "forall(0, PP, lambda p: c06_mf(idx, w, sz, ss, ip, p, " + _M1 + ", pix_interp_index + 1) =="
                              " c06_mf(idx, w, sz, ss, ip, p, " + _M1 + ", pix_interp_index) + (sub_fraction[ip] * pixel_weight if p == pix else 0))",
                              "implies(pix_check[pix] > -0.5, 0 <= toint(pix_check[pix]) and toint(pix_check[pix]) < pix_size"
                              " and data_to_pix_unique[ip, toint(pix_check[pix])] == pix)",
                              "implies(pix_check[pix] <= -0.5, pix_check[pix] == -1)",
                              "forall(0, pix_size, lambda c: implies(pix_check[pix] <= -0.5 or c != toint(pix_check[pix]), data_to_pix_unique[ip, c] != pix))"]}},
    },
    sentence={"c06_me": "the sparse unique-mapping representation encodes exactly the same matrix: distinct columns per row, summed weights"},
)


def _g_uq(rng, tier):
    for _ in range(gens.budget(tier, 150, 2500)):
        DP, PP, C = rng.randint(1, 3), rng.randint(1, 5), rng.randint(1, 3)
        ss = np.array([rng.randint(1, 2) if rng.random() < 0.8 else 3 for _ in range(DP)], dtype=int)
        T = int((ss ** 2).sum())
        idx, sz, w = _mm_tables(rng, T, C, PP)
        yield {"data_pixels": DP, "pix_indexes_for_sub_slim_index": idx, "pix_sizes_for_sub_slim_index": sz,
               "pix_weights_for_sub_slim_index": w, "pix_pixels": PP, "sub_size": ss}


CONTRACTS[_UQ_K].gen = _g_uq
CONTRACTS[_UQ_K].nontrivial = lambda **kw: bool((kw["sub_size"] > 1).any())


# ----------------------------------------------------------------------------------------------- Delaunay simplex lookup
_D2 = lambda m, i: "((DPTS[%s, 0] - G[%s, 0]) * (DPTS[%s, 0] - G[%s, 0]) + (DPTS[%s, 1] - G[%s, 1]) * (DPTS[%s, 1] - G[%s, 1]))" % (m, i, m, i, m, i, m, i)
contract(
    MU + "pix_indexes_for_sub_slim_index_delaunay_from", props=["C06"],
    # the simplex table is only copied (never used as an index), so it is read as a real array; callers pass integer vertex ids
    types={"source_plane_data_grid": "real[2]", "simplex_index_for_sub_slim_index": "int[1]", "pix_indexes_for_simplex_index": "real[2]",
           "delaunay_points": "real[2]"},
    returns="(real[2],int[1])",
    let={"G": "source_plane_data_grid", "sx": "simplex_index_for_sub_slim_index", "SIM": "pix_indexes_for_simplex_index", "DPTS": "delaunay_points",
         "S": "source_plane_data_grid.shape[0]", "NS": "pix_indexes_for_simplex_index.shape[0]", "V": "delaunay_points.shape[0]"},
    requires=["G.shape[1] == 2", "sx.shape[0] == S", "SIM.shape[1] == 3", "DPTS.shape[1] == 2", "V >= 1",
              "forall(0, S, lambda i: sx[i] == -1 or (0 <= sx[i] and sx[i] < NS))"],
    ensures=["result[0].shape[0] == S", "result[0].shape[1] == 3", "result[1].shape[0] == S",
             # inside the hull: the three vertices of the simplex that contains the point
             "forall(0, S, lambda i: implies(sx[i] != -1, result[0][i, 0] == SIM[sx[i], 0] and result[0][i, 1] == SIM[sx[i], 1] and result[0][i, 2] == SIM[sx[i], 2]))",
             # outside the hull: the nearest vertex alone (first of the nearest ones), padded with -1
             "forall(0, S, lambda i: implies(sx[i] == -1, result[0][i, 1] == -1 and result[0][i, 2] == -1"
             " and result[0][i, 0] == toreal(toint(result[0][i, 0])) and 0 <= toint(result[0][i, 0]) and toint(result[0][i, 0]) < V"
             " and forall(0, V, lambda m: " + _D2("toint(result[0][i, 0])", "i") + " <= " + _D2("m", "i")
             + " and implies(m < toint(result[0][i, 0]), " + _D2("toint(result[0][i, 0])", "i") + " < " + _D2("m", "i") + "))))",
             # sizes = number of entries of the row that name a vertex
             "forall(0, S, lambda i: result[1][i] == (1 if result[0][i, 0] >= 0 else 0) + (1 if result[0][i, 1] >= 0 else 0) + (1 if result[0][i, 2] >= 0 else 0))"],
    loops={0: {"inv": [
        "forall(0, i, lambda q: implies(sx[q] != -1, pix_indexes_for_sub_slim_index[q, 0] == SIM[sx[q], 0] and pix_indexes_for_sub_slim_index[q, 1] == SIM[sx[q], 1]"
        " and pix_indexes_for_sub_slim_index[q, 2] == SIM[sx[q], 2]))",
        "forall(0, i, lambda q: implies(sx[q] == -1, pix_indexes_for_sub_slim_index[q, 1] == -1 and pix_indexes_for_sub_slim_index[q, 2] == -1"
        " and pix_indexes_for_sub_slim_index[q, 0] == toreal(toint(pix_indexes_for_sub_slim_index[q, 0])) and 0 <= toint(pix_indexes_for_sub_slim_index[q, 0])"
        " and toint(pix_indexes_for_sub_slim_index[q, 0]) < V"
        " and forall(0, V, lambda m: " + _D2("toint(pix_indexes_for_sub_slim_index[q, 0])", "q") + " <= " + _D2("m", "q")
        + " and implies(m < toint(pix_indexes_for_sub_slim_index[q, 0]), " + _D2("toint(pix_indexes_for_sub_slim_index[q, 0])", "q") + " < " + _D2("m", "q") + "))))",
        "forall(i, S, lambda q: pix_indexes_for_sub_slim_index[q, 0] == -1 and pix_indexes_for_sub_slim_index[q, 1] == -1 and pix_indexes_for_sub_slim_index[q, 2] == -1)"]}},
    sentence={"forall": "a sub-pixel maps to the three vertices of the simplex containing it, or to the nearest vertex alone if outside the hull"},
)


def _g_pix_del(rng, tier):
    for _ in range(gens.budget(tier, 200, 3000)):
        V, S, NS = rng.randint(1, 6), rng.randint(0, 6), rng.randint(1, 4)
        pts = gens.reals(rng, (V, 2), -2, 2, special=False)
        if V > 1 and rng.random() < 0.3:
            pts[rng.randrange(V)] = pts[rng.randrange(V)]          # duplicated vertex: ties in the nearest-vertex rule
        G = gens.reals(rng, (S, 2), -2, 2, special=False)
        yield {"source_plane_data_grid": G,
               "simplex_index_for_sub_slim_index": np.array([rng.choice([-1, rng.randrange(NS)]) for _ in range(S)], dtype=int),
               "pix_indexes_for_simplex_index": np.array([[rng.randrange(V) for _ in range(3)] for _ in range(NS)], dtype=int),
               "delaunay_points": pts}


_PD_K = MU + "pix_indexes_for_sub_slim_index_delaunay_from"
CONTRACTS[_PD_K].gen = _g_pix_del
CONTRACTS[_PD_K].nontrivial = lambda **kw: bool((kw["simplex_index_for_sub_slim_index"] == -1).any()) and bool((kw["simplex_index_for_sub_slim_index"] != -1).any())


# ----------------------------------------------------------------------------------------------- mapped_to_source
_MC = "sumto({n}, lambda i: (1 if M[i, {j}] > 0 else 0))"                 # number of data pixels with a positive mapping to source pixel j
_MT = "sumto({n}, lambda i: (a[i] * M[i, {j}] if M[i, {j}] > 0 else 0))"    # their weighted values
_MS_K = MU + "mapped_to_source_via_mapping_matrix_from"
contract(
    _MS_K, props=["C06"], types={"mapping_matrix": "real[2]", "array_slim": "real[1]"}, returns="real[1]",
    let={"M": "mapping_matrix", "a": "array_slim", "N": "mapping_matrix.shape[0]", "P": "mapping_matrix.shape[1]"},
    requires=["a.shape[0] == N"],
    ensures=["result.shape[0] == P",
             # mean over the data pixels that map (with positive weight) to source pixel j of value * weight; 0 if there are none
             "forall(0, P, lambda j: result[j] == (" + _MT.format(n="N", j="j") + " / " + _MC.format(n="N", j="j") + " if " + _MC.format(n="N", j="j") + " > 0 else 0))"],
    loops={
        0: {"inv": ["forall(0, P, lambda j: source_pixel_count[j] == " + _MC.format(n="i", j="j") + " and mapped_to_source[j] == " + _MT.format(n="i", j="j")
                    + " and source_pixel_count[j] >= 0 and implies(source_pixel_count[j] == 0, mapped_to_source[j] == 0))"]},
        1: {"inv": ["forall(0, j, lambda q: source_pixel_count[q] == " + _MC.format(n="i + 1", j="q") + " and mapped_to_source[q] == " + _MT.format(n="i + 1", j="q")
                    + " and source_pixel_count[q] >= 0 and implies(source_pixel_count[q] == 0, mapped_to_source[q] == 0))",
                    "forall(j, P, lambda q: source_pixel_count[q] == " + _MC.format(n="i", j="q") + " and mapped_to_source[q] == " + _MT.format(n="i", j="q")
                    + " and source_pixel_count[q] >= 0 and implies(source_pixel_count[q] == 0, mapped_to_source[q] == 0))"]},
        2: {"inv": ["forall(0, j, lambda q: mapped_to_source[q] == (" + _MT.format(n="N", j="q") + " / " + _MC.format(n="N", j="q") + " if " + _MC.format(n="N", j="q") + " > 0 else 0))",
                    "forall(j, P, lambda q: mapped_to_source[q] == " + _MT.format(n="N", j="q") + " and source_pixel_count[q] >= 0 and implies(source_pixel_count[q] == 0, mapped_to_source[q] == 0))"]},
    },
    sentence={"sumto": "each source pixel receives the mean of value*weight over the data pixels mapped to it with positive weight"},
)


def _g_ms(rng, tier):
    for _ in range(gens.budget(tier, 200, 3000)):
        n, p = rng.randint(0, 5), rng.randint(0, 4)
        m = gens.reals(rng, (n, p), -1, 1, special=False)
        m[m < rng.choice([-1.0, 0.0, 0.3])] = 0.0
        yield {"mapping_matrix": m, "array_slim": gens.reals(rng, (n,), -3, 3, special=False)}


CONTRACTS[_MS_K].gen = _g_ms
CONTRACTS[_MS_K].nontrivial = lambda mapping_matrix, **kw: mapping_matrix.size > 0 and bool((mapping_matrix > 0).any()) and bool((mapping_matrix <= 0).any())


# ----------------------------------------------------------------------------------------------- adaptive pixel signals (bounded)
# Engine C only.  The kernel uses numpy fancy-index augmented assignment (`a[rows] += v`, duplicates applied once, -1 wrapping
# to the last element), boolean-mask assignment and whole-array in-place division, none of which engine A models; the run-time
# contract below is checked on inputs of the shape the rectangular / Delaunay mappers produce (every sub-pixel has either one
# mapping or a full row of distinct mappings).
_SG = ("sumto(S, lambda s: sumto(sz[s], lambda c: ((adapt_data[sl[s]] * (w[s, c] if sz[s] > 1 else 1)) if idx[s, c] == {p} else 0)))")
_SN = "sumto(S, lambda s: sumto(sz[s], lambda c: (1 if idx[s, c] == {p} else 0)))"
macro("c06_sigmean", ["idx", "w", "sz", "sl", "adapt_data", "S", "p"],
      _SG.format(p="p") + " / max(" + _SN.format(p="p") + ", 1)")
_SM = lambda p: "c06_sigmean(idx, w, sz, sl, adapt_data, S, %s)" % p
_AS_K = MU + "adaptive_pixel_signals_from"
contract(
    _AS_K, props=["C06"], mode="bounded",
    types={"pixels": "int", "pixel_weights": "real[2]", "signal_scale": "real", "pix_indexes_for_sub_slim_index": "int[2]",
           "pix_size_for_sub_slim_index": "int[1]", "slim_index_for_sub_slim_index": "int[1]", "adapt_data": "real[1]"},
    returns="real[1]",
    let={"idx": "pix_indexes_for_sub_slim_index", "w": "pixel_weights", "sz": "pix_size_for_sub_slim_index", "sl": "slim_index_for_sub_slim_index",
         "S": "pix_indexes_for_sub_slim_index.shape[0]", "C": "pix_indexes_for_sub_slim_index.shape[1]"},
    requires=["pixels >= 1", "w.shape[0] == S", "w.shape[1] == C", "sz.shape[0] == S", "sl.shape[0] == S", "signal_scale >= 0",
              "forall(0, S, lambda s: (sz[s] == 1 or sz[s] == C) and 0 <= sl[s] and sl[s] < adapt_data.shape[0])",
              "forall(0, S, lambda s: forall(0, sz[s], lambda c: 0 <= idx[s, c] and idx[s, c] < pixels and w[s, c] >= 0"
              " and forall(0, c, lambda c2: idx[s, c2] != idx[s, c])))",
              "forall(0, adapt_data.shape[0], lambda i: adapt_data[i] >= 0)",
              "exists(0, pixels, lambda q: " + _SM("q") + " > 0)"],
    ensures=["result.shape[0] == pixels",
             # mean adapt-data signal of the sub-pixels mapped to each source pixel, normalised to a maximum of one, to the power signal_scale
             "exists(0, pixels, lambda q: forall(0, pixels, lambda p: " + _SM("p") + " <= " + _SM("q") + ")"
             " and forall(0, pixels, lambda p: result[p] == (" + _SM("p") + " / " + _SM("q") + ") ** signal_scale))"],
    sentence={"c06_sigmean": "pixel signals are the normalised mean adapt-data signal of the sub-pixels mapped to each source pixel"},
)


def _g_as(rng, tier):
    for _ in range(gens.budget(tier, 150, 2000)):
        P, S, C, N = rng.randint(1, 5), rng.randint(1, 6), rng.randint(1, 3), rng.randint(1, 3)
        C = min(C, P)
        idx = -np.ones((S, C), dtype=int)
        w = np.zeros((S, C))
        sz = np.zeros(S, dtype=int)
        for s in range(S):
            sz[s] = rng.choice([1, C])
            idx[s, :sz[s]] = rng.sample(range(P), int(sz[s]))
            w[s, :sz[s]] = [rng.uniform(0, 1) for _ in range(int(sz[s]))]
        yield {"pixels": P, "pixel_weights": w, "signal_scale": rng.choice([0.0, 0.5, 1.0, 2.0]), "pix_indexes_for_sub_slim_index": idx,
               "pix_size_for_sub_slim_index": sz, "slim_index_for_sub_slim_index": np.array([rng.randrange(N) for _ in range(S)], dtype=int),
               "adapt_data": gens.reals(rng, (N,), 0.1, 3, special=False)}


CONTRACTS[_AS_K].gen = _g_as


# ----------------------------------------------------------------------------------------------- end-to-end corollary (Delaunay)
corollary("C06.delaunay_rows_sum_to_one", props=["C06"],
          vars={"G": "real[2]", "MG": "real[2]", "idx": "int[2]", "sz": "int[1]", "sl": "int[1]", "fr": "real[1]", "N": "int"},
          let={"S": "sl.shape[0]", "V": "MG.shape[0]"},
          requires=["N >= 0", "idx.shape[0] == S", "idx.shape[1] == 3", "G.shape[0] == S", "G.shape[1] == 2", "MG.shape[1] == 2",
                    "sz.shape[0] == S", "fr.shape[0] == N",
                    # what the simplex lookup delivers: one nearest vertex (size 1) or the three vertices of a non-degenerate simplex
                    "forall(0, S, lambda s: (idx[s, 1] == -1 and sz[s] == 1 and 0 <= idx[s, 0] and idx[s, 0] < V) or (sz[s] == 3"
                    " and 0 <= idx[s, 0] and idx[s, 0] < V and 0 <= idx[s, 1] and idx[s, 1] < V and 0 <= idx[s, 2] and idx[s, 2] < V"
                    " and c06_cross(" + ", ".join("MG[idx[s, %d], %d]" % (j, d) for j in range(3) for d in range(2)) + ") != 0))",
                    "forall(0, S, lambda s: 0 <= sl[s] and sl[s] < N)", "forall(0, N, lambda i: fr[i] >= 0)",
                    # the sub-fractions of the sub-pixels of every image pixel add up to one
                    "forall(0, N, lambda i: sumto(S, lambda s: (fr[i] if sl[s] == i else 0)) == 1)"],
          calls=[("W", MU + "pixel_weights_delaunay_from", {"source_plane_data_grid": "G", "source_plane_mesh_grid": "MG",
                                                           "slim_index_for_sub_slim_index": "sl", "pix_indexes_for_sub_slim_index": "idx"}),
                 ("MM", MU + "mapping_matrix_from", {"pix_indexes_for_sub_slim_index": "idx", "pix_size_for_sub_slim_index": "sz",
                                                     "pix_weights_for_sub_slim_index": "W", "pixels": "V", "total_mask_pixels": "N",
                                                     "slim_index_for_sub_slim_index": "sl", "sub_fraction": "fr"})],
          ensures=["forall(0, S, lambda s: sumto(sz[s], lambda c: W[s, c]) == 1)",
                   "forall(0, N, lambda i: sumto(V, lambda p: MM[i, p]) == 1)",
                   "forall(0, N, lambda i: forall(0, V, lambda p: MM[i, p] >= 0))"],
          sentence="for Delaunay pixelizations every row of the mapping matrix is non-negative and sums to one")

corollary("C06.rectangular_rows_sum_to_one", props=["C06"],
          vars={"idx": "int[2]", "sz": "int[1]", "w": "real[2]", "sl": "int[1]", "fr": "real[1]", "N": "int", "P": "int"},
          let={"S": "sl.shape[0]"},
          requires=["N >= 0", "P >= 0", "idx.shape[0] == S", "idx.shape[1] >= 1", "w.shape[0] == S", "w.shape[1] == idx.shape[1]", "sz.shape[0] == S",
                    "fr.shape[0] == N",
                    # rectangular mapper: every sub-pixel maps to the one cell that contains it, with weight one (the indicator)
                    "forall(0, S, lambda s: sz[s] == 1 and w[s, 0] == 1 and 0 <= idx[s, 0] and idx[s, 0] < P and 0 <= sl[s] and sl[s] < N)",
                    "forall(0, N, lambda i: fr[i] >= 0)",
                    "forall(0, N, lambda i: sumto(S, lambda s: (fr[i] if sl[s] == i else 0)) == 1)"],
          calls=[("MM", MU + "mapping_matrix_from", {"pix_indexes_for_sub_slim_index": "idx", "pix_size_for_sub_slim_index": "sz",
                                                     "pix_weights_for_sub_slim_index": "w", "pixels": "P", "total_mask_pixels": "N",
                                                     "slim_index_for_sub_slim_index": "sl", "sub_fraction": "fr"})],
          ensures=["forall(0, N, lambda i: sumto(P, lambda p: MM[i, p]) == 1)",
                   "forall(0, N, lambda i: forall(0, P, lambda p: MM[i, p] >= 0))"],
          sentence="for rectangular pixelizations every row of the mapping matrix is non-negative and sums to one")


# ----------------------------------------------------------------------------------------------- symmetry in pixel-index form
# every flat index p < H*W is the index of exactly one cell (c06_rowof(p), c06_colof(p)): the cell-coordinate statements above
# therefore cover every source pixel, and symmetry can be stated over pixel indices (what the regularization schemes consume)
_CELL = ("0 <= c06_rowof(H, W, p) and c06_rowof(H, W, p) < {n} and 0 <= c06_colof(H, W, p) and c06_colof(H, W, p) < W"
         " and c06_flat(H, W, c06_rowof(H, W, p), c06_colof(H, W, p)) == p")
spec_fn("c06_rowof", params=[("H", "$int"), ("W", "$int"), ("p", "int")], ret="int",
        axioms=["forall(0, H, lambda r: forall(" + _FL("r", "0") + ", " + _FL("r", "0") + " + W, lambda p: c06_rowof(H, W, p) == r,"
                " pat=((c06_rowof(H, W, p), " + _FL("r", "0") + "),)))"],
        py=lambda H, W, p: int(p // W) if W > 0 else 0, doc="row of the cell with flat index p")
spec_fn("c06_colof", params=[("H", "$int"), ("W", "$int"), ("p", "int")], ret="int",
        axioms=["forall(0, H, lambda r: forall(" + _FL("r", "0") + ", " + _FL("r", "0") + " + W, lambda p: c06_colof(H, W, p) == p - " + _FL("r", "0") + ","
                " pat=((c06_colof(H, W, p), " + _FL("r", "0") + "),)))"],
        lemmas=[dict(name="surj", induct="n", lo=0, hi="H", hints=[_FL("n", "0"), _FL("n + 1", "0")], export=False,
                     stmt="forall(0, " + _FL("n", "0") + ", lambda p: implies(W >= 1 and H >= 0, " + _CELL.format(n="n") + "), pat=c06_rowof(H, W, p))"),
                dict(name="surj_all", noinduct=True, hints=[_FL("H", "0")],
                     stmt="forall(0, H * W, lambda p: implies(W >= 1 and H >= 0, " + _CELL.format(n="H") + "), pat=c06_rowof(H, W, p))")],
        py=lambda H, W, p: int(p % W) if W > 0 else 0, doc="column of the cell with flat index p")

_CF = lambda p: _FL("c06_rowof(H, W, %s)" % p, "c06_colof(H, W, %s)" % p)          # p written through its cell: flat(rowof(p), colof(p))
_LP = "(" + " or ".join("R[0][{a}, %d] == {b}" % k for k in range(4)) + ")"
_ISCELL = lambda p: ("0 <= c06_rowof(H, W, {p}) and c06_rowof(H, W, {p}) < H and 0 <= c06_colof(H, W, {p}) and c06_colof(H, W, {p}) < W"
                     " and " + _CF(p) + " == {p}").format(p=p)
corollary("C06.rect_neighbors_symmetric", props=["C06", "C07"],
          vars={"shape_native": "(int,int)"}, let={"H": "shape_native[0]", "W": "shape_native[1]"}, requires=["H >= 3", "W >= 3"],
          calls=[("R", ME + "rectangular_neighbors_from", {"shape_native": "shape_native"})],
          # every pixel index is the flat index of its cell (so `_CF(p)` below IS p), and q is listed for p iff p is listed for q
          ensures=["forall(0, H * W, lambda p: forall(0, H * W, lambda q: " + _ISCELL("p") + " and " + _ISCELL("q")
                   + " and iff(" + _LP.format(a=_CF("p"), b=_CF("q")) + ", " + _LP.format(a=_CF("q"), b=_CF("p")) + ")))"],
          sentence="source-pixel neighbour lists are symmetric: q is in neighbors[p] iff p is in neighbors[q], for all pixel indices")
