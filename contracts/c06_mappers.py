"""C06 -- mapping matrices conserve flux and encode the claimed interpolation; the sparse unique-mapping
representation encodes the same matrix; rectangular neighbour lists are the 4-connectivity (symmetric)."""
import numpy as np
from pyvc.contract import contract, corollary, macro, spec_fn, CONTRACTS
from pyvc import gens

MU = "autoarray.inversion.pixelization.mappers.mapper_util:"
ME = "autoarray.inversion.pixelization.mesh.mesh_util:"


# ----------------------------------------------------------------------------------------------- mapping matrix
# interpolation weight of source pixel p for sub-pixel s: the weights of those of its entries that name p
def _c06_wt_py(idx, w, sz, s, p):
    return float(sum(w[s, c] for c in range(int(sz[s])) if int(idx[s, c]) == p))


macro("c06_wt", ["idx", "w", "sz", "s", "p"], "sumto(sz[s], lambda c: (w[s, c] if idx[s, c] == p else 0))", py=_c06_wt_py)

# entry (i, p) of the matrix the property describes: sum over the sub-pixels s of image pixel i of frac[i] * weight_s(p)
_MM = "sumto({n}, lambda s: (fr[i] * c06_wt(idx, w, sz, s, p) if sl[s] == i else 0))"

_MM_LET = {"S": "slim_index_for_sub_slim_index.shape[0]", "C": "pix_indexes_for_sub_slim_index.shape[1]",
           "idx": "pix_indexes_for_sub_slim_index", "w": "pix_weights_for_sub_slim_index",
           "sz": "pix_size_for_sub_slim_index", "sl": "slim_index_for_sub_slim_index", "fr": "sub_fraction",
           "N": "total_mask_pixels", "P": "pixels"}
_MM_REQ = ["N >= 0", "P >= 0", "idx.shape[0] == S", "w.shape[0] == S", "w.shape[1] == C", "sz.shape[0] == S", "fr.shape[0] == N",
           "forall(0, S, lambda s: 0 <= sz[s] and sz[s] <= C)",
           "forall(0, S, lambda s: 0 <= sl[s] and sl[s] < N)",
           "forall(0, S, lambda s: forall(0, sz[s], lambda c: 0 <= idx[s, c] and idx[s, c] < P))"]


# ---- row sums.  c06_dep(i, n, s, c): total weight deposited into columns [0, n) of row i by the interpolation entries
# scanned strictly before entry c of sub-pixel s ((s, sz[s]) == (s+1, 0)) -- the scan-order reading of "sum over the
# sub-pixels of pixel i, over their entries".  Lemmas: summing the matrix formula over the columns p < n gives exactly
# that deposit (Fubini, by induction), and when every entry names a column in [0, P) the deposit is the sum of the
# sub-fractions times the total weight of each sub-pixel.
def _c06_dep_py(idx, w, sz, sl, fr, P, i, n, s, c):
    tot = 0.0
    for t in range(0, s + 1):
        if t >= sl.shape[0]:
            break
        hi = int(sz[t]) if t < s else c
        for k in range(hi):
            if int(sl[t]) == i and 0 <= int(idx[t, k]) < n:
                tot += fr[i] * w[t, k]
    return float(tot)


_DP = "c06_dep(idx, w, sz, sl, fr, P, {i}, {n}, {s}, {c})"
_D = lambda i="i", n="n", s="s", c="c": _DP.format(i=i, n=n, s=s, c=c)
_SHP = "idx.shape[0] == S and w.shape[0] == S and w.shape[1] == C and sz.shape[0] == S"
_SZOK = "forall(0, S, lambda s: 0 <= sz[s] and sz[s] <= C)"
_MMS = "sumto({n}, lambda t: (fr[i] * c06_wt(idx, w, sz, t, {p}) if sl[t] == i else 0))"
_ENT = "(fr[i] * w[s, c] if sl[s] == i and 0 <= idx[s, c] and idx[s, c] < n else 0)"
_INR = "forall(0, {hi}, lambda k: 0 <= idx[{s}, k] and idx[{s}, k] < P)"
spec_fn(
    "c06_dep", params=[("idx", "int[2]"), ("w", "real[2]"), ("sz", "int[1]"), ("sl", "int[1]"), ("fr", "real[1]"), ("P", "$int"),
                       ("i", "int"), ("n", "int"), ("s", "int"), ("c", "int")], ret="real",
    let={"S": "sl.shape[0]", "C": "idx.shape[1]", "N": "fr.shape[0]"},
    axioms=[
        "forall(0, N, lambda i: forall(0, P + 1, lambda n: " + _D(s="0", c="0") + " == 0, pat=" + _D(s="0", c="0") + "))",
        "forall(0, N, lambda i: forall(0, P + 1, lambda n: forall(0, S, lambda s: forall(0, C, lambda c:"
        " implies(" + _SHP + " and c < sz[s], " + _D(c="c + 1") + " == " + _D() + " + " + _ENT + "), pat=" + _D(c="c + 1") + "))))",
        "forall(0, N, lambda i: forall(0, P + 1, lambda n: forall(0, S, lambda s:"
        " implies(" + _SHP + ", " + _D(s="s + 1", c="0") + " == " + _D(c="sz[s]") + "), pat=(" + _D(s="s + 1", c="0") + ", " + _D(c="sz[s]") + "))))",
    ],
    lemmas=[
        # inside one sub-pixel: widening the column range by column n adds exactly the entries that name n
        dict(name="col_row", induct="c", lo=0, hi="C", export=False,
             stmt="forall(0, N, lambda i: forall(0, P, lambda n: forall(0, S, lambda s: implies(" + _SHP + " and c <= sz[s],"
                  " " + _D(n="n + 1") + " - " + _D(n="n + 1", c="0") + " == " + _D() + " - " + _D(c="0")
                  + " + (fr[i] * sumto(c, lambda k: (w[s, k] if idx[s, k] == n else 0)) if sl[s] == i else 0)), pat=" + _D(n="n + 1") + ")))"),
        dict(name="zero_row", induct="c", lo=0, hi="C", export=False,
             stmt="forall(0, N, lambda i: forall(0, S, lambda s: implies(" + _SHP + " and c <= sz[s],"
                  " " + _D(n="0") + " == " + _D(n="0", c="0") + "), pat=" + _D(n="0") + "))"),
        dict(name="zero", induct="s", lo=0, hi="S", export=False,
             stmt="forall(0, N, lambda i: implies(" + _SHP + " and " + _SZOK + ", " + _D(n="0", c="0") + " == 0), pat=" + _D(n="0", c="0") + ")"),
        # across sub-pixels: column n of the matrix formula is the increment of the deposit
        dict(name="col", induct="s", lo=0, hi="S", export=False,
             stmt="forall(0, N, lambda i: forall(0, P, lambda n: implies(" + _SHP + " and " + _SZOK + ","
                  " " + _D(n="n + 1", c="0") + " == " + _D(c="0") + " + " + _MMS.format(n="s", p="n") + "), pat=" + _D(n="n + 1", c="0") + "))"),
        # Fubini: the matrix formula summed over the columns p < n is the deposit into those columns
        dict(name="fubini", induct="n", lo=0, hi="P",
             stmt="forall(0, N, lambda i: implies(" + _SHP + " and " + _SZOK + ","
                  " sumto(n, lambda p: " + _MMS.format(n="S", p="p") + ") == " + _D(s="S", c="0") + "), pat=" + _D(s="S", c="0") + ")"),
        # when every entry names a column in [0, P) nothing is lost: the deposit is frac * (total weight)
        dict(name="full_row", induct="c", lo=0, hi="C", export=False,
             stmt="forall(0, N, lambda i: forall(0, S, lambda s: implies(" + _SHP + " and c <= sz[s] and " + _INR.format(hi="c", s="s") + ","
                  " " + _D(n="P") + " == " + _D(n="P", c="0") + " + (fr[i] * sumto(c, lambda k: w[s, k]) if sl[s] == i else 0)), pat=" + _D(n="P") + "))"),
        dict(name="full", induct="s", lo=0, hi="S",
             stmt="forall(0, N, lambda i: implies(" + _SHP + " and " + _SZOK + " and forall(0, s, lambda t: " + _INR.format(hi="sz[t]", s="t")
                  + " and sumto(sz[t], lambda k: w[t, k]) == 1),"
                  " " + _D(n="P", c="0") + " == sumto(s, lambda t: (fr[i] if sl[t] == i else 0))), pat=" + _D(n="P", c="0") + ")"),
    ],
    py=_c06_dep_py,
    doc="scan-order deposit of interpolation weight into the leading columns of one row of the mapping matrix (C06 row sums)",
)

# c06_rs(R, ..., i, n) = sum_{p<n} R[i, p]; the other arrays only serve the congruence lemma (R agrees with the formula)
_RS = lambda i="i", n="n": "c06_rs(R, idx, w, sz, sl, fr, %s, %s)" % (i, n)
spec_fn(
    "c06_rs", params=[("R", "real[2]"), ("idx", "int[2]"), ("w", "real[2]"), ("sz", "int[1]"), ("sl", "int[1]"), ("fr", "real[1]"),
                      ("i", "int"), ("n", "int")], ret="real",
    let={"S": "sl.shape[0]", "C": "idx.shape[1]", "N": "fr.shape[0]", "RN": "R.shape[0]", "RP": "R.shape[1]"},
    axioms=["forall(0, RN, lambda i: " + _RS(n="0") + " == 0, pat=" + _RS(n="0") + ")",
            "forall(0, RN, lambda i: forall(0, RP, lambda n: " + _RS(n="n + 1") + " == " + _RS() + " + R[i, n], pat=" + _RS(n="n + 1") + "))"],
    lemmas=[
        dict(name="sum", induct="n", lo=0, hi="RP",
             stmt="forall(0, RN, lambda i: sumto(n, lambda p: R[i, p]) == " + _RS() + ", pat=sumto(n, lambda p: R[i, p]))"),
        dict(name="cong", induct="n", lo=0, hi="RP",
             stmt="forall(0, RN, lambda i: implies(i < N and " + _SHP + " and forall(0, n, lambda p: R[i, p] == " + _MMS.format(n="S", p="p") + "),"
                  " " + _RS() + " == sumto(n, lambda p: " + _MMS.format(n="S", p="p") + ")), pat=" + _RS() + ")"),
    ],
    py=lambda R, idx, w, sz, sl, fr, i, n: float(np.sum(np.asarray(R, dtype=float)[i, :n])),
    doc="partial row sum of a matrix (C06: every row of the mapping matrix sums to one)",
)

_H1 = "forall(0, S, lambda s: sumto(sz[s], lambda c: w[s, c]) == 1)"
_H2 = "forall(0, N, lambda i: sumto(S, lambda s: (fr[i] if sl[s] == i else 0)) == 1)"
_NONNEG = "forall(0, S, lambda s: forall(0, sz[s], lambda c: w[s, c] >= 0)) and forall(0, N, lambda i: fr[i] >= 0)"

contract(
    MU + "mapping_matrix_from", props=["C06"],
    types={"pix_indexes_for_sub_slim_index": "int[2]", "pix_size_for_sub_slim_index": "int[1]",
           "pix_weights_for_sub_slim_index": "real[2]", "pixels": "int", "total_mask_pixels": "int",
           "slim_index_for_sub_slim_index": "int[1]", "sub_fraction": "real[1]"},
    returns="real[2]", let=_MM_LET, requires=_MM_REQ,
    ensures=["result.shape[0] == N", "result.shape[1] == P",
             "forall(0, N, lambda i: forall(0, P, lambda p: result[i, p] == " + _MM.format(n="S") + "))",
             # every row sums to the weight deposited in it ...
             "forall(0, N, lambda i: sumto(P, lambda p: result[i, p]) == c06_dep(idx, w, sz, sl, fr, P, i, P, S, 0))",
             # ... which is one when each sub-pixel's weights sum to one and the sub-fractions of a pixel's sub-pixels sum to one
             "implies(" + _H1 + " and " + _H2 + ", forall(0, N, lambda i: sumto(P, lambda p: result[i, p]) == 1))",
             "implies(" + _NONNEG + ", forall(0, N, lambda i: forall(0, P, lambda p: result[i, p] >= 0)))"],
    loops={
        0: {"inv": ["forall(0, N, lambda i: forall(0, P, lambda p: mapping_matrix[i, p] == " + _MM.format(n="sub_slim_index") + "))",
                    "implies(" + _NONNEG + ", forall(0, N, lambda i: forall(0, P, lambda p: mapping_matrix[i, p] >= 0)))"]},
        1: {"inv": ["forall(0, N, lambda i: forall(0, P, lambda p: mapping_matrix[i, p] == " + _MM.format(n="sub_slim_index")
                    + " + (fr[i] * sumto(pix_count, lambda c: (w[sub_slim_index, c] if idx[sub_slim_index, c] == p else 0))"
                      " if sl[sub_slim_index] == i else 0)))",
                    "implies(" + _NONNEG + ", forall(0, N, lambda i: forall(0, P, lambda p: mapping_matrix[i, p] >= 0)))"]},
    },
    sentence={"sumto": "entry (i,p) is the sum over the sub-pixels of image pixel i of the sub-fraction times the interpolation weight of source pixel p"},
)


def _mm_tables(rng, S, C, P):
    idx = -np.ones((S, C), dtype=int)
    w = np.zeros((S, C))
    sz = np.zeros(S, dtype=int)
    for s in range(S):
        sz[s] = rng.randint(0, C) if rng.random() < 0.3 else rng.randint(1, C)
        for c in range(sz[s]):
            idx[s, c] = rng.randrange(P)
            w[s, c] = rng.choice([rng.uniform(-1, 2), rng.uniform(0, 1), 0.0, 1.0])
    return idx, sz, w


def _g_mm(rng, tier):
    for _ in range(gens.budget(tier, 200, 3000)):
        N, P, C = rng.randint(1, 4), rng.randint(1, 5), rng.randint(1, 3)
        S = rng.randint(0, 8)
        idx, sz, w = _mm_tables(rng, S, C, P)
        yield {"pix_indexes_for_sub_slim_index": idx, "pix_size_for_sub_slim_index": sz, "pix_weights_for_sub_slim_index": w,
               "pixels": P, "total_mask_pixels": N,
               "slim_index_for_sub_slim_index": np.array([rng.randrange(N) for _ in range(S)], dtype=int),
               "sub_fraction": gens.reals(rng, (N,), 0, 1)}


CONTRACTS[MU + "mapping_matrix_from"].gen = _g_mm
CONTRACTS[MU + "mapping_matrix_from"].nontrivial = lambda **kw: kw["slim_index_for_sub_slim_index"].shape[0] > 1
