"""Sidecar contracts for the real functions in /repo (nothing here is a copy of repo code)."""
