"""C02 -- pixel indices and scaled (y,x) coordinates are consistent inverse maps."""
import numpy as np
from pyvc.contract import contract, corollary, macro, CONTRACTS
from pyvc import gens

G = "autoarray.geometry.geometry_util:"
G2 = "autoarray.structures.grids.grid_2d_util:"
M2 = "autoarray.mask.mask_2d_util:"

# pixel-centre formulas transcribed from the property statement
macro("cy", ["i", "H", "sy", "oy"], "oy + ((H - 1) / 2 - i) * sy", py=lambda i, H, sy, oy: oy + ((H - 1) / 2 - i) * sy)
macro("cx", ["j", "W", "sx", "ox"], "ox + (j - (W - 1) / 2) * sx", py=lambda j, W, sx, ox: ox + (j - (W - 1) / 2) * sx)

SHP = {"H": "shape_native[0]", "W": "shape_native[1]", "sy": "pixel_scales[0]", "sx": "pixel_scales[1]"}
POS = ["sy > 0", "sx > 0", "H >= 1", "W >= 1"]

contract(G + "central_pixel_coordinates_2d_from", props=["C02"],
         types={"shape_native": "(int,int)"}, returns="(real,real)",
         ensures=["result[0] == (shape_native[0] - 1) / 2", "result[1] == (shape_native[1] - 1) / 2"])

contract(G + "central_scaled_coordinate_2d_from", props=["C02", "C12"],
         types={"shape_native": "(int,int)", "pixel_scales": "(real,real)", "origin": "(real,real)"}, returns="(real,real)",
         let=SHP, requires=["sy != 0", "sx != 0"],
         ensures=["result[0] == (H - 1) / 2 + origin[0] / sy", "result[1] == (W - 1) / 2 - origin[1] / sx"])

contract(G + "scaled_coordinates_2d_from", props=["C02", "C12"],
         types={"pixel_coordinates_2d": "(int,int)", "shape_native": "(int,int)", "pixel_scales": "(real,real)",
                "origins": "(real,real)"}, returns="(real,real)",
         let=SHP, requires=["sy != 0", "sx != 0"],
         ensures=["result[0] == cy(pixel_coordinates_2d[0], H, sy, origins[0])",
                  "result[1] == cx(pixel_coordinates_2d[1], W, sx, origins[1])"],
         sentence={"cy": "pixel (i,j) has centre y = origin_y + ((H-1)/2 - i)*s_y, x = origin_x + (j-(W-1)/2)*s_x"})

contract(G + "pixel_coordinates_2d_from", props=["C02", "C12"],
         types={"scaled_coordinates_2d": "(real,real)", "shape_native": "(int,int)", "pixel_scales": "(real,real)",
                "origins": "(real,real)"}, returns="(int,int)",
         let={**SHP, "y": "scaled_coordinates_2d[0]", "x": "scaled_coordinates_2d[1]"},
         requires=POS,
         ensures=[
             # every coordinate inside the extent converts to the index of the pixel whose (open) square contains it
             "forall(0, H, lambda i: implies(cy(i, H, sy, origins[0]) - sy / 2 < y and y < cy(i, H, sy, origins[0]) + sy / 2,"
             " result[0] == i))",
             "forall(0, W, lambda j: implies(cx(j, W, sx, origins[1]) - sx / 2 < x and x < cx(j, W, sx, origins[1]) + sx / 2,"
             " result[1] == j))",
         ],
         sentence={"forall": "every coordinate inside the extent converts to the index of the pixel whose square contains it"})

corollary("C02.centre_roundtrip", props=["C02"],
          vars={"i": "int", "j": "int", "shape_native": "(int,int)", "pixel_scales": "(real,real)", "origins": "(real,real)"},
          let=SHP, requires=POS + ["0 <= i", "i < H", "0 <= j", "j < W"],
          calls=[("s", G + "scaled_coordinates_2d_from", {"pixel_coordinates_2d": "(i, j)", "shape_native": "shape_native",
                                                          "pixel_scales": "pixel_scales", "origins": "origins"}),
                 ("p", G + "pixel_coordinates_2d_from", {"scaled_coordinates_2d": "s", "shape_native": "shape_native",
                                                         "pixel_scales": "pixel_scales", "origins": "origins"})],
          ensures=["p[0] == i", "p[1] == j"],
          sentence="converting a pixel centre to an index and back is the identity")


def _g_scalar(rng, tier):
    for _ in range(gens.budget(tier, 300, 5000)):
        H, W = rng.randint(1, 9), rng.randint(1, 9)
        sy, sx = rng.choice([0.5, 1.0, 2.0, 0.1, 3.7]), rng.choice([0.5, 1.0, 2.0, 0.1, 1.3])
        o = (rng.choice([0.0, 1.5, -2.25, 10.0]), rng.choice([0.0, -0.75, 3.0]))
        i, j = rng.randrange(H), rng.randrange(W)
        fy, fx = rng.uniform(-0.49, 0.49), rng.uniform(-0.49, 0.49)
        y = o[0] + ((H - 1) / 2 - i) * sy + fy * sy
        x = o[1] + (j - (W - 1) / 2) * sx + fx * sx
        yield {"H": H, "W": W, "s": (sy, sx), "o": o, "i": i, "j": j, "y": y, "x": x}


def _wrap(f):
    return lambda rng, tier: (f(d) for d in _g_scalar(rng, tier))


CONTRACTS[G + "central_pixel_coordinates_2d_from"].gen = _wrap(lambda d: {"shape_native": (d["H"], d["W"])})
CONTRACTS[G + "central_scaled_coordinate_2d_from"].gen = _wrap(lambda d: {"shape_native": (d["H"], d["W"]), "pixel_scales": d["s"], "origin": d["o"]})
CONTRACTS[G + "scaled_coordinates_2d_from"].gen = _wrap(lambda d: {"pixel_coordinates_2d": (d["i"], d["j"]), "shape_native": (d["H"], d["W"]),
                                                                  "pixel_scales": d["s"], "origins": d["o"]})
CONTRACTS[G + "pixel_coordinates_2d_from"].gen = _wrap(lambda d: {"scaled_coordinates_2d": (d["y"], d["x"]), "shape_native": (d["H"], d["W"]),
                                                                 "pixel_scales": d["s"], "origins": d["o"]})


# ----------------------------------------------------------------------------- grid loops
GS = {"H": "shape_native[0]", "W": "shape_native[1]", "sy": "pixel_scales[0]", "sx": "pixel_scales[1]",
      "oy": "origin[0]", "ox": "origin[1]"}
GT = {"shape_native": "(int,int)", "pixel_scales": "(real,real)", "origin": "(real,real)"}

contract(G + "grid_scaled_2d_slim_from", props=["C02", "C12"],
         types={"grid_pixels_2d_slim": "real[2]", **GT}, returns="real[2]",
         let={**GS, "N": "grid_pixels_2d_slim.shape[0]", "P": "grid_pixels_2d_slim"},
         requires=["sy != 0", "sx != 0", "P.shape[1] == 2"],
         ensures=["result.shape[0] == N", "result.shape[1] == 2",
                  # continuous pixel coordinate p (pixel i covers [i, i+1)) -> scaled: centre of pixel i is p = i + 1/2
                  "forall(0, N, lambda k: result[k, 0] == oy + ((H - 1) / 2 - (P[k, 0] - 1 / 2)) * sy"
                  " and result[k, 1] == ox + ((P[k, 1] - 1 / 2) - (W - 1) / 2) * sx)"],
         loops={0: {"inv": ["forall(0, slim_index, lambda k: grid_scaled_2d_slim[k, 0] == oy + ((H - 1) / 2 - (P[k, 0] - 1 / 2)) * sy"
                            " and grid_scaled_2d_slim[k, 1] == ox + ((P[k, 1] - 1 / 2) - (W - 1) / 2) * sx)"],
                    "assert_at": {0: ["-(P[slim_index, 0] - centres_scaled[0] - 1 / 2) * sy == oy + ((H - 1) / 2 - (P[slim_index, 0] - 1 / 2)) * sy",
                                      "(P[slim_index, 1] - centres_scaled[1] - 1 / 2) * sx == ox + ((P[slim_index, 1] - 1 / 2) - (W - 1) / 2) * sx"]}}})

contract(G + "grid_pixels_2d_slim_from", props=["C02", "C12"],
         types={"grid_scaled_2d_slim": "real[2]", **GT}, returns="real[2]",
         let={**GS, "N": "grid_scaled_2d_slim.shape[0]", "S": "grid_scaled_2d_slim"},
         requires=["sy != 0", "sx != 0", "S.shape[1] == 2"],
         ensures=["result.shape[0] == N", "result.shape[1] == 2",
                  "forall(0, N, lambda k: result[k, 0] == (oy - S[k, 0]) / sy + (H - 1) / 2 + 1 / 2"
                  " and result[k, 1] == (S[k, 1] - ox) / sx + (W - 1) / 2 + 1 / 2)"],
         loops={0: {"inv": ["forall(0, slim_index, lambda k: grid_pixels_2d_slim[k, 0] == (oy - S[k, 0]) / sy + (H - 1) / 2 + 1 / 2"
                            " and grid_pixels_2d_slim[k, 1] == (S[k, 1] - ox) / sx + (W - 1) / 2 + 1 / 2)"],
                    "assert_at": {0: ["-S[slim_index, 0] / sy + centres_scaled[0] + 1 / 2 == (oy - S[slim_index, 0]) / sy + (H - 1) / 2 + 1 / 2",
                                      "S[slim_index, 1] / sx + centres_scaled[1] + 1 / 2 == (S[slim_index, 1] - ox) / sx + (W - 1) / 2 + 1 / 2"]}}})

corollary("C02.continuous_roundtrip", props=["C02"],
          vars={"P": "real[2]", "shape_native": "(int,int)", "pixel_scales": "(real,real)", "origin": "(real,real)"},
          let={"sy": "pixel_scales[0]", "sx": "pixel_scales[1]"}, requires=["sy != 0", "sx != 0", "P.shape[1] == 2"],
          calls=[("S", G + "grid_scaled_2d_slim_from", {"grid_pixels_2d_slim": "P", "shape_native": "shape_native",
                                                        "pixel_scales": "pixel_scales", "origin": "origin"}),
                 ("Q", G + "grid_pixels_2d_slim_from", {"grid_scaled_2d_slim": "S", "shape_native": "shape_native",
                                                        "pixel_scales": "pixel_scales", "origin": "origin"})],
          ensures=["Q.shape[0] == P.shape[0]", "forall(0, P.shape[0], lambda k: Q[k, 0] == P[k, 0] and Q[k, 1] == P[k, 1])"],
          sentence="the continuous pixel-coordinate conversion and its inverse compose to the identity")

_INY = "cy(i, H, sy, oy) - sy / 2 < S[k, 0] and S[k, 0] < cy(i, H, sy, oy) + sy / 2"
_INX = "cx(j, W, sx, ox) - sx / 2 < S[k, 1] and S[k, 1] < cx(j, W, sx, ox) + sx / 2"
contract(G + "grid_pixel_centres_2d_slim_from", props=["C02", "C12"],
         types={"grid_scaled_2d_slim": "real[2]", **GT}, returns="real[2]",
         let={**GS, "N": "grid_scaled_2d_slim.shape[0]", "S": "grid_scaled_2d_slim"},
         requires=["sy > 0", "sx > 0", "H >= 1", "W >= 1", "S.shape[1] == 2"],
         ensures=["result.shape[0] == N", "result.shape[1] == 2",
                  "forall(0, N, lambda k: forall(0, H, lambda i: implies(" + _INY + ", result[k, 0] == i), pat=((result[k, 0], toreal(i)),)))",
                  "forall(0, N, lambda k: forall(0, W, lambda j: implies(" + _INX + ", result[k, 1] == j), pat=((result[k, 1], toreal(j)),)))"],
         loops={0: {"inv": ["forall(0, slim_index, lambda k: forall(0, H, lambda i: implies(" + _INY + ", grid_pixels_2d_slim[k, 0] == i)))",
                            "forall(0, slim_index, lambda k: forall(0, W, lambda j: implies(" + _INX + ", grid_pixels_2d_slim[k, 1] == j)))"],
                    "assert_at": {0: [
                        "forall(0, H, lambda i: implies(cy(i, H, sy, oy) - sy / 2 < S[slim_index, 0] and S[slim_index, 0] < cy(i, H, sy, oy) + sy / 2,"
                        " toint(-S[slim_index, 0] / sy + centres_scaled[0] + 1 / 2) == i))",
                        "forall(0, W, lambda j: implies(cx(j, W, sx, ox) - sx / 2 < S[slim_index, 1] and S[slim_index, 1] < cx(j, W, sx, ox) + sx / 2,"
                        " toint(S[slim_index, 1] / sx + centres_scaled[1] + 1 / 2) == j))"]}}},
         sentence={"forall": "every coordinate inside the extent converts to the index of the pixel whose square contains it"})

contract(G + "grid_pixel_indexes_2d_slim_from", props=["C02", "C12"],
         types={"grid_scaled_2d_slim": "real[2]", **GT}, returns="real[1]",
         let={**GS, "N": "grid_scaled_2d_slim.shape[0]", "S": "grid_scaled_2d_slim"},
         requires=["sy > 0", "sx > 0", "H >= 1", "W >= 1", "S.shape[1] == 2"],
         ensures=["result.shape[0] == N",
                  # ... with flattened index i*W + j
                  "forall(0, N, lambda k: forall(0, H, lambda i: forall(0, W, lambda j: implies((" + _INY + ") and (" + _INX + "),"
                  " result[k] == i * W + j), pat=((result[k], toreal(i), toreal(j)),))))"],
         loops={0: {"inv": ["forall(0, slim_index, lambda k: forall(0, H, lambda i: forall(0, W, lambda j: implies((" + _INY + ") and (" + _INX + "),"
                            " grid_pixel_indexes_2d_slim[k] == i * W + j))))"],
                    "assert_at": {0: [
                        "forall(0, H, lambda i: forall(0, W, lambda j: implies("
                        "(cy(i, H, sy, oy) - sy / 2 < S[slim_index, 0] and S[slim_index, 0] < cy(i, H, sy, oy) + sy / 2) and"
                        " (cx(j, W, sx, ox) - sx / 2 < S[slim_index, 1] and S[slim_index, 1] < cx(j, W, sx, ox) + sx / 2),"
                        " grid_pixels_2d_slim[slim_index, 0] == i and grid_pixels_2d_slim[slim_index, 1] == j)))",
                        "forall(0, H, lambda i: forall(0, W, lambda j: implies("
                        "grid_pixels_2d_slim[slim_index, 0] == i and grid_pixels_2d_slim[slim_index, 1] == j,"
                        " toint(grid_pixels_2d_slim[slim_index, 0] * W + grid_pixels_2d_slim[slim_index, 1]) == i * W + j)))"]}}},
         sentence={"forall": "... with flattened index i*W + j"})

contract(G2 + "grid_2d_slim_via_mask_from", props=["C02", "C12", "C01"],
         types={"mask_2d": "bool[2]", "pixel_scales": "(real,real)", "origin": "(real,real)"}, returns="real[2]",
         let={"H": "mask_2d.shape[0]", "W": "mask_2d.shape[1]", "sy": "pixel_scales[0]", "sx": "pixel_scales[1]",
              "oy": "origin[0]", "ox": "origin[1]"},
         requires=["sy != 0", "sx != 0"],
         ensures=["result.shape[0] == total(mask_2d)", "result.shape[1] == 2",
                  "forall(0, H, lambda y: forall(0, W, lambda x: implies(not mask_2d[y, x],"
                  " result[cnt2(mask_2d, y, x), 0] == cy(y, H, sy, oy) and result[cnt2(mask_2d, y, x), 1] == cx(x, W, sx, ox))))"],
         loops={
             0: {"inv": ["index == cnt2(mask_2d, y, 0)",
                         "forall(0, y, lambda yy: forall(0, W, lambda xx: implies(not mask_2d[yy, xx],"
                         " grid_slim[cnt2(mask_2d, yy, xx), 0] == cy(yy, H, sy, oy) and grid_slim[cnt2(mask_2d, yy, xx), 1] == cx(xx, W, sx, ox))))"]},
             1: {"inv": ["index == cnt2(mask_2d, y, x)",
                         "forall(0, y, lambda yy: forall(0, W, lambda xx: implies(not mask_2d[yy, xx],"
                         " grid_slim[cnt2(mask_2d, yy, xx), 0] == cy(yy, H, sy, oy) and grid_slim[cnt2(mask_2d, yy, xx), 1] == cx(xx, W, sx, ox))))",
                         "forall(0, x, lambda xx: implies(not mask_2d[y, xx],"
                         " grid_slim[cnt2(mask_2d, y, xx), 0] == cy(y, H, sy, oy) and grid_slim[cnt2(mask_2d, y, xx), 1] == cx(xx, W, sx, ox)))"],
                 "assert_at": {0: ["-(y - centres_scaled[0]) * sy == cy(y, H, sy, oy)", "(x - centres_scaled[1]) * sx == cx(x, W, sx, ox)"]}},
         },
         sentence={"forall": "the grid of a mask lists the pixel centres of its unmasked pixels in slim order"})


# ----------------------------------------------------------------------------- shape-based mask constructors
MS = {"H": "shape_native[0]", "W": "shape_native[1]", "sy": "pixel_scales[0]", "sx": "pixel_scales[1]",
      "c0": "centre[0]", "c1": "centre[1]"}
# distance of the centre of pixel (y,x), measured relative to the mask origin (0,0), from the requested centre
macro("rdist", ["y", "x", "H", "W", "sy", "sx", "c0", "c1"],
      "sqrt((cx(x, W, sx, 0) - c1) ** 2 + (cy(y, H, sy, 0) - c0) ** 2)",
      py=lambda y, x, H, W, sy, sx, c0, c1: float(np.sqrt(((x - (W - 1) / 2) * sx - c1) ** 2 + (((H - 1) / 2 - y) * sy - c0) ** 2)))

contract(M2 + "mask_2d_centres_from", props=["C02"],
         types={"shape_native": "(int,int)", "pixel_scales": "(real,real)", "centre": "(real,real)"}, returns="(real,real)",
         let=MS, requires=["sy != 0", "sx != 0"],
         ensures=["result[0] == (H - 1) / 2 - c0 / sy", "result[1] == (W - 1) / 2 + c1 / sx"])


def _mask_ctor(name, extra_types, cond, sent, asserts_extra=()):
    R = "rdist(yy, xx, H, W, sy, sx, c0, c1)"
    inv_rows = "forall(0, y, lambda yy: forall(0, W, lambda xx: mask_2d[yy, xx] == (not (%s))))" % cond.replace("RR", R)
    inv_row = "forall(0, x, lambda xx: mask_2d[y, xx] == (not (%s)))" % cond.replace("RR", "rdist(y, xx, H, W, sy, sx, c0, c1)")
    contract(M2 + name, props=["C02"],
             types={"shape_native": "(int,int)", "pixel_scales": "(real,real)", **extra_types, "centre": "(real,real)"},
             returns="bool[2]", let=MS, requires=["sy != 0", "sx != 0", "H >= 0", "W >= 0"],
             ensures=["result.shape[0] == H", "result.shape[1] == W",
                      "forall(0, H, lambda yy: forall(0, W, lambda xx: (not result[yy, xx]) == (%s)))" % cond.replace("RR", R)],
             loops={0: {"inv": [inv_rows, "forall(y, H, lambda yy: forall(0, W, lambda xx: mask_2d[yy, xx]))"]},
                    1: {"inv": [inv_rows, inv_row, "forall(y + 1, H, lambda yy: forall(0, W, lambda xx: mask_2d[yy, xx]))",
                                "forall(x, W, lambda xx: mask_2d[y, xx])"],
                        "assert_at": {2: ["x_scaled == cx(x, W, sx, 0) - c1", "y_scaled == -(cy(y, H, sy, 0) - c0)",
                                          "x_scaled ** 2 + y_scaled ** 2 == (cx(x, W, sx, 0) - c1) ** 2 + (cy(y, H, sy, 0) - c0) ** 2"],
                                      3: ["r_scaled == rdist(y, x, H, W, sy, sx, c0, c1)"]}}},
             sentence={"forall": sent})


_mask_ctor("mask_2d_circular_from", {"radius": "real"}, "RR <= radius",
           "circular: unmask exactly the pixels whose centre lies within `radius` of the requested centre")
_mask_ctor("mask_2d_circular_annular_from", {"inner_radius": "real", "outer_radius": "real"},
           "inner_radius <= RR and RR <= outer_radius",
           "annular: unmask exactly the pixels whose centre distance r satisfies inner <= r <= outer")
_mask_ctor("mask_2d_circular_anti_annular_from", {"inner_radius": "real", "outer_radius": "real", "outer_radius_2_scaled": "real"},
           "RR <= inner_radius or (outer_radius <= RR and RR <= outer_radius_2_scaled)",
           "anti-annular: unmask exactly the pixels with r <= inner or outer <= r <= outer_2")


def _g_ctor(extra):
    def g(rng, tier):
        for _ in range(gens.budget(tier, 60, 1500)):
            H, W = rng.randint(1, 8), rng.randint(1, 8)
            s = (rng.choice([0.5, 1.0, 2.0, 0.3]), rng.choice([0.5, 1.0, 1.7]))
            c = (rng.choice([0.0, 0.37, -1.21]), rng.choice([0.0, -0.53, 0.91]))
            kw = {"shape_native": (H, W), "pixel_scales": s, "centre": c}
            r1 = rng.uniform(0.1, 3.0) + 1e-4 * rng.random()
            r2 = r1 + rng.uniform(0.1, 2.0)
            r3 = r2 + rng.uniform(0.1, 2.0)
            kw.update(extra(r1, r2, r3))
            yield kw
    return g


def _no_tie(radii):
    def nt(shape_native, pixel_scales, centre, **kw):
        H, W = shape_native
        for y in range(H):
            for x in range(W):
                r = np.sqrt(((x - (W - 1) / 2) * pixel_scales[1] - centre[1]) ** 2 + (((H - 1) / 2 - y) * pixel_scales[0] - centre[0]) ** 2)
                if any(abs(r - kw[k]) < 1e-7 for k in radii):
                    return False
        return True
    return nt


CONTRACTS[M2 + "mask_2d_circular_from"].gen = _g_ctor(lambda a, b, c: {"radius": a})
CONTRACTS[M2 + "mask_2d_circular_annular_from"].gen = _g_ctor(lambda a, b, c: {"inner_radius": a, "outer_radius": b})
CONTRACTS[M2 + "mask_2d_circular_anti_annular_from"].gen = _g_ctor(lambda a, b, c: {"inner_radius": a, "outer_radius": b, "outer_radius_2_scaled": c})
CONTRACTS[M2 + "mask_2d_centres_from"].gen = _g_ctor(lambda a, b, c: {})


# elliptical variants.  The docstrings give no closed formula ("rotation angle counter-clockwise from the positive
# x-axis", "axis-ratio = minor/major"); the elliptical radius is therefore specified by the formula of
# `elliptical_radius_from` applied to the pixel centre relative to the requested centre, with the row axis pointing
# down as the constructors pass it.  sin/cos/arctan2 are uninterpreted: swapped functions, a wrong axis-ratio
# placement or a wrong offset fail by congruence.
macro("ellr", ["ys", "xs", "angle", "q"],
      "sqrt((sqrt(xs ** 2 + ys ** 2) * cos(arctan2(ys, xs) + radians(angle))) ** 2"
      " + (sqrt(xs ** 2 + ys ** 2) * sin(arctan2(ys, xs) + radians(angle)) / q) ** 2)",
      py=lambda ys, xs, angle, q: float(np.sqrt((np.sqrt(xs ** 2 + ys ** 2) * np.cos(np.arctan2(ys, xs) + np.radians(angle))) ** 2
                                                + (np.sqrt(xs ** 2 + ys ** 2) * np.sin(np.arctan2(ys, xs) + np.radians(angle)) / q) ** 2)),
      opaque=(["real", "real", "real", "real"], "real"))

contract(M2 + "elliptical_radius_from", props=["C02"],
         types={"y_scaled": "real", "x_scaled": "real", "angle": "real", "axis_ratio": "real"}, returns="real",
         requires=["axis_ratio != 0"], reveal=["ellr"],
         ensures=["result == ellr(y_scaled, x_scaled, angle, axis_ratio)"])

_YS = "-(cy({y}, H, sy, 0) - c0)"
_XS = "(cx({x}, W, sx, 0) - c1)"


def _ell(name, extra_types, cond, assert_idx, assert_exprs, requires_extra):
    def c(y, x):
        return cond.replace("YS", _YS.format(y=y)).replace("XS", _XS.format(x=x))
    inv_rows = "forall(0, y, lambda yy: forall(0, W, lambda xx: mask_2d[yy, xx] == (not (%s))))" % c("yy", "xx")
    inv_row = "forall(0, x, lambda xx: mask_2d[y, xx] == (not (%s)))" % c("y", "xx")
    contract(M2 + name, props=["C02"],
             types={"shape_native": "(int,int)", "pixel_scales": "(real,real)", **extra_types, "centre": "(real,real)"},
             returns="bool[2]", let=MS, requires=["sy != 0", "sx != 0", "H >= 0", "W >= 0"] + requires_extra,
             ensures=["result.shape[0] == H", "result.shape[1] == W",
                      "forall(0, H, lambda yy: forall(0, W, lambda xx: (not result[yy, xx]) == (%s)))" % c("yy", "xx")],
             loops={0: {"inv": [inv_rows, "forall(y, H, lambda yy: forall(0, W, lambda xx: mask_2d[yy, xx]))"]},
                    1: {"inv": [inv_rows, inv_row, "forall(y + 1, H, lambda yy: forall(0, W, lambda xx: mask_2d[yy, xx]))",
                                "forall(x, W, lambda xx: mask_2d[y, xx])"],
                        "assert_at": {2: ["x_scaled == cx(x, W, sx, 0) - c1", "y_scaled == -(cy(y, H, sy, 0) - c0)"],
                                      assert_idx: assert_exprs}}},
             sentence={"forall": "elliptical: unmask exactly the pixels whose elliptical radius about the requested centre satisfies the inequality"})


_ell("mask_2d_elliptical_from", {"major_axis_radius": "real", "axis_ratio": "real", "angle": "real"},
     "ellr(YS, XS, angle, axis_ratio) <= major_axis_radius", 3,
     ["r_scaled_elliptical == ellr(" + _YS.format(y="y") + ", " + _XS.format(x="x") + ", angle, axis_ratio)"], ["axis_ratio != 0"])
_ell("mask_2d_elliptical_annular_from",
     {"inner_major_axis_radius": "real", "inner_axis_ratio": "real", "inner_phi": "real",
      "outer_major_axis_radius": "real", "outer_axis_ratio": "real", "outer_phi": "real"},
     "ellr(YS, XS, inner_phi, inner_axis_ratio) >= inner_major_axis_radius and ellr(YS, XS, outer_phi, outer_axis_ratio) <= outer_major_axis_radius",
     4, ["inner_r_scaled_elliptical == ellr(" + _YS.format(y="y") + ", " + _XS.format(x="x") + ", inner_phi, inner_axis_ratio)",
         "outer_r_scaled_elliptical == ellr(" + _YS.format(y="y") + ", " + _XS.format(x="x") + ", outer_phi, outer_axis_ratio)"],
     ["inner_axis_ratio != 0", "outer_axis_ratio != 0"])

CONTRACTS[M2 + "mask_2d_elliptical_from"].gen = _g_ctor(lambda a, b, c: {"major_axis_radius": b, "axis_ratio": 0.3 + (a % 0.7), "angle": 37.0 * c})
CONTRACTS[M2 + "mask_2d_elliptical_annular_from"].gen = _g_ctor(lambda a, b, c: {
    "inner_major_axis_radius": a, "inner_axis_ratio": 0.4 + (b % 0.6), "inner_phi": 11.0 * c,
    "outer_major_axis_radius": c + 1.0, "outer_axis_ratio": 0.3 + (a % 0.7), "outer_phi": 53.0 * b})
CONTRACTS[M2 + "elliptical_radius_from"].gen = lambda rng, tier: (
    {"y_scaled": rng.uniform(-3, 3), "x_scaled": rng.uniform(-3, 3), "angle": rng.uniform(-180, 180), "axis_ratio": rng.uniform(0.1, 1.0)}
    for _ in range(gens.budget(tier, 200, 3000)))


# ------------------------------------------------------------------------------------------------ engine C generators for the grid kernels
def _g_geom(rng):
    shape = (rng.randint(1, 7), rng.randint(1, 7))
    ps = rng.choice([(1.0, 1.0), (0.5, 2.0), (2.0, 0.25), (0.1, 0.3), (3.0, 3.0)])
    og = rng.choice([(0.0, 0.0), (0.5, -1.0), (-3.0, 2.0), (100.0, -50.0)])
    return shape, ps, og


def _g_pix(rng, tier):
    for _ in range(gens.budget(tier, 300, 4000)):
        shape, ps, og = _g_geom(rng)
        n = rng.randint(0, 6)
        yield {"grid_pixels_2d_slim": gens.reals(rng, (n, 2), -3.0, 10.0, special=False), "shape_native": shape, "pixel_scales": ps, "origin": og}


def _g_sc(rng, tier):
    for _ in range(gens.budget(tier, 300, 4000)):
        (H, W), ps, og = _g_geom(rng)
        n = rng.randint(0, 6)
        # strictly inside a pixel of the frame (the statement's domain), away from pixel boundaries
        pts = np.array([[og[0] + ((H - 1) / 2.0 - rng.randrange(H) + rng.uniform(-0.45, 0.45)) * ps[0],
                         og[1] + (rng.randrange(W) - (W - 1) / 2.0 + rng.uniform(-0.45, 0.45)) * ps[1]] for _ in range(n)]).reshape(n, 2)
        yield {"grid_scaled_2d_slim": pts, "shape_native": (H, W), "pixel_scales": ps, "origin": og}


def _g_via_mask(rng, tier):
    for m in gens.all_masks(gens.budget(tier, 6, 9)):
        _, ps, og = _g_geom(rng)
        yield {"mask_2d": m, "pixel_scales": ps, "origin": og}
    for _ in range(gens.budget(tier, 200, 3000)):
        _, ps, og = _g_geom(rng)
        yield {"mask_2d": gens.random_mask(rng, 7, 7), "pixel_scales": ps, "origin": og}


CONTRACTS[G + "grid_scaled_2d_slim_from"].gen = _g_pix
for _k in ("grid_pixels_2d_slim_from", "grid_pixel_centres_2d_slim_from", "grid_pixel_indexes_2d_slim_from"):
    CONTRACTS[G + _k].gen = _g_sc
CONTRACTS[G2 + "grid_2d_slim_via_mask_from"].gen = _g_via_mask
# integer twins round the query points, which puts them ON pixel boundaries (where the statement says nothing and floating
# point decides): not a valid way to make inputs for these two
for _k in ("grid_pixel_centres_2d_slim_from", "grid_pixel_indexes_2d_slim_from"):
    CONTRACTS[G + _k].no_int_twin = True


# pixel coordinates are index-valued data (rows of an index array, possibly of an unsigned dtype): scalar-type twins of engine C
CONTRACTS[G + "scaled_coordinates_2d_from"].unsigned_twin = ("pixel_coordinates_2d",)
# ... and the same for the scalar query point of the two scalar conversions under the scalar-type twins (origins and scales may still be ints)
CONTRACTS[G + "pixel_coordinates_2d_from"].no_int_twin_params = ("scaled_coordinates_2d",)
