"""C04 -- data vector and curvature matrix equal the normal equations in both formalisms (kernels)."""
import numpy as np
from pyvc.contract import contract, macro, spec_fn, corollary, CONTRACTS
from pyvc import gens

IU = "autoarray.inversion.inversion.imaging.inversion_imaging_util:"
VU = "autoarray.inversion.inversion.inversion_util:"

# ------------------------------------------------------------------------------------------------
# mapping formalism: D_j = sum_i d_i B_ij / sigma_i^2
# ------------------------------------------------------------------------------------------------
_DV = "sumto({n}, lambda i: image[i] * blurred_mapping_matrix[i, {j}] / noise_map[i] ** 2)"
contract(
    IU + "data_vector_via_blurred_mapping_matrix_from", props=["C04"],
    types={"blurred_mapping_matrix": "real[2]", "image": "real[1]", "noise_map": "real[1]"}, returns="real[1]",
    let={"N": "blurred_mapping_matrix.shape[0]", "P": "blurred_mapping_matrix.shape[1]"},
    requires=["image.shape[0] == N", "noise_map.shape[0] == N", "forall(0, N, lambda i: noise_map[i] > 0)"],
    ensures=["result.shape[0] == P",
             "forall(0, P, lambda j: result[j] == " + _DV.format(n="N", j="j") + ")"],
    loops={
        0: {"inv": ["forall(0, P, lambda j: data_vector[j] == " + _DV.format(n="data_index", j="j") + ")"]},
        1: {"inv": ["forall(0, pix_index, lambda j: data_vector[j] == " + _DV.format(n="data_index + 1", j="j") + ")",
                    "forall(pix_index, P, lambda j: data_vector[j] == " + _DV.format(n="data_index", j="j") + ")"]},
    },
    sentence={"sumto": "the data vector equals B^T N^-1 d: D_j = sum_i d_i B_ij / sigma_i^2 (every real B and d, positive noise)"},
)

# mapped reconstructed data = B s
_MR = "sumto({n}, lambda j: reconstruction[j] * mapping_matrix[{i}, j])"
contract(
    VU + "mapped_reconstructed_data_via_mapping_matrix_from", props=["C04", "C05"],
    types={"mapping_matrix": "real[2]", "reconstruction": "real[1]"}, returns="real[1]",
    let={"N": "mapping_matrix.shape[0]", "P": "reconstruction.shape[0]"},
    requires=["mapping_matrix.shape[1] == P"],
    ensures=["result.shape[0] == N",
             "forall(0, N, lambda i: result[i] == " + _MR.format(n="P", i="i") + ")"],
    loops={
        0: {"inv": ["forall(0, i, lambda a: mapped_reconstructed_data[a] == " + _MR.format(n="P", i="a") + ")",
                    "forall(i, N, lambda a: mapped_reconstructed_data[a] == 0)"]},
        1: {"inv": ["forall(0, i, lambda a: mapped_reconstructed_data[a] == " + _MR.format(n="P", i="a") + ")",
                    "forall(i + 1, N, lambda a: mapped_reconstructed_data[a] == 0)",
                    "mapped_reconstructed_data[i] == " + _MR.format(n="j", i="i")]},
    },
    sentence={"sumto": "mapped reconstructed data is the (blurred) mapping matrix applied to the reconstruction: sum_j s_j B_ij"},
)


def _g_dv(rng, tier):
    for _ in range(gens.budget(tier, 200, 2000)):
        n, p = rng.randint(0, 5), rng.randint(0, 4)
        yield {"blurred_mapping_matrix": gens.reals(rng, (n, p), -3, 3), "image": gens.reals(rng, (n,)),
               "noise_map": np.abs(gens.reals(rng, (n,), 0.1, 4, special=False))}


def _g_mr(rng, tier):
    for _ in range(gens.budget(tier, 200, 2000)):
        n, p = rng.randint(0, 5), rng.randint(0, 4)
        yield {"mapping_matrix": gens.reals(rng, (n, p), -3, 3), "reconstruction": gens.reals(rng, (p,))}


CONTRACTS[IU + "data_vector_via_blurred_mapping_matrix_from"].gen = _g_dv
CONTRACTS[VU + "mapped_reconstructed_data_via_mapping_matrix_from"].gen = _g_mr
