"""C04 -- data vector and curvature matrix equal the normal equations in both formalisms (kernels).

Spec vocabulary (all `c04_*`, every postcondition is written from the property statement, not from the code):
  c04_mapc / c04_map   M[i,p]     entry of the mapping matrix encoded by the unique tables (partial sums over the row list)
  c04_wgt              (d/sigma^2)[y,x], zero where the native noise map has no value (masked pixels)
  c04_ov / c04_w       W[p,q] = sum_k K[k] K[k + p - q] / sigma^2[p + k - half], half-width PER AXIS (hy = Ky//2, hx = Kx//2)
  c04_wh               stored value W'[p,q] (diagonal halved)
  c04_nz / c04_part    rank of q among the partners of p with W'[p,q] != 0, and its inverse (the c-th such partner)
  c04_off / c04_offr   row offsets in the concatenated preload (int lengths / integer-valued float lengths), c04_psum = np.sum
  c04_G                G = M^T U M for the sparse upper-triangular matrix U of the preload; F = G + G^T

Proof-engineering rules learnt here (see the report):
  * relations between a loop counter and a program variable are stated as two inequalities where the engine's later phases may
    still solve equations for the counter (`k + 1` triggers stop matching);
  * no sum of two non-numeral terms inside a trigger (`a[off(p) + c]`): AC-normalisation orders pattern and term differently;
  * non-linear definitions (quotients, 3-factor products) sit behind spec functions whose defining axiom is triggered narrowly;
  * recurrences used with `for q in range(lo, hi)` (q = lo + k) carry a second trigger made of terms present at the use site;
  * arrays that are written in a loop never occur under sumto / spec functions; they are characterised pointwise.
"""
import numpy as np
from pyvc.contract import contract, macro, spec_fn, corollary, CONTRACTS
from pyvc import gens
import pyvc.calls  # noqa: F401  (loads pyvc/ext/*, incl. the ghost position counter of pyvc/ext/c04.py)
from pyvc.ext import c04 as _ext

from pyvc.contract import MACROS as _MACROS


class _MP(dict):
    def __missing__(self, k):
        return _MACROS[k].py


MACROS_PY = _MP()

IU = "autoarray.inversion.inversion.imaging.inversion_imaging_util:"
VU = "autoarray.inversion.inversion.inversion_util:"

# ------------------------------------------------------------------------------------------------
# mapping formalism: D_j = sum_i d_i B_ij / sigma_i^2
# ------------------------------------------------------------------------------------------------
_DV = "sumto({n}, lambda i: image[i] * blurred_mapping_matrix[i, {j}] / noise_map[i] ** 2)"
contract(
    IU + "data_vector_via_blurred_mapping_matrix_from", props=["C04"],
    types={"blurred_mapping_matrix": "real[2]", "image": "real[1]", "noise_map": "real[1]"}, returns="real[1]",
    let={"N": "blurred_mapping_matrix.shape[0]", "P": "blurred_mapping_matrix.shape[1]"},
    requires=["image.shape[0] == N", "noise_map.shape[0] == N", "forall(0, N, lambda i: noise_map[i] > 0)"],
    ensures=["result.shape[0] == P",
             "forall(0, P, lambda j: result[j] == " + _DV.format(n="N", j="j") + ")"],
    loops={
        0: {"inv": ["forall(0, P, lambda j: data_vector[j] == " + _DV.format(n="data_index", j="j") + ")"]},
        1: {"inv": ["forall(0, pix_index, lambda j: data_vector[j] == " + _DV.format(n="data_index + 1", j="j") + ")",
                    "forall(pix_index, P, lambda j: data_vector[j] == " + _DV.format(n="data_index", j="j") + ")"]},
    },
    sentence={"sumto": "the data vector equals B^T N^-1 d: D_j = sum_i d_i B_ij / sigma_i^2 (every real B and d, positive noise)"},
)

# mapped reconstructed data = B s
_MR = "sumto({n}, lambda j: reconstruction[j] * mapping_matrix[{i}, j])"
contract(
    VU + "mapped_reconstructed_data_via_mapping_matrix_from", props=["C04", "C05"],
    types={"mapping_matrix": "real[2]", "reconstruction": "real[1]"}, returns="real[1]",
    let={"N": "mapping_matrix.shape[0]", "P": "reconstruction.shape[0]"},
    requires=["mapping_matrix.shape[1] == P"],
    ensures=["result.shape[0] == N",
             "forall(0, N, lambda i: result[i] == " + _MR.format(n="P", i="i") + ")"],
    loops={
        0: {"inv": ["forall(0, i, lambda a: mapped_reconstructed_data[a] == " + _MR.format(n="P", i="a") + ")",
                    "forall(i, N, lambda a: mapped_reconstructed_data[a] == 0)"]},
        1: {"inv": ["forall(0, i, lambda a: mapped_reconstructed_data[a] == " + _MR.format(n="P", i="a") + ")",
                    "forall(i + 1, N, lambda a: mapped_reconstructed_data[a] == 0)",
                    "mapped_reconstructed_data[i] == " + _MR.format(n="j", i="i")]},
    },
    sentence={"sumto": "mapped reconstructed data is the (blurred) mapping matrix applied to the reconstruction: sum_j s_j B_ij"},
)


def _g_dv(rng, tier):
    for _ in range(gens.budget(tier, 200, 2000)):
        n, p = rng.randint(0, 5), rng.randint(0, 4)
        yield {"blurred_mapping_matrix": gens.reals(rng, (n, p), -3, 3), "image": gens.reals(rng, (n,)),
               "noise_map": np.abs(gens.reals(rng, (n,), 0.1, 4, special=False))}


def _g_mr(rng, tier):
    for _ in range(gens.budget(tier, 200, 2000)):
        n, p = rng.randint(0, 5), rng.randint(0, 4)
        yield {"mapping_matrix": gens.reals(rng, (n, p), -3, 3), "reconstruction": gens.reals(rng, (p,))}


CONTRACTS[IU + "data_vector_via_blurred_mapping_matrix_from"].gen = _g_dv
CONTRACTS[VU + "mapped_reconstructed_data_via_mapping_matrix_from"].gen = _g_mr

# ------------------------------------------------------------------------------------------------
# symmetric mirroring and the diagonal term on unregularised parameters
# ------------------------------------------------------------------------------------------------
# the entry of the pair {a, b} that mirroring keeps when it looks at (a, b) first: F[a,b] unless it is empty (zero)
macro("c04_pref", ["F", "a", "b"], "(F[a, b] if F[a, b] != 0 else F[b, a])",
      py=lambda F, a, b: float(F[a, b] if F[a, b] != 0 else F[b, a]))

_D1 = "(a < i or (a == i and b < {j}))"      # (a, b) has been visited as (i', j')
_D2 = "(b < i or (b == i and a < {j}))"      # (b, a) has been visited
_MIR = ("forall(0, n, lambda a: forall(0, n, lambda b: curvature_matrix_mirrored[a, b] == ("
        "(c04_pref(F, a, b) if " + _D2 + " else (c04_pref(F, b, a) if " + _D1 + " else 0)) if a <= b else "
        "(c04_pref(F, b, a) if " + _D1 + " else (c04_pref(F, a, b) if " + _D2 + " else 0)))))")
contract(
    VU + "curvature_matrix_mirrored_from", props=["C04"],
    types={"curvature_matrix": "real[2]"}, returns="real[2]",
    let={"n": "curvature_matrix.shape[0]", "F": "curvature_matrix"},
    requires=["curvature_matrix.shape[1] == n"],
    ensures=["result.shape[0] == n", "result.shape[1] == n",
             # the mirrored curvature matrix is symmetric ...
             "forall(0, n, lambda a: forall(0, n, lambda b: result[a, b] == result[b, a]))",
             # ... every entry whose transposed partner is empty (a matrix filled in one triangle / one off-diagonal block only)
             # or equal is kept, and every empty entry is filled from its transposed partner
             "forall(0, n, lambda a: forall(0, n, lambda b: implies(F[a, b] == 0 or F[b, a] == 0 or F[a, b] == F[b, a],"
             " result[a, b] == (F[a, b] if F[a, b] != 0 else F[b, a]))))"],
    loops={0: {"inv": [_MIR.format(j="0")]}, 1: {"inv": [_MIR.format(j="j")]}},
    sentence={"result[b, a]": "the curvature matrix is symmetric",
              "implies": "mirroring keeps every filled entry and fills every empty one from its transposed partner"},
)

_OCC = "sumto({t}, lambda k: (value if no_regularization_index_list[k] == a else 0))"
_UNIQ = "forall(0, L, lambda k2: k2 == k or no_regularization_index_list[k2] != no_regularization_index_list[k])"
contract(
    VU + "curvature_matrix_with_added_to_diag_from", props=["C04"],
    types={"curvature_matrix": "real[2]", "value": "real", "no_regularization_index_list": "int[1]"}, returns="real[2]",
    let={"n0": "curvature_matrix.shape[0]", "n1": "curvature_matrix.shape[1]", "L": "no_regularization_index_list.shape[0]",
         "ix": "no_regularization_index_list"},
    requires=["forall(0, L, lambda k: 0 <= no_regularization_index_list[k] and no_regularization_index_list[k] < n0"
              " and no_regularization_index_list[k] < n1)"],
    modifies=["curvature_matrix"], result_alias="curvature_matrix",
    ensures=["result.shape[0] == n0", "result.shape[1] == n1",
             # only the diagonal changes ...
             "forall(0, n0, lambda a: forall(0, n1, lambda b: implies(a != b, result[a, b] == old(curvature_matrix)[a, b])))",
             # ... by `value` per listed occurrence of the parameter (nothing on parameters that are not listed)
             "forall(0, n0, lambda a: implies(a < n1, result[a, a] == old(curvature_matrix)[a, a] + " + _OCC.format(t="L") + "))",
             "forall(0, n0, lambda a: implies(a < n1 and forall(0, L, lambda k: no_regularization_index_list[k] != a),"
             " result[a, a] == old(curvature_matrix)[a, a]))",
             "forall(0, L, lambda k: implies(" + _UNIQ + ", result[ix[k], ix[k]] == old(curvature_matrix)[ix[k], ix[k]] + value))"],
    loops={0: {"inv": [
        "0 <= pos_L0 and pos_L0 <= L",
        "forall(0, n0, lambda a: forall(0, n1, lambda b: implies(a != b, curvature_matrix[a, b] == old(curvature_matrix)[a, b])))",
        "forall(0, n0, lambda a: implies(a < n1, curvature_matrix[a, a] == old(curvature_matrix)[a, a] + " + _OCC.format(t="pos_L0") + "))",
        "forall(0, n0, lambda a: implies(a < n1 and forall(0, pos_L0, lambda k: no_regularization_index_list[k] != a),"
        " curvature_matrix[a, a] == old(curvature_matrix)[a, a]))",
        "forall(0, L, lambda k: implies(" + _UNIQ + ", curvature_matrix[ix[k], ix[k]] == old(curvature_matrix)[ix[k], ix[k]] + (value if k < pos_L0 else 0)))",
    ]}},
    sentence={"a != b": "only the diagonal of the curvature matrix is changed",
              "sumto": "the configured value is added once per listed parameter without regularization",
              "!= a)": "nothing is added on parameters that are not listed"},
)


def _g_mirror(rng, tier):
    for _ in range(gens.budget(tier, 300, 3000)):
        n = rng.randint(0, 5)
        # exact zeros only (engine C compares floats with a tolerance, the code tests `!= 0` exactly)
        f = np.array([[rng.choice([0.0, 0.0, 1.0, -1.5, 2.0, rng.uniform(-3, 3)]) for _ in range(n)] for _ in range(n)]).reshape(n, n)
        mode = rng.randrange(4)
        if mode == 0:
            f = np.triu(f)
        elif mode == 1:
            f = np.tril(f)
        elif mode == 2:
            f = np.triu(f) + np.triu(f, 1).T
        yield {"curvature_matrix": f}


def _g_diag(rng, tier):
    for _ in range(gens.budget(tier, 300, 3000)):
        n0 = rng.randint(1, 5)
        n1 = n0 if rng.random() < 0.8 else rng.randint(1, 5)
        m = min(n0, n1)
        L = rng.randint(0, 4)
        if rng.random() < 0.6:
            ix = np.array(sorted(rng.sample(range(m), min(L, m))), dtype=int)
        else:
            ix = np.array([rng.randrange(m) for _ in range(L)], dtype=int)
        yield {"curvature_matrix": gens.reals(rng, (n0, n1), -3, 3), "value": rng.choice([1e-8, 1.0, -2.5, 0.0]),
               "no_regularization_index_list": ix}


CONTRACTS[VU + "curvature_matrix_mirrored_from"].gen = _g_mirror
CONTRACTS[VU + "curvature_matrix_with_added_to_diag_from"].gen = _g_diag

# ------------------------------------------------------------------------------------------------
# unique-mapping tables: row i of the (unblurred) mapping matrix is the front-packed list (pixel, weight)
# ------------------------------------------------------------------------------------------------
def _mapc_py(u, w, ln, P, i, p, c):
    return float(sum(w[i, k] for k in range(int(c)) if int(u[i, k]) == p))


# partial sums of entry (i, p) of the mapping matrix encoded by the tables:
#   M[i,p] = sum_{c < len[i]} [unique[i,c] == p] weights[i,c]        (P = number of columns, fixed per instance)
spec_fn(
    "c04_mapc", params=[("u", "int[2]"), ("w", "real[2]"), ("ln", "int[1]"), ("P", "$int"), ("i", "int"), ("p", "int"), ("c", "int")],
    ret="real", let={"N": "min(u.shape[0], min(w.shape[0], ln.shape[0]))", "C": "min(u.shape[1], w.shape[1])"},
    axioms=["forall(0, N, lambda i: forall(0, P, lambda p: c04_mapc(u, w, ln, P, i, p, 0) == 0, pat=c04_mapc(u, w, ln, P, i, p, 0)))",
            "forall(0, N, lambda i: forall(0, P, lambda p: forall(0, min(ln[i], C), lambda c: c04_mapc(u, w, ln, P, i, p, c + 1)"
            " == c04_mapc(u, w, ln, P, i, p, c) + (w[i, c] if u[i, c] == p else 0), pat=c04_mapc(u, w, ln, P, i, p, c + 1))))"],
    py=_mapc_py,
    doc="row i of the mapping matrix is the front-packed list (pixel, weight) of the unique tables",
)
macro("c04_map", ["u", "w", "ln", "P", "i", "p"], "c04_mapc(u, w, ln, P, i, p, ln[i])",
      py=lambda u, w, ln, P, i, p: _mapc_py(u, w, ln, P, i, p, ln[i]))

_UT = ["{u}.shape[0] == {n}", "{w}.shape[0] == {n}", "{l}.shape[0] == {n}",
       "forall(0, {n}, lambda i: 0 <= {l}[i] and {l}[i] <= {u}.shape[1] and {l}[i] <= {w}.shape[1])",
       "forall(0, {n}, lambda i: forall(0, {l}[i], lambda c: 0 <= {u}[i, c] and {u}[i, c] < {p}))"]


def _ut(u, w, l, n, p):
    return [x.format(u=u, w=w, l=l, n=n, p=p) for x in _UT]


_UTY = {"data_to_pix_unique": "int[2]", "data_weights": "real[2]", "pix_lengths": "int[1]"}
_U3 = "data_to_pix_unique, data_weights, pix_lengths, P"

_DW = "sumto({n}, lambda i: w_tilde_data[i] * c04_map(" + _U3 + ", i, p))"
contract(
    IU + "data_vector_via_w_tilde_data_imaging_from", props=["C04"],
    types={"w_tilde_data": "real[1]", **_UTY, "pix_pixels": "int"}, returns="real[1]",
    let={"N": "w_tilde_data.shape[0]", "P": "pix_pixels"},
    requires=["pix_pixels >= 0"] + _ut("data_to_pix_unique", "data_weights", "pix_lengths", "N", "P"),
    ensures=["result.shape[0] == P",
             # D_p = sum_i M_ip wd_i   (M^T applied to the w-tilde data term)
             "forall(0, P, lambda p: result[p] == " + _DW.format(n="N") + ")"],
    loops={
        0: {"inv": ["forall(0, P, lambda p: data_vector[p] == " + _DW.format(n="data_0") + ")"]},
        1: {"inv": ["forall(0, P, lambda p: data_vector[p] == " + _DW.format(n="data_0")
                    + " + w_tilde_data[data_0] * c04_mapc(" + _U3 + ", data_0, p, pix_0_index))"]},
    },
    sentence={"sumto": "the w-tilde data vector is the transposed mapping matrix applied to the w-tilde data term: D_p = sum_i M_ip wd_i"},
)

_GA = "sumto({c}, lambda c: data_weights[{i}, c] * reconstruction[data_to_pix_unique[{i}, c]])"
contract(
    VU + "mapped_reconstructed_data_via_image_to_pix_unique_from", props=["C04", "C05"],
    types={**_UTY, "reconstruction": "real[1]"}, returns="real[1]",
    let={"N": "data_to_pix_unique.shape[0]", "P": "reconstruction.shape[0]"},
    requires=_ut("data_to_pix_unique", "data_weights", "pix_lengths", "N", "P"),
    ensures=["result.shape[0] == N",
             # (M s)_i written over the non-zero entries of row i
             "forall(0, N, lambda i: result[i] == " + _GA.format(c="pix_lengths[i]", i="i") + ")"],
    loops={
        0: {"inv": ["forall(0, data_0, lambda i: mapped_reconstructed_data[i] == " + _GA.format(c="pix_lengths[i]", i="i") + ")",
                    "forall(data_0, N, lambda i: mapped_reconstructed_data[i] == 0)"]},
        1: {"inv": ["forall(0, data_0, lambda i: mapped_reconstructed_data[i] == " + _GA.format(c="pix_lengths[i]", i="i") + ")",
                    "forall(data_0 + 1, N, lambda i: mapped_reconstructed_data[i] == 0)",
                    "mapped_reconstructed_data[data_0] == " + _GA.format(c="pix_0", i="data_0")]},
    },
    sentence={"sumto": "mapped reconstructed data is the mapping matrix encoded by the unique tables applied to the reconstruction"},
)


def _utables(rng, n, p, cmax=3):
    C = rng.randint(1, cmax)
    u = -np.ones((n, C), dtype=int)
    w = np.zeros((n, C))
    ln = np.zeros(n, dtype=int)
    for i in range(n):
        ln[i] = rng.randint(0, C) if p > 0 else 0
        for c in range(ln[i]):
            u[i, c] = rng.randrange(p)
            w[i, c] = rng.choice([rng.uniform(-1, 2), 0.25, 0.5, 1.0])
    return u, w, ln


def _g_dvw(rng, tier):
    for _ in range(gens.budget(tier, 200, 2000)):
        n, p = rng.randint(0, 5), rng.randint(0, 4)
        u, w, ln = _utables(rng, n, p)
        yield {"w_tilde_data": gens.reals(rng, (n,)), "data_to_pix_unique": u, "data_weights": w, "pix_lengths": ln, "pix_pixels": p}


def _g_mru(rng, tier):
    for _ in range(gens.budget(tier, 200, 2000)):
        n, p = rng.randint(0, 5), rng.randint(0, 4)
        u, w, ln = _utables(rng, n, p)
        yield {"data_to_pix_unique": u, "data_weights": w, "pix_lengths": ln, "reconstruction": gens.reals(rng, (p,))}


CONTRACTS[IU + "data_vector_via_w_tilde_data_imaging_from"].gen = _g_dvw
CONTRACTS[VU + "mapped_reconstructed_data_via_image_to_pix_unique_from"].gen = _g_mru

# ------------------------------------------------------------------------------------------------
# w-tilde formalism: data term   wd_p = sum_{(a,b) in kernel} K[a,b] (d / sigma^2)[y_p + a - hy, x_p + b - hx]
# half-widths PER AXIS: hy = Ky // 2 (rows), hx = Kx // 2 (columns); masked native pixels (sigma = 0) contribute nothing
# ------------------------------------------------------------------------------------------------
def _wgt_py(d, s, y, x):
    if not (0 <= y < d.shape[0] and 0 <= x < d.shape[1]):
        return 0.0
    return float(d[y, x] / s[y, x] ** 2) if s[y, x] != 0 else 0.0


# noise-weighted data value of native pixel (y, x); zero on pixels without noise value (masked).  A spec function rather than a
# macro so that the sums below see one atom per pixel instead of a non-linear quotient (the definition is unfolded by its trigger)
spec_fn(
    "c04_wgt", params=[("d", "real[2]"), ("s", "real[2]"), ("y", "int"), ("x", "int")], ret="real",
    let={"H": "min(d.shape[0], s.shape[0])", "W": "min(d.shape[1], s.shape[1])"},
    axioms=["forall(0, H, lambda y: forall(0, W, lambda x: c04_wgt(d, s, y, x) == (d[y, x] / s[y, x] ** 2 if s[y, x] != 0 else 0),"
            " pat=((c04_wgt(d, s, y, x), s[y, x]),)))"],      # unfolded only where the noise value of that pixel is looked at
    py=_wgt_py, doc="(data / noise^2)[y, x], zero where the native noise map carries no value",
)

_NAT = {"H": "noise_map_native.shape[0]", "W": "noise_map_native.shape[1]", "Ky": "kernel_native.shape[0]", "Kx": "kernel_native.shape[1]",
        "hy": "kernel_native.shape[0] // 2", "hx": "kernel_native.shape[1] // 2", "N": "native_index_for_slim_index.shape[0]",
        "nfs": "native_index_for_slim_index", "K": "kernel_native"}
_NATREQ = ["native_index_for_slim_index.shape[1] == 2",
           "Ky == 2 * hy + 1", "Kx == 2 * hx + 1",                      # odd PSF (statement)
           # kernel footprint of every unmasked pixel inside the frame (statement)
           "forall(0, N, lambda p: hy <= nfs[p, 0] and nfs[p, 0] < H - hy and hx <= nfs[p, 1] and nfs[p, 1] < W - hx)"]

_WDI = "sumto({nb}, lambda b: K[{a}, b] * c04_wgt(image_native, noise_map_native, {y} + {a} - hy, {x} + b - hx))"
_WD = "sumto({na}, lambda a: " + _WDI.format(nb="Kx", a="a", y="{y}", x="{x}") + ")"
contract(
    IU + "w_tilde_data_imaging_from", props=["C04"],
    types={"image_native": "real[2]", "noise_map_native": "real[2]", "kernel_native": "real[2]", "native_index_for_slim_index": "int[2]"},
    returns="real[1]", let=_NAT,
    requires=_NATREQ + ["image_native.shape[0] == H", "image_native.shape[1] == W",
                        # pixels without a noise value (masked: native arrays are zero there) carry no data either
                        "forall(0, H, lambda y: forall(0, W, lambda x: implies(noise_map_native[y, x] == 0, image_native[y, x] == 0)))"],
    ensures=["result.shape[0] == N",
             "forall(0, N, lambda p: result[p] == " + _WD.format(na="Ky", y="nfs[p, 0]", x="nfs[p, 1]") + ")"],
    loops={
        0: {"inv": ["forall(0, ip0, lambda p: w_tilde_data[p] == " + _WD.format(na="Ky", y="nfs[p, 0]", x="nfs[p, 1]") + ")"]},
        1: {"inv": ["value == " + _WD.format(na="k0_y", y="nfs[ip0, 0]", x="nfs[ip0, 1]")]},
        2: {"inv": ["value == " + _WD.format(na="k0_y", y="nfs[ip0, 0]", x="nfs[ip0, 1]")
                    + " + " + _WDI.format(nb="k0_x", a="k0_y", y="nfs[ip0, 0]", x="nfs[ip0, 1]")],
            # stepping stones: the weight read by the code is the noise-weighted data value; it is NaN exactly on zero noise
            "assert_at": {0: [_WDI.format(nb="k0_x + 1", a="k0_y", y="nfs[ip0, 0]", x="nfs[ip0, 1]") + " == "
                              + _WDI.format(nb="k0_x", a="k0_y", y="nfs[ip0, 0]", x="nfs[ip0, 1]") + " + kernel_native[k0_y, k0_x]"
                              " * c04_wgt(image_native, noise_map_native, nfs[ip0, 0] + k0_y - hy, nfs[ip0, 1] + k0_x - hx)"],
                          1: ["ip0_y + k0_y + kernel_shift_y == nfs[ip0, 0] + k0_y - hy and ip0_x + k0_x + kernel_shift_x == nfs[ip0, 1] + k0_x - hx",
                              "np.isnan(weight_value) == (noise_map_native[nfs[ip0, 0] + k0_y - hy, nfs[ip0, 1] + k0_x - hx] == 0)",
                              "(0 if np.isnan(weight_value) else weight_value)"
                              " == c04_wgt(image_native, noise_map_native, nfs[ip0, 0] + k0_y - hy, nfs[ip0, 1] + k0_x - hx)"]}},
    },
    sentence={"sumto": "w_tilde_data[p] = sum over kernel offsets (a, b) of K[a,b] * (data / noise^2) at the native pixel displaced from "
                       "pixel p by (a - Ky//2, b - Kx//2): the half-width of each axis is taken from that axis; masked pixels contribute zero"},
)
_ext.NAN_DIV.add(IU + "w_tilde_data_imaging_from")

_KSHAPES = [(1, 1), (3, 3), (1, 3), (3, 1), (3, 5), (5, 3), (1, 5), (5, 1)]


def _native_case(rng, tier, zero_masked=True):
    """mask with every kernel footprint inside the frame; native data / noise (zero on masked pixels), signed kernel, index table"""
    ky, kx = rng.choice(_KSHAPES)
    hy, hx = ky // 2, kx // 2
    ih, iw = rng.randint(1, 3), rng.randint(1, 3)
    ey, ex = rng.choice([0, 0, 1]), rng.choice([0, 0, 1])
    H, W = ih + 2 * hy + ey, iw + 2 * hx + ex
    mask = np.ones((H, W), dtype=bool)
    oy, ox = rng.randint(0, ey), rng.randint(0, ex)
    while mask.all():
        for y in range(ih):
            for x in range(iw):
                mask[hy + oy + y, hx + ox + x] = rng.random() < 0.3
    data = gens.reals(rng, (H, W), -3, 3, special=False)
    noise = gens.reals(rng, (H, W), 0.3, 2.5, special=False)
    if zero_masked:
        data[mask] = 0.0
        noise[mask] = 0.0
    mode = rng.randrange(3)
    if mode == 0:
        kernel = np.abs(gens.reals(rng, (ky, kx), 0.1, 2, special=False))
    elif mode == 1:
        kernel = gens.reals(rng, (ky, kx), -2, 2, special=False)
    else:
        kernel = np.array([[rng.choice([1.0, -2.0, 0.0, 0.5]) for _ in range(kx)] for _ in range(ky)])
    nfs = np.argwhere(~mask).astype(int)
    return mask, data, noise, kernel, nfs


def _g_wd(rng, tier):
    for _ in range(gens.budget(tier, 150, 1500)):
        mask, data, noise, kernel, nfs = _native_case(rng, tier, zero_masked=rng.random() < 0.8)
        yield {"image_native": data, "noise_map_native": noise, "kernel_native": kernel, "native_index_for_slim_index": nfs}


CONTRACTS[IU + "w_tilde_data_imaging_from"].gen = _g_wd
CONTRACTS[IU + "w_tilde_data_imaging_from"].nontrivial = lambda kernel_native, **kw: kernel_native.shape[0] != kernel_native.shape[1]

# ------------------------------------------------------------------------------------------------
# w-tilde formalism: noise-weighted PSF overlap  W[p,q] = sum_r K[r - p + h] K[r - q + h] / sigma_r^2
# written over the kernel offsets (a, b) of pixel p:  r = p + (a, b) - (hy, hx),  r - q + h = (a, b) + p - q
# ------------------------------------------------------------------------------------------------
def _ovt_py(V, K, y0, x0, y1, x1, a, b):
    H, W = V.shape
    Ky, Kx = K.shape
    ry, rx = y0 + a - Ky // 2, x0 + b - Kx // 2
    ay, bx = a + y0 - y1, b + x0 - x1
    if 0 <= ry < H and 0 <= rx < W and V[ry, rx] > 0 and 0 <= a < Ky and 0 <= b < Kx and 0 <= ay < Ky and 0 <= bx < Kx:
        return float(K[a, b] * K[ay, bx] / V[ry, rx] ** 2)
    return 0.0


def _ov_py(V, K, y0, x0, y1, x1, a, b):
    Ky, Kx = K.shape
    tot = 0.0
    for aa in range(min(a, Ky) + 1):
        for bb in range(Kx if aa < a else b):
            if aa < Ky:
                tot += _ovt_py(V, K, y0, x0, y1, x1, aa, bb)
    return tot


# one term of the overlap sum: kernel offset (a, b) of pixel (y0, x0); the native pixel it touches must be inside the frame
# and carry a noise value (masked native pixels are zero), and the same native pixel must lie in the kernel of (y1, x1)
macro("c04_ovt", ["V", "K", "y0", "x0", "y1", "x1", "a", "b"],
      "(K[a, b] * K[a + y0 - y1, b + x0 - x1] / V[y0 + a - K.shape[0] // 2, x0 + b - K.shape[1] // 2] ** 2"
      " if (0 <= y0 + a - K.shape[0] // 2 and y0 + a - K.shape[0] // 2 < V.shape[0]"
      " and 0 <= x0 + b - K.shape[1] // 2 and x0 + b - K.shape[1] // 2 < V.shape[1]"
      " and V[y0 + a - K.shape[0] // 2, x0 + b - K.shape[1] // 2] > 0"
      " and 0 <= a + y0 - y1 and a + y0 - y1 < K.shape[0] and 0 <= b + x0 - x1 and b + x0 - x1 < K.shape[1]) else 0)",
      py=_ovt_py)

_Q4 = "forall(0, H, lambda y0: forall(0, W, lambda x0: forall(0, H, lambda y1: forall(0, W, lambda x1: "
_FAR = "(y0 - y1 <= -Ky or y0 - y1 >= Ky or x0 - x1 <= -Kx or x0 - x1 >= Kx)"
spec_fn(
    "c04_ov", params=[("V", "real[2]"), ("K", "real[2]"), ("y0", "int"), ("x0", "int"), ("y1", "int"), ("x1", "int"), ("a", "int"), ("b", "int")],
    ret="real", let={"H": "V.shape[0]", "W": "V.shape[1]", "Ky": "K.shape[0]", "Kx": "K.shape[1]"},
    axioms=[
        _Q4 + "c04_ov(V, K, y0, x0, y1, x1, 0, 0) == 0, pat=c04_ov(V, K, y0, x0, y1, x1, 0, 0)))))",
        _Q4 + "forall(0, Ky, lambda a: forall(0, Kx, lambda b: c04_ov(V, K, y0, x0, y1, x1, a, b + 1)"
              " == c04_ov(V, K, y0, x0, y1, x1, a, b) + c04_ovt(V, K, y0, x0, y1, x1, a, b), pat=c04_ov(V, K, y0, x0, y1, x1, a, b + 1)))))))",
        _Q4 + "forall(0, Ky, lambda a: c04_ov(V, K, y0, x0, y1, x1, a + 1, 0) == c04_ov(V, K, y0, x0, y1, x1, a, Kx),"
              " pat=(c04_ov(V, K, y0, x0, y1, x1, a, Kx), c04_ov(V, K, y0, x0, y1, x1, a + 1, 0)))))))",
    ],
    lemmas=[
        # pixels further apart than the kernel extent do not overlap: every term vanishes
        dict(name="far_row", induct="n", lo=0, hi="Kx", export=False,
             stmt=_Q4 + "forall(0, Ky, lambda a: implies(" + _FAR + ", c04_ov(V, K, y0, x0, y1, x1, a, n) == c04_ov(V, K, y0, x0, y1, x1, a, 0)),"
                  " pat=c04_ov(V, K, y0, x0, y1, x1, a, n))))))"),
        dict(name="far", induct="n", lo=0, hi="Ky",
             stmt=_Q4 + "implies(" + _FAR + ", c04_ov(V, K, y0, x0, y1, x1, n, 0) == 0), pat=c04_ov(V, K, y0, x0, y1, x1, n, 0)))))"),
    ],
    py=_ov_py,
    doc="scan-order partial sum (rows a, columns b of the kernel) of the noise-weighted overlap of the kernels centred on (y0,x0) and (y1,x1)",
)

_OV = "c04_ov(value_native, kernel_native, ip0_y, ip0_x, ip1_y, ip1_x, {a}, {b})"
contract(
    IU + "w_tilde_curvature_value_from", props=["C04"],
    types={"value_native": "real[2]", "kernel_native": "real[2]", "ip0_y": "int", "ip0_x": "int", "ip1_y": "int", "ip1_x": "int",
           "renormalize": "bool"},
    returns="real",
    let={"H": "value_native.shape[0]", "W": "value_native.shape[1]", "Ky": "kernel_native.shape[0]", "Kx": "kernel_native.shape[1]",
         "hy": "kernel_native.shape[0] // 2", "hx": "kernel_native.shape[1] // 2"},
    requires=["Ky == 2 * hy + 1", "Kx == 2 * hx + 1",
              "hy <= ip0_y and ip0_y < H - hy and hx <= ip0_x and ip0_x < W - hx",      # footprint of pixel 0 inside the frame
              "0 <= ip1_y and ip1_y < H and 0 <= ip1_x and ip1_x < W"],
    ensures=["implies(not renormalize, result == " + _OV.format(a="Ky", b="0") + ")"],
    loops={
        0: {"inv": ["curvature_value == " + _OV.format(a="k0_y", b="0")]},
        1: {"inv": ["curvature_value == " + _OV.format(a="k0_y", b="k0_x")]},
    },
    sentence={"c04_ov": "W[p,q] = sum over the kernel offsets of pixel p of K[k] K[k + p - q] / sigma^2 at the native pixel p + k - half, "
                        "half-width of each axis taken from that axis, native pixels without noise value (masked) excluded"},
)


def _g_wv(rng, tier):
    for _ in range(gens.budget(tier, 300, 3000)):
        mask, data, noise, kernel, nfs = _native_case(rng, tier, zero_masked=rng.random() < 0.8)
        p, q = rng.randrange(len(nfs)), rng.randrange(len(nfs))
        y1, x1 = (int(nfs[q, 0]), int(nfs[q, 1])) if rng.random() < 0.8 else (rng.randrange(mask.shape[0]), rng.randrange(mask.shape[1]))
        yield {"value_native": noise, "kernel_native": kernel, "ip0_y": int(nfs[p, 0]), "ip0_x": int(nfs[p, 1]), "ip1_y": y1, "ip1_x": x1,
               "renormalize": rng.random() < 0.1}


CONTRACTS[IU + "w_tilde_curvature_value_from"].gen = _g_wv
CONTRACTS[IU + "w_tilde_curvature_value_from"].nontrivial = lambda kernel_native, renormalize, **kw: (
    kernel_native.shape[0] != kernel_native.shape[1] and not renormalize)


# W[p, q] for slim pixels p, q of the native index table
macro("c04_w", ["V", "K", "nfs", "p", "q"], "c04_ov(V, K, nfs[p, 0], nfs[p, 1], nfs[q, 0], nfs[q, 1], K.shape[0], 0)",
      py=lambda V, K, nfs, p, q: _ov_py(V, K, int(nfs[p, 0]), int(nfs[p, 1]), int(nfs[q, 0]), int(nfs[q, 1]), K.shape[0], 0))

_WPQ = "c04_w(noise_map_native, kernel_native, nfs, {p}, {q})"
_WT3 = {"noise_map_native": "real[2]", "kernel_native": "real[2]", "native_index_for_slim_index": "int[2]"}
_UP = "forall(0, {n}, lambda p: forall(p, N, lambda q: w_tilde_curvature[p, q] == " + _WPQ.format(p="p", q="q") + "))"
contract(
    IU + "w_tilde_curvature_imaging_from", props=["C04"],
    types=_WT3, returns="real[2]", let=_NAT, requires=_NATREQ,
    ensures=["result.shape[0] == N", "result.shape[1] == N",
             # upper triangle (incl. diagonal) holds the overlaps, the lower triangle mirrors it
             "forall(0, N, lambda p: forall(p, N, lambda q: result[p, q] == " + _WPQ.format(p="p", q="q")
             + " and result[q, p] == " + _WPQ.format(p="p", q="q") + "))",
             "forall(0, N, lambda p: forall(0, N, lambda q: result[p, q] == result[q, p]))"],
    loops={
        0: {"inv": [_UP.format(n="ip0"),
                    "forall(0, N, lambda p: forall(0, N, lambda q: implies(p >= ip0 or q < p, w_tilde_curvature[p, q] == 0)))"]},
        1: {"inv": [_UP.format(n="ip0"),
                    "forall(0, N, lambda p: forall(0, N, lambda q: implies(p > ip0 or q < p, w_tilde_curvature[p, q] == 0)))",
                    "forall(ip0, ip1, lambda q: w_tilde_curvature[ip0, q] == " + _WPQ.format(p="ip0", q="q") + ")",
                    "forall(ip1, N, lambda q: w_tilde_curvature[ip0, q] == 0)"]},
        2: {"inv": [_UP.format(n="N"),
                    "forall(0, ip0, lambda p: forall(p, N, lambda q: w_tilde_curvature[q, p] == " + _WPQ.format(p="p", q="q") + "))"]},
        3: {"inv": [_UP.format(n="N"),
                    "forall(0, ip0, lambda p: forall(p, N, lambda q: w_tilde_curvature[q, p] == " + _WPQ.format(p="p", q="q") + "))",
                    "forall(ip0, ip1, lambda q: w_tilde_curvature[q, ip0] == " + _WPQ.format(p="ip0", q="q") + ")"]},
    },
    sentence={"c04_w": "the dense w-tilde matrix holds the noise-weighted PSF overlap W[p,q] of every pixel pair (computed on the upper "
                       "triangle, mirrored to the lower one)",
              "result[q, p])": "the w-tilde matrix is symmetric"},
)


def _g_wdense(rng, tier):
    for _ in range(gens.budget(tier, 100, 1000)):
        mask, data, noise, kernel, nfs = _native_case(rng, tier, zero_masked=rng.random() < 0.8)
        yield {"noise_map_native": noise, "kernel_native": kernel, "native_index_for_slim_index": nfs}


CONTRACTS[IU + "w_tilde_curvature_imaging_from"].gen = _g_wdense
CONTRACTS[IU + "w_tilde_curvature_imaging_from"].nontrivial = lambda kernel_native, **kw: kernel_native.shape[0] != kernel_native.shape[1]

# ------------------------------------------------------------------------------------------------
# curvature matrix from the w-tilde preload:  F = M^T (U + U^T) M,  U = sparse upper-triangular matrix of the preload
# (row d0 of U is the slice [off(d0), off(d0) + lengths[d0]) of (curvature_indexes, curvature_preload))
# ------------------------------------------------------------------------------------------------
spec_fn(
    "c04_off", params=[("L", "int[1]"), ("i", "int")], ret="int", let={"N": "L.shape[0]"},
    axioms=["c04_off(L, 0) == 0",
            "forall(0, N, lambda i: c04_off(L, i + 1) == c04_off(L, i) + L[i], pat=c04_off(L, i + 1))"],
    lemmas=[dict(name="mono", induct="n", lo=0, hi="N",
                 stmt="implies(forall(0, N, lambda j: L[j] >= 0), forall(0, n + 1, lambda k1: 0 <= c04_off(L, k1) and c04_off(L, k1) <= c04_off(L, n),"
                      " pat=((c04_off(L, k1), c04_off(L, n)),)))")],
    py=lambda L, i: int(np.sum(np.asarray(L)[:i])),
    doc="start of row i in the concatenated preload: sum of the lengths of the rows before it",
)

# (two inequalities instead of an equation: z3's preprocessor would solve an equation for the loop counter and thereby destroy the
#  `k + 1` terms the sum recurrences are triggered on)
_CIDX = ("curvature_index <= c04_off(curvature_lengths, data_0) + data_1_index"
         " and curvature_index >= c04_off(curvature_lengths, data_0) + data_1_index")
_PRE3 = {"curvature_preload": "real[1]", "curvature_indexes": "int[1]", "curvature_lengths": "int[1]"}
_PREREQ = ["forall(0, N, lambda d: curvature_lengths[d] >= 0)",
           "curvature_preload.shape[0] >= c04_off(curvature_lengths, N)", "curvature_indexes.shape[0] >= c04_off(curvature_lengths, N)",
           "forall(0, c04_off(curvature_lengths, N), lambda e: 0 <= curvature_indexes[e] and curvature_indexes[e] < N)"]


def _gin(m0, m1, d0, n):
    """sum over the first n preload entries of row d0 of  M0[d0,i] * U[d0,d1] * M1[d1,j]"""
    return ("sumto(%s, lambda k: c04_map(%s, %s, i) * curvature_preload[c04_off(curvature_lengths, %s) + k]"
            " * c04_map(%s, curvature_indexes[c04_off(curvature_lengths, %s) + k], j))" % (n, m0, d0, d0, m1, d0))


def _g(m0, m1, n, i="i", j="j"):
    """G(i,j) = (M0^T U M1)[i,j] restricted to the first n rows of U"""
    s = "sumto(%s, lambda d0: %s)" % (n, _gin(m0, m1, "d0", "curvature_lengths[d0]"))
    return s.replace("i)", i + ")").replace("j)", j + ")") if (i, j) != ("i", "j") else s


_GD = lambda n: _g(_U3, _U3, n)
_GIJ = "c04_G(curvature_preload, curvature_indexes, curvature_lengths, " + _U3 + ", {i}, {j})"
# G = M^T U M as a macro over the input tables (the same unique tables on both sides)
macro("c04_G", ["curvature_preload", "curvature_indexes", "curvature_lengths", "data_to_pix_unique", "data_weights", "pix_lengths", "P", "i", "j"],
      _g(_U3, _U3, "curvature_lengths.shape[0]"))

_ROW0 = "c04_mapc(" + _U3 + ", data_0, i, {n})"
_ROW1 = "c04_mapc(" + _U3 + ", data_1, j, {n})"
_ACC1 = _GD("data_0") + " + " + _gin(_U3, _U3, "data_0", "data_1_index")
_ACC2 = _ACC1 + " + " + _ROW0.format(n="pix_0_index") + " * w_tilde_value * c04_map(" + _U3 + ", data_1, j)"
_ACC3 = (_ACC2 + " + (data_weights[data_0, pix_0_index] if data_to_pix_unique[data_0, pix_0_index] == i else 0) * w_tilde_value * "
         + _ROW1.format(n="pix_1_index"))
_FA = "forall(0, P, lambda i: forall(0, P, lambda j: curvature_matrix[i, j] == {e}))"
_STEP = ("c04_off(curvature_lengths, data_0 + 1) == c04_off(curvature_lengths, data_0) + curvature_lengths[data_0]"
         " and c04_off(curvature_lengths, data_0 + 1) <= c04_off(curvature_lengths, N)")
_SYM = "(" + _GIJ.format(i="a", j="b") + " + " + _GIJ.format(i="b", j="a") + ")"
contract(
    IU + "curvature_matrix_via_w_tilde_curvature_preload_imaging_from", props=["C04"],
    types={**_PRE3, **_UTY, "pix_pixels": "int"}, returns="real[2]",
    let={"N": "curvature_lengths.shape[0]", "P": "pix_pixels"},
    requires=["pix_pixels >= 0"] + _PREREQ + _ut("data_to_pix_unique", "data_weights", "pix_lengths", "N", "P"),
    ensures=["result.shape[0] == P", "result.shape[1] == P",
             "forall(0, P, lambda a: forall(0, P, lambda b: result[a, b] == " + _SYM + "))",
             "forall(0, P, lambda a: forall(0, P, lambda b: result[a, b] == result[b, a]))"],
    loops={
        0: {"inv": ["curvature_index == c04_off(curvature_lengths, data_0)", _FA.format(e=_GD("data_0"))]},
        1: {"inv": [_CIDX, _FA.format(e=_ACC1)],
            "assert_at": {0: [_STEP],
                          3: ["data_1 == curvature_indexes[c04_off(curvature_lengths, data_0) + data_1_index]"
                              " and w_tilde_value == curvature_preload[c04_off(curvature_lengths, data_0) + data_1_index]",
                              _FA.format(e=_ACC1 + " + c04_map(" + _U3 + ", data_0, i) * w_tilde_value * c04_map(" + _U3 + ", data_1, j)"),
                              _FA.format(e=_ACC1 + " + c04_map(" + _U3 + ", data_0, i) * curvature_preload[c04_off(curvature_lengths, data_0) + data_1_index]"
                                         " * c04_map(" + _U3 + ", curvature_indexes[c04_off(curvature_lengths, data_0) + data_1_index], j)"),
                              # the step of the inner sum, spelled out
                              "forall(0, P, lambda i: forall(0, P, lambda j: " + _gin(_U3, _U3, "data_0", "data_1_index + 1") + " == "
                              + _gin(_U3, _U3, "data_0", "data_1_index") + " + c04_map(" + _U3 + ", data_0, i)"
                              " * curvature_preload[c04_off(curvature_lengths, data_0) + data_1_index]"
                              " * c04_map(" + _U3 + ", curvature_indexes[c04_off(curvature_lengths, data_0) + data_1_index], j)))"]}},
        2: {"inv": [_FA.format(e=_ACC2)]},
        3: {"inv": [_FA.format(e=_ACC3)],
            "assert_at": {2: ["forall(0, P, lambda j: c04_mapc(" + _U3 + ", data_1, j, pix_1_index + 1) == c04_mapc(" + _U3 + ", data_1, j, pix_1_index)"
                              " + (data_weights[data_1, pix_1_index] if data_to_pix_unique[data_1, pix_1_index] == j else 0))"]}},
        4: {"inv": ["forall(0, P, lambda a: forall(0, P, lambda b: curvature_matrix[a, b] == (" + _SYM + " if a < i and b >= a else " + _GIJ.format(i="a", j="b") + ")))"]},
        5: {"inv": ["forall(0, P, lambda a: forall(0, P, lambda b: curvature_matrix[a, b] == (" + _SYM
                    + " if (a < i and b >= a) or (a == i and i <= b and b < j) else " + _GIJ.format(i="a", j="b") + ")))"]},
        6: {"inv": ["forall(0, P, lambda a: forall(0, P, lambda b: curvature_matrix[a, b] == (" + _SYM
                    + " if b >= a or b < i else " + _GIJ.format(i="a", j="b") + ")))"]},
        7: {"inv": ["forall(0, P, lambda a: forall(0, P, lambda b: curvature_matrix[a, b] == (" + _SYM
                    + " if b >= a or b < i or (b == i and a < j) else " + _GIJ.format(i="a", j="b") + ")))"]},
    },
    sentence={"c04_G": "the w-tilde curvature matrix is M^T (U + U^T) M for the mapping matrix M of the unique tables and the sparse upper-triangular "
                       "overlap matrix U of the preload (diagonal stored halved): F[a,b] = G[a,b] + G[b,a], G = M^T U M",
              "result[b, a])": "the curvature matrix is symmetric"},
)


def _preload_tables(rng, n, upper=True):
    """random sparse rows over n data pixels: (values, partner indexes, lengths); `upper`: partners >= row, ascending (as the real preload)"""
    pre, idx, ln = [], [], np.zeros(n, dtype=int)
    for d in range(n):
        cand = list(range(d, n)) if upper else list(range(n))
        m = rng.randint(0, len(cand))
        chosen = sorted(rng.sample(cand, m)) if upper else [rng.choice(cand) for _ in range(m)]
        ln[d] = len(chosen)
        for q in chosen:
            idx.append(q)
            pre.append(rng.choice([rng.uniform(-2, 2), 1.0, -0.5, 0.25]))
    extra = rng.choice([0, 0, 2])
    return (np.array(pre + [7.0] * extra, dtype=float), np.array(idx + [0] * extra, dtype=int), ln)


def _g_curv(rng, tier):
    for _ in range(gens.budget(tier, 150, 1500)):
        n, p = rng.randint(0, 4), rng.randint(0, 3)
        pre, idx, ln = _preload_tables(rng, n, upper=rng.random() < 0.7)
        u, w, pl = _utables(rng, n, p)
        yield {"curvature_preload": pre, "curvature_indexes": idx, "curvature_lengths": ln,
               "data_to_pix_unique": u, "data_weights": w, "pix_lengths": pl, "pix_pixels": p}


CONTRACTS[IU + "curvature_matrix_via_w_tilde_curvature_preload_imaging_from"].gen = _g_curv
CONTRACTS[IU + "curvature_matrix_via_w_tilde_curvature_preload_imaging_from"].nontrivial = lambda curvature_preload, **kw: bool((curvature_preload < 0).any())


# off-diagonal block between two mappers: (M0^T U M1)[i, j]   (the caller adds the transposed block of the swapped pair)
_T0 = "data_to_pix_unique_0, data_weights_0, pix_lengths_0, P0"
_T1 = "data_to_pix_unique_1, data_weights_1, pix_lengths_1, P1"
_OGD = lambda n: _g(_T0, _T1, n)
_OACC1 = _OGD("data_0") + " + " + _gin(_T0, _T1, "data_0", "data_1_index")
_OACC2 = _OACC1 + " + c04_mapc(" + _T0 + ", data_0, i, pix_0_index) * w_tilde_value * c04_map(" + _T1 + ", data_1, j)"
_OACC3 = (_OACC2 + " + (data_weights_0[data_0, pix_0_index] if data_to_pix_unique_0[data_0, pix_0_index] == i else 0) * w_tilde_value * "
          "c04_mapc(" + _T1 + ", data_1, j, pix_1_index)")
_OFA = "forall(0, P0, lambda i: forall(0, P1, lambda j: curvature_matrix[i, j] == {e}))"
_OSTEPT = ("c04_map(" + _T0 + ", data_0, i) * curvature_preload[c04_off(curvature_lengths, data_0) + data_1_index]"
           " * c04_map(" + _T1 + ", curvature_indexes[c04_off(curvature_lengths, data_0) + data_1_index], j)")
contract(
    IU + "curvature_matrix_off_diags_via_w_tilde_curvature_preload_imaging_from", props=["C04"],
    types={**_PRE3, "data_to_pix_unique_0": "int[2]", "data_weights_0": "real[2]", "pix_lengths_0": "int[1]", "pix_pixels_0": "int",
           "data_to_pix_unique_1": "int[2]", "data_weights_1": "real[2]", "pix_lengths_1": "int[1]", "pix_pixels_1": "int"},
    returns="real[2]",
    let={"N": "curvature_lengths.shape[0]", "P0": "pix_pixels_0", "P1": "pix_pixels_1"},
    requires=["pix_pixels_0 >= 0", "pix_pixels_1 >= 0"] + _PREREQ
             + _ut("data_to_pix_unique_0", "data_weights_0", "pix_lengths_0", "N", "P0")
             + _ut("data_to_pix_unique_1", "data_weights_1", "pix_lengths_1", "N", "P1"),
    ensures=["result.shape[0] == P0", "result.shape[1] == P1",
             "forall(0, P0, lambda i: forall(0, P1, lambda j: result[i, j] == " + _OGD("N") + "))"],
    loops={
        0: {"inv": ["curvature_index == c04_off(curvature_lengths, data_0)", _OFA.format(e=_OGD("data_0"))]},
        1: {"inv": [_CIDX, _OFA.format(e=_OACC1)],
            "assert_at": {0: [_STEP],
                          3: ["data_1 == curvature_indexes[c04_off(curvature_lengths, data_0) + data_1_index]"
                              " and w_tilde_value == curvature_preload[c04_off(curvature_lengths, data_0) + data_1_index]",
                              _OFA.format(e=_OACC1 + " + c04_map(" + _T0 + ", data_0, i) * w_tilde_value * c04_map(" + _T1 + ", data_1, j)"),
                              _OFA.format(e=_OACC1 + " + " + _OSTEPT),
                              "forall(0, P0, lambda i: forall(0, P1, lambda j: " + _gin(_T0, _T1, "data_0", "data_1_index + 1") + " == "
                              + _gin(_T0, _T1, "data_0", "data_1_index") + " + " + _OSTEPT + "))"]}},
        2: {"inv": [_OFA.format(e=_OACC2)]},
        3: {"inv": [_OFA.format(e=_OACC3)],
            "assert_at": {2: ["forall(0, P1, lambda j: c04_mapc(" + _T1 + ", data_1, j, pix_1_index + 1) == c04_mapc(" + _T1 + ", data_1, j, pix_1_index)"
                              " + (data_weights_1[data_1, pix_1_index] if data_to_pix_unique_1[data_1, pix_1_index] == j else 0))"]}},
    },
    sentence={"sumto": "the off-diagonal block of two mappers is M0^T U M1 for the sparse upper-triangular overlap matrix U of the preload"},
)


def _g_offd(rng, tier):
    for _ in range(gens.budget(tier, 150, 1500)):
        n, p0, p1 = rng.randint(0, 4), rng.randint(0, 3), rng.randint(0, 3)
        pre, idx, ln = _preload_tables(rng, n, upper=rng.random() < 0.7)
        u0, w0, l0 = _utables(rng, n, p0)
        u1, w1, l1 = _utables(rng, n, p1)
        yield {"curvature_preload": pre, "curvature_indexes": idx, "curvature_lengths": ln,
               "data_to_pix_unique_0": u0, "data_weights_0": w0, "pix_lengths_0": l0, "pix_pixels_0": p0,
               "data_to_pix_unique_1": u1, "data_weights_1": w1, "pix_lengths_1": l1, "pix_pixels_1": p1}


CONTRACTS[IU + "curvature_matrix_off_diags_via_w_tilde_curvature_preload_imaging_from"].gen = _g_offd

# ------------------------------------------------------------------------------------------------
# mapper x linear-function off-diagonal blocks
# ------------------------------------------------------------------------------------------------
_FT = ["{i}.shape[0] == {n}", "{k}.shape[0] == {n}", "{l}.shape[0] == {n}",
       "forall(0, {n}, lambda s: 0 <= {l}[s] and {l}[s] <= {i}.shape[1] and {l}[s] <= {k}.shape[1])",
       "forall(0, {n}, lambda s: forall(0, {l}[s], lambda k: 0 <= {i}[s, k] and {i}[s, k] < {n}))"]
_FTY = {"image_frame_1d_lengths": "int[1]", "image_frame_1d_indexes": "int[2]", "image_frame_1d_kernels": "real[2]"}
_FTREQ = [x.format(i="image_frame_1d_indexes", k="image_frame_1d_kernels", l="image_frame_1d_lengths", n="N") for x in _FT]

# (B^T cw)[d, l] over the non-zero entries of column d of the blurring operator (frame tables): sum_k ker[d,k] * cw[idx[d,k], l]
_BT = "sumto({n}, lambda k: image_frame_1d_kernels[{d}, k] * {cw}[image_frame_1d_indexes[{d}, k], {l}])"
_BTM = lambda n, d, l: _BT.format(n=n, d=d, l=l, cw="curvature_weights_matrix")
contract(
    IU + "data_linear_func_matrix_from", props=["C04"],
    types={"curvature_weights_matrix": "real[2]", **_FTY}, returns="real[2]",
    let={"N": "curvature_weights_matrix.shape[0]", "Lf": "curvature_weights_matrix.shape[1]"},
    requires=_FTREQ,
    ensures=["result.shape[0] == N", "result.shape[1] == Lf",
             "forall(0, N, lambda d: forall(0, Lf, lambda l: result[d, l] == " + _BTM("image_frame_1d_lengths[d]", "d", "l") + "))"],
    loops={
        0: {"inv": ["forall(0, data_0, lambda d: forall(0, Lf, lambda l: data_linear_func_matrix_dict[d, l] == " + _BTM("image_frame_1d_lengths[d]", "d", "l") + "))",
                    "forall(data_0, N, lambda d: forall(0, Lf, lambda l: data_linear_func_matrix_dict[d, l] == 0))"]},
        1: {"inv": ["forall(0, data_0, lambda d: forall(0, Lf, lambda l: data_linear_func_matrix_dict[d, l] == " + _BTM("image_frame_1d_lengths[d]", "d", "l") + "))",
                    "forall(data_0 + 1, N, lambda d: forall(0, Lf, lambda l: data_linear_func_matrix_dict[d, l] == 0))",
                    "forall(0, Lf, lambda l: data_linear_func_matrix_dict[data_0, l] == " + _BTM("psf_index", "data_0", "l") + ")"]},
        2: {"inv": ["forall(0, data_0, lambda d: forall(0, Lf, lambda l: data_linear_func_matrix_dict[d, l] == " + _BTM("image_frame_1d_lengths[d]", "d", "l") + "))",
                    "forall(data_0 + 1, N, lambda d: forall(0, Lf, lambda l: data_linear_func_matrix_dict[d, l] == 0))",
                    "forall(0, linear_index, lambda l: data_linear_func_matrix_dict[data_0, l] == " + _BTM("psf_index + 1", "data_0", "l") + ")",
                    "forall(linear_index, Lf, lambda l: data_linear_func_matrix_dict[data_0, l] == " + _BTM("psf_index", "data_0", "l") + ")"]},
    },
    sentence={"sumto": "the data x linear-function matrix is the transposed blurring operator of the frame tables applied to the noise-weighted "
                       "operated values: sum over the pixels t that pixel d blurs into of K[d->t] * cw[t, l]"},
)

_OD1 = "sumto({n}, lambda d: c04_map(" + _U3 + ", d, p) * data_linear_func_matrix[d, l])"
contract(
    IU + "curvature_matrix_off_diags_via_data_linear_func_matrix_from", props=["C04"],
    types={"data_linear_func_matrix": "real[2]", **_UTY, "pix_pixels": "int"}, returns="real[2]",
    let={"N": "data_weights.shape[0]", "Lf": "data_linear_func_matrix.shape[1]", "P": "pix_pixels"},
    requires=["pix_pixels >= 0", "data_linear_func_matrix.shape[0] == N"] + _ut("data_to_pix_unique", "data_weights", "pix_lengths", "N", "P"),
    ensures=["result.shape[0] == P", "result.shape[1] == Lf",
             "forall(0, P, lambda p: forall(0, Lf, lambda l: result[p, l] == " + _OD1.format(n="N") + "))"],
    loops={
        0: {"inv": ["forall(0, P, lambda p: forall(0, Lf, lambda l: off_diag[p, l] == " + _OD1.format(n="data_0") + "))"]},
        1: {"inv": ["forall(0, P, lambda p: forall(0, Lf, lambda l: off_diag[p, l] == " + _OD1.format(n="data_0")
                    + " + c04_mapc(" + _U3 + ", data_0, p, pix_0_index) * data_linear_func_matrix[data_0, l]))"]},
        2: {"inv": ["forall(0, P, lambda p: forall(0, Lf, lambda l: off_diag[p, l] == " + _OD1.format(n="data_0")
                    + " + c04_mapc(" + _U3 + ", data_0, p, (pix_0_index + 1 if l < linear_index else pix_0_index)) * data_linear_func_matrix[data_0, l]))"],
            "assert_at": {0: ["forall(0, P, lambda p: c04_mapc(" + _U3 + ", data_0, p, pix_0_index + 1) == c04_mapc(" + _U3 + ", data_0, p, pix_0_index)"
                              " + (data_weights[data_0, pix_0_index] if data_to_pix_unique[data_0, pix_0_index] == p else 0))"]}},
    },
    sentence={"sumto": "the mapper x linear-function block is the transposed mapping matrix applied to the data x linear-function matrix: sum_d M[d,p] * A[d,l]"},
)

_BTC = lambda n, d, l: _BT.format(n=n, d=d, l=l, cw="curvature_weights")
_OD2 = "sumto({n}, lambda d: c04_map(" + _U3 + ", d, p) * " + _BTC("image_frame_1d_lengths[d]", "d", "l") + ")"
contract(
    IU + "curvature_matrix_off_diags_via_mapper_and_linear_func_curvature_vector_from", props=["C04"],
    types={**_UTY, "pix_pixels": "int", "curvature_weights": "real[2]", **_FTY}, returns="real[2]",
    let={"N": "data_weights.shape[0]", "Lf": "curvature_weights.shape[1]", "P": "pix_pixels"},
    requires=["pix_pixels >= 0", "curvature_weights.shape[0] == N"] + _ut("data_to_pix_unique", "data_weights", "pix_lengths", "N", "P") + _FTREQ,
    ensures=["result.shape[0] == P", "result.shape[1] == Lf",
             "forall(0, P, lambda p: forall(0, Lf, lambda l: result[p, l] == " + _OD2.format(n="N") + "))"],
    loops={
        0: {"inv": ["forall(0, P, lambda p: forall(0, Lf, lambda l: off_diag[p, l] == " + _OD2.format(n="data_0") + "))"]},
        1: {"inv": ["forall(0, P, lambda p: forall(0, Lf, lambda l: off_diag[p, l] == " + _OD2.format(n="data_0")
                    + " + c04_mapc(" + _U3 + ", data_0, p, pix_0_index) * " + _BTC("image_frame_1d_lengths[data_0]", "data_0", "l") + "))"],
            "assert_at": {3: ["forall(0, P, lambda p: c04_mapc(" + _U3 + ", data_0, p, pix_0_index + 1) == c04_mapc(" + _U3 + ", data_0, p, pix_0_index)"
                              " + (data_weights[data_0, pix_0_index] if data_to_pix_unique[data_0, pix_0_index] == p else 0))"]}},
        # the slice statement touches row pix_0 only: two implications instead of a product with an indicator
        2: {"inv": ["forall(0, P, lambda p: forall(0, Lf, lambda l: implies(p != pix_0, off_diag[p, l] == " + _OD2.format(n="data_0")
                    + " + c04_mapc(" + _U3 + ", data_0, p, pix_0_index) * " + _BTC("image_frame_1d_lengths[data_0]", "data_0", "l") + ")))",
                    "forall(0, P, lambda p: forall(0, Lf, lambda l: implies(p == pix_0, off_diag[p, l] == " + _OD2.format(n="data_0")
                    + " + c04_mapc(" + _U3 + ", data_0, p, pix_0_index) * " + _BTC("image_frame_1d_lengths[data_0]", "data_0", "l")
                    + " + data_0_weight * " + _BTC("psf_index", "data_0", "l") + ")))"],
            "assert_at": {2: ["forall(0, Lf, lambda l: " + _BTC("psf_index + 1", "data_0", "l") + " == " + _BTC("psf_index", "data_0", "l")
                              + " + image_frame_1d_kernels[data_0, psf_index] * curvature_weights[image_frame_1d_indexes[data_0, psf_index], l])"]}},
    },
    sentence={"sumto": "the mapper x linear-function block is M^T B^T cw: sum_d M[d,p] * sum over the pixels t that d blurs into of K[d->t] * cw[t, l]"},
)


def _ftables(rng, n, kmax=3):
    C = rng.randint(1, kmax)
    idx = -np.ones((n, C), dtype=int)
    ker = -np.ones((n, C))
    ln = np.zeros(n, dtype=int)
    for s_ in range(n):
        ln[s_] = rng.randint(0, C)
        for k in range(ln[s_]):
            idx[s_, k] = rng.randrange(n)
            ker[s_, k] = rng.choice([rng.uniform(-2, 2), 0.0, 1.0])
    return idx, ker, ln


def _g_dlf(rng, tier):
    for _ in range(gens.budget(tier, 200, 2000)):
        n, lf = rng.randint(0, 5), rng.randint(0, 3)
        idx, ker, ln = _ftables(rng, n)
        yield {"curvature_weights_matrix": gens.reals(rng, (n, lf), -3, 3), "image_frame_1d_lengths": ln,
               "image_frame_1d_indexes": idx, "image_frame_1d_kernels": ker}


def _g_od1(rng, tier):
    for _ in range(gens.budget(tier, 200, 2000)):
        n, p, lf = rng.randint(0, 5), rng.randint(0, 4), rng.randint(0, 3)
        u, w, pl = _utables(rng, n, p)
        yield {"data_linear_func_matrix": gens.reals(rng, (n, lf), -3, 3), "data_to_pix_unique": u, "data_weights": w,
               "pix_lengths": pl, "pix_pixels": p}


def _g_od2(rng, tier):
    for _ in range(gens.budget(tier, 200, 2000)):
        n, p, lf = rng.randint(0, 5), rng.randint(0, 4), rng.randint(0, 3)
        u, w, pl = _utables(rng, n, p)
        idx, ker, ln = _ftables(rng, n)
        yield {"data_to_pix_unique": u, "data_weights": w, "pix_lengths": pl, "pix_pixels": p,
               "curvature_weights": gens.reals(rng, (n, lf), -3, 3), "image_frame_1d_lengths": ln,
               "image_frame_1d_indexes": idx, "image_frame_1d_kernels": ker}


CONTRACTS[IU + "data_linear_func_matrix_from"].gen = _g_dlf
CONTRACTS[IU + "curvature_matrix_off_diags_via_data_linear_func_matrix_from"].gen = _g_od1
CONTRACTS[IU + "curvature_matrix_off_diags_via_mapper_and_linear_func_curvature_vector_from"].gen = _g_od2

# ------------------------------------------------------------------------------------------------
# the w-tilde preload: exact sparse encoding of the upper triangle of W (diagonal halved), every non-zero entry whatever its sign
# ------------------------------------------------------------------------------------------------
_INTV = "isint({x})"
_LOK = "forall(0, N, lambda j: L[j] >= 0 and isint(L[j]) and toint(L[j]) >= 0)"
spec_fn(
    "c04_psum", params=[("L", "real[1]"), ("i", "int")], ret="real", let={"N": "L.shape[0]"},
    axioms=["c04_psum(L, 0) == 0",
            "forall(0, N, lambda i: c04_psum(L, i + 1) == c04_psum(L, i) + L[i], pat=c04_psum(L, i + 1))"],
    py=lambda L, i: float(np.sum(np.asarray(L, dtype=float)[:i])),
    doc="prefix sums of a float array (np.sum of the preload lengths)",
)
# integer offsets of the rows in the concatenated preload: sum of the (integer-valued) float lengths of the rows before
spec_fn(
    "c04_offr", params=[("L", "real[1]"), ("i", "int")], ret="int", let={"N": "L.shape[0]"},
    axioms=["c04_offr(L, 0) == 0",
            "forall(0, N, lambda i: c04_offr(L, i + 1) == c04_offr(L, i) + toint(L[i]), pat=c04_offr(L, i + 1))"],
    lemmas=[dict(name="mono", induct="n", lo=0, hi="N",
                 stmt="implies(" + _LOK + ", forall(0, n + 1, lambda k1: 0 <= c04_offr(L, k1) and c04_offr(L, k1) <= c04_offr(L, n),"
                      " pat=((c04_offr(L, k1), c04_offr(L, n)),)))"),
            # row p ends before every later row starts (stated without the term offr(p + 1))
            dict(name="fit", induct="n", lo=0, hi="N",
                 stmt="implies(" + _LOK + ", forall(0, n, lambda p: c04_offr(L, p) + toint(L[p]) <= c04_offr(L, n),"
                      " pat=((c04_offr(L, p), c04_offr(L, n)),)))"),
            # the same offsets computed from the lengths converted with .astype("int") (what the curvature routines receive)
            dict(name="asint", induct="n", lo=0, hi="N",
                 stmt="c04_offr(L, n) == c04_off(arr1(N, lambda j: toint(L[j])), n)"),
            # the float sum numpy computes is this integer (for integer-valued non-negative entries)
            dict(name="npsum", induct="n", lo=0, hi="N",
                 stmt="implies(" + _LOK + ", toreal(c04_offr(L, n)) == c04_psum(L, n))")],
    py=lambda L, i: int(sum(int(v) for v in np.asarray(L)[:i])),
    doc="start of row i in the concatenated preload",
)

# W'[p,q]: the stored value -- the overlap, halved on the diagonal (the curvature routine adds the transpose)
macro("c04_wh", ["V", "K", "nfs", "p", "q"], "(c04_w(V, K, nfs, p, q) / 2 if p == q else c04_w(V, K, nfs, p, q))",
      py=lambda V, K, nfs, p, q: (0.5 if p == q else 1.0) * _ov_py(V, K, int(nfs[p, 0]), int(nfs[p, 1]), int(nfs[q, 0]), int(nfs[q, 1]), K.shape[0], 0))

_WH = "c04_wh(noise_map_native, kernel_native, nfs, {p}, {q})"


def _nz_py(V, K, nfs, p, q):
    wh = MACROS_PY["c04_wh"]
    return int(sum(1 for t in range(p, q) if wh(V, K, nfs, p, t) != 0.0))


def _part_py(V, K, nfs, p, c):
    wh = MACROS_PY["c04_wh"]
    qs = [t for t in range(p, nfs.shape[0]) if wh(V, K, nfs, p, t) != 0.0]
    return qs[c] if 0 <= c < len(qs) else -1


_NLET = {"N": "(nfs.shape[0] if nfs.shape[1] >= 2 else 0)"}
# position of partner q in row p of the preload: number of partners t in [p, q) with a non-zero stored value W'[p,t]
spec_fn(
    "c04_nz", params=[("V", "real[2]"), ("K", "real[2]"), ("nfs", "int[2]"), ("p", "int"), ("q", "int")], ret="int", let=_NLET,
    axioms=["forall(0, N + 1, lambda p: c04_nz(V, K, nfs, p, p) == 0, pat=c04_nz(V, K, nfs, p, p))",
            "forall(0, N, lambda p: forall(p, N, lambda q: c04_nz(V, K, nfs, p, q + 1) == c04_nz(V, K, nfs, p, q)"
            " + (1 if c04_wh(V, K, nfs, p, q) != 0 else 0),"
            # second trigger: the loop `for ip1 in range(ip0, N)` yields q = ip0 + k, whose successor is not of the shape `q + 1`
            " pat=(c04_nz(V, K, nfs, p, q + 1), (c04_nz(V, K, nfs, p, q), c04_w(V, K, nfs, p, q)))))"],
    lemmas=[dict(name="bound", induct="n", lo=0, hi="N",
                 stmt="forall(0, n + 1, lambda p: 0 <= c04_nz(V, K, nfs, p, n) and c04_nz(V, K, nfs, p, n) <= n - p, pat=c04_nz(V, K, nfs, p, n))"),
            dict(name="strict", induct="n", lo=0, hi="N",
                 stmt="forall(0, n, lambda p: forall(p, n, lambda q1: c04_nz(V, K, nfs, p, q1) <= c04_nz(V, K, nfs, p, n)"
                      " and implies(c04_wh(V, K, nfs, p, q1) != 0, c04_nz(V, K, nfs, p, q1) < c04_nz(V, K, nfs, p, n)),"
                      " pat=((c04_nz(V, K, nfs, p, q1), c04_nz(V, K, nfs, p, n)),)))")],
    py=_nz_py,
    doc="rank of q among the partners of p with a non-zero stored overlap",
)
_PPROPS = ("p <= c04_part(V, K, nfs, p, c) and c04_part(V, K, nfs, p, c) < {n} and c04_wh(V, K, nfs, p, c04_part(V, K, nfs, p, c)) != 0"
           " and c04_nz(V, K, nfs, p, c04_part(V, K, nfs, p, c)) == c")
# the c-th partner of p: the inverse of the rank function on the pairs with a non-zero stored overlap
spec_fn(
    "c04_part", params=[("V", "real[2]"), ("K", "real[2]"), ("nfs", "int[2]"), ("p", "int"), ("c", "int")], ret="int", let=_NLET,
    axioms=["forall(0, N, lambda p: forall(p, N, lambda q: implies(c04_wh(V, K, nfs, p, q) != 0, c04_part(V, K, nfs, p, c04_nz(V, K, nfs, p, q)) == q),"
            " pat=((c04_nz(V, K, nfs, p, q), c04_w(V, K, nfs, p, q)),)))"],
    lemmas=[
        # every position below the count reached so far is the rank of its own partner (discrete intermediate values)
        dict(name="surj_upto", induct="n", lo=0, hi="N", export=False,
             stmt="forall(0, n + 1, lambda p: forall(0, c04_nz(V, K, nfs, p, n), lambda c: " + _PPROPS.format(n="n") + ", pat=c04_part(V, K, nfs, p, c)))"),
        dict(name="surj", noinduct=True,
             stmt="forall(0, N, lambda p: forall(0, c04_nz(V, K, nfs, p, N), lambda c: " + _PPROPS.format(n="N") + ", pat=c04_part(V, K, nfs, p, c)))"),
        # partners are listed in increasing order
        dict(name="incr", noinduct=True,
             stmt="forall(0, N, lambda p: forall(0, c04_nz(V, K, nfs, p, N), lambda c1: forall(c1 + 1, c04_nz(V, K, nfs, p, N), lambda c2:"
                  " c04_part(V, K, nfs, p, c1) < c04_part(V, K, nfs, p, c2), pat=((c04_part(V, K, nfs, p, c1), c04_part(V, K, nfs, p, c2)),))))"),
    ],
    py=_part_py,
    doc="(c04_part(p, c))_c enumerates, in increasing order, exactly the q >= p with W'[p,q] != 0 (c < c04_nz(p, N))",
)
_NZ = "c04_nz(noise_map_native, kernel_native, nfs, {p}, {q})"
_PT = "c04_part(noise_map_native, kernel_native, nfs, {p}, {c})"


def _rowis(pre, idx, p, n, pos, pat=None):
    """the first n entries of row p are (partner, stored value) of positions 0..n-1"""
    P = lambda c: pos.format(c=c)
    return ("forall(0, %s, lambda c: %s[%s] == %s and %s[%s] == %s%s)" % (
        n, idx, P("c"), _PT.format(p=p, c="c"), pre, P("c"), _WH.format(p=p, q=_PT.format(p=p, c="c")),
        (", pat=%s" % pat.format(c="c")) if pat else ""))


_OS = "(2 * Ky - 1) * (2 * Kx - 1)"
_LENOK = ("forall(0, {lim}, lambda p: isint({L}[p]) and 0 <= {L}[p] and 0 <= toint({L}[p]) and toint({L}[p]) <= N - p and toint({L}[p]) <= " + _OS
          + " and toint({L}[p]) == " + _NZ.format(p="p", q="N") + ")")
_SORTED = ("forall(0, N, lambda p: forall(p + 1, N, lambda q: nfs[p, 0] < nfs[q, 0] or (nfs[p, 0] == nfs[q, 0] and nfs[p, 1] < nfs[q, 1])))")
_INWIN = "(nfs[{q}, 0] - nfs[ip0, 0] <= 2 * hy and nfs[{q}, 1] - nfs[ip0, 1] <= 2 * hx and nfs[ip0, 1] - nfs[{q}, 1] <= 2 * hx)"
_RANK = "((nfs[{q}, 0] - nfs[ip0, 0]) * (4 * hx + 1) + nfs[{q}, 1] - nfs[ip0, 1] + 2 * hx)"
_POS = "c04_offr({L}, {p}) + {c}"
_TMPROWS = lambda lim: "forall(0, %s, lambda p: %s)" % (lim, _rowis("curvature_preload_tmp", "curvature_indexes_tmp", "p", "toint(curvature_lengths[p])", "p, {c}",
                                                                     pat=_PT.format(p="p", c="{c}")))
_RESROWS = lambda lim: "forall(0, %s, lambda p: %s)" % (lim, _rowis(
    "curvature_preload", "curvature_indexes", "p", "toint(curvature_lengths[p])", _POS.format(L="curvature_lengths", p="p", c="{c}"),
    pat=_PT.format(p="p", c="{c}")))
contract(
    IU + "w_tilde_curvature_preload_imaging_from", props=["C04"],
    types=_WT3, returns="(real[1],real[1],real[1])", let=_NAT,
    requires=_NATREQ + [_SORTED],      # pixels listed in row-major order, as native_index_for_slim_index_2d_from (C01) produces them
    ensures=["result[2].shape[0] == N",
             # lengths: the number of partners q >= p with a non-zero stored overlap, as integer-valued floats
             _LENOK.format(lim="N", L="result[2]"),
             "result[0].shape[0] == c04_offr(result[2], N) and result[1].shape[0] == result[0].shape[0]",
             # every stored partner is an (integer-valued) slim pixel index
             "forall(0, result[1].shape[0], lambda e: isint(result[1][e]) and 0 <= toint(result[1][e]) and toint(result[1][e]) < N)",
             # row p of the concatenated tables lists (partner, W'[p, partner]) for ALL partners with W'[p,q] != 0, in increasing order
             "forall(0, N, lambda p: " + _rowis("result[0]", "result[1]", "p", "toint(result[2][p])", _POS.format(L="result[2]", p="p", c="{c}"),
                                                 pat=_PT.format(p="p", c="{c}")) + ")"],
    loops={
        0: {"inv": [_LENOK.format(lim="ip0", L="curvature_lengths"), _TMPROWS("ip0")]},
        1: {"inv": [_TMPROWS("ip0"),
                    "0 <= kernel_index and kernel_index <= ip1 - ip0 and kernel_index <= " + _OS,
                    "kernel_index <= " + _NZ.format(p="ip0", q="ip1") + " and kernel_index >= " + _NZ.format(p="ip0", q="ip1"),
                    _rowis("curvature_preload_tmp", "curvature_indexes_tmp", "ip0", "kernel_index", "ip0, {c}", pat=_PT.format(p="ip0", c="{c}")),
                    # index safety of the temporary row: partners inside the (2Ky-1) x (2Kx-1) window are ranked by their window position
                    "forall(ip1, N, lambda q: implies(" + _INWIN.format(q="q") + ", kernel_index <= " + _RANK.format(q="q") + "))"]},
        2: {"inv": ["index == c04_offr(curvature_lengths, i)", _RESROWS("i"), "forall(0, index, lambda e: isint(curvature_indexes[e]) and 0 <= toint(curvature_indexes[e]) and toint(curvature_indexes[e]) < N)"]},
        3: {"inv": ["index == c04_offr(curvature_lengths, i) + data_index",
                    _RESROWS("i"), "forall(0, index, lambda e: isint(curvature_indexes[e]) and 0 <= toint(curvature_indexes[e]) and toint(curvature_indexes[e]) < N)",
                    _rowis("curvature_preload", "curvature_indexes", "i", "data_index", _POS.format(L="curvature_lengths", p="i", c="{c}"),
                           pat=_PT.format(p="i", c="{c}"))],
            # the entry being copied is the data_index-th partner of pixel i (brings the partner term into the proof context)
            "assert_at": {0: ["curvature_indexes_tmp[i, data_index] == " + _PT.format(p="i", c="data_index")
                              + " and i <= " + _PT.format(p="i", c="data_index") + " and " + _PT.format(p="i", c="data_index") + " < N"]}},
    },
    sentence={"c04_part": "the preload is an exact sparse encoding of the upper triangle of W with the diagonal halved: row p lists, in increasing "
                          "order of q >= p, exactly the pixel pairs with W'[p,q] != 0 -- every non-zero overlap whatever its sign -- with their values"},
)
_ext.PSUM.add(IU + "w_tilde_curvature_preload_imaging_from")


def _g_preload(rng, tier):
    for _ in range(gens.budget(tier, 120, 1200)):
        mask, data, noise, kernel, nfs = _native_case(rng, tier, zero_masked=rng.random() < 0.8)
        if rng.random() < 0.5:
            # exact arithmetic (powers of two) so that cancelling overlaps of signed kernels are exactly zero on both sides
            # ... at very different magnitudes: an overlap of 2^-34 is as much a non-zero overlap as one of order 1
            mag = 2.0 ** rng.choice([0, 0, -8, 12, 17])
            noise = np.where(noise > 0, mag * np.array([[rng.choice([0.5, 1.0, 2.0]) for _ in range(noise.shape[1])] for _ in range(noise.shape[0])]), 0.0)
            kernel = np.array([[rng.choice([1.0, -2.0, 0.0, 0.5, -1.0]) for _ in range(kernel.shape[1])] for _ in range(kernel.shape[0])])
        yield {"noise_map_native": noise, "kernel_native": kernel, "native_index_for_slim_index": nfs}


CONTRACTS[IU + "w_tilde_curvature_preload_imaging_from"].gen = _g_preload
CONTRACTS[IU + "w_tilde_curvature_preload_imaging_from"].nontrivial = lambda kernel_native, **kw: bool((kernel_native < 0).any())

# ------------------------------------------------------------------------------------------------
# dense curvature matrices F = M^T W M and F = B^T N^-1 B (+ the configured diagonal term): np.dot, `.T`, `v[:, None]` and
# column broadcasting are read through pyvc/ext/cdot.py (np.dot IS the matrix product: assumed facts D1-D3, validated
# numerically at import); what is PROVED is that the code's composition of them is the fully expanded normal-equation sum
# ------------------------------------------------------------------------------------------------
from pyvc.ext import cdot as _cdot
_cdot._selfcheck()
_cdot.enable(VU + "curvature_matrix_via_w_tilde_from")
_cdot.enable(VU + "curvature_matrix_via_mapping_matrix_from")

contract(
    VU + "curvature_matrix_via_w_tilde_from", props=["C04"],
    types={"w_tilde": "real[2]", "mapping_matrix": "real[2]"}, returns="real[2]",
    let={"N": "mapping_matrix.shape[0]", "P": "mapping_matrix.shape[1]"},
    requires=["w_tilde.shape[0] == N", "w_tilde.shape[1] == N"],
    ensures=["result.shape[0] == P", "result.shape[1] == P",
             "forall(0, P, lambda i: forall(0, P, lambda j: result[i, j] == sumto(N, lambda p: sumto(N, lambda q:"
             " mapping_matrix[p, i] * w_tilde[p, q] * mapping_matrix[q, j]))))"],
    ghost_at={0: [
        # a constant factor moves into a sum ...
        dict(induct="n", lo=0, hi="N", stmt="forall(0, N, lambda p: forall(0, P, lambda i: forall(0, P, lambda j:"
             " mapping_matrix[p, i] * sumto(n, lambda q: w_tilde[p, q] * mapping_matrix[q, j])"
             " == sumto(n, lambda q: mapping_matrix[p, i] * w_tilde[p, q] * mapping_matrix[q, j]))))"),
        # ... so (M^T (W M))[i, j], which is what the two np.dot calls compute, is the double sum of the statement
        dict(induct="n", lo=0, hi="N", stmt="forall(0, P, lambda i: forall(0, P, lambda j:"
             " sumto(n, lambda p: mapping_matrix[p, i] * sumto(N, lambda q: w_tilde[p, q] * mapping_matrix[q, j]))"
             " == sumto(n, lambda p: sumto(N, lambda q: mapping_matrix[p, i] * w_tilde[p, q] * mapping_matrix[q, j]))))"),
    ]},
    sentence={"sumto": "the dense w-tilde curvature matrix is M^T W M"},
)


def _wrap_fmap(kw):
    from autoarray.inversion.inversion.settings import SettingsInversion
    kw["settings"] = SettingsInversion(no_regularization_add_to_curvature_diag_value=float(kw["settings"][0]))
    kw["no_regularization_index_list"] = [int(v) for v in kw["no_regularization_index_list"]]
    kw["add_to_curvature_diag"] = bool(kw["add_to_curvature_diag"])
    return kw


_BNB = "sumto({n}, lambda d: mapping_matrix[d, i] * mapping_matrix[d, j] / noise_map[d] ** 2)"
contract(
    # the SettingsInversion argument is read as the one-element array of the only value the function uses (`attrs`: assumed in the
    # proof, re-checked on the real object at every run-time evaluation); the list of parameters without regularization as int[1]
    VU + "curvature_matrix_via_mapping_matrix_from", props=["C04"],
    types={"mapping_matrix": "real[2]", "noise_map": "real[1]", "add_to_curvature_diag": "bool", "no_regularization_index_list": "int[1]",
           "settings": "real[1]"}, returns="real[2]",
    attrs={"settings.no_regularization_add_to_curvature_diag_value": "settings[0]"}, rt_wrap=_wrap_fmap,
    let={"N": "mapping_matrix.shape[0]", "P": "mapping_matrix.shape[1]", "L": "no_regularization_index_list.shape[0]"},
    requires=["noise_map.shape[0] == N", "forall(0, N, lambda d: noise_map[d] > 0)", "settings.shape[0] == 1",
              "forall(0, L, lambda k: 0 <= no_regularization_index_list[k] and no_regularization_index_list[k] < P)"],
    ensures=["result.shape[0] == P", "result.shape[1] == P",
             # mapping formalism: F = B^T N^-1 B ...
             "forall(0, P, lambda i: forall(0, P, lambda j: implies(i != j or not add_to_curvature_diag, result[i, j] == "
             + _BNB.format(n="N") + ")))",
             # ... plus only the configured small diagonal term, once per listed parameter without regularization
             "forall(0, P, lambda i: forall(0, P, lambda j: implies(i == j and add_to_curvature_diag, result[i, j] == "
             + _BNB.format(n="N") + " + sumto(L, lambda k: (settings[0] if no_regularization_index_list[k] == i else 0)))))"],
    ghost_at={0: [
        # (b_i / s)(b_j / s) summed, which is what `array = B / s[:, None]; np.dot(array.T, array)` computes, is b_i b_j / s^2 summed
        dict(induct="n", lo=0, hi="N", stmt="forall(0, P, lambda i: forall(0, P, lambda j:"
             " sumto(n, lambda d: (mapping_matrix[d, i] / noise_map[d]) * (mapping_matrix[d, j] / noise_map[d]))"
             " == " + _BNB.format(n="n") + "))"),
    ]},
    sentence={"not add_to_curvature_diag": "the curvature matrix of the mapping formalism is B^T N^-1 B",
              "i == j and": "plus only the configured small diagonal term on parameters without regularization"},
)


def _g_fmap(rng, tier):
    for _ in range(gens.budget(tier, 300, 3000)):
        n, p = rng.randint(0, 5), rng.randint(0, 4)
        L = rng.randint(0, 3) if p > 0 else 0
        ix = [rng.randrange(p) for _ in range(L)]
        if rng.random() < 0.6:
            ix = sorted(set(ix))
        yield {"mapping_matrix": gens.reals(rng, (n, p), -3, 3, special=False), "noise_map": gens.reals(rng, (n,), 0.3, 2.5, special=False),
               "add_to_curvature_diag": rng.random() < 0.6, "no_regularization_index_list": np.array(ix, dtype=int),
               "settings": np.array([rng.choice([1e-8, 1.0, 0.5, -2.5, 1e-3])])}


CONTRACTS[VU + "curvature_matrix_via_mapping_matrix_from"].gen = _g_fmap


def _g_fdense(rng, tier):
    for _ in range(gens.budget(tier, 200, 2000)):
        n, p = rng.randint(0, 4), rng.randint(0, 3)
        # (no 1e8-scale specials: cancelling O(1e16) terms would only test float round-off against the 1e-9 tolerance of engine C)
        yield {"w_tilde": gens.reals(rng, (n, n), -3, 3, special=False), "mapping_matrix": gens.reals(rng, (n, p), -2, 2, special=False)}


CONTRACTS[VU + "curvature_matrix_via_w_tilde_from"].gen = _g_fdense

# ------------------------------------------------------------------------------------------------
# corollaries over the contracts
# ------------------------------------------------------------------------------------------------
# the preload tables, converted with .astype("int") as Imaging.w_tilde does, satisfy every precondition of the curvature routine,
# and the curvature matrix obtained from them is symmetric
_ASI = "arr1(pre[1].shape[0], lambda e: toint(pre[1][e]))"
_ASL = "arr1(pre[2].shape[0], lambda j: toint(pre[2][j]))"
corollary(
    "C04:preload-feeds-curvature", props=["C04"],
    vars={**_WT3, **_UTY, "pix_pixels": "int"},
    let={**_NAT, "P": "pix_pixels"},
    requires=_NATREQ + [_SORTED, "pix_pixels >= 0"] + _ut("data_to_pix_unique", "data_weights", "pix_lengths", "N", "P"),
    calls=[("pre", IU + "w_tilde_curvature_preload_imaging_from",
            {"noise_map_native": "noise_map_native", "kernel_native": "kernel_native", "native_index_for_slim_index": "native_index_for_slim_index"}),
           ("F", IU + "curvature_matrix_via_w_tilde_curvature_preload_imaging_from",
            {"curvature_preload": "pre[0]", "curvature_indexes": _ASI, "curvature_lengths": _ASL,
             "data_to_pix_unique": "data_to_pix_unique", "data_weights": "data_weights", "pix_lengths": "pix_lengths", "pix_pixels": "pix_pixels"})],
    ensures=["F.shape[0] == P and F.shape[1] == P", "forall(0, P, lambda a: forall(0, P, lambda b: F[a, b] == F[b, a]))"],
    sentence="the w-tilde preload (every non-zero overlap, whatever its sign) is a valid input of the curvature routine; the resulting curvature matrix is symmetric",
)
