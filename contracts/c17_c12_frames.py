"""C17 / C12 / C02 / C08 -- remaining kernels: reference-frame transforms (rotation about a centre), the symmetric extent,
the shoelace polygon area, the upscaled slim grid, grid points counted per mask pixel, and the noise-map replacement rule."""
import math
import numpy as np
from pyvc.contract import contract, corollary, macro, spec_fn, CONTRACTS
from pyvc import gens
from pyvc.ext import cframes

G = "autoarray.geometry.geometry_util:"
G2 = "autoarray.structures.grids.grid_2d_util:"
A2 = "autoarray.structures.arrays.array_2d_util:"

# ------------------------------------------------------------------------------------------------ C08: noise-map rule
_RULE = ("(abs(image_2d[y, x]) / target_signal_to_noise"
         " if (image_2d[y, x] < 0 and abs(image_2d[y, x]) / old(noise_map_2d)[y, x] >= target_signal_to_noise)"
         " else old(noise_map_2d)[y, x])")
_RULE_L = _RULE.replace("old(noise_map_2d)", "NM0")
KN = A2 + "replace_noise_map_2d_values_where_image_2d_values_are_negative"
contract(KN, props=["C08"],
         types={"image_2d": "real[2]", "noise_map_2d": "real[2]", "target_signal_to_noise": "real"}, returns="real[2]",
         let={"H": "image_2d.shape[0]", "W": "image_2d.shape[1]"},
         requires=["noise_map_2d.shape[0] == H", "noise_map_2d.shape[1] == W", "target_signal_to_noise > 0",
                   "forall(0, H, lambda y: forall(0, W, lambda x: noise_map_2d[y, x] > 0))"],
         modifies=["noise_map_2d"], result_alias="noise_map_2d",
         ensures=["result.shape[0] == H", "result.shape[1] == W",
                  # both branches, every pixel: a negative pixel whose |S/N| reaches the target gets noise |image| / target,
                  # every other pixel keeps its noise value
                  "forall(0, H, lambda y: forall(0, W, lambda x: result[y, x] == " + _RULE + "))",
                  # consequence: afterwards no negative pixel has |S/N| above the target, and noise values never decrease
                  "forall(0, H, lambda y: forall(0, W, lambda x: result[y, x] >= old(noise_map_2d)[y, x]))"],
         loops={0: {"inv": ["forall(0, y, lambda y: forall(0, W, lambda x: noise_map_2d[y, x] == " + _RULE + "))",
                            "forall(y, H, lambda y: forall(0, W, lambda x: noise_map_2d[y, x] == old(noise_map_2d)[y, x]))"]},
                1: {"inv": ["forall(0, y, lambda y: forall(0, W, lambda x: noise_map_2d[y, x] == " + _RULE + "))",
                            "forall(0, x, lambda x: noise_map_2d[y, x] == " + _RULE + ")",
                            "forall(x, W, lambda x: noise_map_2d[y, x] == old(noise_map_2d)[y, x])",
                            "forall(y + 1, H, lambda y: forall(0, W, lambda x: noise_map_2d[y, x] == old(noise_map_2d)[y, x]))"]}},
         sentence={"forall": "derived maps obey their definitions element-wise: the noise of a negative pixel whose absolute "
                             "signal-to-noise reaches the target is raised to |image| / target, every other pixel is unchanged"})


def _g_noise(rng, tier):
    for t in (2.0, 1.0):
        for img in (-4.0, -2.0, -1.0, 0.0, 3.0):
            yield {"image_2d": np.array([[img]]), "noise_map_2d": np.array([[1.0]]), "target_signal_to_noise": t}
    for _ in range(gens.budget(tier, 200, 2000)):
        H, W = rng.randint(1, 5), rng.randint(1, 5)
        t = rng.choice([2.0, 1.0, 0.5, 3.0, 4.0])
        nm = np.array([[rng.choice([0.25, 0.5, 1.0, 2.0, 4.0]) for _ in range(W)] for _ in range(H)])
        # S/N drawn away from the exact threshold (ratio == target is a floating-point tie) except for exactly representable ties
        sn = np.array([[rng.choice([-8.0, -t, -t * 2, -t / 2, 0.0, t, t * 4, -rng.uniform(0, t * 0.99), -rng.uniform(t * 1.01, 3 * t)])
                        for _ in range(W)] for _ in range(H)])
        yield {"image_2d": sn * nm, "noise_map_2d": nm, "target_signal_to_noise": t}


CONTRACTS[KN].gen = _g_noise
CONTRACTS[KN].nontrivial = lambda **kw: bool((kw["image_2d"] < 0).any())

# ------------------------------------------------------------------------------------------------ C02: symmetric extent
KE = G + "extent_symmetric_from"
_E = {"x0": "extent[0]", "x1": "extent[1]", "y0": "extent[2]", "y1": "extent[3]", "ys": "y1 - y0", "xs": "x1 - x0",
      "side": "max(ys, xs)"}
contract(KE, props=["C02"], types={"extent": "(real,real,real,real)"}, returns="(real,real,real,real)", let=_E,
         ensures=[
             # the result is the square of side max(y_sep, x_sep) with the same centre ...
             "result[1] - result[0] == side", "result[3] - result[2] == side",
             "result[0] + result[1] == x0 + x1", "result[2] + result[3] == y0 + y1",
             # ... i.e. the shorter axis is padded by half the difference on both sides, the longer axis is untouched
             "result[0] == x0 - (side - xs) / 2", "result[1] == x1 + (side - xs) / 2",
             "result[2] == y0 - (side - ys) / 2", "result[3] == y1 + (side - ys) / 2",
             # it contains the input extent (for a well-formed input nothing else is needed)
             "result[0] <= x0 and x1 <= result[1] and result[2] <= y0 and y1 <= result[3]"],
         sentence={"side": "the symmetric extent is the smallest square extent with the same centre that contains the input extent"})


def _g_ext(rng, tier):
    for e in [(0.0, 1.0, 0.0, 1.0), (0.0, 2.0, 0.0, 1.0), (0.0, 1.0, 0.0, 2.0), (-1.0, 1.0, -3.0, 5.0), (2.0, 7.0, 1.0, 1.5), (0.0, 0.0, 0.0, 0.0),
              (1.0, 0.0, 0.0, 3.0), (0.0, 3.0, 2.0, 1.0)]:
        yield {"extent": e}
    for _ in range(gens.budget(tier, 300, 3000)):
        x0, y0 = rng.uniform(-5, 5), rng.uniform(-5, 5)
        yield {"extent": (x0, x0 + rng.choice([0.5, 1.0, 2.0, rng.uniform(0, 6)]), y0, y0 + rng.choice([0.5, 1.0, 2.0, rng.uniform(0, 6)]))}


CONTRACTS[KE].gen = _g_ext

# ------------------------------------------------------------------------------------------------ C02: upscaled slim grid
# index of sub-pixel (a, b) of slim point k when every point is replaced by u x u sub-pixels (scan order of the three loops)
spec_fn(
    "c17_up", params=[("u", "$int"), ("N", "$int"), ("k", "int"), ("a", "int"), ("b", "int")], ret="int",
    axioms=[
        "c17_up(u, N, 0, 0, 0) == 0",
        "forall(0, N, lambda k: c17_up(u, N, k + 1, 0, 0) == c17_up(u, N, k, 0, 0) + u * u, pat=c17_up(u, N, k + 1, 0, 0))",
        "forall(0, N, lambda k: forall(0, u, lambda a: c17_up(u, N, k, a + 1, 0) == c17_up(u, N, k, a, 0) + u,"
        " pat=c17_up(u, N, k, a + 1, 0)))",
        "forall(0, N, lambda k: forall(0, u + 1, lambda a: forall(0, u + 1, lambda b:"
        " c17_up(u, N, k, a, b) == c17_up(u, N, k, a, 0) + b, pat=c17_up(u, N, k, a, b))))",
    ],
    lemmas=[
        dict(name="lin_a", induct="n", lo=0, hi="u", export=False,
             stmt="forall(0, N, lambda k: c17_up(u, N, k, n, 0) == c17_up(u, N, k, 0, 0) + n * u, pat=c17_up(u, N, k, n, 0))"),
        dict(name="off", induct="n", lo=0, hi="N",
             stmt="c17_up(u, N, n, 0, 0) == n * u * u"),
        dict(name="closed", noinduct=True,
             stmt="forall(0, N, lambda k: forall(0, u + 1, lambda a: forall(0, u + 1, lambda b:"
                  " c17_up(u, N, k, a, b) == c17_up(u, N, k, 0, 0) + a * u + b, pat=c17_up(u, N, k, a, b))))"),
        dict(name="end", noinduct=True,
             stmt="forall(0, N, lambda k: implies(u >= 0, c17_up(u, N, k, u, 0) == c17_up(u, N, k + 1, 0, 0)),"
                  " pat=(c17_up(u, N, k, u, 0), c17_up(u, N, k + 1, 0, 0)))"),
        dict(name="in_block", noinduct=True, export=False,
             stmt="forall(0, N, lambda k: forall(0, u, lambda a: forall(0, u, lambda b:"
                  " c17_up(u, N, k, 0, 0) <= c17_up(u, N, k, a, b) and c17_up(u, N, k, a, b) < c17_up(u, N, k + 1, 0, 0),"
                  " pat=c17_up(u, N, k, a, b))))"),
        dict(name="off_mono", induct="n", lo=0, hi="N", export=False,
             stmt="forall(0, n + 1, lambda k1: c17_up(u, N, k1, 0, 0) <= c17_up(u, N, n, 0, 0),"
                  " pat=((c17_up(u, N, k1, 0, 0), c17_up(u, N, n, 0, 0)),))"),
        dict(name="off_bound", noinduct=True,
             stmt="forall(0, N + 1, lambda k: 0 <= c17_up(u, N, k, 0, 0) and c17_up(u, N, k, 0, 0) <= c17_up(u, N, N, 0, 0),"
                  " pat=c17_up(u, N, k, 0, 0))"),
        dict(name="bound", noinduct=True,
             stmt="forall(0, N, lambda k: forall(0, u, lambda a: forall(0, u, lambda b:"
                  " 0 <= c17_up(u, N, k, a, b) and c17_up(u, N, k, a, b) < c17_up(u, N, N, 0, 0), pat=c17_up(u, N, k, a, b))))"),
    ],
    py=lambda u, N, k, a, b: (int(k) * int(u) + int(a)) * int(u) + int(b),
    doc="index of sub-pixel (a, b) of point k in the upscaled grid: blocks of u*u entries in point order, row-major inside",
)
_UDOM = "forall(0, N, lambda k: forall(0, u, lambda a: forall(0, u, lambda b: {f}(u, N, c17_up(u, N, k, a, b)) == {v}, pat=c17_up(u, N, k, a, b))))"
spec_fn("c17_uk", params=[("u", "$int"), ("N", "$int"), ("t", "int")], ret="int", axioms=[_UDOM.format(f="c17_uk", v="k")],
        py=lambda u, N, t: int(t) // (int(u) * int(u)) if u > 0 else -1)
spec_fn("c17_ua", params=[("u", "$int"), ("N", "$int"), ("t", "int")], ret="int", axioms=[_UDOM.format(f="c17_ua", v="a")],
        py=lambda u, N, t: (int(t) // int(u)) % int(u) if u > 0 else -1)
spec_fn("c17_ub", params=[("u", "$int"), ("N", "$int"), ("t", "int")], ret="int", axioms=[_UDOM.format(f="c17_ub", v="b")],
        py=lambda u, N, t: int(t) % int(u) if u > 0 else -1,
        doc="(c17_uk, c17_ua, c17_ub)(t) = the (point, sub-row, sub-column) whose upscaled index is t")

KU = G2 + "grid_2d_slim_upscaled_from"
_UY = "grid_slim[{k}, 0] + sy / 2 - {a} * (sy / u) - (sy / u) / 2"
_UX = "grid_slim[{k}, 1] - sx / 2 + {b} * (sx / u) + (sx / u) / 2"
_UP = "c17_up(u, N, k, a, b)"
_UT = dict(k="c17_uk(u, N, t)", a="c17_ua(u, N, t)", b="c17_ub(u, N, t)")
_UDONE = ("forall(0, upscale_index, lambda t: grid_2d_slim_upscaled[t, 0] == " + _UY.format(**_UT) +
          " and grid_2d_slim_upscaled[t, 1] == " + _UX.format(**_UT) + ")")
_UKAB = dict(k="k", a="a", b="b")
contract(KU, props=["C02"],
         types={"grid_slim": "real[2]", "upscale_factor": "int", "pixel_scales": "(real,real)"}, returns="real[2]",
         let={"N": "grid_slim.shape[0]", "u": "upscale_factor", "sy": "pixel_scales[0]", "sx": "pixel_scales[1]"},
         requires=["u >= 1", "grid_slim.shape[1] == 2"],
         ensures=["result.shape[0] == N * u ** 2", "result.shape[1] == 2",
                  # point k is replaced by the centres of the u x u sub-pixels of its pixel square, row-major from the top-left:
                  # sub-pixel (a, b) of point k sits at index (k*u + a)*u + b, at y = y_k + s_y/2 - (a + 1/2) s_y/u,
                  # x = x_k - s_x/2 + (b + 1/2) s_x/u
                  "forall(0, N, lambda k: forall(0, u, lambda a: forall(0, u, lambda b:"
                  " result[" + _UP + ", 0] == " + _UY.format(**_UKAB) + " and result[" + _UP + ", 1] == " + _UX.format(**_UKAB) + ")))",
                  "forall(0, N, lambda k: forall(0, u, lambda a: forall(0, u, lambda b: " + _UP + " == k * u * u + a * u + b)))"],
         loops={0: {"inv": ["upscale_index == c17_up(u, N, slim_index, 0, 0)", _UDONE]},
                1: {"inv": ["upscale_index == c17_up(u, N, slim_index, y, 0)", _UDONE]},
                2: {"inv": ["upscale_index == c17_up(u, N, slim_index, y, x)", _UDONE],
                    "assert_at": {0: ["c17_uk(u, N, upscale_index) == slim_index and c17_ua(u, N, upscale_index) == y"
                                      " and c17_ub(u, N, upscale_index) == x"]}}},
         sentence={"forall": "each coordinate is replaced by the centres of the upscale_factor x upscale_factor sub-pixels of its pixel square"})


def _g_up(rng, tier):
    for u in (1, 2, 3):
        for n in (0, 1, 2):
            yield {"grid_slim": np.array([[1.0 + k, -2.0 + 3 * k] for k in range(n)]).reshape(n, 2), "upscale_factor": u, "pixel_scales": (1.0, 2.0)}
    for _ in range(gens.budget(tier, 150, 1500)):
        n = rng.randint(0, 5)
        yield {"grid_slim": gens.reals(rng, (n, 2), special=False), "upscale_factor": rng.randint(1, 4),
               "pixel_scales": (rng.choice([0.5, 1.0, 2.0, 0.3]), rng.choice([0.5, 1.0, 0.7, 3.0]))}


CONTRACTS[KU].gen = _g_up
CONTRACTS[KU].nontrivial = lambda **kw: kw["grid_slim"].shape[0] > 0 and kw["upscale_factor"] > 1

# ------------------------------------------------------------------------------------------------ C12: shoelace polygon area
KP = G2 + "compute_polygon_area"
_SHOE = ("sumto(N, lambda i: points[i, 1] * points[(i + N - 1) % N, 0])"
         " - sumto(N, lambda i: points[i, 0] * points[(i + N - 1) % N, 1])")
contract(KP, props=["C12"], mode="bounded", types={"points": "real[2]"}, returns="real", let={"N": "points.shape[0]"},
         requires=["points.shape[1] == 2"],
         ensures=["result == abs(" + _SHOE + ") / 2", "result >= 0"],
         note="bounded: np.dot and np.roll are outside the subset.  Shoelace formula: half the absolute value of "
              "sum_i x_i*y_(i-1) - y_i*x_(i-1) (indices cyclic); a weight-valued result, unchanged by a translation of the vertices "
              "(checked by the generator's translated twins through the same clause)",
         sentence={"sumto": "a weight-valued result (the polygon area, shoelace formula) does not depend on where the origin is"})


def _g_poly(rng, tier):
    sq = np.array([[0.0, 0.0], [0.0, 1.0], [1.0, 1.0], [1.0, 0.0]])
    for pts in (sq, sq[::-1].copy(), sq * 3.0 + 2.0, np.array([[0.0, 0.0], [0.0, 2.0], [1.0, 0.0]]), np.array([[1.0, 2.0]]), np.zeros((0, 2)),
                np.array([[0.0, 0.0], [2.0, 1.0]]), np.array([[0.0, 0.0], [0.0, 4.0], [1.0, 1.0], [4.0, 0.0], [1.0, -1.0]])):
        yield {"points": pts}
    for _ in range(gens.budget(tier, 150, 1500)):
        n = rng.randint(3, 7)
        # star-shaped polygon about a centre (no cancellation of the two sums beyond what the area itself has), then translated
        ang = sorted(rng.uniform(0, 2 * math.pi) for _ in range(n))
        c = (rng.choice([0.0, 1.5, -2.0]), rng.choice([0.0, 0.75, 3.0]))
        yield {"points": np.array([[c[0] + rng.uniform(0.5, 2) * math.sin(a), c[1] + rng.uniform(0.5, 2) * math.cos(a)] for a in ang])}


CONTRACTS[KP].gen = _g_poly
CONTRACTS[KP].nontrivial = lambda **kw: kw["points"].shape[0] >= 3

# ------------------------------------------------------------------------------------------------ C17 / C12: reference frames
KT = G + "transform_grid_2d_to_reference_frame"
KF = G + "transform_grid_2d_from_reference_frame"
cframes.install()
cframes.ENABLED.update([KT, KF])
assert cframes._selfcheck()
_TT = {"grid_2d": "real[2]", "centre": "(real,real)", "angle": "real"}
_TL = {"N": "grid_2d.shape[0]", "cy0": "centre[0]", "cx0": "centre[1]", "t": "radians(angle)"}
# polar coordinates of point k about the centre, as the code computes them
# (c17_rad is opaque outside the proof of the to-frame kernel: clients compare radii by congruence on the two linear offsets)
macro("c17_rad", ["dy", "dx"], "sqrt(dy ** 2 + dx ** 2)", py=lambda dy, dx: math.sqrt(dy ** 2 + dx ** 2), opaque=(["real", "real"], "real"))
_RAD = "c17_rad(grid_2d[k, 0] - cy0, grid_2d[k, 1] - cx0)"
_THE = "arctan2(grid_2d[k, 0] - cy0, grid_2d[k, 1] - cx0)"
contract(KT, props=["C17", "C12"], types=_TT, returns="real[2]", let=_TL, reveal=["c17_rad"],
         requires=["grid_2d.shape[1] == 2"],
         ensures=["result.shape[0] == N", "result.shape[1] == 2",
                  # entry k is point k rotated by -angle about the centre: radius kept, polar angle reduced by the angle
                  "forall(0, N, lambda k: result[k, 0] == " + _RAD + " * sin(" + _THE + " - t))",
                  "forall(0, N, lambda k: result[k, 1] == " + _RAD + " * cos(" + _THE + " - t))"],
         sentence={"forall": "entry k always corresponds to coordinate k of the input: (y', x') = r_k (sin, cos)(theta_k - angle) with "
                             "(r_k, theta_k) the polar coordinates of point k about the profile centre"})
contract(KF, props=["C17", "C12"], types=_TT, returns="real[2]", let=_TL,
         requires=["grid_2d.shape[1] == 2"],
         ensures=["result.shape[0] == N", "result.shape[1] == 2",
                  # entry k is point k rotated by +angle, then moved by the centre
                  "forall(0, N, lambda k: result[k, 0] == grid_2d[k, 1] * sin(t) + grid_2d[k, 0] * cos(t) + cy0)",
                  "forall(0, N, lambda k: result[k, 1] == grid_2d[k, 1] * cos(t) - grid_2d[k, 0] * sin(t) + cx0)"],
         sentence={"forall": "entry k always corresponds to coordinate k of the input: rotation by +angle followed by the shift to the centre"})


def _g_frames(rng, tier):
    sq = np.array([[1.0, 0.0], [0.0, 1.0], [-1.0, 0.0], [0.0, -1.0], [1.0, 1.0], [2.0, -3.0]])
    for ang in (0.0, 90.0, 180.0, -90.0, 45.0, 30.0, 360.0):
        for c in ((0.0, 0.0), (1.0, -2.0)):
            yield {"grid_2d": sq.copy(), "centre": c, "angle": ang}
    yield {"grid_2d": np.zeros((0, 2)), "centre": (0.5, 0.25), "angle": 10.0}
    yield {"grid_2d": np.array([[0.5, 0.25]]), "centre": (0.5, 0.25), "angle": 10.0}          # the centre itself (radius 0)
    for _ in range(gens.budget(tier, 200, 2000)):
        n = rng.randint(1, 6)
        yield {"grid_2d": gens.reals(rng, (n, 2), special=False), "centre": (rng.choice([0.0, 1.5, -0.75, rng.uniform(-3, 3)]),
                                                                               rng.choice([0.0, -2.0, 0.3, rng.uniform(-3, 3)])),
               "angle": rng.choice([0.0, 90.0, -45.0, 17.0, rng.uniform(-360, 360)])}


CONTRACTS[KT].gen = _g_frames
CONTRACTS[KF].gen = _g_frames
CONTRACTS[KT].nontrivial = CONTRACTS[KF].nontrivial = lambda **kw: kw["grid_2d"].shape[0] > 0 and kw["angle"] != 0

# C12: a common shift d of the points and of the centre leaves the to-frame result unchanged ...
_CV = {"P": "real[2]", "Q": "real[2]", "centre": "(real,real)", "d": "(real,real)", "angle": "real"}
_CR = ["P.shape[1] == 2", "Q.shape[1] == 2", "Q.shape[0] == P.shape[0]",
       "forall(0, P.shape[0], lambda k: Q[k, 0] == P[k, 0] + d[0] and Q[k, 1] == P[k, 1] + d[1])"]
corollary("C12.to_frame_translation_invariant", props=["C12", "C17"], vars=_CV, requires=_CR,
          calls=[("A", KT, {"grid_2d": "P", "centre": "centre", "angle": "angle"}),
                 ("B", KT, {"grid_2d": "Q", "centre": "(centre[0] + d[0], centre[1] + d[1])", "angle": "angle"})],
          ensures=["B.shape[0] == A.shape[0]",
                   "forall(0, P.shape[0], lambda k: B[k, 0] == A[k, 0])", "forall(0, P.shape[0], lambda k: B[k, 1] == A[k, 1])"],
          sentence="no result depends on where the origin is: shifting grid and profile centre by d leaves the reference-frame coordinates unchanged")
# ... and shifting only the centre by d shifts the from-frame result by exactly d
corollary("C12.from_frame_translation_covariant", props=["C12", "C17"],
          vars={"P": "real[2]", "centre": "(real,real)", "d": "(real,real)", "angle": "real"}, requires=["P.shape[1] == 2"],
          calls=[("A", KF, {"grid_2d": "P", "centre": "centre", "angle": "angle"}),
                 ("B", KF, {"grid_2d": "P", "centre": "(centre[0] + d[0], centre[1] + d[1])", "angle": "angle"})],
          ensures=["forall(0, P.shape[0], lambda k: B[k, 0] == A[k, 0] + d[0])", "forall(0, P.shape[0], lambda k: B[k, 1] == A[k, 1] + d[1])"],
          sentence="translating the profile centre by d translates every coordinate returned from the reference frame by exactly d")

# ------------------------------------------------------------------------------------------------ C02 / C12: grid points per pixel
KG = G2 + "grid_pixels_in_mask_pixels_from"
_PY = "cy(a, H, sy, oy) - sy / 2 < grid[{k}, 0] and grid[{k}, 0] < cy(a, H, sy, oy) + sy / 2"
_PX = "cx(b, W, sx, ox) - sx / 2 < grid[{k}, 1] and grid[{k}, 1] < cx(b, W, sx, ox) + sx / 2"
_IN = "((" + _PY + ") and (" + _PX + "))"
_CNT = "sumto({n}, lambda k: (1 if " + _IN.format(k="k") + " else 0))"
contract(KG, props=["C02", "C12"],
         types={"grid": "real[2]", "shape_native": "(int,int)", "pixel_scales": "(real,real)", "origin": "(real,real)"}, returns="real[2]",
         let={"H": "shape_native[0]", "W": "shape_native[1]", "sy": "pixel_scales[0]", "sx": "pixel_scales[1]", "oy": "origin[0]", "ox": "origin[1]",
              "N": "grid.shape[0]"},
         # every point lies strictly inside one pixel square (the property excludes the boundary band; outside the extent the code
         # indexes out of range / wraps around)
         requires=["sy > 0", "sx > 0", "H >= 1", "W >= 1", "grid.shape[1] == 2",
                   "forall(0, N, lambda k: exists(0, H, lambda a: " + _PY.format(k="k") + ") and exists(0, W, lambda b: " + _PX.format(k="k") + "))"],
         ensures=["result.shape[0] == H", "result.shape[1] == W",
                  # entry (i, j) counts the grid points whose coordinate lies in the square of pixel (i, j)
                  "forall(0, H, lambda a: forall(0, W, lambda b: result[a, b] == " + _CNT.format(n="N") + "))"],
         loops={0: {"inv": ["forall(0, H, lambda a: forall(0, W, lambda b: mesh_pixels_per_image_pixel[a, b] == " + _CNT.format(n="i") + "))"],
                    "assert_at": {2: ["0 <= y and y < H and 0 <= x and x < W",
                                      "forall(0, H, lambda a: forall(0, W, lambda b: iff(" + _IN.format(k="i") + ", a == y and b == x)))"]}}},
         sentence={"forall": "every coordinate inside the extent is counted in the pixel whose square contains it (and in no other)"})


def _g_cnt(rng, tier):
    for _ in range(gens.budget(tier, 200, 2000)):
        H, W = rng.randint(1, 4), rng.randint(1, 4)
        sy, sx = rng.choice([0.5, 1.0, 2.0]), rng.choice([0.5, 1.0, 3.0])
        o = (rng.choice([0.0, 1.5, -2.25]), rng.choice([0.0, -0.75, 3.0]))
        n = rng.randint(0, 7)
        pts = []
        for _k in range(n):
            i, j = rng.randrange(H), rng.randrange(W)
            pts.append([o[0] + ((H - 1) / 2 - i) * sy + rng.uniform(-0.45, 0.45) * sy, o[1] + (j - (W - 1) / 2) * sx + rng.uniform(-0.45, 0.45) * sx])
        yield {"grid": np.array(pts).reshape(n, 2), "shape_native": (H, W), "pixel_scales": (sy, sx), "origin": o}


CONTRACTS[KG].gen = _g_cnt
CONTRACTS[KG].nontrivial = lambda **kw: kw["grid"].shape[0] > 1
