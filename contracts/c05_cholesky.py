"""C05 -- rank-one Cholesky update / downdate kernels of autoarray/util/cholesky_funcs.py (used by fnnls_cholesky through
cholinsertlast / choldeleteindexes).

`_cholupdate(U, x)` overwrites the upper-triangular factor U (and the work vector x) such that  U'^T U' = U^T U + x x^T,
`_choldowndate(U, x)` such that  U'^T U' = U^T U - x x^T.   Statement, for the upper triangle 0 <= i <= j < n:

        sum_{r <= i} U'[r, i] U'[r, j]  ==  sum_{r <= i} U[r, i] U[r, j]  +/-  x[i] x[j]

How it is proved.  The ghost sequence of the algorithm is mirrored by spec functions over the ENTRY arrays
    c05_x?(U, x, k, j)   x[j] after k plane rotations                     (? = p: update, m: downdate)
    c05_u?(U, x, k, j)   final row k of U
    c05_ok?(U, x, k)     the first k rotations are defined (no division by zero / root of a non-positive number)
so that the loop invariant is POINTWISE (row r < k of U is c05_u?, x[j] is c05_x?(k, j)).  The matrix identity is a
property of the spec functions alone: lemma `gram` (induction on k, one plane-rotation identity per step) and `final`.
It is transported to the result array by a ghost induction after the loop (equal summands => equal sums).
All products / quotients are opaque symbols shared by program and specification (pyvc/ext/c05.py (3)); the algebra of ONE
rotation is isolated in five quantifier-free lemmas proved by nlsat on every run (pyvc/ext/c05.py (5)).

`cholinsertlast(U, x)` (proof; np.insert, scipy.linalg.solve_triangular and ndarray.dot ASSUMED, ext A3-A5) returns the factor
of the bordered matrix [[U^T U, x[:n]], [x[:n]^T, x[n]]]; the ghost solution c05_fs of the triangular system is linked to the
array scipy returns by a ghost induction (uniqueness of forward substitution).
`choldeleteindexes` (two variants, by aliasing of the result) and `cholinsert` are bounded: run-time contracts only.
"""
import math
import numpy as np
from pyvc.contract import contract, macro, spec_fn, CONTRACTS
from pyvc import gens
from pyvc.ext import c05 as _ext

CH = "autoarray.util.cholesky_funcs:"

macro("pmul05", ["a", "b"], "a * b", opaque=(["real", "real"], "real"))
macro("pdiv05", ["a", "b"], "a / b", opaque=(["real", "real"], "real"))


# ----------------------------------------------------------------------------- python twins (independent, scalar)
def _rot(sign, a, b):
    d = a * a + sign * b * b
    r = math.sqrt(d)                  # ValueError on a negative number
    return r, r / a, b / a            # ZeroDivisionError when a == 0


def _gu(sign, a, b, u, x):
    r, c, s = _rot(sign, a, b)
    return (u + sign * s * x) / c     # ZeroDivisionError when r == 0


def _gx(sign, a, b, u, x):
    r, c, s = _rot(sign, a, b)
    return c * x - s * _gu(sign, a, b, u, x)


def _xs(sign, U, x, k):
    """x after k rotations (list of python floats)"""
    n = int(x.shape[0])
    cur = [float(v) for v in x]
    for t in range(int(k)):
        a, b = float(U[t, t]), cur[t]
        nxt = list(cur)
        for q in range(t + 1, n):
            nxt[q] = _gx(sign, a, b, float(U[t, q]), cur[q])
        cur = nxt
    return cur


def _mk(sg, sign, op):
    """macros and spec functions of one sign"""
    gr, gc, gs, gu, gx = ["%s05%s" % (g, sg) for g in ("gr", "gc", "gs", "gu", "gx")]
    X, UU, OK = "c05_x" + sg, "c05_u" + sg, "c05_ok" + sg
    macro(gr, ["a", "b"], "sqrt(a * a %s b * b)" % op, opaque=(["real"] * 2, "real"))
    macro(gc, ["a", "b"], "%s(a, b) / a" % gr, opaque=(["real"] * 2, "real"))
    macro(gs, ["a", "b"], "b / a", opaque=(["real"] * 2, "real"))
    macro(gu, ["a", "b", "u", "x"], "(u %s %s(a, b) * x) / %s(a, b)" % (op, gs, gc), opaque=(["real"] * 4, "real"))
    macro(gx, ["a", "b", "u", "x"], "%s(a, b) * x - %s(a, b) * %s(a, b, u, x)" % (gc, gs, gu), opaque=(["real"] * 4, "real"))

    for g, ar in ((gr, 2), (gc, 2), (gs, 2), (gu, 4), (gx, 4)):      # markers "unfold the definition of g here" (ext (4))
        macro("d" + g, list("abux")[:ar], "True", py=lambda *a: True, opaque=(["real"] * ar, "bool"))

    macro("stp05" + sg, ["k"], "True", py=lambda k: True, opaque=(["int"], "bool"))   # marker "unfold rotation k here" (ext (8))

    A = [("U", "real[2]"), ("x", "real[1]")]
    xk = lambda k, j: "%s(U, x, %s, %s)" % (X, k, j)
    uk = lambda k, j: "%s(U, x, %s, %s)" % (UU, k, j)
    ok = lambda k: "%s(U, x, %s)" % (OK, k)
    D = lambda k: "U[%s, %s] * U[%s, %s] %s %s * %s" % (k, k, k, k, op, xk(k, k), xk(k, k))       # radicand of step k
    good = lambda k: ("U[%s, %s] != 0" % (k, k) if sign > 0 else "U[%s, %s] != 0 and %s > 0" % (k, k, D(k)))

    def x_py(U, x, k, j):
        return _xs(sign, U, x, k)[int(j)]

    def u_py(U, x, k, j):
        k, j = int(k), int(j)
        if j < k:
            return float(U[k, j])
        cur = _xs(sign, U, x, k)
        a, b = float(U[k, k]), cur[k]
        if j == k:
            return math.sqrt(a * a + sign * b * b)
        return _gu(sign, a, b, float(U[k, j]), cur[j])

    def ok_py(U, x, k):
        n = int(x.shape[0])
        cur = [float(v) for v in x]
        for t in range(int(k)):
            a, b = float(U[t, t]), cur[t]
            if a == 0 or (sign < 0 and not a * a - b * b > 0):
                return False
            nxt = list(cur)
            for q in range(t + 1, n):
                nxt[q] = _gx(sign, a, b, float(U[t, q]), cur[q])
            cur = nxt
        return True

    spec_fn(X, params=A + [("k", "int"), ("j", "int")], ret="real", let={"n": "x.shape[0]"},
            axioms=["forall(0, n, lambda j: %s == x[j], pat=%s)" % (xk(0, "j"), xk(0, "j")),
                    "forall(0, n, lambda k: forall(0, n, lambda j: %s == (%s(U[k, k], %s, U[k, j], %s) if j > k else %s), pat=%s))"
                    % (xk("k + 1", "j"), gx, xk("k", "k"), xk("k", "j"), xk("k", "j"), xk("k + 1", "j"))],
            py=x_py, doc="x[j] after the first k plane rotations of the rank-one %s (entries j <= t are not touched by rotation t)"
            % ("update" if sign > 0 else "downdate"))

    spec_fn(OK, params=A + [("k", "int")], ret="bool", let={"n": "x.shape[0]"},
            axioms=[ok(0),
                    "forall(0, n, lambda k: %s == (%s and %s), pat=%s)" % (ok("k + 1"), ok("k"), good("k"), ok("k + 1"))],
            lemmas=[dict(name="decl", induct="k", lo=0, hi="n",
                         stmt="implies(forall(0, k, lambda t: %s, pat=U[t, t]), %s)" % (good("t"), ok("k")))],
            py=ok_py, doc="the first k rotations are defined: pivot non-zero" + ("" if sign > 0 else ", radicand positive"))

    S_u = "sumto({m}, lambda r: %s * %s)" % (uk("r", "i"), uk("r", "j"))
    S_0 = "sumto({m}, lambda r: U[r, i] * U[r, j])"
    xx0 = "x[i] * x[j]"
    xxk = "%s * %s" % (xk("k", "i"), xk("k", "j"))
    last = ("(j == i or U[i, i] != 0)" if sign > 0 else
            "((j == i and " + D("i") + " >= 0) or (U[i, i] != 0 and " + D("i") + " > 0))")
    spec_fn(UU, params=A + [("k", "int"), ("j", "int")], ret="real", let={"n": "x.shape[0]"},
            axioms=["forall(0, n, lambda k: forall(0, n, lambda j: %s == (U[k, j] if j < k else (%s(U[k, k], %s) if j == k else "
                    "%s(U[k, k], %s, U[k, j], %s))), pat=%s))" % (uk("k", "j"), gr, xk("k", "k"), gu, xk("k", "k"), xk("k", "j"), uk("k", "j"))],
            lemmas=[
                # after k rotations: (rows < k of the new factor)^T (same rows) +/- x_k x_k^T == (rows < k of U)^T (same) +/- x x^T
                dict(name="gram", induct="k", lo=0, hi="n", export=False,        # (used by `final` only)
                     stmt="forall(k, n, lambda i: forall(i, n, lambda j: implies(%s, %s %s %s == %s %s %s), pat=%s))"
                     % (ok("k"), S_u.format(m="k"), op, xxk, S_0.format(m="k"), op, xx0, xxk)),
                # the finished column pair (i, j), i <= j
                dict(name="final", noinduct=True,
                     stmt="forall(0, n, lambda i: forall(i, n, lambda j: implies(%s and %s, %s == %s %s %s), pat=%s))"
                     % (ok("i"), last, S_u.format(m="i + 1"), S_0.format(m="i + 1"), op, xx0, S_u.format(m="i + 1"))),
            ],
            py=u_py, doc="final row k of the factor (columns j < k: untouched)")
    return X, UU, OK


_XP, _UP, _OKP = _mk("p", +1, "+")
_XM, _UM, _OKM = _mk("m", -1, "-")


# ----------------------------------------------------------------------------- the two kernels
def _kernel(key, sg, sign, op, X, UU, OK):
    o = "old(U), old(x)"
    xk = lambda k, j: "%s(%s, %s, %s)" % (X, o, k, j)
    uk = lambda k, j: "%s(%s, %s, %s)" % (UU, o, k, j)
    ok = lambda k: "%s(%s, %s)" % (OK, o, k)
    gr, gc, gs, gu, gx = ["%s05%s" % (g, sg) for g in ("gr", "gc", "gs", "gu", "gx")]
    rot = "Ukk, xk, old(U)[k, j], %s" % xk("k", "j")             # arguments of the rotation of column j in step k
    last = "old(U)[n - 1, n - 1], %s" % xk("n - 1", "n - 1")
    rad = lambda k: "U[%s, %s] ** 2 %s %s ** 2" % (k, k, op, "%s(U, x, %s, %s)" % (X, k, k))
    if sign > 0:
        # exact: the only partial operations are the divisions by U[k, k] and by c = sqrt(U[k, k]^2 + x_k^2) / U[k, k], k < n - 1
        requires = ["n >= 1", "U.shape[0] == n", "U.shape[1] == n", "forall(0, n - 1, lambda k: U[k, k] != 0)"]
    else:
        # exact, over the ghost sequence x_k = c05_xm(U, x, k, .): every pivot non-zero and every radicand positive (the
        # last one non-negative: it is not divided by)
        requires = ["n >= 1", "U.shape[0] == n", "U.shape[1] == n",
                    "forall(0, n - 1, lambda k: U[k, k] != 0 and %s > 0)" % rad("k"), rad("n - 1") + " >= 0"]
    S_res = "sumto(i + 1, lambda r: result[r, i] * result[r, j])"
    S_old = "sumto(i + 1, lambda r: old(U)[r, i] * old(U)[r, j])"
    S_cur = "sumto({m}, lambda r: U[r, i] * U[r, j])"
    S_u = "sumto({m}, lambda r: %s * %s)" % (uk("r", "i"), uk("r", "j"))
    done = "forall(0, {k}, lambda r: forall(r, n, lambda j: U[r, j] == %s, pat=U[r, j]))" % uk("r", "j")
    keep = "forall(0, n, lambda r: forall(0, n, lambda j: implies(r >= {k} or j < r, U[r, j] == old(U)[r, j]), pat=U[r, j]))"
    xcur = "forall({k}, n, lambda j: x[j] == %s, pat=x[j])" % xk("{k}", "j")
    xdone = "forall(0, {k}, lambda j: x[j] == %s, pat=x[j])" % xk("j", "j")
    ghost_end = [
        "d%s(%s) and U[n - 1, n - 1] == %s(%s)" % (gr, last, gr, last),
        "forall(0, n, lambda r: forall(r, n, lambda j: U[r, j] == %s, pat=U[r, j]))" % uk("r", "j"),
        "forall(0, n, lambda k: %s >= 0, pat=%s)" % (uk("k", "k"), uk("k", "k")),
        "forall(0, n, lambda i: %s, pat=%s)" % (ok("i"), ok("i")),
        # equal summands => equal sums (rows <= i of the result are the ghost rows)
        dict(induct="m", lo=0, hi="n",
             stmt="forall(0, n, lambda i: forall(i, n, lambda j: implies(m <= i + 1, %s == %s), pat=%s))"
             % (S_cur.format(m="m"), S_u.format(m="m"), S_cur.format(m="m"))),
    ]
    contract(
        key, props=["C05"],
        types={"U": "real[2]", "x": "real[1]"}, returns="real[2]", result_alias="U", modifies=["U", "x"],
        let={"n": "x.shape[0]"},
        requires=requires,
        ensures=[
            "result.shape[0] == n and result.shape[1] == n",
            # U'^T U' == U^T U +/- x x^T  (upper-triangular factors: entry (i, j), i <= j, of both sides)
            "forall(0, n, lambda i: forall(i, n, lambda j: %s == %s %s old(x)[i] * old(x)[j]))" % (S_res, S_old, op),
            # the new factor has a non-negative diagonal, the strictly lower part of the array is not touched
            "forall(0, n, lambda k: result[k, k] >= 0)",
            "forall(0, n, lambda r: forall(0, r, lambda j: result[r, j] == old(U)[r, j]))",
            # functional form: the rows of the result and the final work vector are the ghost sequence of plane rotations
            "forall(0, n, lambda r: forall(r, n, lambda j: result[r, j] == %s))" % uk("r", "j"),
            "forall(0, n, lambda j: x[j] == %s)" % xk("j", "j"),
        ],
        loops={0: {"inv": [done.format(k="k"), keep.format(k="k"), xcur.format(k="k"), xdone.format(k="k")],
                   "assert_at": {5: ["Ukk != 0", "%s(Ukk, xk) != 0" % gc,
                                     "d%s(Ukk, xk) and r == %s(Ukk, xk)" % (gr, gr), "d%s(Ukk, xk) and c == %s(Ukk, xk)" % (gc, gc),
                                     "d%s(Ukk, xk) and s == %s(Ukk, xk)" % (gs, gs), "c != 0"],
                                 8: ["stp05%s(k)" % sg,
                                     "forall(k + 1, n, lambda j: d%s(%s) and U[k, j] == %s(%s), pat=U[k, j])" % (gu, rot, gu, rot),
                                     "forall(k + 1, n, lambda j: d%s(%s) and x[j] == %s(%s), pat=x[j])" % (gx, rot, gx, rot)]}}},
        ghost_at={3: ["x[n - 1] == %s" % xk("n - 1", "n - 1"), "U[n - 1, n - 1] == old(U)[n - 1, n - 1]"], 4: ghost_end},
        sentence={"sumto": "the rank-one Cholesky %s kernel returns the upper-triangular factor of U^T U %s x x^T"
                           % ("update" if sign > 0 else "downdate", op)},
        note=("precondition exact (divisions by U[k, k] and c only)" if sign > 0 else
              "precondition exact but path-dependent: stated over the ghost sequence c05_xm (pivot non-zero and radicand "
              "U[k,k]^2 - x_k[k]^2 positive at every rotation, non-negative at the last); it holds whenever U^T U - x x^T is "
              "positive definite and U has a non-zero diagonal"),
    )
    _ext.OPAQUE[key] = sg


_kernel(CH + "_cholupdate", "p", +1, "+", _XP, _UP, _OKP)
_kernel(CH + "_choldowndate", "m", -1, "-", _XM, _UM, _OKM)


# ----------------------------------------------------------------------------- engine C generators
def _upper(rng, n, junk_lower):
    U = np.zeros((n, n))
    for i in range(n):
        for j in range(i, n):
            U[i, j] = rng.uniform(-1.5, 1.5)
        U[i, i] = rng.uniform(0.5, 2.5)
    if junk_lower:
        for i in range(n):
            for j in range(i):
                U[i, j] = rng.uniform(-2, 2)
    return U


def _vec(rng, n):
    kind = rng.randrange(4)
    x = np.array([rng.uniform(-2, 2) for _ in range(n)])
    if kind == 0:
        x[rng.randrange(n)] = 0.0
    elif kind == 1:
        x = np.array([float(rng.choice([-1, 0, 1])) for _ in range(n)])
    elif kind == 2:
        x = -np.abs(x)
    return x


def _g_update(rng, tier):
    yield {"U": np.array([[2.0]]), "x": np.array([0.0])}
    yield {"U": np.array([[0.0]]), "x": np.array([3.0])}          # n == 1: the pivot is not divided by
    yield {"U": np.array([[1.0, 2.0], [0.0, 0.0]]), "x": np.array([1.0, -1.0])}
    yield {"U": np.array([[0.0, 2.0], [0.0, 1.0]]), "x": np.array([1.0, -1.0])}      # violates the precondition (skipped)
    for _ in range(gens.budget(tier, 250, 3000)):
        n = rng.choice([1, 2, 2, 3, 3, 4, 5, 6])
        U = _upper(rng, n, rng.random() < 0.4)
        if rng.random() < 0.3:                                    # the precondition allows negative pivots
            U[rng.randrange(n), :] *= -1.0
        yield {"U": U, "x": _vec(rng, n)}


def _g_downdate(rng, tier):
    yield {"U": np.array([[2.0]]), "x": np.array([0.0])}
    yield {"U": np.array([[2.0]]), "x": np.array([2.0])}          # radicand 0 at the last step is allowed
    yield {"U": np.array([[1.0]]), "x": np.array([2.0])}          # violates the precondition (skipped)
    for _ in range(gens.budget(tier, 250, 3000)):
        n = rng.choice([1, 2, 2, 3, 3, 4, 5, 6])
        V = _upper(rng, n, False)
        x = _vec(rng, n)
        if rng.random() < 0.15:
            U = V                                                 # arbitrary pair: mostly outside the precondition
        else:
            U = np.linalg.cholesky(V.T @ V + np.outer(x, x)).T    # so that U^T U - x x^T = V^T V is positive definite
        if rng.random() < 0.4:
            U = U + np.tril(np.array([[rng.uniform(-2, 2) for _ in range(n)] for _ in range(n)]), -1)
        yield {"U": np.ascontiguousarray(U), "x": x}


CONTRACTS[CH + "_cholupdate"].gen = _g_update
CONTRACTS[CH + "_cholupdate"].nontrivial = lambda U, x: bool(x.shape[0] >= 2 and np.any(x != 0))
CONTRACTS[CH + "_choldowndate"].gen = _g_downdate
CONTRACTS[CH + "_choldowndate"].nontrivial = lambda U, x: bool(x.shape[0] >= 2 and np.any(x != 0))


# ----------------------------------------------------------------------------- cholinsertlast (proof; numpy / scipy ASSUMED)
# np.insert, linalg.solve_triangular (incl. overwrite_b) and a.dot(b) are read through the facts (A3)-(A5) of pyvc/ext/c05.py.
def _fs_py(U, x, i):
    y = []
    for t in range(int(i) + 1):
        acc = float(x[t])
        for r in range(t):
            acc -= float(U[r, t]) * y[r]
        y.append(acc / float(U[t, t]))          # ZeroDivisionError on a zero pivot
    return y[int(i)]


spec_fn("c05_fs", params=[("U", "real[2]"), ("x", "real[1]"), ("i", "int")], ret="real", let={"n": "U.shape[0]"},
        axioms=["forall(0, n, lambda i: implies(U[i, i] != 0, sumto(i + 1, lambda r: U[r, i] * c05_fs(U, x, r)) == x[i]), "
                "pat=c05_fs(U, x, i))"],
        py=_fs_py, doc="entry i of the solution y of triu(U)^T y = x[:n] (forward substitution), defined implicitly by its equation")

_INS = CH + "cholinsertlast"
_fs = lambda r: "c05_fs(U, old(x), %s)" % r
_SY = "sumto({m}, lambda r: U[r, i] * S12[r])"
_SF = "sumto({m}, lambda r: U[r, i] * %s)" % _fs("r")
_DOT = "sumto({m}, lambda k: S12[k] * S12[k])"
_FF = "sumto({m}, lambda r: %s * %s)" % (_fs("r"), _fs("r"))
_SS = "sumto({m}, lambda r: S[r, i] * S[r, {j}])"
_UU = "sumto({m}, lambda r: U[r, i] * U[r, j])"
_SNN = "sumto({m}, lambda r: S[r, n] * S[r, n])"
contract(
    _INS, props=["C05"],
    types={"U": "real[2]", "x": "real[1]"}, returns="real[2]", modifies=["x"],
    let={"n": "U.shape[0]"},
    requires=["U.shape[1] == n", "x.shape[0] >= n + 1",
              # solve_triangular raises LinAlgError on a zero pivot
              "forall(0, n, lambda i: U[i, i] != 0)",
              # the radicand of the new diagonal entry, over the ghost solution y = triu(U)^-T x[:n]
              "x[n] - sumto(n, lambda r: c05_fs(U, x, r) ** 2) >= 0"],
    ensures=[
        "result.shape[0] == n + 1 and result.shape[1] == n + 1",
        # S^T S == [[U^T U, x[:n]], [x[:n]^T, x[n]]]   (upper-triangular factors: entries (i, j), i <= j)
        "forall(0, n, lambda i: forall(i, n, lambda j: sumto(i + 1, lambda r: result[r, i] * result[r, j]) == "
        "sumto(i + 1, lambda r: U[r, i] * U[r, j])))",
        "forall(0, n, lambda i: sumto(i + 1, lambda r: result[r, i] * result[r, n]) == old(x)[i])",
        "sumto(n + 1, lambda r: result[r, n] * result[r, n]) == old(x)[n]",
        # the old factor is the leading block, the new row is zero left of the diagonal, the new diagonal entry is non-negative
        "forall(0, n, lambda i: forall(0, n, lambda j: result[i, j] == U[i, j]))",
        "forall(0, n, lambda j: result[n, j] == 0)",
        "result[n, n] >= 0",
        "forall(0, n, lambda i: result[i, n] == %s)" % _fs("i"),
        # x: only the first n entries may be overwritten (overwrite_b=True on the view x[:n])
        "forall(n, x.shape[0], lambda j: x[j] == old(x)[j])",
    ],
    ghost_at={
        3: [
            # equal summands => equal sums (while the prefix of S12 is the ghost solution)
            dict(induct="t", lo=0, hi="n",
                 stmt="forall(0, n, lambda i: implies(t <= i and forall(0, t, lambda r: S12[r] == %s, pat=S12[r]), %s == %s), pat=%s)"
                 % (_fs("r"), _SY.format(m="t"), _SF.format(m="t"), _SY.format(m="t"))),
            # uniqueness of the triangular solve: S12 IS the ghost solution
            dict(induct="m", lo=0, hi="n", stmt="forall(0, m, lambda r: S12[r] == %s, pat=S12[r])" % _fs("r")),
            "forall(0, n, lambda r: S12[r] == %s, pat=S12[r])" % _fs("r"),
            dict(induct="t", lo=0, hi="n", stmt="%s == %s" % (_DOT.format(m="t"), _FF.format(m="t"))),
        ],
        4: [
            # (triggers on U / S12: the term of S contains an if-then-else -- the length of the slice -- and cannot be a trigger)
            "forall(0, n, lambda i: forall(0, n, lambda j: S[i, j] == U[i, j], pat=U[i, j]))",
            "forall(0, n, lambda i: S[i, n] == S12[i], pat=S12[i])",
            dict(induct="m", lo=0, hi="n",
                 stmt="forall(0, n, lambda i: forall(i, n, lambda j: implies(m <= i + 1, %s == %s), pat=%s))"
                 % (_SS.format(m="m", j="j"), _UU.format(m="m"), _SS.format(m="m", j="j"))),
            dict(induct="m", lo=0, hi="n",
                 stmt="forall(0, n, lambda i: implies(m <= i + 1, %s == %s), pat=%s)"
                 % (_SS.format(m="m", j="n"), _SY.format(m="m"), _SS.format(m="m", j="n"))),
            dict(induct="m", lo=0, hi="n", stmt="%s == %s" % (_SNN.format(m="m"), _DOT.format(m="m"))),
        ]},
    sentence={"sumto": "inserting a column at the end of the Cholesky factor returns the upper-triangular factor of the bordered matrix"},
    note="np.insert, scipy.linalg.solve_triangular (trans=1, lower=False, overwrite_b=True) and ndarray.dot are ASSUMED "
         "(pyvc/ext/c05.py A3-A5).  Side effect made explicit: overwrite_b=True on the view x[:n] lets scipy overwrite the "
         "caller's x[:n] (observed: a float64 x comes back holding the new column) -- hence modifies=['x']; fnnls passes a "
         "temporary, so no caller observes it.",
)
_ext.OPAQUE[_INS] = ""


def _g_insertlast(rng, tier):
    yield {"U": np.zeros((0, 0)), "x": np.array([4.0])}
    yield {"U": np.zeros((0, 0)), "x": np.array([0.0])}
    yield {"U": np.array([[2.0]]), "x": np.array([1.0, 0.25])}            # radicand exactly 0
    yield {"U": np.array([[0.0]]), "x": np.array([1.0, 5.0])}             # singular (skipped)
    yield {"U": np.array([[2.0]]), "x": np.array([1.0, 0.1])}             # radicand negative (skipped)
    for _ in range(gens.budget(tier, 250, 3000)):
        n = rng.choice([0, 1, 1, 2, 2, 3, 4, 5])
        U = _upper(rng, n, rng.random() < 0.4)
        if n and rng.random() < 0.3:
            U[rng.randrange(n), :] *= -1.0
        y = np.array([rng.choice([0.0, rng.uniform(-2, 2)]) for _ in range(n)])
        d = rng.uniform(0.1, 3.0)        # (a radicand of exactly 0 only in the hand-made case above: float rounding)
        x = np.concatenate([np.triu(U).T @ y, [float(y @ y) + d * d]]) if n else np.array([d * d])
        if rng.random() < 0.1:
            x[-1] -= 1.0                                                  # mostly outside the precondition
        yield {"U": U, "x": x}


CONTRACTS[_INS].gen = _g_insertlast
CONTRACTS[_INS].nontrivial = lambda U, x: bool(U.shape[0] >= 2 and np.any(x[:-1] != 0))


# ----------------------------------------------------------------------------- choldeleteindexes / cholinsert (bounded)
def _gram_upper(M):
    T = np.triu(np.asarray(M, dtype=float))
    return T.T @ T


def _close(A, B):
    A, B = np.asarray(A, dtype=float), np.asarray(B, dtype=float)
    return A.shape == B.shape and bool(np.all(np.abs(A - B) <= 1e-9 * max(1.0, float(np.max(np.abs(B))) if B.size else 1.0)))


def _del_pre(U, indexes):
    U = np.asarray(U)
    idx = [int(i) for i in indexes]
    n = U.shape[0]
    return bool(U.ndim == 2 and U.shape[1] == n and len(set(idx)) == len(idx) and all(0 <= i < n for i in idx)
                and all(U[k, k] != 0 for k in range(n)))


def _del_ok(U0, indexes, result):
    keep = [i for i in range(U0.shape[0]) if i not in {int(q) for q in indexes}]
    want = _gram_upper(U0)[np.ix_(keep, keep)]
    R = np.asarray(result)
    return bool(R.shape == (len(keep), len(keep)) and _close(_gram_upper(R), want)
                and all(R[k, k] != 0 for k in range(len(keep)))
                and np.array_equal(np.tril(R, -1), np.tril(np.asarray(U0)[np.ix_(keep, keep)], -1)))


macro("c05_del_pre", ["U", "indexes"], "True", py=_del_pre)
macro("c05_del_ok", ["U0", "indexes", "result"], "True", py=_del_ok)
_DEL_NOTE = ("bounded: the loop rebinds the array variable U (`U = L`) and iterates over a sorted Python list -- outside the "
             "engine-A subset; its kernel _cholupdate is under contract (proof).  It overwrites row `index` of the caller's U "
             "(x is a view of it): modifies=['U'].  Two variants because the aliasing of the result depends on the input: with an "
             "empty index list the function returns its argument U itself, otherwise a fresh array.")
contract(
    CH + "choldeleteindexes#some", props=["C05"], mode="bounded",
    types={"U": "real[2]", "indexes": "int[1]"}, returns="real[2]", modifies=["U"],
    requires=["c05_del_pre(U, indexes)", "len(indexes) >= 1"],
    ensures=["c05_del_ok(old(U), indexes, result)"],
    sentence={"c05_del_ok": "deleting parameters from the Cholesky factor returns the upper-triangular factor of U^T U with the "
                            "corresponding rows and columns removed (non-zero diagonal kept, strictly lower part untouched)"},
    note=_DEL_NOTE,
)
contract(
    CH + "choldeleteindexes#none", props=["C05"], mode="bounded",
    types={"U": "real[2]", "indexes": "int[1]"}, returns="real[2]", result_alias="U",
    requires=["c05_del_pre(U, indexes)", "len(indexes) == 0"],
    ensures=["c05_del_ok(U, indexes, result)", "c05_same(result, U)"],
    sentence={"c05_same": "deleting no parameter returns the factor itself, unchanged"},
    note=_DEL_NOTE,
)
macro("c05_same", ["a", "b"], "True", py=lambda a, b: a is b)


def _g_delete(rng, tier):
    yield {"U": np.array([[2.0]]), "indexes": [0]}
    for _ in range(gens.budget(tier, 250, 3000)):
        n = rng.choice([1, 2, 3, 3, 4, 5, 6])
        U = _upper(rng, n, rng.random() < 0.3)
        if rng.random() < 0.3:
            U[rng.randrange(n), :] *= -1.0
        k = rng.randint(1, n)
        idx = rng.sample(range(n), k)
        yield {"U": U, "indexes": idx if rng.random() < 0.5 else np.array(idx, dtype=int)}


def _g_delete_none(rng, tier):
    yield {"U": np.array([[2.0, 1.0], [0.0, 3.0]]), "indexes": []}
    yield {"U": np.zeros((0, 0)), "indexes": np.array([], dtype=int)}
    for _ in range(gens.budget(tier, 20, 100)):
        yield {"U": _upper(rng, rng.randint(1, 5), rng.random() < 0.3), "indexes": []}


CONTRACTS[CH + "choldeleteindexes#some"].gen = _g_delete
CONTRACTS[CH + "choldeleteindexes#some"].nontrivial = lambda U, indexes: bool(0 < len(indexes) < U.shape[0] and min(indexes) < U.shape[0] - 1)
CONTRACTS[CH + "choldeleteindexes#none"].gen = _g_delete_none


def _ins_target(U, index, x):
    """the bordered Gram matrix: U^T U with a row / column inserted at `index`, the new column being x"""
    n = U.shape[0]
    G = _gram_upper(U)
    A = np.zeros((n + 1, n + 1))
    old = [i for i in range(n + 1) if i != index]
    A[np.ix_(old, old)] = G
    A[:, index] = x
    A[index, :] = x
    return A


def _ins_pre(U, index, x):
    U, x = np.asarray(U, dtype=float), np.asarray(x, dtype=float)
    n = U.shape[0]
    if not (U.ndim == 2 and U.shape[1] == n and x.shape == (n + 1,) and 0 <= int(index) <= n):
        return False
    if any(U[k, k] == 0 for k in range(n)):
        return False
    w = np.linalg.eigvalsh(_ins_target(U, int(index), x))
    return bool(w.min() > 1e-6 * max(1.0, w.max()))          # positive definite with a margin (conditioning of the check)


def _ins_ok(U, index, x0, result):
    R = np.asarray(result)
    n = U.shape[0]
    return bool(R.shape == (n + 1, n + 1) and _close(_gram_upper(R), _ins_target(np.asarray(U, dtype=float), int(index), np.asarray(x0, dtype=float)))
                and np.all(np.tril(R, -1)[int(index), :] == 0))


macro("c05_ins_pre", ["U", "index", "x"], "True", py=_ins_pre)
macro("c05_ins_ok", ["U", "index", "x0", "result"], "True", py=_ins_ok)
contract(
    CH + "cholinsert", props=["C05"], mode="bounded",
    types={"U": "real[2]", "index": "int", "x": "real[1]"}, returns="real[2]", modifies=["x"],
    requires=["c05_ins_pre(U, index, x)"],
    ensures=["c05_ins_ok(U, index, old(x), result)"],
    sentence={"c05_ins_ok": "inserting a parameter at any position returns the upper-triangular factor of the bordered matrix"},
    note="bounded: `@`, `.T`, solve_triangular on 2-D views and an in-place call on a view of the result are outside the "
         "engine-A subset; its kernel _choldowndate is under contract (proof).  Not used by fnnls (only cholinsertlast is).",
)


def _g_insert(rng, tier):
    for _ in range(gens.budget(tier, 250, 3000)):
        n = rng.choice([0, 1, 2, 2, 3, 4, 5])
        V = _upper(rng, n + 1, False)
        A = V.T @ V
        index = rng.randint(0, n)
        old = [i for i in range(n + 1) if i != index]
        U = np.linalg.cholesky(A[np.ix_(old, old)]).T if n else np.zeros((0, 0))
        x = A[:, index].copy()
        if rng.random() < 0.1:
            x[index] -= 2.0
        yield {"U": np.ascontiguousarray(U), "index": index, "x": x}


CONTRACTS[CH + "cholinsert"].gen = _g_insert
CONTRACTS[CH + "cholinsert"].nontrivial = lambda U, index, x: bool(U.shape[0] >= 2 and index < U.shape[0])
