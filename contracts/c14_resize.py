"""C14 -- resize, pad and trim keep data centred and attached to its coordinates."""
import numpy as np
from pyvc.contract import contract, corollary, CONTRACTS
from pyvc import gens

A2 = "autoarray.structures.arrays.array_2d_util:"

_LET = {"H": "array_2d.shape[0]", "W": "array_2d.shape[1]", "h": "resized_shape[0]", "w": "resized_shape[1]",
        "default": "origin[0] == -1 and origin[1] == -1",
        # centred: the centre pixel of the output (index n//2) is the centre pixel of the input.  This is the one
        # convention under which BOTH "centred crop/embedding" and "enlarging then shrinking back loses nothing" hold.
        "dyC": "H // 2 - h // 2", "dxC": "W // 2 - w // 2",
        "dyO": "origin[0] - h // 2", "dxO": "origin[1] - w // 2"}


def _content(res, dy, dx, alim="h", blim="w"):
    return ("forall(0, %s, lambda a: forall(0, %s, lambda b: %s[a, b] == (array_2d[a + %s, b + %s]"
            " if (0 <= a + %s and a + %s < H and 0 <= b + %s and b + %s < W) else pad_value)))"
            % (alim, blim, res, dy, dx, dy, dy, dx, dx))


_DYC = "(origin[0] if not default else H // 2) - h // 2"      # offset actually used (ghost, for the invariants only)
_DXC = "(origin[1] if not default else W // 2) - w // 2"

contract(
    A2 + "resized_array_2d_from", props=["C14"],
    types={"array_2d": "real[2]", "resized_shape": "(int,int)", "origin": "(int,int)", "pad_value": "real"},
    returns="real[2]", let=_LET,
    requires=["h >= 0", "w >= 0"],
    ensures=[
        "result.shape[0] == h", "result.shape[1] == w",
        # default origin: the centred crop / centred embedding padded with pad_value, for every parity combination
        "implies(default, " + _content("result", "dyC", "dxC") + ")",
        # ... the margins on the two sides differ by at most one pixel, and by zero when the parity is preserved
        "-1 <= H - 2 * dyC - h and H - 2 * dyC - h <= 1 and -1 <= W - 2 * dxC - w and W - 2 * dxC - w <= 1",
        "implies((H - h) % 2 == 0, H - 2 * dyC - h == 0) and implies((W - w) % 2 == 0, W - 2 * dxC - w == 0)",
        # explicit origin: the window of the requested shape around that pixel
        "implies(not default, " + _content("result", "dyO", "dxO") + ")",
    ],
    loops={
        0: {"inv": ["y_min == " + _DYC, "x_min == " + _DXC, "y_max >= y_min + h", "x_max >= x_min + w",
                    "forall(0, (y_resized if y_resized < h else h), lambda a: forall(0, w, lambda b: resized_array[a, b] == (array_2d[a + y_min, b + x_min]"
                    " if (0 <= a + y_min and a + y_min < H and 0 <= b + x_min and b + x_min < W) else pad_value)))"]},
        1: {"inv": ["forall(0, (y_resized if y_resized < h else h), lambda a: forall(0, w, lambda b: resized_array[a, b] == (array_2d[a + y_min, b + x_min]"
                    " if (0 <= a + y_min and a + y_min < H and 0 <= b + x_min and b + x_min < W) else pad_value)))",
                    "implies(y_resized < h, forall(0, (x_resized if x_resized < w else w), lambda b: resized_array[y_resized, b] == (array_2d[y_resized + y_min, b + x_min]"
                    " if (0 <= y_resized + y_min and y_resized + y_min < H and 0 <= b + x_min and b + x_min < W) else pad_value)))"]},
    },
    sentence={"default": "resizing to a new shape yields the centred crop, or the centred embedding padded with zeros (or the requested pad value)"},
)

contract(
    A2 + "extracted_array_2d_from", props=["C14"],
    types={"array_2d": "real[2]", "y0": "int", "y1": "int", "x0": "int", "x1": "int"}, returns="real[2]",
    let={"H": "array_2d.shape[0]", "W": "array_2d.shape[1]"},
    requires=["y1 >= y0", "x1 >= x0"],
    ensures=["result.shape[0] == y1 - y0", "result.shape[1] == x1 - x0",
             "forall(0, y1 - y0, lambda a: forall(0, x1 - x0, lambda b: result[a, b] == (array_2d[a + y0, b + x0]"
             " if (0 <= a + y0 and a + y0 < H and 0 <= b + x0 and b + x0 < W) else 0)))"],
    loops={
        0: {"inv": ["forall(0, y_resized, lambda a: forall(0, x1 - x0, lambda b: resized_array[a, b] == (array_2d[a + y0, b + x0]"
                    " if (0 <= a + y0 and a + y0 < H and 0 <= b + x0 and b + x0 < W) else 0)))",
                    "forall(y_resized, y1 - y0, lambda a: forall(0, x1 - x0, lambda b: resized_array[a, b] == 0))"]},
        1: {"inv": ["forall(0, y_resized, lambda a: forall(0, x1 - x0, lambda b: resized_array[a, b] == (array_2d[a + y0, b + x0]"
                    " if (0 <= a + y0 and a + y0 < H and 0 <= b + x0 and b + x0 < W) else 0)))",
                    "forall(y_resized + 1, y1 - y0, lambda a: forall(0, x1 - x0, lambda b: resized_array[a, b] == 0))",
                    "forall(0, x_resized, lambda b: resized_array[y_resized, b] == (array_2d[y_resized + y0, b + x0]"
                    " if (0 <= y_resized + y0 and y_resized + y0 < H and 0 <= b + x0 and b + x0 < W) else 0))",
                    "forall(x_resized, x1 - x0, lambda b: resized_array[y_resized, b] == 0)"]},
    },
    sentence={"forall": "the extracted window holds the input values at their positions (zero outside the input)"},
)

# pad for an odd kernel then trim for the same kernel is the identity; enlarging then shrinking back loses nothing
corollary("C14.pad_then_trim", props=["C14"],
          vars={"A": "real[2]", "ky": "int", "kx": "int"},
          let={"H": "A.shape[0]", "W": "A.shape[1]"},
          requires=["ky >= 0", "kx >= 0"],       # kernel (2ky+1, 2kx+1): padding adds 2ky / 2kx (parity preserved)
          calls=[("P", A2 + "resized_array_2d_from", {"array_2d": "A", "resized_shape": "(H + 2 * ky, W + 2 * kx)", "origin": "(-1, -1)", "pad_value": "0"}),
                 ("T", A2 + "resized_array_2d_from", {"array_2d": "P", "resized_shape": "(H, W)", "origin": "(-1, -1)", "pad_value": "0"})],
          ensures=["T.shape[0] == H and T.shape[1] == W", "forall(0, H, lambda a: forall(0, W, lambda b: T[a, b] == A[a, b]))"],
          sentence="padding for an odd kernel followed by trimming for the same kernel is the identity")
corollary("C14.enlarge_then_shrink", props=["C14"],
          vars={"A": "real[2]", "ey": "int", "ex": "int"},
          let={"H": "A.shape[0]", "W": "A.shape[1]"},
          requires=["ey >= 0", "ex >= 0"],        # any enlargement, every parity combination
          calls=[("P", A2 + "resized_array_2d_from", {"array_2d": "A", "resized_shape": "(H + ey, W + ex)", "origin": "(-1, -1)", "pad_value": "0"}),
                 ("T", A2 + "resized_array_2d_from", {"array_2d": "P", "resized_shape": "(H, W)", "origin": "(-1, -1)", "pad_value": "0"})],
          ensures=["forall(0, H, lambda a: forall(0, W, lambda b: T[a, b] == A[a, b]))"],
          sentence="enlarging then shrinking back loses nothing")


def _g_resize(rng, tier):
    n = gens.budget(tier, 7, 9)
    for H in range(1, n):
        for W in range(1, 4):
            for h in range(0, n + 1):
                for w in (1, 2, 3, 4):
                    yield {"array_2d": gens.reals(rng, (H, W)), "resized_shape": (h, w), "origin": (-1, -1), "pad_value": rng.choice([0.0, 7.5])}
    for _ in range(gens.budget(tier, 100, 2000)):
        H, W = rng.randint(1, 7), rng.randint(1, 7)
        yield {"array_2d": gens.reals(rng, (H, W)), "resized_shape": (rng.randint(0, 9), rng.randint(0, 9)),
               "origin": rng.choice([(-1, -1), (rng.randrange(H), rng.randrange(W))]), "pad_value": rng.choice([0.0, -3.0])}


def _g_extract(rng, tier):
    for _ in range(gens.budget(tier, 300, 3000)):
        H, W = rng.randint(1, 6), rng.randint(1, 6)
        y0, x0 = rng.randint(-2, H), rng.randint(-2, W)
        yield {"array_2d": gens.reals(rng, (H, W)), "y0": y0, "y1": y0 + rng.randint(0, 5), "x0": x0, "x1": x0 + rng.randint(0, 5)}


CONTRACTS[A2 + "resized_array_2d_from"].gen = _g_resize
CONTRACTS[A2 + "extracted_array_2d_from"].gen = _g_extract
