"""C19 -- layout regions rotate and extract consistently with the arrays they index.

Region1D / Region2D objects are modelled as their `region` tuple (their __getitem__ is `self.region[item]`, their base
constructor only stores the tuple); the property bodies (`x0 -> self[2]`, `total_rows -> y1 - y0`, ...) are read from the
class source on every run, so a swapped index in a property is seen by every proof that uses it."""
import numpy as np
from pyvc.contract import contract, corollary, macro, CONTRACTS
from pyvc import gens

RG = "autoarray.layout.region:"
LU = "autoarray.layout.layout_util:"
OBJ = {4: RG + "Region2D", 2: RG + "Region1D"}
R2 = "(int,int,int,int)"
R1 = "(int,int)"

macro("c19_valid2", ["r"], "r[0] >= 0 and r[1] >= 0 and r[2] >= 0 and r[3] >= 0 and r[0] < r[1] and r[2] < r[3]")
macro("c19_valid1", ["r"], "r[0] >= 0 and r[1] >= 0 and r[0] < r[1]")

# invalid regions (negative or empty extents) are rejected
contract(RG + "Region2D.__init__", props=["C19"], cls="Region2D", ctor_result="region",
         types={"region": R2}, returns=R2, raises={"RegionException": "not c19_valid2(region)"},
         ensures=["result == region"], sentence={"result": "a region object is its (y0, y1, x0, x1) tuple"})
contract(RG + "Region1D.__init__", props=["C19"], cls="Region1D", ctor_result="region",
         types={"region": R1}, returns=R1, raises={"RegionException": "not c19_valid1(region)"},
         ensures=["result == region"])


def _sub2(name, types, expr, variant=None, sentence=""):
    """a Region2D method returning the sub-region `expr` (a 4-tuple DSL expression): result == expr, raising iff expr is invalid"""
    key = RG + "Region2D." + name + (("#" + variant) if variant else "")
    contract(key, props=["C19"], objects=OBJ, types={"self": R2, **types}, returns=R2,
             let={"y0": "self[0]", "y1": "self[1]", "x0": "self[2]", "x1": "self[3]"},
             requires=["c19_valid2(self)"],
             raises={"RegionException": "not c19_valid2(%s)" % expr},
             ensures=["result == %s" % expr], sentence={"result": sentence})
    return key


_K2 = []
_K2.append(_sub2("parallel_front_region_from", {"pixels": R1, "pixels_from_end": "none"},
                 "(y0 + pixels[0], y0 + pixels[1], x0, x1)", "pixels", "rows pixels[0]..pixels[1] counted from the front (top) edge of the parent"))
_K2.append(_sub2("parallel_front_region_from", {"pixels": "none", "pixels_from_end": "int"},
                 "(y1 - pixels_from_end, y1, x0, x1)", "from_end", "the last pixels_from_end rows of the parent"))
_K2.append(_sub2("parallel_trailing_region_from", {"pixels": R1},
                 "(y1 + pixels[0], y1 + pixels[1], x0, x1)", None, "rows counted from the trailing (bottom) edge of the parent"))
_K2.append(_sub2("parallel_full_region_from", {"shape_2d": R1},
                 "(y0, y1, 0, shape_2d[1])", None, "the parent's rows across every column of the array"))
_K2.append(_sub2("serial_front_region_from", {"pixels": R1, "pixels_from_end": "none"},
                 "(y0, y1, x0 + pixels[0], x0 + pixels[1])", "pixels", "columns counted from the front (left) edge of the parent"))
_K2.append(_sub2("serial_front_region_from", {"pixels": "none", "pixels_from_end": "int"},
                 "(y0, y1, x1 - pixels_from_end, x1)", "from_end", "the last pixels_from_end columns of the parent"))
_K2.append(_sub2("serial_trailing_region_from", {"pixels": R1},
                 "(y0, y1, x1 + pixels[0], x1 + pixels[1])", None, "columns counted from the trailing (right) edge of the parent"))
_K2.append(_sub2("serial_towards_roe_full_region_from", {"shape_2d": R1, "pixels": R1},
                 "(0, shape_2d[0], x0 + pixels[0], x0 + pixels[1])", None, "the requested columns across every row of the array"))

contract(RG + "Region2D.serial_x_front_range_from", props=["C19"], objects=OBJ, types={"self": R2, "pixels": R1}, returns=R1,
         requires=["c19_valid2(self)"], ensures=["result == (self[2] + pixels[0], self[2] + pixels[1])"])


def _sub1(name, types, expr, variant=None):
    key = RG + "Region1D." + name + (("#" + variant) if variant else "")
    contract(key, props=["C19"], objects=OBJ, types={"self": R1, **types}, returns=R1,
             let={"x0": "self[0]", "x1": "self[1]"}, requires=["c19_valid1(self)"],
             raises={"RegionException": "not c19_valid1(%s)" % expr}, ensures=["result == %s" % expr])
    return key


_K1 = [_sub1("front_region_from", {"pixels": R1, "pixels_from_end": "none"}, "(x0 + pixels[0], x0 + pixels[1])", "pixels"),
       _sub1("front_region_from", {"pixels": "none", "pixels_from_end": "int"}, "(x1 - pixels_from_end, x1)", "from_end"),
       _sub1("trailing_region_from", {"pixels": R1}, "(x1 + pixels[0], x1 + pixels[1])")]

# ---- rotation for a read-out corner
_CORNERS = "((roe_corner[0] == 1 or roe_corner[0] == 0) and (roe_corner[1] == 1 or roe_corner[1] == 0))"
macro("c19_rotreg", ["r", "shp", "c"],
      "((r[0] if c[0] == 1 else shp[0] - r[1]), (r[1] if c[0] == 1 else shp[0] - r[0]),"
      " (r[2] if c[1] == 0 else shp[1] - r[3]), (r[3] if c[1] == 0 else shp[1] - r[2]))")

contract(LU + "rotate_region_via_roe_corner_from", props=["C19"], objects=OBJ,
         types={"region": R2, "shape_native": R1, "roe_corner": R1}, returns=R2,
         requires=["c19_valid2(region)", "region[1] <= shape_native[0]", "region[3] <= shape_native[1]", _CORNERS],
         # flipping an axis maps the half-open interval [a, b) of an axis of length n to [n - b, n - a)
         ensures=["result == c19_rotreg(region, shape_native, roe_corner)", "c19_valid2(result)"],
         sentence={"c19_rotreg": "the rotated region: an axis is flipped exactly when the read-out corner lies on its far side"})

contract(LU + "rotate_array_via_roe_corner_from", props=["C19"],
         types={"array": "real[2]", "roe_corner": R1}, returns="real[2]",
         let={"H": "array.shape[0]", "W": "array.shape[1]"}, requires=[_CORNERS],
         ensures=["result.shape[0] == H", "result.shape[1] == W",
                  "forall(0, H, lambda a: forall(0, W, lambda b: result[a, b] =="
                  " array[(a if roe_corner[0] == 1 else H - 1 - a), (b if roe_corner[1] == 0 else W - 1 - b)]))"],
         sentence={"forall": "the array is flipped along the axes on whose far side the read-out corner lies"})

# rotating a region and rotating the array the same way commute; the same rotation twice restores both
corollary("C19.rotate_commutes", props=["C19"],
          vars={"A": "real[2]", "region": R2, "roe_corner": R1},
          let={"H": "A.shape[0]", "W": "A.shape[1]", "rows": "region[1] - region[0]", "cols": "region[3] - region[2]"},
          requires=["c19_valid2(region)", "region[1] <= H", "region[3] <= W",
                    "((roe_corner[0] == 1 or roe_corner[0] == 0) and (roe_corner[1] == 1 or roe_corner[1] == 0))"],
          calls=[("RA", LU + "rotate_array_via_roe_corner_from", {"array": "A", "roe_corner": "roe_corner"}),
                 ("RR", LU + "rotate_region_via_roe_corner_from", {"region": "region", "shape_native": "(H, W)", "roe_corner": "roe_corner"})],
          # rot(A)[rot(R).slice][a, b] == rot(A[R.slice])[a, b]: the block cut by the rotated region is the rotated block
          ensures=["RR[1] - RR[0] == rows and RR[3] - RR[2] == cols",
                   "forall(0, rows, lambda a: forall(0, cols, lambda b: RA[RR[0] + a, RR[2] + b] =="
                   " A[region[0] + (a if roe_corner[0] == 1 else rows - 1 - a), region[2] + (b if roe_corner[1] == 0 else cols - 1 - b)]))"],
          sentence="the rotated region slices from the rotated array exactly the rotated content of the original region")
corollary("C19.rotate_twice_identity", props=["C19"],
          vars={"A": "real[2]", "region": R2, "roe_corner": R1},
          let={"H": "A.shape[0]", "W": "A.shape[1]"},
          requires=["c19_valid2(region)", "region[1] <= H", "region[3] <= W",
                    "((roe_corner[0] == 1 or roe_corner[0] == 0) and (roe_corner[1] == 1 or roe_corner[1] == 0))"],
          calls=[("RA", LU + "rotate_array_via_roe_corner_from", {"array": "A", "roe_corner": "roe_corner"}),
                 ("RA2", LU + "rotate_array_via_roe_corner_from", {"array": "RA", "roe_corner": "roe_corner"}),
                 ("RR", LU + "rotate_region_via_roe_corner_from", {"region": "region", "shape_native": "(H, W)", "roe_corner": "roe_corner"}),
                 ("RR2", LU + "rotate_region_via_roe_corner_from", {"region": "RR", "shape_native": "(H, W)", "roe_corner": "roe_corner"})],
          ensures=["forall(0, H, lambda a: forall(0, W, lambda b: RA2[a, b] == A[a, b]))", "RR2 == region"],
          sentence="applying the same rotation twice restores array and region")


# ----------------------------------------------------------------------------- engine C generators
def _regions(rng, n):
    for _ in range(n):
        v = [rng.randint(-1, 6) for _ in range(4)]
        yield tuple(v)


def _valid_region(rng, H=6, W=6):
    y0 = rng.randrange(H); y1 = rng.randint(y0 + 1, H)
    x0 = rng.randrange(W); x1 = rng.randint(x0 + 1, W)
    return (y0, y1, x0, x1)


class _Obj:
    """run-time side: methods are called on real Region objects; tuples are converted at the boundary"""


def _wrap_region_inputs(key, kw):
    return kw


def _g_ctor2(rng, tier):
    for r in _regions(rng, gens.budget(tier, 400, 4000)):
        yield {"region": r}


def _g_ctor1(rng, tier):
    for _ in range(gens.budget(tier, 200, 2000)):
        yield {"region": (rng.randint(-1, 5), rng.randint(-1, 6))}


CONTRACTS[RG + "Region2D.__init__"].gen = _g_ctor2
CONTRACTS[RG + "Region1D.__init__"].gen = _g_ctor1
# region bounds are index-valued data: also fed as numpy unsigned scalars (scalar-type twins of engine C)
CONTRACTS[RG + "Region2D.__init__"].unsigned_twin = ("region",)
CONTRACTS[RG + "Region1D.__init__"].unsigned_twin = ("region",)



def _g_rot_region(rng, tier):
    for _ in range(gens.budget(tier, 400, 4000)):
        H, W = rng.randint(1, 6), rng.randint(1, 6)
        yield {"region": _valid_region(rng, H, W), "shape_native": (H, W), "roe_corner": (rng.randint(0, 1), rng.randint(0, 1))}


def _g_rot_array(rng, tier):
    for _ in range(gens.budget(tier, 300, 3000)):
        H, W = rng.randint(1, 5), rng.randint(1, 5)
        yield {"array": gens.reals(rng, (H, W)), "roe_corner": (rng.randint(0, 1), rng.randint(0, 1))}


CONTRACTS[LU + "rotate_region_via_roe_corner_from"].gen = _g_rot_region
CONTRACTS[LU + "rotate_array_via_roe_corner_from"].gen = _g_rot_array


def _g_m2(extra):
    def g(rng, tier):
        for _ in range(gens.budget(tier, 300, 3000)):
            kw = {"self": _valid_region(rng)}
            kw.update(extra(rng, kw["self"]))
            yield kw
    return g


_px = lambda rng: tuple(sorted((rng.randint(-1, 4), rng.randint(-1, 5)))) if rng.random() < 0.8 else (rng.randint(0, 4), rng.randint(-1, 3))
_GEN2 = {
    "parallel_front_region_from#pixels": lambda r, s: {"pixels": _px(r), "pixels_from_end": None},
    "parallel_front_region_from#from_end": lambda r, s: {"pixels": None, "pixels_from_end": r.randint(-1, 7)},
    "parallel_trailing_region_from": lambda r, s: {"pixels": _px(r)},
    "parallel_full_region_from": lambda r, s: {"shape_2d": (r.randint(1, 8), r.randint(0, 8))},
    "serial_front_region_from#pixels": lambda r, s: {"pixels": _px(r), "pixels_from_end": None},
    "serial_front_region_from#from_end": lambda r, s: {"pixels": None, "pixels_from_end": r.randint(-1, 7)},
    "serial_trailing_region_from": lambda r, s: {"pixels": _px(r)},
    "serial_towards_roe_full_region_from": lambda r, s: {"shape_2d": (r.randint(0, 8), r.randint(1, 8)), "pixels": _px(r)},
    "serial_x_front_range_from": lambda r, s: {"pixels": _px(r)},
}
for _n, _e in _GEN2.items():
    CONTRACTS[RG + "Region2D." + _n].gen = _g_m2(_e)


def _g_m1(extra):
    def g(rng, tier):
        for _ in range(gens.budget(tier, 300, 3000)):
            x0 = rng.randint(0, 5)
            kw = {"self": (x0, x0 + rng.randint(1, 5))}
            kw.update(extra(rng))
            yield kw
    return g


CONTRACTS[RG + "Region1D.front_region_from#pixels"].gen = _g_m1(lambda r: {"pixels": _px(r), "pixels_from_end": None})
CONTRACTS[RG + "Region1D.front_region_from#from_end"].gen = _g_m1(lambda r: {"pixels": None, "pixels_from_end": r.randint(-1, 7)})
CONTRACTS[RG + "Region1D.trailing_region_from"].gen = _g_m1(lambda r: {"pixels": _px(r)})
