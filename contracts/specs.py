"""Shared ghost spec functions (DESIGN §4.2).  Each has (a) defining axioms for the symbolic reading and
(b) an executable definition `py` for the concrete reading; `vf selftest` checks (a) against (b)."""
import numpy as np
from pyvc.contract import spec_fn, macro

# ---- cnt2: number of unmasked pixels strictly before (y, x) in row-major order; (y, W) == (y+1, 0)
spec_fn(
    "cnt2", params=[("M", "bool[2]"), ("y", "int"), ("x", "int")], ret="int",
    let={"H": "M.shape[0]", "W": "M.shape[1]"},
    axioms=[
        "cnt2(M, 0, 0) == 0",
        "forall(0, H, lambda y: forall(0, W, lambda x: cnt2(M, y, x + 1) == cnt2(M, y, x) + (0 if M[y, x] else 1),"
        " pat=cnt2(M, y, x + 1)))",
        "forall(0, H, lambda y: cnt2(M, y + 1, 0) == cnt2(M, y, W), pat=(cnt2(M, y, W), cnt2(M, y + 1, 0)))",
    ],
    lemmas=[
        # monotone inside a row (induction on the right end n)
        dict(name="row_mono", induct="n", lo=0, hi="W", export=False,
             stmt="forall(0, H, lambda y: forall(0, n + 1, lambda x1: cnt2(M, y, x1) <= cnt2(M, y, n),"
                  " pat=((cnt2(M, y, x1), cnt2(M, y, n)),)))"),
        # monotone across row starts (induction on the later row n)
        dict(name="rows_mono", induct="n", lo=0, hi="H", export=False,
             stmt="forall(0, n + 1, lambda y1: cnt2(M, y1, 0) <= cnt2(M, n, 0), pat=((cnt2(M, y1, 0), cnt2(M, n, 0)),))"),
        # every position is bounded by the total (bound0 is the proof step; it is not exported because its
        # next-row terms would feed a matching loop)
        dict(name="bound0", noinduct=True, export=False,
             stmt="forall(0, H, lambda y: forall(0, W + 1, lambda x: 0 <= cnt2(M, y, x) and cnt2(M, y, x) <= cnt2(M, y, W)"
                  " and cnt2(M, y, W) <= cnt2(M, H, 0) and 0 <= cnt2(M, y, 0) and cnt2(M, y + 1, 0) == cnt2(M, y, W),"
                  " pat=cnt2(M, y, x)))"),
        dict(name="bound", noinduct=True,
             stmt="0 <= cnt2(M, H, 0) and forall(0, H, lambda y: forall(0, W + 1, lambda x:"
                  " 0 <= cnt2(M, y, x) and cnt2(M, y, x) <= cnt2(M, H, 0), pat=cnt2(M, y, x)))"),
        # strictly increasing at unmasked pixels => (y,x) -> cnt2 is injective on unmasked pixels, and < total
        dict(name="strict_row", induct="n", lo=0, hi="W",
             stmt="forall(0, H, lambda y: forall(0, n, lambda x1: implies(not M[y, x1], cnt2(M, y, x1) < cnt2(M, y, n)),"
                  " pat=((cnt2(M, y, x1), cnt2(M, y, n)),)))"),
        dict(name="strict", noinduct=True,
             stmt="forall(0, H, lambda y1: forall(0, W, lambda x1: forall(0, H + 1, lambda y2: forall(0, W + 1, lambda x2:"
                  " implies(not M[y1, x1] and y1 < y2 and (y2 < H or x2 == 0), cnt2(M, y1, x1) < cnt2(M, y2, x2)),"
                  " pat=((cnt2(M, y1, x1), cnt2(M, y2, x2)),)))))"),
    ],
    py=lambda M, y, x: int(np.count_nonzero(~np.asarray(M, dtype=bool).ravel()[: y * M.shape[1] + x])),
    doc="rank function of the unmasked pixels (C01: slim index k denotes the k-th unmasked pixel in row-major order)",
)

# ---- pixy / pixx: the k-th unmasked pixel in row-major order (inverse of cnt2 on unmasked pixels)
def _pix(M, k, c):
    idx = np.argwhere(~np.asarray(M, dtype=bool))
    return int(idx[k][c]) if 0 <= k < len(idx) else -1


_PIX_PROPS = ("0 <= pixy(M, k) and pixy(M, k) < H and 0 <= pixx(M, k) and pixx(M, k) < W"
              " and not M[pixy(M, k), pixx(M, k)] and cnt2(M, pixy(M, k), pixx(M, k)) == k")
spec_fn(
    "pixy", params=[("M", "bool[2]"), ("k", "int")], ret="int",
    let={"H": "M.shape[0]", "W": "M.shape[1]"},
    axioms=["forall(0, H, lambda y: forall(0, W, lambda x: implies(not M[y, x], pixy(M, cnt2(M, y, x)) == y),"
            " pat=((cnt2(M, y, x), M[y, x]),)))"],
    py=lambda M, k: _pix(M, k, 0),
)
spec_fn(
    "pixx", params=[("M", "bool[2]"), ("k", "int")], ret="int",
    let={"H": "M.shape[0]", "W": "M.shape[1]"},
    axioms=["forall(0, H, lambda y: forall(0, W, lambda x: implies(not M[y, x], pixx(M, cnt2(M, y, x)) == x),"
            " pat=((cnt2(M, y, x), M[y, x]),)))"],
    lemmas=[
        # every k below the count reached so far is the rank of its own pixel (discrete intermediate values)
        dict(name="surj_row", induct="n", lo=0, hi="W", export=False,
             stmt="forall(0, H, lambda y: forall(cnt2(M, y, 0), cnt2(M, y, n), lambda k: " + _PIX_PROPS + ", pat=pixy(M, k)))"),
        dict(name="surj_rows", induct="n", lo=0, hi="H", export=False,
             stmt="forall(0, cnt2(M, n, 0), lambda k: " + _PIX_PROPS + ", pat=pixy(M, k))"),
        dict(name="surj", noinduct=True,
             stmt="forall(0, cnt2(M, H, 0), lambda k: " + _PIX_PROPS + ", pat=(pixy(M, k), pixx(M, k)))"),
    ],
    py=lambda M, k: _pix(M, k, 1),
    doc="(pixy(k), pixx(k)) is the k-th unmasked pixel; with cnt2 it forms the bijection of C01",
)

macro("total", ["M"], "cnt2(M, M.shape[0], 0)", py=lambda M: int(np.count_nonzero(~np.asarray(M, dtype=bool))))
macro("unm", ["M", "y", "x"], "not M[y, x]")

# ---- cntf: number of pixels with M == f strictly before (y, x) in row-major order
spec_fn(
    "cntf", params=[("M", "bool[2]"), ("f", "bool"), ("y", "int"), ("x", "int")], ret="int",
    let={"H": "M.shape[0]", "W": "M.shape[1]"},
    axioms=[
        "cntf(M, True, 0, 0) == 0", "cntf(M, False, 0, 0) == 0",
        "forall(0, H, lambda y: forall(0, W, lambda x: cntf(M, True, y, x + 1) == cntf(M, True, y, x) + (1 if M[y, x] else 0)))",
        "forall(0, H, lambda y: forall(0, W, lambda x: cntf(M, False, y, x + 1) == cntf(M, False, y, x) + (0 if M[y, x] else 1)))",
        "forall(0, H, lambda y: cntf(M, True, y + 1, 0) == cntf(M, True, y, W))",
        "forall(0, H, lambda y: cntf(M, False, y + 1, 0) == cntf(M, False, y, W))",
    ],
    lemmas=[
        dict(name="row_mono", induct="n", lo=0, hi="W",
             stmt="forall(0, H, lambda y: forall(0, n + 1, lambda x1: cntf(M, True, y, x1) <= cntf(M, True, y, n)"
                  " and cntf(M, False, y, x1) <= cntf(M, False, y, n)))"),
        dict(name="rows_mono", induct="n", lo=0, hi="H",
             stmt="forall(0, n + 1, lambda y1: cntf(M, True, y1, 0) <= cntf(M, True, n, 0)"
                  " and cntf(M, False, y1, 0) <= cntf(M, False, n, 0))"),
        dict(name="bound", induct="n", lo=0, hi=0, noinduct=True,
             stmt="forall(0, H, lambda y: forall(0, W + 1, lambda x:"
                  " 0 <= cntf(M, True, y, x) and cntf(M, True, y, x) <= cntf(M, True, y, W)"
                  " and cntf(M, True, y, W) <= cntf(M, True, H, 0) and 0 <= cntf(M, True, y, 0)"
                  " and 0 <= cntf(M, False, y, x) and cntf(M, False, y, x) <= cntf(M, False, y, W)"
                  " and cntf(M, False, y, W) <= cntf(M, False, H, 0) and 0 <= cntf(M, False, y, 0)))"),
        # partition: masked + unmasked ranks add up to the flat index (C01: the two lists partition the pixels)
        dict(name="part_row", induct="n", lo=0, hi="W",
             stmt="forall(0, H, lambda y: cntf(M, True, y, n) + cntf(M, False, y, n)"
                  " == cntf(M, True, y, 0) + cntf(M, False, y, 0) + n)"),
        dict(name="part", induct="n", lo=0, hi="H",
             stmt="cntf(M, True, n, 0) + cntf(M, False, n, 0) == n * W"),
    ],
    py=lambda M, f, y, x: int(np.count_nonzero(np.asarray(M, dtype=bool).ravel()[: y * M.shape[1] + x] == bool(f))),
    doc="rank among the pixels whose mask value equals f (masked list: f=True, unmasked list: f=False)",
)

# ---- cnt1: 1-D rank function
spec_fn(
    "cnt1", params=[("M", "bool[1]"), ("x", "int")], ret="int",
    let={"N": "M.shape[0]"},
    axioms=["cnt1(M, 0) == 0",
            "forall(0, N, lambda x: cnt1(M, x + 1) == cnt1(M, x) + (0 if M[x] else 1), pat=cnt1(M, x + 1))"],
    lemmas=[dict(name="mono", induct="n", lo=0, hi="N",
                 stmt="forall(0, n + 1, lambda x1: 0 <= cnt1(M, x1) and cnt1(M, x1) <= cnt1(M, n),"
                      " pat=((cnt1(M, x1), cnt1(M, n)),))"),
            dict(name="strict", induct="n", lo=0, hi="N",
                 stmt="forall(0, n, lambda x1: implies(not M[x1], cnt1(M, x1) < cnt1(M, n)), pat=((cnt1(M, x1), cnt1(M, n)),))")],
    py=lambda M, x: int(np.count_nonzero(~np.asarray(M, dtype=bool)[:x])),
)
macro("total1", ["M"], "cnt1(M, M.shape[0])", py=lambda M: int(np.count_nonzero(~np.asarray(M, dtype=bool))))

# ---- near: "some unmasked pixel strictly before (y,x) (row-major) has (a,b) inside its (2hy+1)x(2hx+1) footprint"
def _near_py(M, hy, hx, a, b, y, x):
    H, W = M.shape
    for p in range(min(y * W + x, H * W)):
        yp, xp = divmod(p, W)
        if not M[yp, xp] and abs(a - yp) <= hy and abs(b - xp) <= hx:
            return True
    return False


_WITHIN = "(a - hy <= {y} and {y} <= a + hy and b - hx <= {x} and {x} <= b + hx)"
spec_fn(
    "near", params=[("M", "bool[2]"), ("hy", "$int"), ("hx", "$int"), ("a", "int"), ("b", "int"), ("y", "int"), ("x", "int")],
    ret="bool", let={"H": "M.shape[0]", "W": "M.shape[1]"},
    axioms=[
        "forall(0, H, lambda a: forall(0, W, lambda b: not near(M, hy, hx, a, b, 0, 0), pat=near(M, hy, hx, a, b, 0, 0)))",
        "forall(0, H, lambda a: forall(0, W, lambda b: forall(0, H, lambda y: forall(0, W, lambda x:"
        " near(M, hy, hx, a, b, y, x + 1) == (near(M, hy, hx, a, b, y, x) or (not M[y, x] and " + _WITHIN.format(y="y", x="x") + ")),"
        " pat=near(M, hy, hx, a, b, y, x + 1)))))",
        "forall(0, H, lambda a: forall(0, W, lambda b: forall(0, H, lambda y:"
        " near(M, hy, hx, a, b, y + 1, 0) == near(M, hy, hx, a, b, y, W),"
        " pat=(near(M, hy, hx, a, b, y, W), near(M, hy, hx, a, b, y + 1, 0)))))",
    ],
    lemmas=[
        dict(name="row", induct="n", lo=0, hi="W", export=False,
             stmt="forall(0, H, lambda a: forall(0, W, lambda b: forall(0, H, lambda y:"
                  " near(M, hy, hx, a, b, y, n) == (near(M, hy, hx, a, b, y, 0) or exists(0, n, lambda xp:"
                  " not M[y, xp] and " + _WITHIN.format(y="y", x="xp") + ")), pat=near(M, hy, hx, a, b, y, n))))"),
        dict(name="rows", induct="n", lo=0, hi="H", export=False,
             stmt="forall(0, H, lambda a: forall(0, W, lambda b:"
                  " near(M, hy, hx, a, b, n, 0) == exists(0, n, lambda yp: exists(0, W, lambda xp:"
                  " not M[yp, xp] and " + _WITHIN.format(y="yp", x="xp") + ")), pat=near(M, hy, hx, a, b, n, 0)))"),
        # the declarative reading used by the property: near(.., H, 0) <=> some unmasked pixel has (a,b) in its footprint
        dict(name="decl", noinduct=True,
             stmt="forall(0, H, lambda a: forall(0, W, lambda b:"
                  " near(M, hy, hx, a, b, H, 0) == exists(0, H, lambda yp: exists(0, W, lambda xp:"
                  " not M[yp, xp] and " + _WITHIN.format(y="yp", x="xp") + ")), pat=near(M, hy, hx, a, b, H, 0)))"),
    ],
    py=_near_py,
    doc="scan-order accumulation of the blurring-footprint relation (C10)",
)
