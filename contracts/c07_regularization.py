"""C07 -- regularization matrices are symmetric positive (semi-)definite with the stated quadratic form.

Part 1 (contracts, engine A on the real kernels): entrywise definitions of every scheme kernel of regularization_util and of the
Gaussian / exponential covariance kernels (size = parameter count, symmetry), the per-pixel weights, reg_split_from.
Part 2 (corollaries over those contracts, proved by chains of inductive lemmas on partial sums): the quadratic-form identities
  x^T H x = 1e-8 |x|^2 + c^2 * sum over neighbouring pairs (x_i - x_j)^2                      (constant scheme, symmetric table),
  x^T H x = 1e-8 |x|^2 + sum over pairs (w_i^2 + w_j^2) (x_i - x_j)^2                          (adaptive-brightness scheme, every table),
  H = 1e-8 I + sum_k w_{k//4}^2 L_k L_k^T,  x^T H x = 1e-8 |x|^2 + sum_k w^2 (L_k . x)^2      (split-cross schemes, distinct rows),
each with x^T H x >= 1e-8 |x|^2 > 0 for x != 0 (strict positive definiteness).
Not proved here (bounded checks only): definiteness of the inverses of the kernel covariances (np.linalg.inv, Bochner-type argument).
"""
import numpy as np
from pyvc.contract import contract, macro, corollary, spec_fn, CONTRACTS
import pyvc.calls  # noqa: F401  (loads pyvc/ext/*)
from pyvc import gens
from pyvc.ext import c07 as _ext

U = "autoarray.inversion.regularization.regularization_util:"

# a neighbour table: row i of `nb` lists the neighbours of pixel i in its first sz[i] columns (the rest is padding)
_NB = ["{s}.shape[0] == P",
       "forall(0, P, lambda i: 0 <= {s}[i] and {s}[i] <= {n}.shape[1])",
       "forall(0, P, lambda i: forall(0, {s}[i], lambda k: 0 <= {n}[i, k] and {n}[i, k] < P))"]


def _nb(n="neighbors", s="neighbors_sizes"):
    return [x.format(n=n, s=s) for x in _NB]


# ---------------------------------------------------------------------------------------------------- zeroth
contract(
    U + "zeroth_regularization_matrix_from", props=["C07"],
    types={"coefficient": "real", "pixels": "int"}, returns="real[2]",
    requires=["pixels >= 0"],
    ensures=["result.shape[0] == pixels and result.shape[1] == pixels",
             "forall(0, pixels, lambda a: forall(0, pixels, lambda b: result[a, b] == (coefficient * coefficient if a == b else 0)))"],
    loops={0: {"inv": ["forall(0, i, lambda a: forall(0, pixels, lambda b: regularization_matrix[a, b] == (coefficient * coefficient if a == b else 0)))",
                       "forall(i, pixels, lambda a: forall(0, pixels, lambda b: regularization_matrix[a, b] == 0))"]}},
    sentence={"forall": "zeroth-order scheme: H = coefficient^2 * identity of the parameter count (symmetric, PSD)"},
)

# ---------------------------------------------------------------------------------------------------- constant
def _cnt_py(nb, a, b, k):
    return int(sum(1 for t in range(int(k)) if int(nb[a, t]) == b))


# number of times b occurs among the first k entries of a's neighbour list; multiplicity over the whole list
macro("c07_cnt", ["nb", "a", "b", "k"], "sumto(k, lambda t: (1 if nb[a, t] == b else 0))", py=_cnt_py)
macro("c07_mult", ["nb", "sz", "a", "b"], "c07_cnt(nb, a, b, sz[a])", py=lambda nb, sz, a, b: _cnt_py(nb, a, b, sz[a]))

# H[a, b] = [a == b] (1e-8 (+ zeroth^2) + c^2 deg(a))  -  c^2 * (number of times b occurs in a's neighbour list)
_CENTRY = "-(coefficient * coefficient) * c07_cnt(neighbors, {a}, {b}, {k}) + (1e-08 + {z}coefficient * coefficient * {k} if {a} == {b} else 0)"


def _constant(name, zeroth):
    z = "coefficient_zeroth * coefficient_zeroth + " if zeroth else ""
    ent = lambda a, b, k: _CENTRY.format(a=a, b=b, k=k, z=z)
    types = {"coefficient": "real", "neighbors": "int[2]", "neighbors_sizes": "int[1]"}
    if zeroth:
        types = {"coefficient": "real", "coefficient_zeroth": "real", "neighbors": "int[2]", "neighbors_sizes": "int[1]"}
    done = "forall(0, i, lambda a: forall(0, P, lambda b: regularization_matrix[a, b] == " + ent("a", "b", "neighbors_sizes[a]") + "))"
    contract(
        U + name, props=["C07"], types=types, returns="real[2]",
        let={"P": "neighbors.shape[0]"}, requires=_nb(),
        ensures=["result.shape[0] == P and result.shape[1] == P",
                 "forall(0, P, lambda a: forall(0, P, lambda b: result[a, b] == " + ent("a", "b", "neighbors_sizes[a]") + "))"],
        loops={
            # rows < i are final, rows >= i untouched; inside: row i holds the partial sums over the first j neighbours
            0: {"inv": [done, "forall(i, P, lambda a: forall(0, P, lambda b: regularization_matrix[a, b] == 0))"]},
            1: {"inv": [done, "forall(i + 1, P, lambda a: forall(0, P, lambda b: regularization_matrix[a, b] == 0))",
                        "forall(0, P, lambda b: regularization_matrix[i, b] == " + ent("i", "b", "j") + ")"]},
        },
        sentence={"forall": "H[a,a] = 1e-8 (+ zeroth^2) + c^2 deg(a) - c^2 mult(a,a), H[a,b] = -c^2 * multiplicity of b in a's neighbour list"},
    )


_constant("constant_regularization_matrix_from", False)
_constant("constant_zeroth_regularization_matrix_from", True)

_SYM = "forall(0, P, lambda a: forall(0, P, lambda b: c07_mult(nb, sz, a, b) == c07_mult(nb, sz, b, a)))"
for _n, _extra in (("constant_regularization_matrix_from", {}), ("constant_zeroth_regularization_matrix_from", {"coefficient_zeroth": "cz"})):
    corollary("C07.symmetric." + _n.split("_reg")[0], props=["C07"],
              vars={"c": "real", "cz": "real", "nb": "int[2]", "sz": "int[1]"}, let={"P": "nb.shape[0]"},
              # the neighbour relation is symmetric (with multiplicities): b is listed by a as often as a is listed by b
              requires=[x.replace("neighbors_sizes", "sz").replace("neighbors", "nb") for x in _nb()] + [_SYM],
              calls=[("H", U + _n, dict({"coefficient": "c", "neighbors": "nb", "neighbors_sizes": "sz"}, **_extra))],
              ensures=["forall(0, P, lambda a: forall(0, P, lambda b: H[a, b] == H[b, a]))"],
              sentence="the constant-scheme matrix is symmetric whenever the neighbour relation is symmetric")

# ---------------------------------------------------------------------------------------------------- weighted
def _pair_py(w, i, n, a, b):
    return float(w[n] ** 2 * (int(a == i) - int(a == n)) * (int(b == i) - int(b == n)))


# entry (a, b) of  w_n^2 (e_i - e_n)(e_i - e_n)^T : the contribution of "n is a neighbour of i" to the quadratic form
# sum_i sum_{n in N(i)} w_n^2 (x_i - x_n)^2   (= sum over unordered pairs of (w_i^2 + w_j^2)(x_i - x_j)^2 for a symmetric table)
macro("c07_pair", ["w", "i", "n", "a", "b"],
      "(w[n] * w[n] if a == i and b == i else 0) + (w[n] * w[n] if a == n and b == n else 0)"
      " - (w[n] * w[n] if a == i and b == n else 0) - (w[n] * w[n] if a == n and b == i else 0)", py=_pair_py)

_WROW = "sumto({k}, lambda k: c07_pair(regularization_weights, {i}, neighbors[{i}, k], a, b))"
_WALL = "sumto({n}, lambda s: " + _WROW.format(i="s", k="neighbors_sizes[s]") + ")"
# closed entrywise form (the w_a^2 + w_b^2 pair weights of the statement).  wm(a, b) = sum over the occurrences of b in a's
# neighbour list of w_b^2 (= w_b^2 mult(a, b)); win(b) = sum_s wm(s, b) (= w_b^2 * in-degree of b); nw(a) = sum_{n in N(a)} w_n^2:
#   H[a, b] = -wm(a, b) - wm(b, a) + [a == b] (1e-8 + nw(a) + win(a))
# i.e. for a symmetric simple table H[a, b] = -(w_a^2 + w_b^2) on neighbours and H[a, a] = 1e-8 + sum_{n in N(a)} (w_a^2 + w_n^2)
macro("c07_nw", ["w", "nb", "a", "k"], "sumto(k, lambda t: w[nb[a, t]] * w[nb[a, t]])",
      py=lambda w, nb, a, k: float(sum(w[nb[a, t]] ** 2 for t in range(int(k)))))
macro("c07_wm", ["w", "nb", "a", "b", "k"], "sumto(k, lambda t: (w[nb[a, t]] * w[nb[a, t]] if nb[a, t] == b else 0))",
      py=lambda w, nb, a, b, k: float(sum(w[nb[a, t]] ** 2 for t in range(int(k)) if nb[a, t] == b)))
macro("c07_win", ["w", "nb", "sz", "b", "n"], "sumto(n, lambda s: c07_wm(w, nb, s, b, sz[s]))",
      py=lambda w, nb, sz, b, n: float(sum(w[nb[s, t]] ** 2 for s in range(int(n)) for t in range(int(sz[s])) if nb[s, t] == b)))
_WC = ("-(c07_wm(w, neighbors, a, b, neighbors_sizes[a]) if a < {i} else 0) - (c07_wm(w, neighbors, b, a, neighbors_sizes[b]) if b < {i} else 0)"
       " + ((1e-08 + c07_nw(w, neighbors, a, neighbors_sizes[a]) if a < {i} else 0) + c07_win(w, neighbors, neighbors_sizes, a, {i}) if a == b else 0)")
_WCJ = (" - (c07_wm(w, neighbors, i, b, j) if a == i else 0) - (c07_wm(w, neighbors, i, a, j) if b == i else 0)"
        " + ((1e-08 + c07_nw(w, neighbors, i, j) if a == i else 0) + c07_wm(w, neighbors, i, a, j) if a == b else 0)")
_WM = "forall(0, P, lambda a: forall(0, P, lambda b: regularization_matrix[a, b] == "
contract(
    U + "weighted_regularization_matrix_from", props=["C07"],
    types={"regularization_weights": "real[1]", "neighbors": "int[2]", "neighbors_sizes": "int[1]"}, returns="real[2]",
    let={"P": "regularization_weights.shape[0]", "w": "regularization_weights"}, requires=["neighbors.shape[0] == P"] + _nb(),
    ensures=["result.shape[0] == P and result.shape[1] == P",
             "forall(0, P, lambda a: forall(0, P, lambda b: result[a, b] == (1e-08 if a == b else 0) + " + _WALL.format(n="P") + "))",
             "forall(0, P, lambda a: forall(0, P, lambda b: result[a, b] == result[b, a]))",
             "forall(0, P, lambda a: forall(0, P, lambda b: result[a, b] == " + _WC.format(i="P") + "))"],
    loops={
        0: {"inv": [_WM + "(1e-08 if a == b and a < i else 0) + " + _WALL.format(n="i") + "))",
                    "forall(0, P, lambda a: forall(0, P, lambda b: regularization_matrix[a, b] == regularization_matrix[b, a]))",
                    _WM + _WC.format(i="i") + "))"]},
        1: {"inv": [_WM + "(1e-08 if a == b and a <= i else 0) + " + _WALL.format(n="i") + " + " + _WROW.format(i="i", k="j") + "))",
                    "forall(0, P, lambda a: forall(0, P, lambda b: regularization_matrix[a, b] == regularization_matrix[b, a]))",
                    _WM + _WC.format(i="i") + _WCJ + "))"],
            "assert_at": {1: ["regularization_weight[neighbor_index] == regularization_weights[neighbor_index] * regularization_weights[neighbor_index]"]}},
    },
    sentence={"sumto": "H = 1e-8 I + sum_i sum_{n in N(i)} w_n^2 (e_i - e_n)(e_i - e_n)^T, i.e. pair (i,j) weighted by w_i^2 + w_j^2 for a symmetric table",
              "result[b, a]": "the weighted matrix is symmetric for every neighbour table",
              "c07_win": "H[a,b] = -(w_b^2 mult(a,b) + w_a^2 mult(b,a)), H[a,a] = 1e-8 + sum_{n in N(a)} w_n^2 + w_a^2 indeg(a) (minus the self-loop terms)"},
)

# ---------------------------------------------------------------------------------------------------- weights, brightness-zeroth
_ext.FUSE.add(U + "adaptive_regularization_weights_from")      # derived fused element-wise fact, see pyvc/ext/c07.py
contract(
    U + "adaptive_regularization_weights_from", props=["C07"],
    types={"inner_coefficient": "real", "outer_coefficient": "real", "pixel_signals": "real[1]"}, returns="real[1]",
    let={"P": "pixel_signals.shape[0]"},
    ensures=["result.shape[0] == P",
             "forall(0, P, lambda k: result[k] == (inner_coefficient * pixel_signals[k] + outer_coefficient * (1.0 - pixel_signals[k])) * (inner_coefficient * pixel_signals[k] + outer_coefficient * (1.0 - pixel_signals[k])))",
             "forall(0, P, lambda k: result[k] >= 0)"],
    sentence={"forall": "per-pixel weight = (inner * signal + outer * (1 - signal))^2, one per parameter, non-negative"},
)

contract(
    U + "brightness_zeroth_regularization_weights_from", props=["C07"],
    types={"coefficient": "real", "pixel_signals": "real[1]"}, returns="real[1]",
    let={"P": "pixel_signals.shape[0]"},
    ensures=["result.shape[0] == P", "forall(0, P, lambda k: result[k] == coefficient * (1.0 - pixel_signals[k]))"],
    sentence={"forall": "per-pixel zeroth weight = coefficient * (1 - signal)"},
)

contract(
    U + "brightness_zeroth_regularization_matrix_from", props=["C07"],
    types={"regularization_weights": "real[1]"}, returns="real[2]",
    let={"P": "regularization_weights.shape[0]", "w": "regularization_weights"},
    ensures=["result.shape[0] == P and result.shape[1] == P",
             "forall(0, P, lambda a: forall(0, P, lambda b: result[a, b] == (w[a] * w[a] if a == b else 0)))"],
    loops={0: {"inv": ["forall(0, i, lambda a: forall(0, P, lambda b: regularization_matrix[a, b] == (w[a] * w[a] if a == b else 0)))",
                       "forall(i, P, lambda a: forall(0, P, lambda b: regularization_matrix[a, b] == 0))"]}},
    sentence={"forall": "brightness-zeroth scheme: H = diag(w_a^2) (symmetric, PSD)"},
)

# ---------------------------------------------------------------------------------------------------- kernel covariances
# squared distance of mesh points i and j, (y, x) = g[p]
macro("c07_d2", ["g", "i", "j"], "(g[i, 1] - g[j, 1]) ** 2 + (g[i, 0] - g[j, 0]) ** 2",
      py=lambda g, i, j: float((g[i, 1] - g[j, 1]) ** 2 + (g[i, 0] - g[j, 0]) ** 2))

_KDEF = {"c07_gauss": "exp(-c07_d2(g, a, b) / (2 * s * s))",      # exp(-d^2 / (2 scale^2))
         "c07_expk": "exp(-sqrt(c07_d2(g, a, b)) / s)"}            # exp(-d / scale)
_KPY = {"c07_gauss": lambda g, s, a, b: float(np.exp(-((g[a, 1] - g[b, 1]) ** 2 + (g[a, 0] - g[b, 0]) ** 2) / (2 * s * s))),
        "c07_expk": lambda g, s, a, b: float(np.exp(-np.sqrt((g[a, 1] - g[b, 1]) ** 2 + (g[a, 0] - g[b, 0]) ** 2) / s))}
for _k in _KDEF:
    # the kernel value of the pair of mesh points (a, b); the definition is the axiom, symmetry and positivity are proved from it
    _all = "implies(g.shape[1] == 2 and s > 0, forall(0, g.shape[0], lambda a: forall(0, g.shape[0], lambda b: %s, pat=K(g, s, a, b))))".replace("K(", _k + "(")
    spec_fn(_k, params=[("g", "real[2]"), ("s", "$real"), ("a", "int"), ("b", "int")], ret="real",
            axioms=[_all % (_k + "(g, s, a, b) == " + _KDEF[_k])],
            lemmas=[dict(name="sympos", noinduct=True, stmt=_all % ("{k}(g, s, a, b) == {k}(g, s, b, a) and {k}(g, s, a, b) > 0".format(k=_k)))],
            py=_KPY[_k], doc="kernel of the distance between mesh points a and b")


def _cov(mod, name, K, step):
    Kab = K + "(g, scale, a, b)"
    done = "forall(0, i, lambda a: forall(0, P, lambda b: covariance_matrix[a, b] == " + Kab + " + (1e-08 if a == b else 0)))"
    contract(
        "autoarray.inversion.regularization." + mod + ":" + name, props=["C07"],
        types={"scale": "real", "pixel_points": "real[2]"}, returns="real[2]",
        let={"P": "pixel_points.shape[0]", "g": "pixel_points", "s": "scale"},
        requires=["pixel_points.shape[1] == 2", "scale > 0"],
        ensures=["result.shape[0] == P and result.shape[1] == P",
                 "forall(0, P, lambda a: forall(0, P, lambda b: result[a, b] == " + _KDEF[K] + " + (1e-08 if a == b else 0)))",
                 "forall(0, P, lambda a: forall(0, P, lambda b: result[a, b] == " + Kab + " + (1e-08 if a == b else 0)))",
                 "forall(0, P, lambda a: forall(0, P, lambda b: result[a, b] == result[b, a] and result[a, b] > 0))"],
        loops={
            0: {"inv": [done, "forall(i, P, lambda a: forall(0, P, lambda b: covariance_matrix[a, b] == 0))"]},
            1: {"inv": [done, "forall(i + 1, P, lambda a: forall(0, P, lambda b: covariance_matrix[a, b] == 0))",
                        "forall(0, j, lambda b: covariance_matrix[i, b] == " + K + "(g, scale, i, b) + (1e-08 if i == b else 0))",
                        "forall(j, P, lambda b: covariance_matrix[i, b] == (1e-08 if i == b else 0))"],
                "assert_at": {5: step}},
        },
        uses_math=["sqrt", "exp"],
        sentence={"forall": "covariance entry (a, b) is the kernel of the distance between mesh points a and b, plus the 1e-8 ridge on the diagonal; symmetric, positive entries"},
    )


_cov("gaussian_kernel", "gauss_cov_matrix_from", "c07_gauss",
     ["d_ij * d_ij == c07_d2(g, i, j)", "exp(-1.0 * (d_ij * d_ij) / (2 * (scale * scale))) == c07_gauss(g, scale, i, j)"])
_cov("exponential_kernel", "exp_cov_matrix_from", "c07_expk", ["d_ij == sqrt(c07_d2(g, i, j))", "exp(-1.0 * d_ij / scale) == c07_expk(g, scale, i, j)"])

# ---------------------------------------------------------------------------------------------------- split-cross schemes
# Row k of the split tables encodes a linear functional L_k(x) = sum_{l < sz[k]} wt[k, l] * x[mp[k, l]] (a cross point of
# pixel k // 4 minus its interpolation).  The matrix is assembled from the pairs l <= l' of each row:
#   c07_spair0 = contribution of the pair (l, l + m) of row k = 4 i + j to entry (a, b) (before scaling by the pixel weight w_i^2)
_SP = ("(wt[i * 4 + j, l] * wt[i * 4 + j, l + m] if mp[i * 4 + j, l] == a and mp[i * 4 + j, l + m] == b else 0)"
       " + (wt[i * 4 + j, l] * wt[i * 4 + j, l + m] if mp[i * 4 + j, l + m] == a and mp[i * 4 + j, l] == b else 0)")


def _spair_py(mp, wt, i, j, l, m, a, b):
    k = 4 * i + j
    return float(wt[k, l] * wt[k, l + m] * (int(mp[k, l] == a and mp[k, l + m] == b) + int(mp[k, l + m] == a and mp[k, l] == b)))


macro("c07_spair0", ["mp", "wt", "i", "j", "l", "m", "a", "b"], _SP, py=_spair_py)
_S3 = "sumto({m}, lambda m: c07_spair0(mp, wt, {i}, {j}, {l}, m, a, b))"
_S2 = "sumto({l}, lambda l: " + _S3.format(i="{i}", j="{j}", l="l", m="sz[{i} * 4 + {j}] - l") + ")"
_S1 = "sumto({j}, lambda j: " + _S2.format(i="{i}", j="j", l="sz[{i} * 4 + j]") + ")"
_S0 = "sumto({i}, lambda i: w[i] * w[i] * " + _S1.format(i="i", j="4") + ")"
_SPLIT_LET = {"N": "splitted_mappings.shape[0]", "P": "toint(splitted_mappings.shape[0] / 4)", "w": "regularization_weights",
              "mp": "splitted_mappings", "sz": "splitted_sizes", "wt": "splitted_weights"}
_SPLIT_REQ = ["regularization_weights.shape[0] == P", "splitted_sizes.shape[0] == N", "splitted_weights.shape[0] == N",
              "splitted_weights.shape[1] == splitted_mappings.shape[1]",
              "forall(0, N, lambda k: 0 <= sz[k] and sz[k] <= mp.shape[1])",
              "forall(0, N, lambda k: forall(0, sz[k], lambda l: 0 <= mp[k, l] and mp[k, l] < P))"]
_HM = "forall(0, P, lambda a: forall(0, P, lambda b: regularization_matrix[a, b] == "
_SYMM = "forall(0, P, lambda a: forall(0, P, lambda b: regularization_matrix[a, b] == regularization_matrix[b, a]))"
_RW = "regularization_weight[i]"
_SB = "(2e-08 if a == b and a <= i else 0) + " + _S0.format(i="i")
contract(
    U + "pixel_splitted_regularization_matrix_from", props=["C07"],
    types={"regularization_weights": "real[1]", "splitted_mappings": "int[2]", "splitted_sizes": "int[1]", "splitted_weights": "real[2]"},
    returns="real[2]", let=_SPLIT_LET, requires=_SPLIT_REQ,
    ensures=["result.shape[0] == P and result.shape[1] == P",
             # off-diagonal: the sum over pixels (weight w_i^2), their four cross rows and the pairs l <= l' of each row; the diagonal
             # carries 2e-8 plus the same sum, halved
             "forall(0, P, lambda a: forall(0, P, lambda b: result[a, b] == ((2e-08 + " + _S0.format(i="P") + ") / 2 if a == b else " + _S0.format(i="P") + ")))",
             "forall(0, P, lambda a: forall(0, P, lambda b: result[a, b] == result[b, a]))"],
    loops={
        0: {"inv": [_HM + "(2e-08 if a == b and a < i else 0) + " + _S0.format(i="i") + "))", _SYMM],
            "assert_at": {2: ["regularization_weight[i] == w[i] * w[i]"]}},
        1: {"inv": [_HM + _SB + " + " + _RW + " * " + _S1.format(i="i", j="j") + "))", _SYMM]},
        2: {"inv": [_HM + _SB + " + " + _RW + " * " + _S1.format(i="i", j="j") + " + " + _RW + " * " + _S2.format(i="i", j="j", l="l") + "))", _SYMM]},
        3: {"inv": [_HM + _SB + " + " + _RW + " * " + _S1.format(i="i", j="j") + " + " + _RW + " * " + _S2.format(i="i", j="j", l="l")
                    + " + " + _RW + " * " + _S3.format(i="i", j="j", l="l", m="m") + "))", _SYMM],
            # stepping stone: the weight distributes over the one new pair of the partial sum
            "assert_at": {0: ["forall(0, P, lambda a: forall(0, P, lambda b: " + _RW + " * " + _S3.format(i="i", j="j", l="l", m="m + 1") + " == " + _RW + " * " + _S3.format(i="i", j="j", l="l", m="m")
                              + " + (weight[l] * weight[l + m] * " + _RW + " if mapping[l] == a and mapping[l + m] == b else 0)"
                              " + (weight[l] * weight[l + m] * " + _RW + " if mapping[l + m] == a and mapping[l] == b else 0)))"]}},
        4: {"inv": [_HM + "((2e-08 + " + _S0.format(i="P") + ") / 2 if a == b and a < i else (2e-08 if a == b else 0) + " + _S0.format(i="P") + ")))", _SYMM]},
    },
    sentence={"sumto": "H = 1e-8 I + sum over pixels i and their four cross rows k of w_i^2 times the pair products of row k (entrywise)",
              "result[b, a]": "the split-cross matrix is symmetric for all tables"},
)

# reg_split_from turns the interpolation rows (mappings, weights of a cross point of pixel p = k // 4) into the rows of the
# functionals L_k(x) = x_p - sum_l wt[k, l] x[mp[k, l]]: every weight is negated, +1 is added where the row already lists p,
# and otherwise the entry (p, 1.0) is appended.  In place; raises when a row has no spare column.
_O = {"m": "old(splitted_mappings)", "s": "old(splitted_sizes)", "w": "old(splitted_weights)"}
_ROWHEAD = ("forall(0, {s}[r], lambda c: splitted_mappings[r, c] == {m}[r, c]"
            " and splitted_weights[r, c] == -{w}[r, c] + (1 if {m}[r, c] == r // 4 else 0))").format(**_O)
_PRESENT = "exists(0, {s}[r], lambda c: {m}[r, c] == r // 4)".format(**_O)
_ROWTAIL = ("implies(" + _PRESENT + ", splitted_sizes[r] == {s}[r] and forall({s}[r], W, lambda c: splitted_mappings[r, c] == {m}[r, c] and splitted_weights[r, c] == -{w}[r, c]))"
            " and implies(not " + _PRESENT + ", splitted_sizes[r] == {s}[r] + 1 and splitted_mappings[r, {s}[r]] == r // 4 and splitted_weights[r, {s}[r]] == 1"
            " and forall({s}[r] + 1, W, lambda c: splitted_mappings[r, c] == {m}[r, c] and splitted_weights[r, c] == -{w}[r, c]))").format(**_O)
_ROWDONE = "forall(0, {n}, lambda r: " + _ROWHEAD + " and " + _ROWTAIL + ")"
_ROWRAW = "forall({lo}, N, lambda r: forall(0, W, lambda c: splitted_mappings[r, c] == {m}[r, c] and splitted_weights[r, c] == -{w}[r, c]))"
contract(
    U + "reg_split_from", props=["C07"],
    types={"splitted_mappings": "int[2]", "splitted_sizes": "int[1]", "splitted_weights": "real[2]"},
    returns="(int[2], int[1], real[2])", modifies=["splitted_mappings", "splitted_sizes", "splitted_weights"],
    let={"N": "splitted_mappings.shape[0]", "W": "splitted_weights.shape[1]"},
    requires=["splitted_sizes.shape[0] == N", "splitted_weights.shape[0] == N", "splitted_mappings.shape[1] == W",
              "forall(0, N, lambda r: 1 <= splitted_sizes[r] and splitted_sizes[r] <= W)"],
    # a row that already fills every column cannot take the extra entry
    raises={"MeshException": "exists(0, N, lambda r: splitted_sizes[r] >= W)"},
    ensures=[_ROWDONE.format(n="N"),
             # rows that listed pairwise distinct pixels still do (the own pixel is appended only when absent): the hypothesis of C07.split.outer_product
             "forall(0, N, lambda r: implies(forall(0, {s}[r], lambda c: forall(0, c, lambda t: {m}[r, t] != {m}[r, c])),"
             " forall(0, splitted_sizes[r], lambda c: forall(0, c, lambda t: splitted_mappings[r, t] != splitted_mappings[r, c]))))".format(**_O),
             # every returned row lists its own pixel and stays inside the table
             "forall(0, N, lambda r: splitted_sizes[r] <= W and exists(0, splitted_sizes[r], lambda c: splitted_mappings[r, c] == r // 4))",
             "forall(0, N, lambda r: forall(0, W, lambda c: result[0][r, c] == splitted_mappings[r, c] and result[2][r, c] == splitted_weights[r, c]))",
             "forall(0, N, lambda r: result[1][r] == splitted_sizes[r])",
             "result[0].shape[0] == N and result[0].shape[1] == W and result[1].shape[0] == N and result[2].shape[0] == N and result[2].shape[1] == W"],
    loops={
        0: {"inv": [_ROWDONE.format(n="i"), _ROWRAW.format(lo="i", **_O),
                    "forall(i, N, lambda r: splitted_sizes[r] == {s}[r])".format(**_O),
                    "forall(0, i, lambda r: {s}[r] < W)".format(**_O)]},
        1: {"inv": [_ROWDONE.format(n="i"), _ROWRAW.format(lo="i + 1", **_O),
                    "forall(i, N, lambda r: splitted_sizes[r] == {s}[r])".format(**_O),
                    "forall(0, i, lambda r: {s}[r] < W)".format(**_O),
                    "j <= W - 1",
                    "forall(0, W, lambda c: splitted_mappings[i, c] == {m}[i, c])".format(**_O),
                    "forall(0, j, lambda c: splitted_weights[i, c] == -{w}[i, c] + (1 if {m}[i, c] == i // 4 else 0))".format(**_O),
                    "forall(j, W, lambda c: splitted_weights[i, c] == -{w}[i, c])".format(**_O),
                    "(flag == 0 or flag == 1) and iff(flag == 1, exists(0, j, lambda c: {m}[i, c] == i // 4))".format(**_O)]},
    },
    sentence={"forall": "row k becomes the functional x_{k//4} - (interpolation of the cross point): weights negated, +1 on pixel k//4 (added in place or appended)"},
)


# ==================================================================================================== engine C generators
def _grid_table(h, w):
    """4-neighbour adjacency of an h x w rectangular mesh (symmetric), padded with -1"""
    nb = -np.ones((h * w, 4), dtype=int)
    sz = np.zeros(h * w, dtype=int)
    for y in range(h):
        for x in range(w):
            for (dy, dx) in ((-1, 0), (0, -1), (0, 1), (1, 0)):
                if 0 <= y + dy < h and 0 <= x + dx < w:
                    nb[y * w + x, sz[y * w + x]] = (y + dy) * w + x + dx
                    sz[y * w + x] += 1
    return nb, sz


def _graph_table(rng, n, sym=True):
    """random neighbour table on n pixels: symmetric simple graph, or (sym=False) arbitrary lists with repeats / self loops"""
    lists = [[] for _ in range(n)]
    if sym:
        for a in range(n):
            for b in range(a + 1, n):
                if rng.random() < 0.4:
                    lists[a].append(b); lists[b].append(a)
        for l in lists:
            rng.shuffle(l)
    else:
        for a in range(n):
            lists[a] = [rng.randrange(n) for _ in range(rng.randint(0, 4))]
    K = max([len(l) for l in lists] + [1]) + rng.randint(0, 1)
    nb = -np.ones((n, K), dtype=int)
    sz = np.array([len(l) for l in lists], dtype=int)
    for a, l in enumerate(lists):
        nb[a, :len(l)] = l
    return nb, sz


def _tables(rng, tier):
    for h in range(1, 4):
        for w in range(1, 5):
            yield _grid_table(h, w)
    for _ in range(gens.budget(tier, 60, 1500)):
        yield _graph_table(rng, rng.randint(1, 7), sym=rng.random() < 0.6)


_COEF = [0.0, 0.01, 0.1, 0.5, 1.0, 2.0]


def _g_zeroth(rng, tier):
    for p in range(0, 7):
        for c in _COEF + [-1.5, 10.0]:
            yield {"coefficient": c, "pixels": p}


def _g_constant(rng, tier):
    for nb, sz in _tables(rng, tier):
        yield {"coefficient": rng.choice(_COEF + [rng.uniform(0, 1.5)]), "neighbors": nb, "neighbors_sizes": sz}


def _g_constant_zeroth(rng, tier):
    for nb, sz in _tables(rng, tier):
        yield {"coefficient": rng.choice(_COEF), "coefficient_zeroth": rng.choice(_COEF), "neighbors": nb, "neighbors_sizes": sz}


def _g_weighted(rng, tier):
    for nb, sz in _tables(rng, tier):
        # weights over many orders of magnitude (coefficients of 1e-3 give weights of 1e-6: a floor on w^2 must show)
        mag = 1.0 if rng.random() < 0.5 else float(rng.choice([2.0 ** -10, 2.0 ** -20, 2.0 ** -30, 2.0 ** 7]))
        yield {"regularization_weights": mag * gens.reals(rng, (len(sz),), 0.0, 1.0, special=False), "neighbors": nb, "neighbors_sizes": sz}


def _g_signals(extra):
    def g(rng, tier):
        for _ in range(gens.budget(tier, 100, 2000)):
            n = rng.randint(0, 6)
            yield dict(extra(rng), pixel_signals=gens.reals(rng, (n,), 0.0, 1.0, special=False))
    return g


def _g_bz(rng, tier):
    for _ in range(gens.budget(tier, 100, 2000)):
        yield {"regularization_weights": gens.reals(rng, (rng.randint(0, 6),), -2.0, 2.0)}


def _g_cov(rng, tier):
    for _ in range(gens.budget(tier, 100, 1500)):
        n = rng.randint(0, 6)
        g = gens.reals(rng, (n, 2), -2.0, 2.0, special=False)
        if n >= 2 and rng.random() < 0.2:
            g[1] = g[0]                                  # coincident mesh points
        scale = rng.choice([0.3, 1.0, 2.0, rng.uniform(0.1, 3.0)])
        if n >= 2 and rng.random() < 0.4:
            # a pair of points 4 .. 9 scale lengths apart: covariances of 3e-4 .. 3e-18, small but not zero (a cut-off on the
            # separation must show)
            # (the FARTHEST pair, so that no other pair is far enough for exp() to underflow to exactly 0 in floating point)
            d = max(float(np.hypot(*(g[i] - g[j]))) for i in range(n) for j in range(n))
            if d > 0:
                scale = d / rng.choice([4.0, 5.5, 6.0, 7.0, 9.0])
        yield {"scale": scale, "pixel_points": g}


def _split_tables(rng, p, final=True, full=0.0):
    """4 cross rows per pixel; `final`: tables as reg_split_from returns them (row k lists pixel k // 4)"""
    n = 4 * p + (0 if final or rng.random() < 0.7 else rng.randint(1, 3))
    W = rng.randint(2, 5)
    mp = -np.ones((n, W), dtype=int)
    sz = np.zeros(n, dtype=int)
    wt = np.zeros((n, W))
    for k in range(n):
        s = W if rng.random() < full else rng.randint(1, W - 1)
        pool = list(range(max(p, 1)))
        rng.shuffle(pool)
        row = pool[:s] if rng.random() < 0.8 else [rng.randrange(max(p, 1)) for _ in range(s)]      # distinct, or with repeats
        if final and k // 4 not in row:
            row[rng.randrange(len(row))] = k // 4
        sz[k] = len(row)
        mp[k, :len(row)] = row
        wt[k, :len(row)] = [rng.choice([rng.uniform(-1, 1), 1.0, 0.25]) for _ in row]
        wt[k, len(row):] = rng.choice([0.0, 0.5])
    return mp, sz, wt


def _g_psplit(rng, tier):
    for _ in range(gens.budget(tier, 120, 1500)):
        p = rng.randint(1, 4)
        mp, sz, wt = _split_tables(rng, p, final=rng.random() < 0.7)
        yield {"regularization_weights": gens.reals(rng, (p,), 0.0, 1.5, special=False), "splitted_mappings": mp,
               "splitted_sizes": sz, "splitted_weights": wt}


def _g_regsplit(rng, tier):
    for _ in range(gens.budget(tier, 200, 3000)):
        p = rng.randint(0, 3)
        mp, sz, wt = _split_tables(rng, p, final=False, full=rng.choice([0.0, 0.0, 0.1]))
        yield {"splitted_mappings": mp, "splitted_sizes": sz, "splitted_weights": wt}


for _n, _g in [("zeroth_regularization_matrix_from", _g_zeroth), ("constant_regularization_matrix_from", _g_constant),
               ("constant_zeroth_regularization_matrix_from", _g_constant_zeroth), ("weighted_regularization_matrix_from", _g_weighted),
               ("adaptive_regularization_weights_from", _g_signals(lambda r: {"inner_coefficient": r.choice(_COEF), "outer_coefficient": r.choice(_COEF)})),
               ("brightness_zeroth_regularization_weights_from", _g_signals(lambda r: {"coefficient": r.choice(_COEF)})),
               ("brightness_zeroth_regularization_matrix_from", _g_bz), ("pixel_splitted_regularization_matrix_from", _g_psplit),
               ("reg_split_from", _g_regsplit)]:
    CONTRACTS[U + _n].gen = _g
CONTRACTS["autoarray.inversion.regularization.gaussian_kernel:gauss_cov_matrix_from"].gen = _g_cov
CONTRACTS["autoarray.inversion.regularization.exponential_kernel:exp_cov_matrix_from"].gen = _g_cov
CONTRACTS[U + "constant_regularization_matrix_from"].nontrivial = lambda neighbors_sizes, **kw: bool(neighbors_sizes.sum() > 0)
CONTRACTS[U + "weighted_regularization_matrix_from"].nontrivial = lambda neighbors_sizes, **kw: bool(neighbors_sizes.sum() > 0)
CONTRACTS[U + "reg_split_from"].nontrivial = lambda splitted_mappings, **kw: len(splitted_mappings) > 0


# ==================================================================================================== quadratic forms
# x^T H x = 1e-8 |x|^2 + kappa * (1/2) sum_a sum_b mu(a, b) (x_a - x_b)^2, derived from the ENTRYWISE contracts alone, for
#   constant scheme : mu(a, b) = mult(a, b),                        kappa = c^2, for symmetric tables (mult(a, b) = mult(b, a));
#   weighted scheme : mu(a, b) = w_b^2 mult(a, b) + w_a^2 mult(b, a), kappa = 1,  for EVERY table.
# The pair sum is written over the square: every unordered neighbouring pair {a, b} of a symmetric table occurs as (a, b) and as
# (b, a), so (1/2) sum_a sum_b mult(a, b) (x_a - x_b)^2 is the sum over neighbouring pairs, and mu = w_a^2 + w_b^2 on such a pair.
# Both matrices have the shape H[a, b] = -kappa mu(a, b) + [a == b] (1e-8 + kappa deg(a)) with deg(a) = sum_b mu(a, b) and mu
# symmetric.  The proof is a chain of inductive lemmas: row action of H (R1), binomial expansion of a row of the pair sum (R2),
# row sums of mu = deg (R3*), the handshake identity sum_a sum_b mu(a, b) x_b^2 = sum_b deg(b) x_b^2 (H1*: an exchange of the
# two sums through the two-argument partial sum c07_G*), row-by-row assembly (F), signs (N*).
macro("c07_RA", ["H", "x", "a", "m"], "sumto(m, lambda b: H[a, b] * x[b])")                              # (H x)_a, first m columns
_QSHP = "nb.shape[0] == P and sz.shape[0] == P and forall(0, P, lambda i: 0 <= sz[i] and sz[i] <= nb.shape[1])"
_QT = _QSHP + " and forall(0, P, lambda i: forall(0, sz[i], lambda k: 0 <= nb[i, k] and nb[i, k] < P))"


def _q_py(H, x, *rest):
    n = rest[-1]
    return float(sum(x[a] * sum(H[a, b] * x[b] for b in range(len(x))) for a in range(n)))


def _fa(hyp, body, pat):      # forall a in [0, P): hyp => body
    return "forall(0, P, lambda a: implies(" + hyp + ", " + body + "), pat=" + pat + ")"


def _qf_chain(t, ar, artypes, mu, deg, extra_hyp, mu_sym_hyp, r3_chain, r3_hint, nonneg_chain, mu_py):
    """t: tag; ar: array argument list (after x) of the macros; mu/deg: DSL templates; extra_hyp: shape facts besides the table;
    mu_sym_hyp: hypothesis under which mu(a, b) == mu(b, a) (None: provable outright); r3_chain(lem): adds the lemmas that
    establish sum_{b<P} mu(a, b) == deg(a); nonneg_chain(lem): adds the lemmas establishing mu >= 0."""
    A = ", ".join(ar)
    pa = ["x"] + ar
    M = lambda a, b: mu.format(a=a, b=b)
    macro("c07_M0" + t, ar + ["a", "m"], "sumto(m, lambda b: " + M("a", "b") + ")")
    macro("c07_M1" + t, pa + ["a", "m"], "sumto(m, lambda b: (" + M("a", "b") + ") * x[b])")
    macro("c07_M2" + t, pa + ["a", "m"], "sumto(m, lambda b: (" + M("a", "b") + ") * x[b] * x[b])")
    macro("c07_DR" + t, pa + ["a", "m"], "sumto(m, lambda b: (" + M("a", "b") + ") * (x[a] - x[b]) * (x[a] - x[b]))")
    macro("c07_CS" + t, ar + ["b", "n"], "sumto(n, lambda a: " + M("a", "b") + ")")                     # column sums of mu
    M0, M1, M2, DR, CS = ["c07_%s%s(%s%s, {0}, {1})" % (k, t, "" if k in ("M0", "CS") else "x, ", A) for k in ("M0", "M1", "M2", "DR", "CS")]
    G = "c07_G%s(x, %s, {0}, {1})" % (t, A)
    Q = "c07_q%s(H, x, %s, cc, {0})" % (t, A)
    T = _QT + (" and " + extra_hyp if extra_hyp else "")
    QH = ("H.shape[0] == P and H.shape[1] == P and forall(0, P, lambda a: forall(0, P, lambda b:"
          " H[a, b] == -cc * (" + M("a", "b") + ") + (1e-08 + cc * (" + deg.format(a="a") + ") if a == b else 0)))")
    TH = T + " and " + QH
    TS = T + (" and " + mu_sym_hyp if mu_sym_hyp else "")
    THS = TH + (" and " + mu_sym_hyp if mu_sym_hyp else "")
    # sum_{b < m} x_b^2 * (sum_{a < n} mu(a, b))
    spec_fn("c07_G" + t, params=[("x", "real[1]")] + artypes + [("n", "int"), ("m", "int")], ret="real", let={"P": "x.shape[0]"},
            axioms=["implies(" + T + ", forall(0, P + 1, lambda n: " + G.format("n", "0") + " == 0, pat=" + G.format("n", "0") + "))",
                    "implies(" + T + ", forall(0, P + 1, lambda n: forall(0, P, lambda m: " + G.format("n", "m + 1") + " == " + G.format("n", "m")
                    + " + x[m] * x[m] * " + CS.format("m", "n") + ", pat=" + G.format("n", "m + 1") + ")))"],
            py=lambda x, *r: float(sum(x[b] ** 2 * sum(mu_py(*r[:-2], a, b) for a in range(r[-2])) for b in range(r[-1]))))
    L = []

    def lem(name, stmt, induct=None, hi=None, export=False):
        L.append(dict(name=name, induct=induct, lo=0, hi=hi, stmt=stmt, export=export) if induct else dict(name=name, noinduct=True, stmt=stmt, export=export))

    X2 = "sumto({0}, lambda a: x[a] * x[a])"
    DD = "sumto({0}, lambda a: " + DR.format("a", "P") + ")"
    DG = "sumto({0}, lambda b: (" + deg.format(a="b") + ") * x[b] * x[b])"
    # row action: (H x)_a = (1e-8 + kappa deg a) x_a - kappa sum_b mu(a, b) x_b
    lem("R1", _fa(TH, "c07_RA(H, x, a, m) == ((1e-08 + cc * (" + deg.format(a="a") + ")) * x[a] if a < m else 0) - cc * " + M1.format("a", "m"), "c07_RA(H, x, a, m)"), "m", "P")
    # binomial expansion of one row of the pair sum
    lem("R2", _fa(T, DR.format("a", "m") + " == x[a] * x[a] * " + M0.format("a", "m") + " - 2 * x[a] * " + M1.format("a", "m") + " + " + M2.format("a", "m"), DR.format("a", "m")), "m", "P")
    # row sums of mu are the degrees
    r3_chain(lem, T, M0)
    lem("R3", _fa(T, M0.format("a", "P") + " == " + deg.format(a="a") + r3_hint, M0.format("a", "P")))
    lem("RowQ", _fa(TH, "c07_RA(H, x, a, P) == (1e-08 + cc * (" + deg.format(a="a") + ")) * x[a] - cc * " + M1.format("a", "P"), "c07_RA(H, x, a, P)"))
    lem("RowD", _fa(T, DR.format("a", "P") + " == x[a] * x[a] * (" + deg.format(a="a") + ") - 2 * x[a] * " + M1.format("a", "P") + " + " + M2.format("a", "P"), DR.format("a", "P")))
    # handshake: sum_a sum_b mu(a, b) x_b^2 == sum_b deg(b) x_b^2   (exchange of the two sums through c07_G; uses mu(a,b) == mu(b,a))
    lem("H1z", "implies(" + T + ", " + G.format("0", "m") + " == 0)", "m", "P")
    lem("H1a", "forall(0, P, lambda n: implies(" + T + ", " + G.format("n + 1", "m") + " == " + G.format("n", "m") + " + " + M2.format("n", "m") + "), pat=" + G.format("n + 1", "m") + ")", "m", "P")
    lem("H1b", "implies(" + T + ", sumto(n, lambda a: " + M2.format("a", "P") + ") == " + G.format("n", "P") + ")", "n", "P")
    lem("H1c", "forall(0, P, lambda b: implies(" + TS + ", " + CS.format("b", "n") + " == " + M0.format("b", "n") + "), pat=" + CS.format("b", "n") + ")", "n", "P")
    lem("H1d", "implies(" + TS + ", " + G.format("P", "m") + " == " + DG.format("m") + ")", "m", "P")
    lem("H1", "implies(" + TS + ", sumto(P, lambda a: " + M2.format("a", "P") + ") == " + DG.format("P") + ")")
    # assembly, row by row (the last bracket vanishes by H1)
    lem("F", "implies(" + TH + ", " + Q.format("n") + " == 1e-08 * " + X2.format("n") + " + (cc / 2) * " + DD.format("n")
        + " + (cc / 2) * (" + DG.format("n") + " - sumto(n, lambda a: " + M2.format("a", "P") + ")))", "n", "P")
    lem("QF", "implies(" + THS + ", " + Q.format("P") + " == 1e-08 * " + X2.format("P") + " + (cc / 2) * " + DD.format("P") + ")", export=True)
    # the pair sum and |x|^2 are non-negative; |x|^2 > 0 for x != 0
    nonneg_chain(lem, T)
    lem("N1", _fa(T, DR.format("a", "m") + " >= 0", DR.format("a", "m")), "m", "P")
    lem("N2", "implies(" + T + ", " + DD.format("n") + " >= 0 and " + X2.format("n") + " >= 0 and implies(exists(0, n, lambda a: x[a] != 0), " + X2.format("n") + " > 0))", "n", "P")
    lem("PD", "implies(" + T + ", " + DD.format("P") + " >= 0 and " + X2.format("P") + " >= 0 and implies(exists(0, P, lambda a: x[a] != 0), " + X2.format("P") + " > 0))", export=True)
    # the quadratic form restricted to the first n rows: sum_{a < n} x_a (H x)_a ; c07_q(.., P) = x^T H x
    spec_fn("c07_q" + t, params=[("H", "real[2]"), ("x", "real[1]")] + artypes + [("cc", "$real"), ("n", "int")], ret="real", let={"P": "x.shape[0]"},
            axioms=["implies(H.shape[0] == P and H.shape[1] == P, forall(0, P + 1, lambda n: " + Q.format("n") + " == sumto(n, lambda a: x[a] * c07_RA(H, x, a, P)), pat=" + Q.format("n") + "))"],
            lemmas=L, py=_q_py, doc="x^T H x by rows; lemmas: the quadratic-form identity (" + t + ")")


# ---- constant scheme: mu = mult, deg = sz
# c07_cl: number of k < K with nb[a, k] < m
spec_fn("c07_cl", params=[("nb", "int[2]"), ("a", "int"), ("m", "int"), ("K", "int")], ret="int",
        axioms=["forall(0, nb.shape[0], lambda a: forall(0, nb.shape[0] + 1, lambda m: c07_cl(nb, a, m, 0) == 0, pat=c07_cl(nb, a, m, 0)))",
                "forall(0, nb.shape[0], lambda a: forall(0, nb.shape[0] + 1, lambda m: forall(0, nb.shape[1], lambda K:"
                " c07_cl(nb, a, m, K + 1) == c07_cl(nb, a, m, K) + (1 if nb[a, K] < m else 0), pat=c07_cl(nb, a, m, K + 1))))"],
        py=lambda nb, a, m, K: int(sum(1 for k in range(K) if nb[a, k] < m)))


def _r3_const(lem, T, M0):
    lem("R3a", "forall(0, P, lambda a: forall(0, P, lambda m: implies(" + T + " and K <= sz[a], c07_cl(nb, a, m + 1, K) == c07_cl(nb, a, m, K) + c07_cnt(nb, a, m, K)),"
               " pat=c07_cl(nb, a, m + 1, K)))", "K", "nb.shape[1]")
    lem("R3c", _fa(T + " and K <= sz[a]", "c07_cl(nb, a, 0, K) == 0 and c07_cl(nb, a, P, K) == K", "(c07_cl(nb, a, 0, K), c07_cl(nb, a, P, K))"), "K", "nb.shape[1]")
    lem("R3b", _fa(T, M0.format("a", "m") + " == c07_cl(nb, a, m, sz[a])", M0.format("a", "m")), "m", "P")


def _nn_const(lem, T):
    lem("N0", "forall(0, P, lambda a: forall(0, P, lambda b: implies(" + T + " and K <= sz[a], c07_cnt(nb, a, b, K) >= 0), pat=c07_cnt(nb, a, b, K)))", "K", "nb.shape[1]")


_QS = "forall(0, P, lambda a: forall(0, P, lambda b: c07_mult(nb, sz, a, b) == c07_mult(nb, sz, b, a)))"
_qf_chain("c", ["nb", "sz"], [("nb", "int[2]"), ("sz", "int[1]")], "c07_mult(nb, sz, {a}, {b})", "sz[{a}]", "", _QS, _r3_const, "", _nn_const,
          lambda nb, sz, a, b: _cnt_py(nb, a, b, sz[a]))

_XHX = "sumto(P, lambda a: x[a] * sumto(P, lambda b: H[a, b] * x[b]))"
_X2P = "sumto(P, lambda a: x[a] * x[a])"
_PAIRS = "sumto(P, lambda a: sumto(P, lambda b: c07_mult(nb, sz, a, b) * (x[a] - x[b]) * (x[a] - x[b])))"
_TBLREQ = [r.replace("neighbors_sizes", "sz").replace("neighbors", "nb") for r in _nb()]
corollary("C07.quadratic_form.constant", props=["C07"],
          vars={"c": "real", "nb": "int[2]", "sz": "int[1]", "x": "real[1]"}, let={"P": "nb.shape[0]"},
          requires=["x.shape[0] == P"] + _TBLREQ + [_SYM],
          calls=[("H", U + "constant_regularization_matrix_from", {"coefficient": "c", "neighbors": "nb", "neighbors_sizes": "sz"})],
          ensures=["c07_qc(H, x, nb, sz, c * c, P) == " + _XHX,
                   # x^T H x = 1e-8 |x|^2 + c^2 * (1/2) sum_a sum_b mult(a, b) (x_a - x_b)^2
                   _XHX + " == 1e-08 * " + _X2P + " + (c * c / 2) * " + _PAIRS,
                   _XHX + " >= 1e-08 * " + _X2P,
                   "implies(exists(0, P, lambda a: x[a] != 0), " + _XHX + " > 0)"],
          sentence="for the constant scheme x^T H x = c^2 * sum over neighbouring pairs of squared differences + 1e-8 |x|^2, hence strictly positive definite")


# ---- weighted (adaptive-brightness) scheme: mu(a, b) = wm(a, b) + wm(b, a) = w_b^2 mult(a, b) + w_a^2 mult(b, a), deg = nw + win, kappa = 1
# c07_clw: sum over k < K with 0 <= nb[a, k] < m of w[nb[a, k]]^2
spec_fn("c07_clw", params=[("w", "real[1]"), ("nb", "int[2]"), ("a", "int"), ("m", "int"), ("K", "int")], ret="real",
        axioms=["forall(0, nb.shape[0], lambda a: forall(0, nb.shape[0] + 1, lambda m: c07_clw(w, nb, a, m, 0) == 0, pat=c07_clw(w, nb, a, m, 0)))",
                "implies(w.shape[0] >= nb.shape[0], forall(0, nb.shape[0], lambda a: forall(0, nb.shape[0] + 1, lambda m: forall(0, nb.shape[1], lambda K:"
                " c07_clw(w, nb, a, m, K + 1) == c07_clw(w, nb, a, m, K) + (w[nb[a, K]] * w[nb[a, K]] if 0 <= nb[a, K] and nb[a, K] < m else 0),"
                " pat=c07_clw(w, nb, a, m, K + 1)))))"],
        py=lambda w, nb, a, m, K: float(sum(w[nb[a, k]] ** 2 for k in range(K) if 0 <= nb[a, k] < m)))
_MUW = "c07_wm(w, nb, {a}, {b}, sz[{a}]) + c07_wm(w, nb, {b}, {a}, sz[{b}])"
_DEGW = "c07_nw(w, nb, {a}, sz[{a}]) + c07_win(w, nb, sz, {a}, P)"


def _r3_w(lem, T, M0):
    lem("R3a", "forall(0, P, lambda a: forall(0, P, lambda m: implies(" + T + " and K <= sz[a], c07_clw(w, nb, a, m + 1, K) == c07_clw(w, nb, a, m, K) + c07_wm(w, nb, a, m, K)),"
               " pat=c07_clw(w, nb, a, m + 1, K)))", "K", "nb.shape[1]")
    lem("R3c", _fa(T + " and K <= sz[a]", "c07_clw(w, nb, a, 0, K) == 0 and c07_clw(w, nb, a, P, K) == c07_nw(w, nb, a, K)", "(c07_clw(w, nb, a, 0, K), c07_clw(w, nb, a, P, K))"), "K", "nb.shape[1]")
    lem("R3b", _fa(T, M0.format("a", "m") + " == c07_clw(w, nb, a, m, sz[a]) + c07_win(w, nb, sz, a, m)", M0.format("a", "m")), "m", "P")


_PROW = "sumto({m}, lambda b: c07_mult(nb, sz, a, b) * (w[a] * w[a] + w[b] * w[b]) * (x[a] - x[b]) * (x[a] - x[b]))"
_PAIRSW2 = "sumto({n}, lambda a: " + _PROW.format(m="P") + ")"


def _nn_w(lem, T):
    lem("N0", "forall(0, P, lambda a: forall(0, P, lambda b: implies(" + T + " and K <= sz[a], c07_wm(w, nb, a, b, K) >= 0), pat=c07_wm(w, nb, a, b, K)))", "K", "nb.shape[1]")
    # for a symmetric table mu(a, b) = (w_a^2 + w_b^2) mult(a, b): the pair weights of the statement
    lem("WM", "forall(0, P, lambda a: forall(0, P, lambda b: implies(" + T + " and K <= sz[a], c07_wm(w, nb, a, b, K) == w[b] * w[b] * c07_cnt(nb, a, b, K)), pat=c07_wm(w, nb, a, b, K)))", "K", "nb.shape[1]")
    lem("MU", "forall(0, P, lambda a: forall(0, P, lambda b: implies(" + T + " and " + _QS + ", " + _MUW.format(a="a", b="b")
              + " == c07_mult(nb, sz, a, b) * (w[a] * w[a] + w[b] * w[b])), pat=c07_wm(w, nb, a, b, sz[a])))")
    lem("DRc", _fa(T + " and " + _QS, "c07_DRw(x, w, nb, sz, a, m) == " + _PROW.format(m="m"), "c07_DRw(x, w, nb, sz, a, m)"), "m", "P")
    lem("DDc", "implies(" + T + " and " + _QS + ", sumto(n, lambda a: c07_DRw(x, w, nb, sz, a, P)) == " + _PAIRSW2.format(n="n") + ")", "n", "P")
    lem("PAIRS", "implies(" + T + " and " + _QS + ", sumto(P, lambda a: c07_DRw(x, w, nb, sz, a, P)) == " + _PAIRSW2.format(n="P") + ")", export=True)


def _muw_py(w, nb, sz, a, b):
    return float(sum(w[nb[a, t]] ** 2 for t in range(int(sz[a])) if nb[a, t] == b) + sum(w[nb[b, t]] ** 2 for t in range(int(sz[b])) if nb[b, t] == a))


_qf_chain("w", ["w", "nb", "sz"], [("w", "real[1]"), ("nb", "int[2]"), ("sz", "int[1]")], _MUW, _DEGW, "w.shape[0] == P", None, _r3_w, "", _nn_w, _muw_py)

_PAIRSW = "sumto(P, lambda a: sumto(P, lambda b: (" + _MUW.format(a="a", b="b") + ") * (x[a] - x[b]) * (x[a] - x[b])))"
corollary("C07.quadratic_form.weighted", props=["C07"],
          vars={"w": "real[1]", "nb": "int[2]", "sz": "int[1]", "x": "real[1]"}, let={"P": "nb.shape[0]"},
          requires=["x.shape[0] == P", "w.shape[0] == P"] + _TBLREQ,              # EVERY neighbour table, symmetric or not
          calls=[("H", U + "weighted_regularization_matrix_from", {"regularization_weights": "w", "neighbors": "nb", "neighbors_sizes": "sz"})],
          ensures=["c07_qw(H, x, w, nb, sz, 1, P) == " + _XHX,
                   # x^T H x = 1e-8 |x|^2 + (1/2) sum_a sum_b (w_b^2 mult(a, b) + w_a^2 mult(b, a)) (x_a - x_b)^2
                   _XHX + " == 1e-08 * " + _X2P + " + " + _PAIRSW + " / 2",
                   _XHX + " >= 1e-08 * " + _X2P,
                   "implies(exists(0, P, lambda a: x[a] != 0), " + _XHX + " > 0)"],
          sentence="for the adaptive-brightness scheme x^T H x = sum over neighbouring pairs of (w_i^2 + w_j^2)(x_i - x_j)^2 + 1e-8 |x|^2, hence strictly positive definite")
corollary("C07.quadratic_form.weighted_symmetric", props=["C07"],
          vars={"w": "real[1]", "nb": "int[2]", "sz": "int[1]", "x": "real[1]"}, let={"P": "nb.shape[0]"},
          requires=["x.shape[0] == P", "w.shape[0] == P"] + _TBLREQ + [_SYM],
          calls=[("H", U + "weighted_regularization_matrix_from", {"regularization_weights": "w", "neighbors": "nb", "neighbors_sizes": "sz"})],
          ensures=["c07_qw(H, x, w, nb, sz, 1, P) == " + _XHX,
                   # symmetric table: x^T H x = 1e-8 |x|^2 + (1/2) sum_a sum_b mult(a, b) (w_a^2 + w_b^2) (x_a - x_b)^2
                   _XHX + " == 1e-08 * " + _X2P + " + " + _PAIRSW2.format(n="P") + " / 2"],
          sentence="for a symmetric neighbour table the pair (i, j) is weighted by exactly w_i^2 + w_j^2")


# ==================================================================================================== split-cross scheme: outer-product form
# From the entrywise contract of pixel_splitted_regularization_matrix_from alone:  with c_k(a) = sum_l [mp[k, l] == a] wt[k, l] (the
# coefficient of x_a in L_k) and q_k(a) = sum_l [mp[k, l] == a] wt[k, l]^2,
#     H[a, b] = [a == b] 1e-8 + (1/2 if a == b else 1) * sum_i w_i^2 sum_{j<4} (c_k(a) c_k(b) + [a == b] q_k(a)),   k = 4 i + j,   (LE)
# and, when every row lists pairwise distinct pixels (q_k(a) = c_k(a)^2),
#     H = 1e-8 I + sum_k w_{k//4}^2 L_k L_k^T.                                                                                   (DS3)
macro("c07_sc", ["mp", "wt", "i", "j", "a", "n"], "sumto(n, lambda l: (wt[i * 4 + j, l] if mp[i * 4 + j, l] == a else 0))",
      py=lambda mp, wt, i, j, a, n: float(sum(wt[4 * i + j, l] for l in range(int(n)) if mp[4 * i + j, l] == a)))
macro("c07_sq", ["mp", "wt", "i", "j", "a", "n"], "sumto(n, lambda l: (wt[i * 4 + j, l] * wt[i * 4 + j, l] if mp[i * 4 + j, l] == a else 0))",
      py=lambda mp, wt, i, j, a, n: float(sum(wt[4 * i + j, l] ** 2 for l in range(int(n)) if mp[4 * i + j, l] == a)))
macro("c07_sh", ["mp", "wt", "i", "j", "l", "a", "n"], "sumto(n, lambda m: (wt[i * 4 + j, l + m] if mp[i * 4 + j, l + m] == a else 0))",
      py=lambda mp, wt, i, j, l, a, n: float(sum(wt[4 * i + j, l + m] for m in range(int(n)) if mp[4 * i + j, l + m] == a)))


def _split_chain():
    SC = lambda a, n: "c07_sc(mp, wt, i, j, %s, %s)" % (a, n)
    SQ = lambda a, n: "c07_sq(mp, wt, i, j, %s, %s)" % (a, n)
    SH = lambda a, n: "c07_sh(mp, wt, i, j, l, %s, %s)" % (a, n)
    S = "sz[i * 4 + j]"
    T3 = lambda M: _S3.format(i="i", j="j", l="l", m=M)
    T2 = lambda n: _S2.format(i="i", j="j", l=n)
    T1 = lambda jn: _S1.format(i="i", j=jn)
    T0 = lambda n: _S0.format(i=n)
    E = lambda n: "(" + SC("a", n) + " * " + SC("b", S) + " + " + SC("b", n) + " * " + SC("a", S) + " - " + SC("a", n) + " * " + SC("b", n) + " + (" + SQ("a", n) + " if a == b else 0))"
    D = "(" + SC("a", S) + " * " + SC("b", S) + " + (" + SQ("a", S) + " if a == b else 0))"
    SROW = lambda jn: "sumto(%s, lambda j: %s)" % (jn, D)
    SALL = lambda n: "sumto(%s, lambda i: w[i] * w[i] * %s)" % (n, SROW("4"))
    OP = "(" + SC("a", S) + " * " + SC("b", S) + ")"
    OROW = lambda jn: "sumto(%s, lambda j: %s)" % (jn, OP)
    OALL = lambda n: "sumto(%s, lambda i: w[i] * w[i] * %s)" % (n, OROW("4"))
    # hypotheses are kept as light as each lemma allows (quantifier-free shape facts H0, the bounds RS of the one row concerned):
    # a quantified hypothesis has to be re-established whenever the induction hypothesis or an earlier lemma is used
    H0 = "w.shape[0] == P and mp.shape[0] >= 4 * P and sz.shape[0] == mp.shape[0] and wt.shape[0] == mp.shape[0] and wt.shape[1] == mp.shape[1]"
    RS = "0 <= " + S + " and " + S + " <= mp.shape[1]"
    HYP = H0 + " and forall(0, mp.shape[0], lambda k: 0 <= sz[k] and sz[k] <= mp.shape[1])"
    DIST = "forall(0, 4 * P, lambda k: forall(0, sz[k], lambda l: forall(0, l, lambda t: mp[k, t] != mp[k, l], pat=((mp[k, t], mp[k, l]),))))"
    W = "mp.shape[1]"
    QL = lambda hyp, body, pat: ("forall(0, P, lambda i: forall(0, 4, lambda j: forall(0, " + W + ", lambda l: forall(0, P, lambda a: forall(0, P, lambda b: implies("
                                 + hyp + ", " + body + "), pat=" + pat + ")))))")
    QIJ = lambda hyp, body, pat: "forall(0, P, lambda i: forall(0, 4, lambda j: forall(0, P, lambda a: forall(0, P, lambda b: implies(" + hyp + ", " + body + "), pat=" + pat + "))))"
    QA = lambda hyp, body, pat: "forall(0, P, lambda i: forall(0, 4, lambda j: forall(0, P, lambda a: implies(" + hyp + ", " + body + "), pat=" + pat + ")))"
    UA = lambda a, b, lim: "(wt[i * 4 + j, l] * (" + SC(b, lim) + " - " + SC(b, "l") + ") if mp[i * 4 + j, l] == " + a + " else 0)"
    L = []

    def lem(name, stmt, induct=None, hi=None, export=False):
        L.append(dict(name=name, induct=induct, lo=0, hi=hi, stmt=stmt, export=export) if induct else dict(name=name, noinduct=True, stmt=stmt, export=export))

    # forward-triggered unfolding of the prefix sum.  The built-in recurrence fires on S(.., k + 1); z3 matches it against S(.., T) with
    # k := T - 1, and the array reads mp[r, T - 1] in that instance are not syntactically the reads mp[r, l + M] of the shifted sum, so the
    # proof would hinge on theory combination guessing the index equality (measured: it succeeds for about half of the random seeds).
    # Triggered on the pair S(.., k), S(.., k + 1) instead, the instance carries the index term exactly as it occurs (and no chain of
    # further instances is started).
    lem("SCF", "forall(0, P, lambda i: forall(0, 4, lambda j: forall(0, P, lambda a: forall(0, " + W + ", lambda k: implies(" + H0 + ", " + SC("a", "k + 1") + " == " + SC("a", "k")
               + " + (wt[i * 4 + j, k] if mp[i * 4 + j, k] == a else 0) and " + SQ("a", "k + 1") + " == " + SQ("a", "k") + " + (wt[i * 4 + j, k] * wt[i * 4 + j, k] if mp[i * 4 + j, k] == a else 0)),"
               " pat=((" + SC("a", "k") + ", " + SC("a", "k + 1") + "), (" + SQ("a", "k") + ", " + SQ("a", "k + 1") + "))))))")
    # shifted sum = difference of prefix sums.  Proved in its own anchor (c07_hsa) with a forward unfolding triggered on S(.., k) alone, which
    # this lemma needs (S(.., l + M) only appears once the induction hypothesis is instantiated) but which would start chains of instances
    # in the algebraic lemmas below.
    LA2 = [dict(name="SCF1", noinduct=True, export=False,
                stmt="forall(0, P, lambda i: forall(0, 4, lambda j: forall(0, P, lambda a: forall(0, " + W + ", lambda k: implies(" + H0 + ", " + SC("a", "k + 1") + " == " + SC("a", "k")
                     + " + (wt[i * 4 + j, k] if mp[i * 4 + j, k] == a else 0)), pat=" + SC("a", "k") + "))))"),
           dict(name="LA2", induct="M", lo=0, hi=W, export=True,
                stmt="forall(0, P, lambda i: forall(0, 4, lambda j: forall(0, " + W + ", lambda l: forall(0, P, lambda a: implies(" + H0 + " and l + M <= " + W + ", " + SH("a", "M") + " == " + SC("a", "l + M") + " - " + SC("a", "l")
                     + "), pat=" + SH("a", "M") + "))))")]
    lem("LA1", QL(H0 + " and l + M <= " + W, T3("M") + " == (wt[i * 4 + j, l] * " + SH("b", "M") + " if mp[i * 4 + j, l] == a else 0) + (wt[i * 4 + j, l] * " + SH("a", "M") + " if mp[i * 4 + j, l] == b else 0)", T3("M")), "M", W)
    lem("LA", "forall(0, " + W + " + 1, lambda M: " + QL(H0 + " and l + M <= " + W, T3("M") + " == " + UA("a", "b", "l + M") + " + " + UA("b", "a", "l + M"), T3("M")) + ")")
    # discrete product rule: all pairs l <= l' with l < n
    lem("LBe", QL(H0 + " and " + RS + " and l < " + S, E("l + 1") + " == " + E("l") + " + " + UA("a", "b", S) + " + " + UA("b", "a", S), "(" + SC("a", "l + 1") + ", " + SC("b", "l + 1") + ")"))
    lem("LB", QIJ(H0 + " and " + RS + " and n <= " + S, T2("n") + " == " + E("n"), T2("n")), "n", W)
    lem("LC", "forall(0, P, lambda i: forall(0, P, lambda a: forall(0, P, lambda b: implies(" + HYP + ", " + T1("n") + " == " + SROW("n") + "), pat=" + T1("n") + ")))", "n", "4")
    lem("LE", "forall(0, P, lambda a: forall(0, P, lambda b: implies(" + HYP + ", " + T0("n") + " == " + SALL("n") + "), pat=" + T0("n") + "))", "n", "P", export=True)
    # rows with pairwise distinct entries: q_k(a) == c_k(a)^2
    lem("DS0", QA(H0 + " and n <= " + W, "implies(forall(0, n, lambda l: mp[i * 4 + j, l] != a), " + SC("a", "n") + " == 0 and " + SQ("a", "n") + " == 0)", "(" + SC("a", "n") + ", " + SQ("a", "n") + ")"), "n", W)
    lem("DS1", QA(H0 + " and " + RS + " and " + DIST + " and n <= " + S, SQ("a", "n") + " == " + SC("a", "n") + " * " + SC("a", "n"), "(" + SC("a", "n") + ", " + SQ("a", "n") + ")"), "n", W)
    lem("DS2", "forall(0, P, lambda i: forall(0, P, lambda a: forall(0, P, lambda b: implies(" + HYP + " and " + DIST + ", " + SROW("n") + " == (2 if a == b else 1) * " + OROW("n") + "), pat=" + SROW("n") + ")))", "n", "4")
    lem("DS3", "forall(0, P, lambda a: forall(0, P, lambda b: implies(" + HYP + " and " + DIST + ", " + SALL("n") + " == (2 if a == b else 1) * " + OALL("n") + "), pat=" + SALL("n") + "))", "n", "P", export=True)

    def _hs_py(w, mp, sz, wt, a, b):
        tot = 0.0
        for i in range(len(w)):
            for j in range(4):
                k = 4 * i + j
                ca = sum(wt[k, l] for l in range(int(sz[k])) if mp[k, l] == a)
                cb = sum(wt[k, l] for l in range(int(sz[k])) if mp[k, l] == b)
                tot += w[i] ** 2 * ca * cb
        return float(tot)

    # entry (a, b) of sum_k w_{k//4}^2 L_k L_k^T  (definition only; the lemma chain hangs on the alias c07_hsl so that a client of the
    # definition does not re-prove it -- partial-sum recurrences make large joint proof contexts fragile)
    PR = [("w", "real[1]"), ("mp", "int[2]"), ("sz", "int[1]"), ("wt", "real[2]"), ("a", "int"), ("b", "int")]
    spec_fn("c07_hs", params=PR, ret="real", let={"P": "w.shape[0]"},
            axioms=["implies(" + HYP + ", forall(0, P, lambda a: forall(0, P, lambda b: c07_hs(w, mp, sz, wt, a, b) == " + OALL("P") + ", pat=c07_hs(w, mp, sz, wt, a, b))))"],
            py=_hs_py, doc="entry (a, b) of sum over cross rows k of w_{k//4}^2 L_k L_k^T, L_k(a) = coefficient of x_a in row k")
    spec_fn("c07_hsa", params=PR, ret="real", let={"P": "w.shape[0]"},
            axioms=["implies(" + HYP + ", forall(0, P, lambda a: forall(0, P, lambda b: c07_hsa(w, mp, sz, wt, a, b) == c07_hs(w, mp, sz, wt, a, b), pat=c07_hsa(w, mp, sz, wt, a, b))))"],
            lemmas=LA2, py=_hs_py, doc="alias of c07_hs that carries the shifted-sum lemma LA2")
    spec_fn("c07_hsl", params=PR, ret="real", let={"P": "w.shape[0]"},
            axioms=["implies(" + HYP + ", forall(0, P, lambda a: forall(0, P, lambda b: c07_hsl(w, mp, sz, wt, a, b) == c07_hs(w, mp, sz, wt, a, b), pat=c07_hsl(w, mp, sz, wt, a, b))))"],
            lemmas=L, py=_hs_py, doc="alias of c07_hs that carries the lemmas relating it to the entrywise contract of the split-cross kernel")
    return DIST, OALL("P")


_DIST, _OALLP = _split_chain()
_SPREQ = [r.replace("regularization_weights", "w").replace("splitted_sizes", "sz").replace("splitted_weights", "wt").replace("splitted_mappings", "mp") for r in _SPLIT_REQ]
corollary("C07.split.outer_product", props=["C07"], vars={"w": "real[1]", "mp": "int[2]", "sz": "int[1]", "wt": "real[2]"},
          let={"N": "mp.shape[0]", "P": "toint(mp.shape[0] / 4)"},
          requires=_SPREQ + [_DIST],                 # every row lists pairwise distinct pixels (true of the tables reg_split_from returns)
          calls=[("H", U + "pixel_splitted_regularization_matrix_from", {"regularization_weights": "w", "splitted_mappings": "mp", "splitted_sizes": "sz", "splitted_weights": "wt"})],
          ensures=["H.shape[0] == P and H.shape[1] == P and forall(0, P, lambda a: forall(0, P, lambda b: H[a, b] == (1e-08 if a == b else 0) + c07_hs(w, mp, sz, wt, a, b)))",
                   "forall(0, P, lambda a: forall(0, P, lambda b: c07_hsa(w, mp, sz, wt, a, b) == c07_hs(w, mp, sz, wt, a, b) and c07_hsl(w, mp, sz, wt, a, b) == c07_hs(w, mp, sz, wt, a, b)))"],
          sentence="the split-cross matrix is 1e-8 I + sum over cross rows k of w_{k//4}^2 L_k L_k^T (a sum of rank-one PSD terms plus a ridge)")


# ==================================================================================================== split-cross scheme: quadratic form
# x^T H x = 1e-8 |x|^2 + sum_i w_i^2 sum_{j<4} (L_{4i+j} . x)^2,  L_k . x = sum_a c_k(a) x_a = sum_l wt[k, l] x[mp[k, l]]   (rows with
# distinct entries), hence strictly positive definite.  Two exchanges of sums, each through a two-argument partial sum (c07_rw, c07_zz).
def _split_qf_chain():
    S = lambda i, j: "sz[%s * 4 + %s]" % (i, j)
    C = lambda i, j, a: "c07_sc(mp, wt, %s, %s, %s, %s)" % (i, j, a, S(i, j))
    macro("c07_dot", ["x", "mp", "sz", "wt", "i", "j", "m"], "sumto(m, lambda a: " + C("i", "j", "a") + " * x[a])",          # L_k . x over the first m pixels
          py=lambda x, mp, sz, wt, i, j, m: float(sum(wt[4 * i + j, l] * x[mp[4 * i + j, l]] for l in range(int(sz[4 * i + j])) if mp[4 * i + j, l] < m)))
    DOT = lambda i, j, mm: "c07_dot(x, mp, sz, wt, %s, %s, %s)" % (i, j, mm)
    OALL = lambda n, a, b: "sumto(%s, lambda i: w[i] * w[i] * sumto(4, lambda j: (%s * %s)))" % (n, C("i", "j", a), C("i", "j", b))
    YN = lambda n, a: "sumto(%s, lambda i: w[i] * w[i] * sumto(4, lambda j: %s * %s))" % (n, C("i", "j", a), DOT("i", "j", "P"))
    HYP = ("x.shape[0] == P and w.shape[0] == P and mp.shape[0] >= 4 * P and sz.shape[0] == mp.shape[0] and wt.shape[0] == mp.shape[0] and wt.shape[1] == mp.shape[1]"
           " and forall(0, mp.shape[0], lambda k: 0 <= sz[k] and sz[k] <= mp.shape[1])")
    HDEF = "H.shape[0] == P and H.shape[1] == P and forall(0, P, lambda a: forall(0, P, lambda b: H[a, b] == (1e-08 if a == b else 0) + " + OALL("P", "a", "b") + "))"
    RW = lambda a, n, mm: "c07_rw(x, w, mp, sz, wt, %s, %s, %s)" % (a, n, mm)
    ZZ = lambda n, mm: "c07_zz(x, w, mp, sz, wt, %s, %s)" % (n, mm)
    AR = [("x", "real[1]"), ("w", "real[1]"), ("mp", "int[2]"), ("sz", "int[1]"), ("wt", "real[2]")]

    def cpy(mp, sz, wt, i, j, a):
        return sum(wt[4 * i + j, l] for l in range(int(sz[4 * i + j])) if mp[4 * i + j, l] == a)

    def dotpy(x, mp, sz, wt, i, j, m):
        return sum(cpy(mp, sz, wt, i, j, a) * x[a] for a in range(m))

    def rw_py(x, w, mp, sz, wt, a, n, m):
        return float(sum(sum(w[i] ** 2 * sum(cpy(mp, sz, wt, i, j, a) * cpy(mp, sz, wt, i, j, b) for j in range(4)) for i in range(n)) * x[b] for b in range(m)))

    def zz_py(x, w, mp, sz, wt, n, m):
        P = len(x)
        return float(sum(x[a] * sum(w[i] ** 2 * sum(cpy(mp, sz, wt, i, j, a) * dotpy(x, mp, sz, wt, i, j, P) for j in range(4)) for i in range(n)) for a in range(m)))

    # c07_rw(a, n, m) = sum_{b<m} (sum_{i<n} w_i^2 sum_j c(a) c(b)) x_b ;  c07_zz(n, m) = sum_{a<m} x_a sum_{i<n} w_i^2 sum_j c(a) (L . x)
    spec_fn("c07_rw", params=AR + [("a", "int"), ("n", "int"), ("m", "int")], ret="real", let={"P": "x.shape[0]"},
            axioms=["implies(" + HYP + ", forall(0, P, lambda a: forall(0, P + 1, lambda n: " + RW("a", "n", "0") + " == 0, pat=" + RW("a", "n", "0") + ")))",
                    "implies(" + HYP + ", forall(0, P, lambda a: forall(0, P + 1, lambda n: forall(0, P, lambda m: " + RW("a", "n", "m + 1") + " == " + RW("a", "n", "m") + " + " + OALL("n", "a", "m") + " * x[m],"
                    " pat=" + RW("a", "n", "m + 1") + "))))"], py=rw_py)
    spec_fn("c07_zz", params=AR + [("n", "int"), ("m", "int")], ret="real", let={"P": "x.shape[0]"},
            axioms=["implies(" + HYP + ", forall(0, P + 1, lambda n: " + ZZ("n", "0") + " == 0, pat=" + ZZ("n", "0") + "))",
                    "implies(" + HYP + ", forall(0, P + 1, lambda n: forall(0, P, lambda m: " + ZZ("n", "m + 1") + " == " + ZZ("n", "m") + " + x[m] * " + YN("n", "m") + ", pat=" + ZZ("n", "m + 1") + ")))"],
            py=zz_py)
    L = []

    def lem(name, stmt, induct=None, hi=None, export=False):
        L.append(dict(name=name, induct=induct, lo=0, hi=hi, stmt=stmt, export=export) if induct else dict(name=name, noinduct=True, stmt=stmt, export=export))

    CJ = lambda jn, n, a, what: "sumto(%s, lambda j: %s * %s)" % (jn, C(n, "j", a), what)
    DJ = lambda jn, n, mm: "sumto(%s, lambda j: %s * %s)" % (jn, DOT(n, "j", "P"), DOT(n, "j", mm))
    CD = lambda jn, n, a: "sumto(%s, lambda j: %s * %s)" % (jn, C(n, "j", a), DOT(n, "j", "P"))
    DSQ = lambda jn, n: "sumto(%s, lambda j: %s * %s)" % (jn, DOT(n, "j", "P"), DOT(n, "j", "P"))
    SQS = lambda n: "sumto(%s, lambda i: w[i] * w[i] * %s)" % (n, DSQ("4", "i"))
    X2S = lambda n: "sumto(%s, lambda a: x[a] * x[a])" % n
    QS = lambda n: "c07_qs(H, x, w, mp, sz, wt, %s)" % n
    # first exchange: (H x)_a = 1e-8 x_a + sum_i w_i^2 sum_j c_k(a) (L_k . x)
    lem("X0", "forall(0, P, lambda n: forall(0, P, lambda a: forall(0, P, lambda m: implies(" + HYP + ", " + CJ("jn", "n", "a", DOT("n", "j", "m + 1")) + " == " + CJ("jn", "n", "a", DOT("n", "j", "m"))
              + " + x[m] * sumto(jn, lambda j: (" + C("n", "j", "a") + " * " + C("n", "j", "m") + "))), pat=" + CJ("jn", "n", "a", DOT("n", "j", "m + 1")) + ")))", "jn", "4")
    lem("X0z", "forall(0, P, lambda n: forall(0, P, lambda a: implies(" + HYP + ", " + CJ("jn", "n", "a", DOT("n", "j", "0")) + " == 0), pat=" + CJ("jn", "n", "a", DOT("n", "j", "0")) + "))", "jn", "4")
    lem("Xz", "forall(0, P, lambda a: implies(" + HYP + ", " + RW("a", "0", "m") + " == 0), pat=" + RW("a", "0", "m") + ")", "m", "P")
    lem("X1", "forall(0, P, lambda a: forall(0, P, lambda n: implies(" + HYP + ", " + RW("a", "n + 1", "m") + " == " + RW("a", "n", "m") + " + w[n] * w[n] * " + CJ("4", "n", "a", DOT("n", "j", "m"))
              + "), pat=" + RW("a", "n + 1", "m") + "))", "m", "P")
    lem("X2", "forall(0, P, lambda a: implies(" + HYP + ", " + RW("a", "n", "P") + " == " + YN("n", "a") + "), pat=" + RW("a", "n", "P") + ")", "n", "P")
    lem("X3", "forall(0, P, lambda a: implies(" + HYP + " and " + HDEF + ", c07_RA(H, x, a, m) == (1e-08 * x[a] if a < m else 0) + " + RW("a", "P", "m") + "), pat=c07_RA(H, x, a, m))", "m", "P")
    lem("RowS", "forall(0, P, lambda a: implies(" + HYP + " and " + HDEF + ", c07_RA(H, x, a, P) == 1e-08 * x[a] + " + YN("P", "a") + "), pat=c07_RA(H, x, a, P))")
    # second exchange: sum_a x_a sum_i w_i^2 sum_j c_k(a) (L_k . x) = sum_i w_i^2 sum_j (L_k . x)^2
    lem("X5l", "forall(0, P, lambda n: forall(0, P, lambda m: implies(" + HYP + ", " + DJ("jn", "n", "m + 1") + " == " + DJ("jn", "n", "m") + " + x[m] * " + CD("jn", "n", "m") + "), pat=" + DJ("jn", "n", "m + 1") + "))", "jn", "4")
    lem("X5z", "forall(0, P, lambda n: implies(" + HYP + ", " + DJ("jn", "n", "0") + " == 0), pat=" + DJ("jn", "n", "0") + ")", "jn", "4")
    lem("X4z", "implies(" + HYP + ", " + ZZ("0", "m") + " == 0)", "m", "P")
    lem("X4", "forall(0, P, lambda n: implies(" + HYP + ", " + ZZ("n + 1", "m") + " == " + ZZ("n", "m") + " + w[n] * w[n] * " + DJ("4", "n", "m") + "), pat=" + ZZ("n + 1", "m") + ")", "m", "P")
    lem("X5b", "forall(0, P, lambda n: forall(P, P + 1, lambda m: implies(" + HYP + ", " + DJ("jn", "n", "m") + " == " + DSQ("jn", "n") + "), pat=" + DJ("jn", "n", "m") + "))", "jn", "4")
    lem("X5", "implies(" + HYP + ", " + ZZ("n", "P") + " == " + SQS("n") + ")", "n", "P")
    lem("X6", "implies(" + HYP + " and " + HDEF + ", " + QS("m") + " == 1e-08 * " + X2S("m") + " + " + ZZ("P", "m") + ")", "m", "P")
    lem("QF", "implies(" + HYP + " and " + HDEF + ", " + QS("P") + " == 1e-08 * " + X2S("P") + " + " + SQS("P") + ")", export=True)
    lem("N1", "forall(0, P, lambda i: implies(" + HYP + ", " + DSQ("jn", "i") + " >= 0), pat=" + DSQ("jn", "i") + ")", "jn", "4")
    lem("N2", "implies(" + HYP + ", " + SQS("n") + " >= 0 and " + X2S("n") + " >= 0 and implies(exists(0, n, lambda a: x[a] != 0), " + X2S("n") + " > 0))", "n", "P")
    lem("PD", "implies(" + HYP + ", " + SQS("P") + " >= 0 and " + X2S("P") + " >= 0 and implies(exists(0, P, lambda a: x[a] != 0), " + X2S("P") + " > 0))", export=True)
    spec_fn("c07_qs", params=[("H", "real[2]")] + AR + [("n", "int")], ret="real", let={"P": "x.shape[0]"},
            axioms=["implies(H.shape[0] == P and H.shape[1] == P, forall(0, P + 1, lambda n: " + QS("n") + " == sumto(n, lambda a: x[a] * c07_RA(H, x, a, P)), pat=" + QS("n") + "))"],
            lemmas=L, py=lambda H, x, w, mp, sz, wt, n: _q_py(H, x, n), doc="x^T H x by rows; lemmas: the quadratic-form identity of the split-cross scheme")
    return SQS("P"), HYP, HDEF


_SQSP, _SQHYP, _SQHDEF = _split_qf_chain()
# (a) chained to the kernel's contract: one corollary from the entrywise contract of pixel_splitted_regularization_matrix_from to the
#     quadratic form (it re-proves the c07_hsa / c07_hsl lemmas in a larger context: the slowest obligation, LBe, then takes up to ~5 s);
# (b) the same conclusion for ANY matrix of the outer-product form that C07.split.outer_product establishes (hypothesis = its conclusion,
#     verbatim): small context, every obligation well under a second.  The call in (b) only anchors the corollary; its result is not used.
corollary("C07.quadratic_form.split", props=["C07"], vars={"w": "real[1]", "mp": "int[2]", "sz": "int[1]", "wt": "real[2]", "x": "real[1]"},
          let={"N": "mp.shape[0]", "P": "x.shape[0]"},
          requires=["x.shape[0] == toint(mp.shape[0] / 4)"] + _SPREQ + [_DIST],      # rows list pairwise distinct pixels (as reg_split_from returns them)
          calls=[("H", U + "pixel_splitted_regularization_matrix_from", {"regularization_weights": "w", "splitted_mappings": "mp", "splitted_sizes": "sz", "splitted_weights": "wt"})],
          ensures=["H.shape[0] == P and H.shape[1] == P and forall(0, P, lambda a: forall(0, P, lambda b: H[a, b] == (1e-08 if a == b else 0) + c07_hs(w, mp, sz, wt, a, b)))",
                   "forall(0, P, lambda a: forall(0, P, lambda b: c07_hsa(w, mp, sz, wt, a, b) == c07_hs(w, mp, sz, wt, a, b) and c07_hsl(w, mp, sz, wt, a, b) == c07_hs(w, mp, sz, wt, a, b)))",
                   "c07_qs(H, x, w, mp, sz, wt, P) == " + _XHX,
                   # x^T H x = 1e-8 |x|^2 + sum_i w_i^2 sum_{j<4} (L_{4i+j} . x)^2
                   _XHX + " == 1e-08 * " + _X2P + " + " + _SQSP,
                   _XHX + " >= 1e-08 * " + _X2P,
                   "implies(exists(0, P, lambda a: x[a] != 0), " + _XHX + " > 0)"],
          sentence="for the split-cross schemes x^T H x = 1e-8 |x|^2 + sum over cross rows of w^2 (L_k . x)^2, hence strictly positive definite")
corollary("C07.quadratic_form.split_form", props=["C07"],
          vars={"H": "real[2]", "w": "real[1]", "mp": "int[2]", "sz": "int[1]", "wt": "real[2]", "x": "real[1]"}, let={"P": "x.shape[0]"},
          requires=[_SQHYP, "H.shape[0] == P and H.shape[1] == P and forall(0, P, lambda a: forall(0, P, lambda b: H[a, b] == (1e-08 if a == b else 0) + c07_hs(w, mp, sz, wt, a, b)))"],
          calls=[("Z0", U + "zeroth_regularization_matrix_from", {"coefficient": "0", "pixels": "0"})],
          ensures=["c07_qs(H, x, w, mp, sz, wt, P) == " + _XHX,
                   # x^T H x = 1e-8 |x|^2 + sum_i w_i^2 sum_{j<4} (L_{4i+j} . x)^2
                   _XHX + " == 1e-08 * " + _X2P + " + " + _SQSP,
                   _XHX + " >= 1e-08 * " + _X2P,
                   "implies(exists(0, P, lambda a: x[a] != 0), " + _XHX + " > 0)"],
          sentence="for the split-cross schemes x^T H x = 1e-8 |x|^2 + sum over cross rows of w^2 (L_k . x)^2, hence strictly positive definite")
