"""C15 -- preloaded and cached intermediate results never change inversion outputs (the preload plumbing of the Inversion
classes), C11 for the frame / freshness clauses.

Every method here is a (cached) property of the form `if self.preloads.X is not None: return <X or a copy of X>` else
`<compute through a kernel that has a contract>`.  C15 is the POSTCONDITION, the same clause text in every variant
(preload given / preload None):

    if the supplied preload equals the afresh value -- written with the summand / spec function of the kernel's contract --
    then the result equals the afresh value;

plus: the preload array is not modified (frame:self.preloads.X), and where the code promises a copy the result does not alias
the preload (fresh:result); where it hands the preload itself back, that is stated (alias:result).

`self` is modelled by the attributes the method reads (parameters `self.<attr>`, see pyvc/ext/c15.py): what a proof ASSUMES about
them is the contract's `requires`; engine C builds the real Inversion through the public API (aa.Inversion on a masked Imaging
dataset with rectangular mappers / linear function lists, as bounded/c15_preloads.py does), takes the ghost attribute values
from an identical SECOND inversion and the preloads from an identical THIRD one, and compares every ghost value with the real
object's attribute before the method is evaluated.

Afresh values
  c15_BtB(B, s, i, j)      sum_d B[d,i] B[d,j] / s[d]^2                   (summand of C04's curvature_matrix_via_mapping_matrix_from)
  c15_occ(ix, v, a)        sum_k (v if ix[k] == a else 0)                 (summand of C04's curvature_matrix_with_added_to_diag_from)
  c15_F(B, s, ix, v, i, j) c15_BtB + (c15_occ on the diagonal)            F = B^T N^-1 B + diagonal term on unregularised parameters
  c15_D(B, d, s, j)        sum_i d[i] B[i,j] / s[i]^2                     (summand of C04's data_vector_via_blurred_mapping_matrix_from)
"""
import numpy as np
from pyvc.contract import contract, corollary, macro, CONTRACTS
from pyvc import gens
import pyvc.calls  # noqa: F401
from pyvc.ext import c15 as _ext

_ext.install()

MP = "autoarray.inversion.inversion.imaging.mapping:InversionImagingMapping."
AB = "autoarray.inversion.inversion.abstract:AbstractInversion."
IU = "autoarray.inversion.inversion.imaging.inversion_imaging_util:"
VU = "autoarray.inversion.inversion.inversion_util:"


def _py_BtB(B, s, i, j):
    return float(sum(B[d, i] * B[d, j] / s[d] ** 2 for d in range(B.shape[0])))


def _py_occ(ix, v, a):
    return float(sum((v if ix[k] == a else 0) for k in range(len(ix))))


macro("c15_BtB", ["B", "s", "i", "j"], "sumto(B.shape[0], lambda d: B[d, i] * B[d, j] / s[d] ** 2)", py=_py_BtB)
macro("c15_occ", ["ix", "v", "a"], "sumto(ix.shape[0], lambda k: (v if ix[k] == a else 0))", py=_py_occ)
macro("c15_F", ["B", "s", "ix", "v", "i", "j"], "(c15_BtB(B, s, i, j) + (c15_occ(ix, v, i) if i == j else 0))",
      py=lambda B, s, ix, v, i, j: _py_BtB(B, s, i, j) + (_py_occ(ix, v, i) if i == j else 0.0))
macro("c15_D", ["B", "d", "s", "j"], "sumto(B.shape[0], lambda i: d[i] * B[i, j] / s[i] ** 2)",
      py=lambda B, d, s, j: float(sum(d[i] * B[i, j] / s[i] ** 2 for i in range(B.shape[0]))))

# ------------------------------------------------------------------------------------------------------------------------
# InversionImagingMapping.curvature_matrix
# ------------------------------------------------------------------------------------------------------------------------
_DIAG = "self.settings"       # the SettingsInversion object, read (as C04's kernel contract reads it) as the one-element array of the only
#                              value used: settings[0] is settings.no_regularization_add_to_curvature_diag_value
_CM_T = {"self.operated_mapping_matrix": "real[2]", "self.noise_map": "real[1]", "self.no_regularization_index_list": "int[1]", _DIAG: "real[1]"}
_CM_LET = {"B": "self.operated_mapping_matrix", "s": "self.noise_map", "ix": "self.no_regularization_index_list", "v": "self.settings[0]",
           "N": "self.operated_mapping_matrix.shape[0]", "P": "self.operated_mapping_matrix.shape[1]",
           "L": "self.no_regularization_index_list.shape[0]", "PC": "self.preloads.curvature_matrix"}
_CM_REQ = ["self.settings.shape[0] == 1", "s.shape[0] == N", "forall(0, N, lambda d: s[d] > 0)", "forall(0, L, lambda k: 0 <= ix[k] and ix[k] < P)"]
_F = "c15_F(B, s, ix, v, {i}, {j})"
_PC_IS_F = ("(True if PC is None else (PC.shape[0] == P and PC.shape[1] == P and"
            " forall(0, P, lambda i: forall(0, P, lambda j: PC[i, j] == " + _F.format(i="i", j="j") + "))))")
# C15, the same clause in both variants
_CM_C15 = ["implies(" + _PC_IS_F + ", result.shape[0] == P and result.shape[1] == P and"
           " forall(0, P, lambda i: forall(0, P, lambda j: result[i, j] == " + _F.format(i="i", j="j") + ")))"]
_CM_SENT = {"implies": "if the preloaded curvature matrix equals the afresh value B^T N^-1 B + diagonal term (or none is supplied), the curvature "
                       "matrix equals the afresh value; the preload is not modified (frame) and the result is a new array (fresh)"}

K_CM_PRE = MP + "curvature_matrix#preload"
K_CM_NEW = MP + "curvature_matrix#afresh"
contract(K_CM_PRE, props=["C15", "C11"], cls="InversionImagingMapping", rt_wrap=_ext.rt_wrap_for(K_CM_PRE),
         types={"self.preloads.curvature_matrix": "real[2]", **_CM_T}, returns="real[2]", let=_CM_LET, requires=_CM_REQ,
         ensures=_CM_C15 + [
             # the preload is used as supplied (a copy of it) whatever it holds
             "result.shape[0] == PC.shape[0] and result.shape[1] == PC.shape[1]",
             "forall(0, PC.shape[0], lambda i: forall(0, PC.shape[1], lambda j: result[i, j] == PC[i, j]))"],
         sentence=_CM_SENT)
contract(K_CM_NEW, props=["C15", "C11"], cls="InversionImagingMapping", rt_wrap=_ext.rt_wrap_for(K_CM_NEW),
         types={"self.preloads.curvature_matrix": "none", **_CM_T}, returns="real[2]", let=_CM_LET, requires=_CM_REQ,
         ensures=_CM_C15, sentence=_CM_SENT)
for _k in (K_CM_PRE, K_CM_NEW):
    _ext.ENABLED.add(_k)

# (a) repeated use of one preload: both results equal, equal to the afresh value when the preload is, the preload untouched (the
#     contract has no `modifies`: the second application sees the same contents) and neither result aliases it (fresh arrays)
_COR_VARS = {"PCM": "real[2]", "B": "real[2]", "s": "real[1]", "ix": "int[1]", "vv": "real[1]"}
_COR_LET = {"N": "B.shape[0]", "P": "B.shape[1]", "L": "ix.shape[0]", "v": "vv[0]"}
_COR_REQ = ["vv.shape[0] == 1", "s.shape[0] == N", "forall(0, N, lambda d: s[d] > 0)", "forall(0, L, lambda k: 0 <= ix[k] and ix[k] < P)"]
_COR_ARGS = {"self.operated_mapping_matrix": "B", "self.noise_map": "s", "self.no_regularization_index_list": "ix", _DIAG: "vv"}
corollary("C15:curvature-preload-reused", props=["C15"], vars=_COR_VARS, let=_COR_LET, requires=_COR_REQ,
          calls=[("F1", K_CM_PRE, {"self.preloads.curvature_matrix": "PCM", **_COR_ARGS}),
                 ("F2", K_CM_PRE, {"self.preloads.curvature_matrix": "PCM", **_COR_ARGS})],
          ensures=["F1.shape[0] == F2.shape[0] and F1.shape[1] == F2.shape[1]",
                   "forall(0, F1.shape[0], lambda i: forall(0, F1.shape[1], lambda j: F1[i, j] == F2[i, j] and F2[i, j] == PCM[i, j]))"],
          sentence="two inversions handed the same preloaded curvature matrix obtain equal curvature matrices, and the preload still holds what it held")
# (b) both variants agree whenever the preload equals the spec value
corollary("C15:curvature-preload-equals-afresh", props=["C15"], vars=_COR_VARS, let=_COR_LET,
          requires=_COR_REQ + ["PCM.shape[0] == P and PCM.shape[1] == P",
                               "forall(0, P, lambda i: forall(0, P, lambda j: PCM[i, j] == c15_F(B, s, ix, v, i, j)))"],
          calls=[("F1", K_CM_PRE, {"self.preloads.curvature_matrix": "PCM", **_COR_ARGS}),
                 ("F2", K_CM_NEW, {"self.preloads.curvature_matrix": "None", **_COR_ARGS})],
          ensures=["F1.shape[0] == F2.shape[0] and F1.shape[1] == F2.shape[1]",
                   "forall(0, P, lambda i: forall(0, P, lambda j: F1[i, j] == F2[i, j]))"],
          sentence="with a preloaded curvature matrix equal to the afresh value, the inversion with the preload and the inversion without it obtain the same curvature matrix")


# ------------------------------------------------------------------------------------------------------------------------
# engine C: real inversions
# ------------------------------------------------------------------------------------------------------------------------
def _aa():
    from pyvc import rtc
    rtc.import_repo()
    import autoarray as aa
    return aa


def _cases(rng, tier, orders, n_quick=5, n_thorough=60):
    """JSON-able inversion cases (mask, data, noise, kernel, objects, diag) as bounded/c15_preloads.py builds them"""
    from bounded.c15_preloads import base_case
    k = 0
    for rep in range(gens.budget(tier, n_quick, n_thorough)):
        for order in orders:
            case = base_case(rng, "signed-square" if rep % 4 == 3 else "nonneg-square", order, k)
            k += 1
            yield case


def _inversion(case, use_w=False, **preloads):
    """a NEW dataset, NEW linear objects and a NEW inversion from the case description (public API)"""
    aa = _aa()
    from bounded.c04_normal_equations import make_dataset, make_objects, settings
    mk, ds = make_dataset(aa, case["mask"], case["data"], case["noise"], case["kernel"])
    kw = {"preloads": aa.Preloads(**preloads)} if preloads else {}
    return aa.Inversion(dataset=ds, linear_obj_list=make_objects(aa, mk, case["objects"]), settings=settings(aa, use_w, case["diag"]), **kw)


def _given(ns, *names):
    out = {}
    pre = getattr(ns, "preloads", None)
    for n in names:
        v = getattr(pre, n, None) if pre is not None else None
        if v is not None:
            out[n] = v
    return out


def _ghost_cm(inv):
    return {"self.operated_mapping_matrix": np.array(inv.operated_mapping_matrix, dtype=float), "self.noise_map": np.array(inv.noise_map, dtype=float),
            "self.no_regularization_index_list": np.array(list(inv.no_regularization_index_list), dtype=int),
            _DIAG: np.array([float(inv.settings.no_regularization_add_to_curvature_diag_value)])}


_FACTS_CM = [("self.operated_mapping_matrix", lambda o: np.array(o.operated_mapping_matrix), lambda ns: ns.operated_mapping_matrix),
             ("self.noise_map", lambda o: np.array(o.noise_map), lambda ns: ns.noise_map),
             ("self.no_regularization_index_list", lambda o: list(o.no_regularization_index_list), lambda ns: ns.no_regularization_index_list),
             ("self.settings.no_regularization_add_to_curvature_diag_value", lambda o: o.settings.no_regularization_add_to_curvature_diag_value, lambda ns: ns.settings[0]),
             ("type(self)", lambda o: type(o).__name__, lambda ns: "InversionImagingMapping")]
for _k in (K_CM_PRE, K_CM_NEW):
    _ext.RT[_k] = {"build": lambda ns, case: _inversion(case, False, **_given(ns, "curvature_matrix")), "facts": _FACTS_CM}

_ORDERS = ["m", "mf", "fm", "mm", "mfm", "f"]


def _wrong(rng, a):
    """a preload that is NOT the afresh value (the premise of the C15 clause is false; the other clauses still bind)"""
    b = np.array(a, dtype=float, copy=True)
    if b.size:
        b.flat[rng.randrange(b.size)] += rng.choice([1.0, -0.5, 1e-3])
    return b


def _g_cm(preload):
    def gen(rng, tier):
        for case in _cases(rng, tier, _ORDERS):
            ghosts = _ghost_cm(_inversion(case))
            if not preload:
                yield {"self.preloads.curvature_matrix": None, **ghosts, "case": case}
                continue
            donor = np.array(_inversion(case).curvature_matrix)                # identical third inversion
            yield {"self.preloads.curvature_matrix": donor, **ghosts, "case": case}
            if rng.random() < 0.4:
                yield {"self.preloads.curvature_matrix": _wrong(rng, donor), **ghosts, "case": case}
    return gen


CONTRACTS[K_CM_PRE].gen = _g_cm(True)
CONTRACTS[K_CM_NEW].gen = _g_cm(False)
_nt_cm = lambda **kw: len(kw["self.no_regularization_index_list"]) > 0
CONTRACTS[K_CM_PRE].nontrivial = _nt_cm
CONTRACTS[K_CM_NEW].nontrivial = _nt_cm

# ------------------------------------------------------------------------------------------------------------------------
# InversionImagingMapping.data_vector: three paths (preloaded data_vector_mapper when there is no linear-function object;
# preloaded operated_mapping_matrix; afresh)
# ------------------------------------------------------------------------------------------------------------------------
_HASF = "self.has_AbstractLinearObjFuncList"
_DV_T = {"self.operated_mapping_matrix": "real[2]", "self.data": "real[1]", "self.noise_map": "real[1]", _HASF: "bool"}
_DV_LET = {"B": "self.operated_mapping_matrix", "d": "self.data", "s": "self.noise_map", "hasf": _HASF,
           "N": "self.operated_mapping_matrix.shape[0]", "P": "self.operated_mapping_matrix.shape[1]",
           "DVM": "self.preloads.data_vector_mapper", "OMM": "self.preloads.operated_mapping_matrix"}
_DV_REQ = ["d.shape[0] == N", "s.shape[0] == N", "forall(0, N, lambda i: s[i] > 0)"]
_DS = "sumto({n}, lambda i: d[i] * {B}[i, {j}] / s[i] ** 2)"
_DVM_OK = "(True if DVM is None else (hasf or (DVM.shape[0] == P and forall(0, P, lambda j: DVM[j] == c15_D(B, d, s, j)))))"
_OMM_EQ = "forall(0, N, lambda a: forall(0, P, lambda b: OMM[a, b] == B[a, b]))"
_OMM_OK = "(True if OMM is None else (OMM.shape[0] == N and OMM.shape[1] == P and " + _OMM_EQ + "))"
_DV_C15 = ["implies(" + _DVM_OK + " and " + _OMM_OK + ", result.shape[0] == P and forall(0, P, lambda j: result[j] == c15_D(B, d, s, j)))"]
_DV_SENT = {"implies": "if every supplied preload (data vector of the mappers -- used only when there is no linear-function object --, operated "
                       "mapping matrix) equals its afresh value, the data vector equals the afresh value D_j = sum_i d_i B_ij / sigma_i^2; "
                       "no preload is modified (frame)"}
# the sums over the preloaded and over the afresh operated mapping matrix agree term by term (ghost lemma by induction on the
# number of terms, proved before the kernel is called)
_DV_LEMMA = {"induct": "n", "lo": 0, "hi": "N",
             "stmt": "implies(" + _OMM_EQ + ", forall(0, P, lambda j: " + _DS.format(n="n", B="OMM", j="j") + " == " + _DS.format(n="n", B="B", j="j") + "))"}

K_DV = {}
for _dvm in (0, 1):
    for _omm in (0, 1):
        for _func in ((0, 1) if _dvm else (None,)):
            _name = "+".join((["dvm"] if _dvm else []) + (["omm"] if _omm else [])) or "afresh"
            if _func is not None:
                _name += "_func" if _func else "_nofunc"
            _key = MP + "data_vector#" + _name
            K_DV[(_dvm, _omm, _func)] = _key
            _alias = bool(_dvm) and not _func
            _req = list(_DV_REQ)
            if _func is not None:
                _req.append("hasf" if _func else "not hasf")
            if _omm:
                # a preloaded operated mapping matrix has the shape of the afresh one (its values are the premise of the C15 clause)
                _req.append("OMM.shape[0] == N and OMM.shape[1] == P")
            _ens = list(_DV_C15)
            if _alias:
                _ens.append("forall(0, DVM.shape[0], lambda j: result[j] == DVM[j])")
            elif _omm:
                _ens.append("forall(0, P, lambda j: result[j] == " + _DS.format(n="N", B="OMM", j="j") + ")")
            contract(_key, props=["C15", "C11"], cls="InversionImagingMapping", rt_wrap=_ext.rt_wrap_for(_key),
                     types={"self.preloads.data_vector_mapper": "real[1]" if _dvm else "none",
                            "self.preloads.operated_mapping_matrix": "real[2]" if _omm else "none", **_DV_T},
                     returns="real[1]", let=_DV_LET, requires=_req, ensures=_ens,
                     result_alias="self.preloads.data_vector_mapper" if _alias else None,
                     ghost_at=({2: [_DV_LEMMA]} if (_omm and not _alias) else {}),
                     sentence=_DV_SENT,
                     note=("the preloaded data vector is handed back itself (alias:result), not a copy" if _alias else ""))
            _ext.ENABLED.add(_key)


def _ghost_dv(inv):
    aa = _aa()
    from autoarray.inversion.linear_obj.func_list import AbstractLinearObjFuncList
    return {"self.operated_mapping_matrix": np.array(inv.operated_mapping_matrix, dtype=float), "self.data": np.array(inv.data, dtype=float),
            "self.noise_map": np.array(inv.noise_map, dtype=float), _HASF: bool(inv.has(cls=AbstractLinearObjFuncList))}


def _has_func(o):
    from autoarray.inversion.linear_obj.func_list import AbstractLinearObjFuncList
    return bool(o.has(cls=AbstractLinearObjFuncList))


def _afresh_omm(o):
    """the value `self.operated_mapping_matrix` has where the method reads it (preloads.operated_mapping_matrix is None there): the
    afresh matrix np.hstack(operated_mapping_matrix_list) -- AbstractInversion.operated_mapping_matrix hands a preload back otherwise"""
    if o.preloads.operated_mapping_matrix is None:
        return np.array(o.operated_mapping_matrix)
    return np.hstack(o.operated_mapping_matrix_list)


_FACTS_DV = [("self.operated_mapping_matrix", _afresh_omm, lambda ns: ns.operated_mapping_matrix),
             ("self.data", lambda o: np.array(o.data), lambda ns: ns.data),
             ("self.noise_map", lambda o: np.array(o.noise_map), lambda ns: ns.noise_map),
             ("self.has(cls=AbstractLinearObjFuncList)", _has_func, lambda ns: ns.has_AbstractLinearObjFuncList),
             ("type(self)", lambda o: type(o).__name__, lambda ns: "InversionImagingMapping")]


def _g_dv15(dvm, omm, func):
    def gen(rng, tier):
        orders = ["m", "mm"] if func == 0 else (["mf", "fm", "mfm", "mmf"] if func == 1 else ["m", "mf", "fm", "mm", "f"])
        for case in _cases(rng, tier, orders):
            ghosts = _ghost_dv(_inversion(case))
            donor = _inversion(case)                                           # identical third inversion
            for wrong in ((False, True) if rng.random() < 0.4 else (False,)):
                kw = {"self.preloads.data_vector_mapper": None, "self.preloads.operated_mapping_matrix": None, **ghosts, "case": case}
                if dvm:
                    # what Preloads.set_* stores: the mappers' data vector (zero on the parameters of linear-function objects)
                    v = np.array(donor._data_vector_mapper, dtype=float)
                    kw["self.preloads.data_vector_mapper"] = _wrong(rng, v) if (wrong and rng.random() < 0.5) else v
                if omm:
                    v = np.array(donor.operated_mapping_matrix, dtype=float)
                    kw["self.preloads.operated_mapping_matrix"] = _wrong(rng, v) if wrong else v
                if wrong and not (dvm or omm):
                    continue
                yield kw
    return gen


for (_dvm, _omm, _func), _key in K_DV.items():
    _ext.RT[_key] = {"build": lambda ns, case: _inversion(case, False, **_given(ns, "data_vector_mapper", "operated_mapping_matrix")), "facts": _FACTS_DV}
    CONTRACTS[_key].gen = _g_dv15(_dvm, _omm, _func)

# (b) the variants agree whenever the preloads equal the spec values
_DVC_VARS = {"PDV": "real[1]", "POM": "real[2]", "B": "real[2]", "d": "real[1]", "s": "real[1]"}
_DVC_LET = {"N": "B.shape[0]", "P": "B.shape[1]"}
_DVC_ARGS = {"self.operated_mapping_matrix": "B", "self.data": "d", "self.noise_map": "s"}
corollary("C15:data-vector-preloads-equal-afresh", props=["C15"], vars=_DVC_VARS, let=_DVC_LET,
          requires=_DV_REQ + ["PDV.shape[0] == P", "forall(0, P, lambda j: PDV[j] == c15_D(B, d, s, j))",
                              "POM.shape[0] == N and POM.shape[1] == P", "forall(0, N, lambda a: forall(0, P, lambda b: POM[a, b] == B[a, b]))"],
          calls=[("D0", K_DV[(0, 0, None)], {"self.preloads.data_vector_mapper": "None", "self.preloads.operated_mapping_matrix": "None", _HASF: "False", **_DVC_ARGS}),
                 ("D1", K_DV[(1, 0, 0)], {"self.preloads.data_vector_mapper": "PDV", "self.preloads.operated_mapping_matrix": "None", _HASF: "False", **_DVC_ARGS}),
                 ("D2", K_DV[(0, 1, None)], {"self.preloads.data_vector_mapper": "None", "self.preloads.operated_mapping_matrix": "POM", _HASF: "True", **_DVC_ARGS}),
                 ("D3", K_DV[(1, 1, 1)], {"self.preloads.data_vector_mapper": "PDV", "self.preloads.operated_mapping_matrix": "POM", _HASF: "True", **_DVC_ARGS})],
          ensures=["D0.shape[0] == P and D1.shape[0] == P and D2.shape[0] == P and D3.shape[0] == P",
                   "forall(0, P, lambda j: D0[j] == D1[j] and D0[j] == D2[j] and D0[j] == D3[j])"],
          sentence="with preloads equal to their afresh values, the inversion without preloads and the inversions with a preloaded mapper data vector and / or "
                   "operated mapping matrix obtain the same data vector")

# ------------------------------------------------------------------------------------------------------------------------
# AbstractInversion.operated_mapping_matrix: the preload itself, else np.hstack(self.operated_mapping_matrix_list)
# ------------------------------------------------------------------------------------------------------------------------
_HS = "self.hstack_operated_mapping_matrix_list"
_OM_LET = {"HS": _HS, "N": _HS + ".shape[0]", "P": _HS + ".shape[1]", "POM": "self.preloads.operated_mapping_matrix"}
_OM_C15 = ["implies((True if POM is None else (POM.shape[0] == N and POM.shape[1] == P and forall(0, N, lambda a: forall(0, P, lambda b: POM[a, b] == HS[a, b])))),"
           " result.shape[0] == N and result.shape[1] == P and forall(0, N, lambda a: forall(0, P, lambda b: result[a, b] == HS[a, b])))"]
_OM_SENT = {"implies": "if the preloaded operated mapping matrix equals the afresh value (the blurred mapping matrices of the linear objects side by side), "
                       "the operated mapping matrix equals the afresh value; the preload is not modified"}
K_OM_PRE, K_OM_NEW = AB + "operated_mapping_matrix#preload", AB + "operated_mapping_matrix#afresh"
contract(K_OM_PRE, props=["C15", "C11"], cls="AbstractInversion", rt_wrap=_ext.rt_wrap_for(K_OM_PRE),
         types={"self.preloads.operated_mapping_matrix": "real[2]", _HS: "real[2]"}, returns="real[2]", let=_OM_LET,
         result_alias="self.preloads.operated_mapping_matrix",
         ensures=_OM_C15 + ["forall(0, POM.shape[0], lambda a: forall(0, POM.shape[1], lambda b: result[a, b] == POM[a, b]))"], sentence=_OM_SENT,
         note="the preloaded matrix is handed back itself (alias:result), not a copy")
contract(K_OM_NEW, props=["C15", "C11"], cls="AbstractInversion", rt_wrap=_ext.rt_wrap_for(K_OM_NEW),
         types={"self.preloads.operated_mapping_matrix": "none", _HS: "real[2]"}, returns="real[2]", let=_OM_LET, ensures=_OM_C15, sentence=_OM_SENT)


def _g_om(preload):
    def gen(rng, tier):
        for case in _cases(rng, tier, _ORDERS):
            hs = np.hstack(_inversion(case).operated_mapping_matrix_list)
            if not preload:
                yield {"self.preloads.operated_mapping_matrix": None, _HS: hs, "case": case}
                continue
            donor = np.array(_inversion(case).operated_mapping_matrix, dtype=float)
            yield {"self.preloads.operated_mapping_matrix": donor, _HS: hs, "case": case}
            if rng.random() < 0.4:
                yield {"self.preloads.operated_mapping_matrix": _wrong(rng, donor), _HS: hs, "case": case}
    return gen


for _k, _p in ((K_OM_PRE, True), (K_OM_NEW, False)):
    _ext.ENABLED.add(_k)
    _ext.RT[_k] = {"build": lambda ns, case: _inversion(case, False, **_given(ns, "operated_mapping_matrix")),
                   "facts": [(_HS, lambda o: np.hstack(o.operated_mapping_matrix_list), lambda ns: ns.hstack_operated_mapping_matrix_list)]}
    CONTRACTS[_k].gen = _g_om(_p)

# ------------------------------------------------------------------------------------------------------------------------
# AbstractInversion.regularization_matrix: the preload itself, else block_diag of the linear objects' regularization matrices
# ------------------------------------------------------------------------------------------------------------------------
_R0, _CNT = "self.regularization_matrix_list_0", "self.linear_obj_count"
_RM_LET = {"R0": _R0, "n": _R0 + ".shape[0]", "PR": "self.preloads.regularization_matrix"}
_RM_REQ = [_CNT + " == 1", "R0.shape[1] == n"]
_RM_C15 = ["implies((True if PR is None else (PR.shape[0] == n and PR.shape[1] == n and forall(0, n, lambda a: forall(0, n, lambda b: PR[a, b] == R0[a, b])))),"
           " result.shape[0] == n and result.shape[1] == n and forall(0, n, lambda a: forall(0, n, lambda b: result[a, b] == R0[a, b])))"]
_RM_SENT = {"implies": "one linear object: if the preloaded regularization matrix equals the afresh value (the object's regularization matrix), the "
                       "regularization matrix equals the afresh value; the preload is not modified"}
K_RM_PRE1, K_RM_NEW1, K_RM_PRE = AB + "regularization_matrix#preload_one_object", AB + "regularization_matrix#afresh_one_object", AB + "regularization_matrix#preload"
contract(K_RM_PRE1, props=["C15", "C11"], cls="AbstractInversion", rt_wrap=_ext.rt_wrap_for(K_RM_PRE1),
         types={"self.preloads.regularization_matrix": "real[2]", _R0: "real[2]", _CNT: "int"}, returns="real[2]", let=_RM_LET, requires=_RM_REQ,
         result_alias="self.preloads.regularization_matrix",
         ensures=_RM_C15 + ["forall(0, PR.shape[0], lambda a: forall(0, PR.shape[1], lambda b: result[a, b] == PR[a, b]))"], sentence=_RM_SENT)
contract(K_RM_NEW1, props=["C15", "C11"], cls="AbstractInversion", rt_wrap=_ext.rt_wrap_for(K_RM_NEW1),
         types={"self.preloads.regularization_matrix": "none", _R0: "real[2]", _CNT: "int"}, returns="real[2]", let=_RM_LET, requires=_RM_REQ,
         ensures=_RM_C15, sentence=_RM_SENT,
         note="afresh value for ONE linear object only: scipy.linalg.block_diag of a single block is read as a copy of the block (pyvc/ext/c15.py S6); "
              "several blocks are outside the subset and stay with bounded/c15_preloads.py")
# any number of linear objects: the preload is handed back as supplied, itself, unmodified
contract(K_RM_PRE, props=["C15", "C11"], cls="AbstractInversion", rt_wrap=_ext.rt_wrap_for(K_RM_PRE),
         types={"self.preloads.regularization_matrix": "real[2]"}, returns="real[2]", let={"PR": "self.preloads.regularization_matrix"},
         result_alias="self.preloads.regularization_matrix",
         ensures=["forall(0, PR.shape[0], lambda a: forall(0, PR.shape[1], lambda b: result[a, b] == PR[a, b]))"],
         sentence={"forall": "a preloaded regularization matrix is used exactly as supplied (hence equal to the afresh value whenever the preload is) and is not modified"})


def _g_rm(preload, one):
    def gen(rng, tier):
        for case in _cases(rng, tier, ["m", "d"] if one else _ORDERS[:-1]):
            twin = _inversion(case)
            gh = {_R0: np.array(twin.linear_obj_list[0].regularization_matrix, dtype=float), _CNT: len(twin.linear_obj_list)} if one else {}
            if not preload:
                yield {"self.preloads.regularization_matrix": None, **gh, "case": case}
                continue
            donor = np.array(_inversion(case).regularization_matrix, dtype=float)
            yield {"self.preloads.regularization_matrix": donor, **gh, "case": case}
            if rng.random() < 0.4:
                yield {"self.preloads.regularization_matrix": _wrong(rng, donor), **gh, "case": case}
    return gen


_FACTS_RM1 = [(_R0, lambda o: np.array(o.linear_obj_list[0].regularization_matrix), lambda ns: ns.regularization_matrix_list_0),
              (_CNT, lambda o: len(o.linear_obj_list), lambda ns: ns.linear_obj_count)]
for _k, _p, _o in ((K_RM_PRE1, True, True), (K_RM_NEW1, False, True), (K_RM_PRE, True, False)):
    _ext.ENABLED.add(_k)
    _ext.RT[_k] = {"build": lambda ns, case: _inversion(case, False, **_given(ns, "regularization_matrix")), "facts": _FACTS_RM1 if _o else []}
    CONTRACTS[_k].gen = _g_rm(_p, _o)

# ------------------------------------------------------------------------------------------------------------------------
# AbstractInversion.log_det_regularization_matrix_term: 0.0 without regularization, else the preload, else log det of the
# reduced regularization matrix through scipy's sparse LU (external)
# ------------------------------------------------------------------------------------------------------------------------
_HASR = "self.has_AbstractRegularization"
_LD = "self.log_det_afresh"            # ghost: the afresh value -- at run time what an identical inversion WITHOUT preloads computes
_LDN = "self.log_det_numpy"            # ghost of the bounded afresh variant: numpy's slogdet of the reduced regularization matrix
_LD_LET = {"PL": "self.preloads.log_det_regularization_matrix_term", "LD": _LD, "hasr": _HASR}
_LD_C15 = ["implies((True if PL is None else (not hasr or PL == LD)), result == (LD if hasr else 0))"]
_LD_SENT = {"implies": "if the preloaded log-determinant term equals the afresh value, the term equals the afresh value: 0 without any regularization, "
                       "log det of the reduced regularization matrix otherwise"}
K_LD = {}
for _nm, _pl, _req, _mode in (("noreg", "none", ["not hasr"], "proof"), ("noreg+preload", "real", ["not hasr"], "proof"),
                               ("preload", "real", ["hasr"], "proof"), ("afresh", "none", ["hasr"], "bounded")):
    _key = AB + "log_det_regularization_matrix_term#" + _nm
    K_LD[_nm] = _key
    contract(_key, props=["C15"], cls="AbstractInversion", rt_wrap=_ext.rt_wrap_for(_key), mode=_mode,
             types={"self.preloads.log_det_regularization_matrix_term": _pl, _LD: "real", _HASR: "bool", **({_LDN: "real"} if _mode == "bounded" else {})},
             returns="real", let=_LD_LET, requires=_req,
             ensures=_LD_C15 + (["result == PL"] if _nm == "preload" else [])
             # independent oracle, run time only: the matrices carry a 1e-8 diagonal, log det is ill-conditioned -> relative 1e-6
             + (["abs(result - %s) <= 1e-6 * max(1, abs(%s))" % (_LDN, _LDN)] if _mode == "bounded" else []), sentence=_LD_SENT,
             note=("bounded only: the afresh branch is `try: splu(csc_matrix(...)) ... except RuntimeError: np.linalg.cholesky` -- scipy's sparse LU and the "
                   "complex-log of its factors' diagonals are external code with no reading in engine A; the afresh value LD is numpy's slogdet of "
                   "regularization_matrix_reduced at run time") if _mode == "bounded" else "")
    _ext.ENABLED.add(_key)


def _has_reg(o):
    from autoarray.inversion.regularization.abstract import AbstractRegularization
    return bool(o.has(cls=AbstractRegularization))


def _slogdet(o):
    if not _has_reg(o):
        return 0.0
    return float(np.linalg.slogdet(np.array(_no_preload_twin_reduced(o)))[1])


def _no_preload_twin_reduced(o):
    return o.regularization_matrix_reduced


def _g_ld(name):
    def gen(rng, tier):
        orders = ["f", "ff"] if name.startswith("noreg") else ["m", "mf", "fm", "mm", "d"]
        for case in _cases(rng, tier, orders):
            twin = _inversion(case)
            gh = {_LD: float(twin.log_det_regularization_matrix_term), _HASR: _has_reg(twin)}
            if name == "afresh":
                gh[_LDN] = _slogdet(twin)
            if name in ("noreg", "afresh"):
                yield {"self.preloads.log_det_regularization_matrix_term": None, **gh, "case": case}
                continue
            donor = float(_inversion(case).log_det_regularization_matrix_term)
            yield {"self.preloads.log_det_regularization_matrix_term": donor, **gh, "case": case}
            if rng.random() < 0.4:
                yield {"self.preloads.log_det_regularization_matrix_term": donor + rng.choice([1.0, -0.25]), **gh, "case": case}
    return gen


for _nm, _key in K_LD.items():
    _ext.RT[_key] = {"build": lambda ns, case: _inversion(case, False, **_given(ns, "log_det_regularization_matrix_term")),
                     "facts": [("self.has(cls=AbstractRegularization)", _has_reg, lambda ns: ns.has_AbstractRegularization)]}
    CONTRACTS[_key].gen = _g_ld(_nm)

# ------------------------------------------------------------------------------------------------------------------------
# AbstractInversion.curvature_reg_matrix: F + H, formed IN PLACE in the inversion's own curvature matrix when there is exactly
# one regularization.  "A preloaded curvature matrix is never changed by the inversions that use it" = curvature_matrix returns
# a NEW array (fresh:result of curvature_matrix#preload) + the only in-place write goes to that array (modifies below).
# ------------------------------------------------------------------------------------------------------------------------
_CR_T = {"self.curvature_matrix": "real[2]", "self.regularization_matrix": "real[2]", _HASR: "bool", "self.regularization_list": "int[1]"}
_CR_LET = {"F": "self.curvature_matrix", "H": "self.regularization_matrix", "hasr": _HASR, "n": "self.curvature_matrix.shape[0]",
           "R": "self.regularization_list.shape[0]"}
_CR_REQ = ["F.shape[1] == n", "H.shape[0] == n and H.shape[1] == n"]
_CR_SUM = "result.shape[0] == n and result.shape[1] == n and forall(0, n, lambda a: forall(0, n, lambda b: result[a, b] == old(F)[a, b] + (H[a, b] if hasr else 0)))"
_CR_SENT = {"forall": "the curvature-regularization matrix is F + H (F alone without any regularization); H is never modified, F only when "
                      "there is exactly one regularization, and then F is the inversion's own array -- never a preload"}
K_CR = {}
for _nm, _req, _alias, _mod, _pre in (("noreg", ["not hasr"], True, False, False), ("one_reg", ["hasr", "R == 1"], True, True, False),
                                      ("several_reg", ["hasr", "R != 1"], False, False, False),
                                      ("one_reg+preloaded_curvature", ["hasr", "R == 1"], True, True, True)):
    _key = AB + "curvature_reg_matrix#" + _nm
    K_CR[_nm] = _key
    contract(_key, props=["C15", "C11"], cls="AbstractInversion", rt_wrap=_ext.rt_wrap_for(_key),
             types={**_CR_T, **({"self.preloads.curvature_matrix": "real[2]"} if _pre else {})}, returns="real[2]", let=_CR_LET,
             requires=_CR_REQ + _req, ensures=[_CR_SUM], modifies=["self.curvature_matrix"] if _mod else [],
             result_alias="self.curvature_matrix" if _alias else None, sentence=_CR_SENT,
             note=("run time: the inversion is built WITH a preloaded curvature matrix and evaluates its real curvature_matrix first; "
                   "frame:self.preloads.curvature_matrix is the statement 'the preload is never changed'") if _pre else "")
    _ext.ENABLED.add(_key)

# the chain of the statement: curvature matrix from a preload, then the in-place sum -- the preload still holds what it held
corollary("C15:preloaded-curvature-survives-in-place-sum", props=["C15", "C11"],
          vars={**_COR_VARS, "H": "real[2]", "RL": "int[1]"}, let=_COR_LET,
          requires=_COR_REQ + ["PCM.shape[0] == P and PCM.shape[1] == P", "H.shape[0] == P and H.shape[1] == P", "RL.shape[0] == 1"],
          calls=[("F1", K_CM_PRE, {"self.preloads.curvature_matrix": "PCM", **_COR_ARGS}),
                 ("G1", K_CR["one_reg"], {"self.curvature_matrix": "F1", "self.regularization_matrix": "H", _HASR: "True", "self.regularization_list": "RL"}),
                 ("F2", K_CM_PRE, {"self.preloads.curvature_matrix": "PCM", **_COR_ARGS}),
                 ("G2", K_CR["one_reg"], {"self.curvature_matrix": "F2", "self.regularization_matrix": "H", _HASR: "True", "self.regularization_list": "RL"})],
          ensures=["forall(0, P, lambda a: forall(0, P, lambda b: G1[a, b] == PCM[a, b] + H[a, b] and G2[a, b] == G1[a, b] and F2[a, b] == PCM[a, b] + H[a, b]))"],
          sentence="two successive inversions sharing one preloaded curvature matrix, each forming F + H in place: both obtain PRELOAD + H, i.e. the preload "
                   "was not changed by the first (the in-place sum went to the copy)")


def _g_cr(name):
    def gen(rng, tier):
        orders = {"noreg": ["f", "ff"], "several_reg": ["mm", "mf", "fm", "mfm"]}.get(name, ["m", "d"])
        for case in _cases(rng, tier, orders):
            twin = _inversion(case)
            gh = {"self.curvature_matrix": np.array(twin.curvature_matrix, dtype=float), "self.regularization_matrix": np.array(twin.regularization_matrix, dtype=float),
                  _HASR: _has_reg(twin), "self.regularization_list": np.arange(len(twin.regularization_list))}
            if name.endswith("preloaded_curvature"):
                gh["self.preloads.curvature_matrix"] = np.array(_inversion(case).curvature_matrix, dtype=float)
            yield {**gh, "case": case}
    return gen


def _seed_h(inv, ns):
    """the inversion's (cached) regularization matrix IS the generated array -- after its value was compared with what the real
    object computes -- so that a write into it is seen by the frame check"""
    got = np.array(inv.regularization_matrix)
    from pyvc import rtc
    if not rtc._eq(got, ns.regularization_matrix):
        raise _ext.FactFalse("self.regularization_matrix", got)
    inv.__dict__["regularization_matrix"] = ns.regularization_matrix


def _build_cr(pre, modifies):
    def build(ns, case):
        if pre:
            inv = _inversion(case, False, curvature_matrix=ns.preloads.curvature_matrix)
            _seed_h(inv, ns)
            return inv
        inv = _inversion(case)
        # the inversion's own (cached) curvature matrix IS the generated array, so that an in-place write is seen by the frame check
        # (where the contract allows the write -- `modifies` -- a copy of it: the generated input must stay what the twins re-use)
        inv.__dict__["curvature_matrix"] = np.array(ns.curvature_matrix) if modifies else ns.curvature_matrix
        _seed_h(inv, ns)
        return inv
    return build


_FACTS_CR = [("self.regularization_matrix", lambda o: np.array(o.regularization_matrix), lambda ns: ns.regularization_matrix),
             ("self.has(cls=AbstractRegularization)", _has_reg, lambda ns: ns.has_AbstractRegularization),
             ("len(self.regularization_list)", lambda o: len(o.regularization_list), lambda ns: len(ns.regularization_list))]
for _nm, _key in K_CR.items():
    _pre = _nm.endswith("preloaded_curvature")
    _ext.RT[_key] = {"build": _build_cr(_pre, bool(CONTRACTS[_key].modifies)),
                     "facts": _FACTS_CR + ([("self.curvature_matrix", lambda o: np.array(o.curvature_matrix), lambda ns: ns.curvature_matrix)] if _pre else
                                           [("self.curvature_matrix (afresh twin)", lambda o: np.array(_recomputed_curvature(o)), lambda ns: ns.curvature_matrix)])}
    CONTRACTS[_key].gen = _g_cr(_nm)


def _recomputed_curvature(o):
    """the curvature matrix the real object computes when its cache is emptied (the generated array was put into the cache)"""
    seeded = o.__dict__.pop("curvature_matrix")
    try:
        return np.array(o.curvature_matrix)
    finally:
        o.__dict__["curvature_matrix"] = seeded

# ------------------------------------------------------------------------------------------------------------------------
# the per-mapper pieces (_data_vector_mapper, _curvature_matrix_mapper_diag; both formalisms): preload branch under proof, the
# afresh branch (a loop over a Python list of mapper objects, their unique-mapping tables and the convolver) is outside the subset
# ------------------------------------------------------------------------------------------------------------------------
WT = "autoarray.inversion.inversion.imaging.w_tilde:InversionImagingWTilde."
_AF = "self.afresh"        # ghost: the afresh value -- at run time what an identical inversion WITHOUT this preload computes
_ISM = "self.param_is_mapper"   # ghost of Mapping._data_vector_mapper: 1 where the parameter belongs to a mapper, else 0


def _same(a, b, rank):
    if rank == 1:
        return "({a}.shape[0] == {b}.shape[0] and forall(0, {b}.shape[0], lambda j: {a}[j] == {b}[j]))".format(a=a, b=b)
    return ("({a}.shape[0] == {b}.shape[0] and {a}.shape[1] == {b}.shape[1] and"
            " forall(0, {b}.shape[0], lambda i: forall(0, {b}.shape[1], lambda j: {a}[i, j] == {b}[i, j])))").format(a=a, b=b)


K_PIECE = {}


def _piece(cls_key, cls, method, slot, rank, alias, use_w):
    """`if self.preloads.<slot> is not None: return <it / a copy of it>`; #preload under proof, #afresh bounded"""
    ty = "real[%d]" % rank
    let = {"PX": "self.preloads." + slot, "AF": _AF}
    c15 = ["implies((True if PX is None else " + _same("PX", "AF", rank) + "), " + _same("result", "AF", rank) + ")"]
    sent = {"implies": "if the preloaded %s equals the afresh value, the result equals the afresh value; the preload is not modified%s"
                       % (slot, "" if alias else " and the result is a new array")}
    for nm, pty, mode in (("preload", ty, "proof"), ("afresh", "none", "bounded")):
        key = cls_key + method + "#" + nm
        K_PIECE[(cls, method, nm)] = key
        closed = (method == "_data_vector_mapper" and not use_w and nm == "afresh")
        contract(key, props=["C15", "C11"], cls=cls, rt_wrap=_ext.rt_wrap_for(key), mode=mode,
                 types={"self.preloads." + slot: pty, _AF: ty,
                        **({"self.hstack_operated_mapping_matrix_list": "real[2]", "self.data": "real[1]", "self.noise_map": "real[1]", _ISM: "int[1]"} if closed else {})},
                 returns=ty, let=let,
                 ensures=c15 + ([_same("result", "PX", rank)] if nm == "preload" else [])
                 # closed form of the afresh value (mapping formalism): D_j over the blurred mapping matrices on the mappers' parameters, 0 elsewhere
                 + (["forall(0, AF.shape[0], lambda j: result[j] == (c15_D(self.hstack_operated_mapping_matrix_list, self.data, self.noise_map, j)"
                     " if self.param_is_mapper[j] == 1 else 0))"] if closed else []),
                 result_alias=("self.preloads." + slot) if (alias and nm == "preload") else None, sentence=sent,
                 note=("bounded only: the afresh branch loops over a Python list of mapper objects (cls_list_from / param_range_list_from, "
                       "mapper.unique_mappings / convolver.convolve_mapping_matrix): object lists are outside the engine-A subset; AF is what an "
                       "identical second inversion computes") if mode == "bounded" else
                      ("the preload is handed back itself (alias:result)" if alias else ""))
        _ext.ENABLED.add(key)
        _ext.RT[key] = {"build": (lambda ns, case, slot=slot, use_w=use_w: _inversion(case, use_w, **_given(ns, slot))),
                        "facts": [("type(self)", lambda o: type(o).__name__, lambda ns, cls=cls: cls)]}
        CONTRACTS[key].gen = _g_piece(method, slot, nm == "preload", use_w)


def _closed_form_ghosts(inv):
    from autoarray.inversion.pixelization.mappers.abstract import AbstractMapper
    ism = np.zeros(inv.total_params, dtype=int)
    for r in inv.param_range_list_from(cls=AbstractMapper):
        ism[r[0]:r[1]] = 1
    return {"self.hstack_operated_mapping_matrix_list": np.hstack(inv.operated_mapping_matrix_list), "self.data": np.array(inv.data, dtype=float),
            "self.noise_map": np.array(inv.noise_map, dtype=float), _ISM: ism}


def _g_piece(method, slot, preload, use_w):
    def gen(rng, tier):
        for case in _cases(rng, tier, ["m", "mf", "fm", "mm", "mfm"], n_quick=4):
            try:
                af = getattr(_inversion(case, use_w), method)
                donor = getattr(_inversion(case, use_w), method)
            except IndexError:
                # Mapping._curvature_matrix_mapper_diag indexes a per-mapper block with the global no_regularization_index_list (known
                # finding of bounded/c15_preloads.py): no afresh value exists for this mix
                continue
            if af is None:
                # every case has a mapper: `None` is not an afresh value (kept as an empty array so that the clauses reject it)
                af = donor = np.zeros((0,) * (2 if "curvature" in method else 1))
            af, donor = np.array(af, dtype=float), np.array(donor, dtype=float)
            extra = _closed_form_ghosts(_inversion(case, use_w)) if (method == "_data_vector_mapper" and not use_w and not preload) else {}
            if not preload:
                yield {"self.preloads." + slot: None, _AF: af, **extra, "case": case}
                continue
            yield {"self.preloads." + slot: donor, _AF: af, "case": case}
            if rng.random() < 0.4:
                yield {"self.preloads." + slot: _wrong(rng, donor), _AF: af, "case": case}
    return gen


_piece(MP, "InversionImagingMapping", "_data_vector_mapper", "data_vector_mapper", 1, True, False)
_piece(MP, "InversionImagingMapping", "_curvature_matrix_mapper_diag", "curvature_matrix_mapper_diag", 2, True, False)
_piece(WT, "InversionImagingWTilde", "_data_vector_mapper", "data_vector_mapper", 1, False, True)
_piece(WT, "InversionImagingWTilde", "_curvature_matrix_mapper_diag", "curvature_matrix_mapper_diag", 2, False, True)

# ------------------------------------------------------------------------------------------------------------------------
# InversionImagingWTilde.curvature_matrix: a copy of the preload, else the assembled (one-triangle / one-off-diagonal-block) matrix
# of the w-tilde formalism, mirrored, plus the diagonal term on unregularised parameters
# ------------------------------------------------------------------------------------------------------------------------
_WV = "self.settings.no_regularization_add_to_curvature_diag_value"
_TOT = "self.total_AbstractMapper"
_WU = {"func": "self._curvature_matrix_func_list_and_mapper", "x1": "self._curvature_matrix_x1_mapper", "multi": "self._curvature_matrix_multi_mapper"}
_WBR = {"func": ["hasf"], "x1": ["not hasf", "tot == 1"], "multi": ["not hasf", "tot != 1"]}
_WF = "(c04_pref(U, {i}, {j}) + (c15_occ(ix, v, {i}) if {i} == {j} else 0))"
_W_PC_OK = ("(True if PC is None else (PC.shape[0] == n and PC.shape[1] == n and forall(0, n, lambda i: forall(0, n, lambda j: PC[i, j] == "
            + _WF.format(i="i", j="j") + "))))")
_W_C15 = ["implies(" + _W_PC_OK + ", result.shape[0] == n and result.shape[1] == n and forall(0, n, lambda i: forall(0, n, lambda j: result[i, j] == "
          + _WF.format(i="i", j="j") + ")))"]
_W_SENT = {"implies": "if the preloaded curvature matrix equals the afresh value (the assembled w-tilde curvature matrix, every empty entry filled from its "
                      "transposed partner, plus the diagonal term on unregularised parameters) -- or none is supplied -- the curvature matrix equals the "
                      "afresh value; the preload is not modified and the result is a new array"}
K_WC = {}
for _br, _uattr in _WU.items():
    for _pre in (True, False):
        _key = WT + "curvature_matrix#" + ("preload_" if _pre else "afresh_") + _br
        K_WC[(_pre, _br)] = _key
        contract(_key, props=["C15", "C11"], cls="InversionImagingWTilde", rt_wrap=_ext.rt_wrap_for(_key),
                 types={"self.preloads.curvature_matrix": "real[2]" if _pre else "none", _uattr: "real[2]", _HASF: "bool", _TOT: "int",
                        "self.no_regularization_index_list": "int[1]", _WV: "real"}, returns="real[2]",
                 let={"PC": "self.preloads.curvature_matrix", "U": _uattr, "n": _uattr + ".shape[0]", "hasf": _HASF, "tot": _TOT,
                      "ix": "self.no_regularization_index_list", "L": "self.no_regularization_index_list.shape[0]", "v": _WV},
                 requires=["U.shape[1] == n", "forall(0, L, lambda k: 0 <= ix[k] and ix[k] < n)",
                           # what the assembly routines hand over: each pair of transposed entries is filled on one side, or equal
                           "forall(0, n, lambda a: forall(0, n, lambda b: U[a, b] == 0 or U[b, a] == 0 or U[a, b] == U[b, a]))"] + _WBR[_br],
                 ensures=_W_C15 + (["result.shape[0] == PC.shape[0] and result.shape[1] == PC.shape[1]",
                                    "forall(0, PC.shape[0], lambda i: forall(0, PC.shape[1], lambda j: result[i, j] == PC[i, j]))"] if _pre else []),
                 sentence=_W_SENT)
        _ext.ENABLED.add(_key)


def _mapper_total(o):
    from autoarray.inversion.pixelization.mappers.abstract import AbstractMapper
    return int(o.total(cls=AbstractMapper))


def _g_wc(pre, br):
    attr = _WU[br].split(".")[1]

    def gen(rng, tier):
        for case in _cases(rng, tier, {"func": ["mf", "fm", "mfm"], "x1": ["m", "d"], "multi": ["mm", "mmm"]}[br], n_quick=5):
            twin = _inversion(case, True)
            gh = {_WU[br]: np.array(getattr(twin, attr), dtype=float), _HASF: _has_func(twin), _TOT: _mapper_total(twin),
                  "self.no_regularization_index_list": np.array(list(twin.no_regularization_index_list), dtype=int),
                  _WV: float(twin.settings.no_regularization_add_to_curvature_diag_value)}
            if not pre:
                yield {"self.preloads.curvature_matrix": None, **gh, "case": case}
                continue
            donor = np.array(_inversion(case, True).curvature_matrix, dtype=float)
            yield {"self.preloads.curvature_matrix": donor, **gh, "case": case}
            if rng.random() < 0.4:
                yield {"self.preloads.curvature_matrix": _wrong(rng, donor), **gh, "case": case}
    return gen


for (_pre, _br), _key in K_WC.items():
    _attr = _WU[_br].split(".")[1]
    _ext.RT[_key] = {"build": lambda ns, case: _inversion(case, True, **_given(ns, "curvature_matrix")),
                     "facts": [(_WU[_br], lambda o, a=_attr: np.array(getattr(o, a)), lambda ns, a=_attr: getattr(ns, a)),
                               ("self.has(cls=AbstractLinearObjFuncList)", _has_func, lambda ns: ns.has_AbstractLinearObjFuncList),
                               ("self.total(cls=AbstractMapper)", _mapper_total, lambda ns: ns.total_AbstractMapper),
                               ("self.no_regularization_index_list", lambda o: list(o.no_regularization_index_list), lambda ns: ns.no_regularization_index_list),
                               (_WV, lambda o: o.settings.no_regularization_add_to_curvature_diag_value, lambda ns: ns.settings.no_regularization_add_to_curvature_diag_value),
                               ("type(self)", lambda o: type(o).__name__, lambda ns: "InversionImagingWTilde")]}
    CONTRACTS[_key].gen = _g_wc(_pre, _br)
    if _br != "x1":                      # a single mapper is always regularised: its list of unregularised parameters is empty
        CONTRACTS[_key].nontrivial = _nt_cm

# (a) for the data vector: one preloaded mapper data vector used twice (no linear-function object)
corollary("C15:data-vector-preload-reused", props=["C15"], vars=_DVC_VARS, let=_DVC_LET, requires=_DV_REQ,
          calls=[("D1", K_DV[(1, 0, 0)], {"self.preloads.data_vector_mapper": "PDV", "self.preloads.operated_mapping_matrix": "None", _HASF: "False", **_DVC_ARGS}),
                 ("D2", K_DV[(1, 0, 0)], {"self.preloads.data_vector_mapper": "PDV", "self.preloads.operated_mapping_matrix": "None", _HASF: "False", **_DVC_ARGS})],
          ensures=["forall(0, PDV.shape[0], lambda j: D1[j] == D2[j] and D2[j] == PDV[j])"],
          sentence="two inversions handed the same preloaded data vector obtain equal data vectors, and the preload still holds what it held")

# ------------------------------------------------------------------------------------------------------------------------
# AbstractInversion.regularization_matrix, afresh, ANY number of linear objects: block diagonal of the objects' matrices
# (engine C only: block_diag of several blocks / the list of objects are outside the engine-A subset)
# ------------------------------------------------------------------------------------------------------------------------
_RCAT, _ROFF = "self.regularization_blocks_flat", "self.regularization_block_offsets"


def _py_blk(flat, off, a, b):
    """entry (a, b) of the block-diagonal matrix whose k-th block (size m_k = off[k+1] - off[k], stored row-major one after the other
    in `flat`) sits at rows / columns off[k] .. off[k+1]"""
    pos = 0
    for k in range(len(off) - 1):
        m = int(off[k + 1] - off[k])
        if off[k] <= a < off[k + 1] and off[k] <= b < off[k + 1]:
            return float(flat[pos + (a - int(off[k])) * m + (b - int(off[k]))])
        pos += m * m
    return 0.0


macro("c15_blk", ["flat", "off", "a", "b"], "0", py=_py_blk, opaque=(["real[1]", "int[1]", "int", "int"], "real"))
K_RM_NEW = AB + "regularization_matrix#afresh"
contract(K_RM_NEW, props=["C15"], cls="AbstractInversion", rt_wrap=_ext.rt_wrap_for(K_RM_NEW), mode="bounded",
         types={"self.preloads.regularization_matrix": "none", _RCAT: "real[1]", _ROFF: "int[1]"}, returns="real[2]",
         let={"n": _ROFF + "[" + _ROFF + ".shape[0] - 1]"},
         ensures=["result.shape[0] == n and result.shape[1] == n",
                  "forall(0, n, lambda a: forall(0, n, lambda b: result[a, b] == c15_blk(" + _RCAT + ", " + _ROFF + ", a, b)))"],
         note="bounded only: scipy.linalg.block_diag of several blocks and the Python list of linear objects are outside the engine-A subset "
              "(the one-object case is proved: #afresh_one_object); c15_blk is an executable definition only (opaque, never unfolded by engine A)",
         sentence={"c15_blk": "without a preload the regularization matrix is the block-diagonal matrix of the linear objects' regularization matrices"})


def _g_rm_all(rng, tier):
    for case in _cases(rng, tier, _ORDERS):
        twin = _inversion(case)
        blocks = [np.array(o.regularization_matrix, dtype=float) for o in twin.linear_obj_list]
        off = np.cumsum([0] + [b.shape[0] for b in blocks]).astype(int)
        yield {"self.preloads.regularization_matrix": None, _RCAT: np.concatenate([b.reshape(-1) for b in blocks]), _ROFF: off, "case": case}


def _blocks_of(o):
    return np.concatenate([np.array(x.regularization_matrix, dtype=float).reshape(-1) for x in o.linear_obj_list])


_ext.ENABLED.add(K_RM_NEW)
_ext.RT[K_RM_NEW] = {"build": lambda ns, case: _inversion(case),
                     "facts": [(_RCAT, _blocks_of, lambda ns: ns.regularization_blocks_flat),
                               (_ROFF, lambda o: list(np.cumsum([0] + [x.params for x in o.linear_obj_list])), lambda ns: ns.regularization_block_offsets)]}
CONTRACTS[K_RM_NEW].gen = _g_rm_all
