"""C03 -- masked PSF blurring equals true 2D convolution restricted to the mask (scatter kernels)."""
import numpy as np
from pyvc.contract import contract, macro, CONTRACTS
from pyvc import gens

CV = "autoarray.operators.convolver:Convolver."


def _bop_py(idx, ker, ln, t, s):
    return float(sum(ker[s, k] for k in range(int(ln[s])) if int(idx[s, k]) == t))


# entry (t, s) of the linear blurring operator encoded by the frame tables: B[t,s] = sum_{k < len[s]} [idx[s,k] == t] ker[s,k]
macro("bop", ["idx", "ker", "ln", "t", "s"], "sumto(ln[s], lambda k: (ker[s, k] if idx[s, k] == t else 0))", py=_bop_py)

_TBL = ["{i}.shape[0] == {n}", "{k}.shape[0] == {n}", "{l}.shape[0] == {n}", "{k}.shape[1] == {i}.shape[1]",
        "forall(0, {n}, lambda s: 0 <= {l}[s] and {l}[s] <= {i}.shape[1])",
        "forall(0, {n}, lambda s: forall(0, {l}[s], lambda k: 0 <= {i}[s, k] and {i}[s, k] < N))"]


def _tbl(i, k, l, n):
    return [x.format(i=i, k=k, l=l, n=n) for x in _TBL]


_T4 = {"image_frame_1d_indexes": "int[2]", "image_frame_1d_kernels": "real[2]", "image_frame_1d_lengths": "int[1]"}
_IF = ("image_frame_1d_indexes", "image_frame_1d_kernels", "image_frame_1d_lengths")

contract(
    CV + "convolve_no_blurring_jit", props=["C03"],
    types={"image_1d_array": "real[1]", **_T4}, returns="real[1]",
    let={"N": "image_1d_array.shape[0]", "I": "image_1d_array"},
    requires=_tbl(*_IF, "N"),
    ensures=["result.shape[0] == N",
             "forall(0, N, lambda t: result[t] == sumto(N, lambda s: I[s] * bop(image_frame_1d_indexes, image_frame_1d_kernels, image_frame_1d_lengths, t, s)))"],
    loops={
        0: {"inv": ["forall(0, N, lambda t: blurred_image_1d[t] == sumto(image_1d_index, lambda s: I[s] * bop(image_frame_1d_indexes, image_frame_1d_kernels, image_frame_1d_lengths, t, s)))"]},
        1: {"inv": ["forall(0, N, lambda t: blurred_image_1d[t] == sumto(image_1d_index, lambda s: I[s] * bop(image_frame_1d_indexes, image_frame_1d_kernels, image_frame_1d_lengths, t, s))"
                    " + image_value * sumto(kernel_1d_index, lambda k: (image_frame_1d_kernels[image_1d_index, k] if image_frame_1d_indexes[image_1d_index, k] == t else 0)))"]},
    },
    sentence={"sumto": "blurring applies the linear operator encoded by the frame tables to the image (every real image)"},
)

contract(
    CV + "convolve_matrix_jit", props=["C03", "C04"],
    types={"mapping_matrix": "real[2]", **_T4}, returns="real[2]",
    let={"N": "mapping_matrix.shape[0]", "P": "mapping_matrix.shape[1]", "M": "mapping_matrix"},
    requires=_tbl(*_IF, "N"),
    ensures=["result.shape[0] == N", "result.shape[1] == P",
             # blurring a mapping matrix equals applying that same linear operator to each column, for every real-valued matrix
             "forall(0, N, lambda t: forall(0, P, lambda p: result[t, p] == sumto(N, lambda s: M[s, p] * bop(image_frame_1d_indexes, image_frame_1d_kernels, image_frame_1d_lengths, t, s))))"],
    loops={
        0: {"inv": ["forall(0, N, lambda t: forall(0, pixel_1d_index, lambda p: blurred_mapping_matrix[t, p] == sumto(N, lambda s: M[s, p] * bop(image_frame_1d_indexes, image_frame_1d_kernels, image_frame_1d_lengths, t, s))))",
                    "forall(0, N, lambda t: forall(pixel_1d_index, P, lambda p: blurred_mapping_matrix[t, p] == 0))"]},
        1: {"inv": ["forall(0, N, lambda t: forall(0, pixel_1d_index, lambda p: blurred_mapping_matrix[t, p] == sumto(N, lambda s: M[s, p] * bop(image_frame_1d_indexes, image_frame_1d_kernels, image_frame_1d_lengths, t, s))))",
                    "forall(0, N, lambda t: forall(pixel_1d_index + 1, P, lambda p: blurred_mapping_matrix[t, p] == 0))",
                    "forall(0, N, lambda t: blurred_mapping_matrix[t, pixel_1d_index] == sumto(image_1d_index, lambda s: M[s, pixel_1d_index] * bop(image_frame_1d_indexes, image_frame_1d_kernels, image_frame_1d_lengths, t, s)))"]},
        2: {"inv": ["forall(0, N, lambda t: forall(0, pixel_1d_index, lambda p: blurred_mapping_matrix[t, p] == sumto(N, lambda s: M[s, p] * bop(image_frame_1d_indexes, image_frame_1d_kernels, image_frame_1d_lengths, t, s))))",
                    "forall(0, N, lambda t: forall(pixel_1d_index + 1, P, lambda p: blurred_mapping_matrix[t, p] == 0))",
                    "forall(0, N, lambda t: blurred_mapping_matrix[t, pixel_1d_index] == sumto(image_1d_index, lambda s: M[s, pixel_1d_index] * bop(image_frame_1d_indexes, image_frame_1d_kernels, image_frame_1d_lengths, t, s))"
                    " + value * sumto(kernel_1d_index, lambda k: (image_frame_1d_kernels[image_1d_index, k] if image_frame_1d_indexes[image_1d_index, k] == t else 0)))"]},
    },
    sentence={"sumto": "blurring a mapping matrix equals applying that same linear operator to each column, for every real-valued matrix"},
)


# ----------------------------------------------------------------------------- image + blurring image
_T4B = {"blurring_frame_1d_indexes": "int[2]", "blurring_frame_1d_kernels": "real[2]", "blurring_frame_1d_lengths": "int[1]"}
_BF = ("blurring_frame_1d_indexes", "blurring_frame_1d_kernels", "blurring_frame_1d_lengths")
_IMG_SUM = "sumto({n}, lambda s: I[s] * bop(image_frame_1d_indexes, image_frame_1d_kernels, image_frame_1d_lengths, t, s))"
_BLR_SUM = "sumto({n}, lambda s: IB[s] * bop(blurring_frame_1d_indexes, blurring_frame_1d_kernels, blurring_frame_1d_lengths, t, s))"
_IMG_PART = " + image_value * sumto(kernel_1d_index, lambda k: (image_frame_1d_kernels[image_1d_index, k] if image_frame_1d_indexes[image_1d_index, k] == t else 0))"
_BLR_PART = " + image_value * sumto(kernel_1d_index, lambda k: (blurring_frame_1d_kernels[blurring_1d_index, k] if blurring_frame_1d_indexes[blurring_1d_index, k] == t else 0))"

contract(
    CV + "convolve_jit", props=["C03"],
    types={"image_1d_array": "real[1]", **_T4, "blurring_1d_array": "real[1]", **_T4B}, returns="real[1]",
    let={"N": "image_1d_array.shape[0]", "I": "image_1d_array", "NB": "blurring_1d_array.shape[0]", "IB": "blurring_1d_array"},
    # image table: one row per unmasked pixel; blurring table: one row per blurring pixel; every listed target is a slim index < N
    requires=_tbl(*_IF, "N") + _tbl(*_BF, "NB"),
    ensures=["result.shape[0] == N",
             # the blurred value at slim pixel t is the image operator applied to the image plus the blurring operator applied
             # to the blurring image: nothing else is read
             "forall(0, N, lambda t: result[t] == " + _IMG_SUM.format(n="N") + " + " + _BLR_SUM.format(n="NB") + ")"],
    loops={
        0: {"inv": ["forall(0, N, lambda t: blurred_image_1d[t] == " + _IMG_SUM.format(n="image_1d_index") + ")"]},
        1: {"inv": ["forall(0, N, lambda t: blurred_image_1d[t] == " + _IMG_SUM.format(n="image_1d_index") + _IMG_PART + ")"]},
        2: {"inv": ["forall(0, N, lambda t: blurred_image_1d[t] == " + _IMG_SUM.format(n="N") + " + " + _BLR_SUM.format(n="blurring_1d_index") + ")"]},
        3: {"inv": ["forall(0, N, lambda t: blurred_image_1d[t] == " + _IMG_SUM.format(n="N") + " + " + _BLR_SUM.format(n="blurring_1d_index") + _BLR_PART + ")"]},
    },
    sentence={"sumto": "blurring a masked image together with its blurring-region image applies the linear operators encoded by the two "
                       "frame tables to exactly those two images (values outside the mask and its blurring region are never read)"},
)


def _tables(rng, n, kmax, ntarget=None):
    ntarget = n if ntarget is None else ntarget
    K = rng.randint(1, kmax)
    idx = -np.ones((n, K), dtype=int)
    ker = -np.ones((n, K))
    ln = np.zeros(n, dtype=int)
    for s in range(n):
        ln[s] = rng.randint(0, K)
        for k in range(ln[s]):
            idx[s, k] = rng.randrange(ntarget)
            # -1.0 is also the value the unused table slots are padded with: a legitimate weight must not be mistaken for padding
            ker[s, k] = rng.choice([rng.uniform(-2, 2), rng.uniform(-2, 2), 0.0, 1.0, -1.0, 2.0, -0.5])
    return idx, ker, ln


def _vals(rng, shape, lo=-10.0, hi=10.0):
    """values of ONE magnitude per array (all of order 1, or all scaled by 2**20 / 2**-20): with kernel weights that cancel exactly
    (+1, -1 onto the same target) a single 1e8 entry next to entries of order 1 only tests float round-off against the tolerance"""
    return gens.reals(rng, shape, lo, hi, special=False) * rng.choice([1.0, 1.0, 2.0 ** 20, 2.0 ** -20])


def _g_nb(rng, tier):
    for _ in range(gens.budget(tier, 200, 3000)):
        n = rng.randint(1, 6)
        idx, ker, ln = _tables(rng, n, 5)
        yield {"image_1d_array": _vals(rng, (n,)), "image_frame_1d_indexes": idx, "image_frame_1d_kernels": ker, "image_frame_1d_lengths": ln}


def _g_mat(rng, tier):
    for _ in range(gens.budget(tier, 200, 3000)):
        n, p = rng.randint(1, 5), rng.randint(1, 4)
        idx, ker, ln = _tables(rng, n, 4)
        m = _vals(rng, (n, p), -3, 3)
        if rng.random() < 0.3:
            m = np.abs(m)
        yield {"mapping_matrix": m, "image_frame_1d_indexes": idx, "image_frame_1d_kernels": ker, "image_frame_1d_lengths": ln}


def _g_full(rng, tier):
    for _ in range(gens.budget(tier, 200, 3000)):
        n, nb = rng.randint(1, 5), rng.randint(0, 5)
        idx, ker, ln = _tables(rng, n, 5)
        bidx, bker, bln = _tables(rng, nb, 5, ntarget=n)
        yield {"image_1d_array": _vals(rng, (n,)), "image_frame_1d_indexes": idx, "image_frame_1d_kernels": ker,
               "image_frame_1d_lengths": ln, "blurring_1d_array": _vals(rng, (nb,)), "blurring_frame_1d_indexes": bidx,
               "blurring_frame_1d_kernels": bker, "blurring_frame_1d_lengths": bln}


CONTRACTS[CV + "convolve_jit"].gen = _g_full
CONTRACTS[CV + "convolve_jit"].nontrivial = lambda blurring_1d_array, blurring_frame_1d_lengths, **kw: bool(
    len(blurring_1d_array) and (blurring_frame_1d_lengths > 0).any())
CONTRACTS[CV + "convolve_no_blurring_jit"].gen = _g_nb
CONTRACTS[CV + "convolve_matrix_jit"].gen = _g_mat
CONTRACTS[CV + "convolve_matrix_jit"].nontrivial = lambda mapping_matrix, **kw: bool((mapping_matrix < 0).any())


# ----------------------------------------------------------------------------- frame construction
# the target pixel of kernel offset (i, j) for the source pixel (cx, cy): source - half + (i, j)
_TX, _TY = "cx - hx + {i}", "cy - hy + {j}"


def _tgt(i, j):
    return _TX.format(i=i), _TY.format(j=j)


def _valid(i, j):
    tx, ty = _tgt(i, j)
    return ("(0 <= {tx} and {tx} < MH and 0 <= {ty} and {ty} < MW and mask_index_array[{tx}, {ty}] >= 0"
            " and not mask[{tx}, {ty}])").format(tx=tx, ty=ty)


# the "not a valid target" mask over the kernel window: its unmasked entries are exactly the kernel offsets whose target lies
# inside the array, carries a slim index (mask_index_array >= 0) and is unmasked; cnt2 over it ranks them in row-major order
_V = "arr2(Kx, Ky, lambda a, b: not " + _valid("a", "b") + ")"


def _entry(fr, kf, i, j):
    tx, ty = _tgt(i, j)
    return ("implies(not V[{i}, {j}], {fr}[cnt2(V, {i}, {j})] == mask_index_array[{tx}, {ty}]"
            " and {kf}[cnt2(V, {i}, {j})] == kernel_2d[{i}, {j}])").format(fr=fr, kf=kf, i=i, j=j, tx=tx, ty=ty)


# consequences used by the corollary below, under the extra hypothesis that the index table is the slim-index table of the mask
_SLIM = "forall(0, MH, lambda y: forall(0, MW, lambda x: implies(not mask[y, x], mask_index_array[y, x] == cnt2(mask, y, x)), pat=mask_index_array[y, x]))"
_OFFI, _OFFJ = "a - cx + hx", "b - cy + hy"
_INWIN = "(0 <= a - cx + hx and a - cx + hx < Kx and 0 <= b - cy + hy and b - cy + hy < Ky)"


def _hit(fr, kf):       # an unmasked pixel (a, b) whose offset from the source lies inside the kernel is listed, at the rank of its offset
    return ("implies(" + _SLIM + ", forall(0, MH, lambda a: forall(0, MW, lambda b: implies(not mask[a, b] and " + _INWIN + ","
            " 0 <= cnt2(V, {i}, {j}) and cnt2(V, {i}, {j}) < total(V) and {fr}[cnt2(V, {i}, {j})] == cnt2(mask, a, b)"
            " and {kf}[cnt2(V, {i}, {j})] == kernel_2d[{i}, {j}]), pat=cnt2(mask, a, b))))").format(fr=fr, kf=kf, i=_OFFI, j=_OFFJ)


def _only(fr):          # ... and it is listed nowhere else: an entry equal to the slim index of (a, b) is that one
    return ("implies(" + _SLIM + ", forall(0, total(V), lambda c: forall(0, MH, lambda a: forall(0, MW, lambda b:"
            " implies(not mask[a, b] and {fr}[c] == cnt2(mask, a, b), " + _INWIN + " and c == cnt2(V, {i}, {j})),"
            " pat=(({fr}[c], cnt2(mask, a, b)),)))))").format(fr=fr, i=_OFFI, j=_OFFJ)


_NTH = ("forall(0, total(V), lambda c: {fr}[c] == mask_index_array[" + _TX.format(i="pixy(V, c)") + ", " + _TY.format(j="pixx(V, c)") + "]"
        " and {kf}[c] == kernel_2d[pixy(V, c), pixx(V, c)], pat=({fr}[c], {kf}[c]))")

_FR_ROWS = "forall(0, i, lambda ii: forall(0, Ky, lambda jj: " + _entry("frame", "kernel_frame", "ii", "jj") + "))"
_FR_ROW = "forall(0, j, lambda jj: " + _entry("frame", "kernel_frame", "i", "jj") + ")"
_FR_REST = "forall(count, Kx * Ky, lambda k: frame[k] == -1 and kernel_frame[k] == -1)"

contract(
    CV + "frame_at_coordinates_jit", props=["C03"],
    types={"coordinates": "(int,int)", "mask": "bool[2]", "mask_index_array": "int[2]", "kernel_2d": "real[2]"},
    returns="(real[1],real[1])",
    let={"Kx": "kernel_2d.shape[0]", "Ky": "kernel_2d.shape[1]", "hx": "kernel_2d.shape[0] // 2", "hy": "kernel_2d.shape[1] // 2",
         "cx": "coordinates[0]", "cy": "coordinates[1]", "MH": "mask_index_array.shape[0]", "MW": "mask_index_array.shape[1]",
         "V": _V},
    # the index table has the shape of the mask (Convolver.__init__: np.full(mask.shape, -1)); no oddness assumption is needed here
    requires=["mask.shape[0] == MH", "mask.shape[1] == MW"],
    ensures=[
        "result[0].shape[0] == Kx * Ky", "result[1].shape[0] == Kx * Ky", "total(V) <= Kx * Ky",
        # front-packed: the valid kernel offset (i, j) of row-major rank c = cnt2(V, i, j) is stored at entry c
        "forall(0, Kx, lambda i: forall(0, Ky, lambda j: " + _entry("result[0]", "result[1]", "i", "j") + "))",
        # ... entry c is the c-th valid offset (nothing else is stored in front)
        _NTH.format(fr="result[0]", kf="result[1]"),
        # ... and every later entry is -1
        "forall(total(V), Kx * Ky, lambda k: result[0][k] == -1 and result[1][k] == -1)",
        # with the slim-index table: each unmasked pixel inside the kernel footprint of the source is listed exactly once, with
        # the kernel value at offset target - source + half (used by the corollary C03.tables_encode_convolution)
        _hit("result[0]", "result[1]"), _only("result[0]"),
        # the number of entries >= 0 is the number of valid targets (Convolver.__init__ takes frame[frame >= 0].shape[0] as the length)
        "total1(arr1(Kx * Ky, lambda k: result[0][k] < 0)) == total(V)",
    ],
    ghost_at={4: [{"rebind": {"half_x": "hx", "half_y": "hy"}}],
              8: [_NTH.format(fr="frame", kf="kernel_frame"), _hit("frame", "kernel_frame"), _only("frame"),
                  {"induct": "n", "lo": 0, "hi": "Kx * Ky",
                   "stmt": "cnt1(arr1(Kx * Ky, lambda k: frame[k] < 0), n) == (n if n <= total(V) else total(V))"}]},
    loops={
        0: {"inv": ["count == cnt2(V, i, 0)", "count <= i * Ky", _FR_ROWS, _FR_REST]},
        1: {"inv": ["count == cnt2(V, i, j)", "count <= i * Ky + j", _FR_ROWS, _FR_ROW, _FR_REST]},
    },
    sentence={"forall": "frame construction: target = source - half + (i, j) with kernel value kernel[i, j], for exactly the in-frame "
                        "unmasked targets, in (i, j) order, front-packed, -1 after"},
)


def _g_frame(rng, tier):
    shapes = [(1, 1), (3, 3), (1, 3), (3, 1), (5, 3), (3, 5), (2, 3), (4, 2)]
    for _ in range(gens.budget(tier, 250, 4000)):
        m = gens.random_mask(rng, 6, 6)
        H, W = m.shape
        mia = np.full(m.shape, -1)
        mia[~m] = np.arange(int((~m).sum()))
        if rng.random() < 0.25:        # tables that are not the slim-index table (entries -1 at unmasked pixels, arbitrary values)
            mia = np.array([[rng.choice([-1, -1, rng.randrange(50)]) for _ in range(W)] for _ in range(H)])
        kx, ky = rng.choice(shapes)
        yield {"coordinates": (rng.randrange(H), rng.randrange(W)), "mask": m, "mask_index_array": mia,
               "kernel_2d": gens.reals(rng, (kx, ky), -2, 2)}


CONTRACTS[CV + "frame_at_coordinates_jit"].gen = _g_frame
CONTRACTS[CV + "frame_at_coordinates_jit"].nontrivial = lambda mask, kernel_2d, **kw: bool(kernel_2d.size > 1 and 0 < mask.sum() < mask.size)


# ----------------------------------------------------------------------------- the tables encode true convolution
from pyvc.contract import spec_fn, corollary


def _row_py(IDX, KER, s, t, n):
    if not (0 <= s < IDX.shape[0] and s < KER.shape[0]):
        return 0.0
    return float(sum(KER[s, k] for k in range(min(int(n), IDX.shape[1], KER.shape[1])) if int(IDX[s, k]) == t))


# partial sums of one operator entry: c03_row(IDX, KER, s, t, n) = sum_{k<n} [IDX[s,k] == t] KER[s,k]   (bop = c03_row at n = ln[s])
_ROW_OK = "0 <= s and s < IDX.shape[0] and s < KER.shape[0]"
spec_fn(
    "c03_row", params=[("IDX", "int[2]"), ("KER", "real[2]"), ("s", "$int"), ("t", "$int"), ("n", "int")], ret="real",
    let={"K": "(IDX.shape[1] if IDX.shape[1] <= KER.shape[1] else KER.shape[1])"},
    axioms=["c03_row(IDX, KER, s, t, 0) == 0",
            "implies(" + _ROW_OK + ", forall(0, K, lambda n: c03_row(IDX, KER, s, t, n + 1) == c03_row(IDX, KER, s, t, n)"
            " + (KER[s, n] if IDX[s, n] == t else 0), pat=c03_row(IDX, KER, s, t, n + 1)))"],
    lemmas=[
        # it is the partial sum that `bop` abbreviates
        dict(name="sum", induct="n", lo=0, hi="K",
             stmt="implies(" + _ROW_OK + ", c03_row(IDX, KER, s, t, n) == sumto(n, lambda k: (KER[s, k] if IDX[s, k] == t else 0)))"),
        # no listed target equals t: the entry is zero
        dict(name="zero", induct="n", lo=0, hi="K",
             stmt="implies(" + _ROW_OK + " and forall(0, n, lambda k: IDX[s, k] != t), c03_row(IDX, KER, s, t, n) == 0)"),
        # exactly one listed target equals t: the entry is that target's kernel value
        dict(name="single", induct="n", lo=0, hi="K",
             stmt="implies(" + _ROW_OK + ", forall(0, n, lambda k0: implies(IDX[s, k0] == t and forall(0, n, lambda k: k == k0 or IDX[s, k] != t),"
                  " c03_row(IDX, KER, s, t, n) == KER[s, k0]), pat=IDX[s, k0]))"),
    ],
    py=_row_py,
    doc="one entry of the blurring operator encoded by a frame table, as a partial sum over the row",
)

# For ANY source pixel (cx, cy) of the array (unmasked: a row of the image tables; masked: a row of the blurring tables) whose table
# row s holds the frame built by frame_at_coordinates_jit from the slim-index table, and ANY unmasked target pixel (a, b) with slim
# index t = cnt2(mask, a, b): the operator entry is the kernel value at offset target - source + half if that offset lies inside the
# kernel, and 0 otherwise -- i.e. out[t] = sum_s I[s] * kernel[t - s + half]: 2-D convolution, zero outside the frame, restricted to
# the mask.  (Convolver.__init__, which copies the frames into the rows and counts the entries >= 0, is left to the bounded checks.)
_OFF_IN = "(0 <= a - cx + hx and a - cx + hx < Kx and 0 <= b - cy + hy and b - cy + hy < Ky)"
# "row s of the tables was built this way": it holds the frame pair, and its length is the number of frame entries >= 0
_ROWCOPY = ("forall(0, Kx * Ky, lambda k: idx[s, k] == fr[0][k] and ker[s, k] == fr[1][k], pat=(idx[s, k], fr[0][k]))"
            " and ln[s] == total1(arr1(Kx * Ky, lambda k: fr[0][k] < 0))")
corollary(
    "C03.tables_encode_convolution", props=["C03"],
    vars={"mask": "bool[2]", "mia": "int[2]", "kernel": "real[2]", "idx": "int[2]", "ker": "real[2]", "ln": "int[1]",
          "cx": "int", "cy": "int", "s": "int", "a": "int", "b": "int"},
    let={"H": "mask.shape[0]", "W": "mask.shape[1]", "Kx": "kernel.shape[0]", "Ky": "kernel.shape[1]",
         "hx": "kernel.shape[0] // 2", "hy": "kernel.shape[1] // 2"},
    requires=[
        "mia.shape[0] == H", "mia.shape[1] == W",
        # the index table is the slim-index table (first loop nest of Convolver.__init__)
        "forall(0, H, lambda y: forall(0, W, lambda x: implies(not mask[y, x], mia[y, x] == cnt2(mask, y, x))))",
        "0 <= cx", "cx < H", "0 <= cy", "cy < W", "0 <= a", "a < H", "0 <= b", "b < W", "not mask[a, b]",
        "0 <= s", "s < idx.shape[0]", "ker.shape[0] == idx.shape[0]", "ln.shape[0] == idx.shape[0]",
        "idx.shape[1] == Kx * Ky", "ker.shape[1] == Kx * Ky", "0 <= ln[s]", "ln[s] <= Kx * Ky",
    ],
    calls=[("fr", CV + "frame_at_coordinates_jit", {"coordinates": "(cx, cy)", "mask": "mask", "mask_index_array": "mia", "kernel_2d": "kernel"})],
    ensures=[
        # the operator entry B[t, s] used by the convolve_* contracts is the row sum c03_row at n = ln[s] ...
        "bop(idx, ker, ln, cnt2(mask, a, b), s) == c03_row(idx, ker, s, cnt2(mask, a, b), ln[s])",
        # ... which is kernel[target - source + half] when that offset lies inside the kernel, and 0 otherwise
        "implies(" + _ROWCOPY + " and " + _OFF_IN + ", c03_row(idx, ker, s, cnt2(mask, a, b), ln[s]) == kernel[a - cx + hx, b - cy + hy])",
        "implies(" + _ROWCOPY + " and not " + _OFF_IN + ", c03_row(idx, ker, s, cnt2(mask, a, b), ln[s]) == 0)",
    ],
    sentence="at every unmasked pixel the operator encoded by the frame tables is the 2-D convolution with the flipped, centred kernel "
             "(zero outside the frame), for every odd or even kernel shape with arbitrary real entries",
)
