"""C03 -- masked PSF blurring equals true 2D convolution restricted to the mask (scatter kernels)."""
import numpy as np
from pyvc.contract import contract, macro, CONTRACTS
from pyvc import gens

CV = "autoarray.operators.convolver:Convolver."


def _bop_py(idx, ker, ln, t, s):
    return float(sum(ker[s, k] for k in range(int(ln[s])) if int(idx[s, k]) == t))


# entry (t, s) of the linear blurring operator encoded by the frame tables: B[t,s] = sum_{k < len[s]} [idx[s,k] == t] ker[s,k]
macro("bop", ["idx", "ker", "ln", "t", "s"], "sumto(ln[s], lambda k: (ker[s, k] if idx[s, k] == t else 0))", py=_bop_py)

_TBL = ["{i}.shape[0] == {n}", "{k}.shape[0] == {n}", "{l}.shape[0] == {n}", "{k}.shape[1] == {i}.shape[1]",
        "forall(0, {n}, lambda s: 0 <= {l}[s] and {l}[s] <= {i}.shape[1])",
        "forall(0, {n}, lambda s: forall(0, {l}[s], lambda k: 0 <= {i}[s, k] and {i}[s, k] < N))"]


def _tbl(i, k, l, n):
    return [x.format(i=i, k=k, l=l, n=n) for x in _TBL]


_T4 = {"image_frame_1d_indexes": "int[2]", "image_frame_1d_kernels": "real[2]", "image_frame_1d_lengths": "int[1]"}
_IF = ("image_frame_1d_indexes", "image_frame_1d_kernels", "image_frame_1d_lengths")

contract(
    CV + "convolve_no_blurring_jit", props=["C03"],
    types={"image_1d_array": "real[1]", **_T4}, returns="real[1]",
    let={"N": "image_1d_array.shape[0]", "I": "image_1d_array"},
    requires=_tbl(*_IF, "N"),
    ensures=["result.shape[0] == N",
             "forall(0, N, lambda t: result[t] == sumto(N, lambda s: I[s] * bop(image_frame_1d_indexes, image_frame_1d_kernels, image_frame_1d_lengths, t, s)))"],
    loops={
        0: {"inv": ["forall(0, N, lambda t: blurred_image_1d[t] == sumto(image_1d_index, lambda s: I[s] * bop(image_frame_1d_indexes, image_frame_1d_kernels, image_frame_1d_lengths, t, s)))"]},
        1: {"inv": ["forall(0, N, lambda t: blurred_image_1d[t] == sumto(image_1d_index, lambda s: I[s] * bop(image_frame_1d_indexes, image_frame_1d_kernels, image_frame_1d_lengths, t, s))"
                    " + image_value * sumto(kernel_1d_index, lambda k: (image_frame_1d_kernels[image_1d_index, k] if image_frame_1d_indexes[image_1d_index, k] == t else 0)))"]},
    },
    sentence={"sumto": "blurring applies the linear operator encoded by the frame tables to the image (every real image)"},
)

contract(
    CV + "convolve_matrix_jit", props=["C03", "C04"],
    types={"mapping_matrix": "real[2]", **_T4}, returns="real[2]",
    let={"N": "mapping_matrix.shape[0]", "P": "mapping_matrix.shape[1]", "M": "mapping_matrix"},
    requires=_tbl(*_IF, "N"),
    ensures=["result.shape[0] == N", "result.shape[1] == P",
             # blurring a mapping matrix equals applying that same linear operator to each column, for every real-valued matrix
             "forall(0, N, lambda t: forall(0, P, lambda p: result[t, p] == sumto(N, lambda s: M[s, p] * bop(image_frame_1d_indexes, image_frame_1d_kernels, image_frame_1d_lengths, t, s))))"],
    loops={
        0: {"inv": ["forall(0, N, lambda t: forall(0, pixel_1d_index, lambda p: blurred_mapping_matrix[t, p] == sumto(N, lambda s: M[s, p] * bop(image_frame_1d_indexes, image_frame_1d_kernels, image_frame_1d_lengths, t, s))))",
                    "forall(0, N, lambda t: forall(pixel_1d_index, P, lambda p: blurred_mapping_matrix[t, p] == 0))"]},
        1: {"inv": ["forall(0, N, lambda t: forall(0, pixel_1d_index, lambda p: blurred_mapping_matrix[t, p] == sumto(N, lambda s: M[s, p] * bop(image_frame_1d_indexes, image_frame_1d_kernels, image_frame_1d_lengths, t, s))))",
                    "forall(0, N, lambda t: forall(pixel_1d_index + 1, P, lambda p: blurred_mapping_matrix[t, p] == 0))",
                    "forall(0, N, lambda t: blurred_mapping_matrix[t, pixel_1d_index] == sumto(image_1d_index, lambda s: M[s, pixel_1d_index] * bop(image_frame_1d_indexes, image_frame_1d_kernels, image_frame_1d_lengths, t, s)))"]},
        2: {"inv": ["forall(0, N, lambda t: forall(0, pixel_1d_index, lambda p: blurred_mapping_matrix[t, p] == sumto(N, lambda s: M[s, p] * bop(image_frame_1d_indexes, image_frame_1d_kernels, image_frame_1d_lengths, t, s))))",
                    "forall(0, N, lambda t: forall(pixel_1d_index + 1, P, lambda p: blurred_mapping_matrix[t, p] == 0))",
                    "forall(0, N, lambda t: blurred_mapping_matrix[t, pixel_1d_index] == sumto(image_1d_index, lambda s: M[s, pixel_1d_index] * bop(image_frame_1d_indexes, image_frame_1d_kernels, image_frame_1d_lengths, t, s))"
                    " + value * sumto(kernel_1d_index, lambda k: (image_frame_1d_kernels[image_1d_index, k] if image_frame_1d_indexes[image_1d_index, k] == t else 0)))"]},
    },
    sentence={"sumto": "blurring a mapping matrix equals applying that same linear operator to each column, for every real-valued matrix"},
)


def _tables(rng, n, kmax):
    K = rng.randint(1, kmax)
    idx = -np.ones((n, K), dtype=int)
    ker = -np.ones((n, K))
    ln = np.zeros(n, dtype=int)
    for s in range(n):
        ln[s] = rng.randint(0, K)
        for k in range(ln[s]):
            idx[s, k] = rng.randrange(n)
            ker[s, k] = rng.choice([rng.uniform(-2, 2), 0.0, 1.0])
    return idx, ker, ln


def _g_nb(rng, tier):
    for _ in range(gens.budget(tier, 200, 3000)):
        n = rng.randint(1, 6)
        idx, ker, ln = _tables(rng, n, 5)
        yield {"image_1d_array": gens.reals(rng, (n,)), "image_frame_1d_indexes": idx, "image_frame_1d_kernels": ker, "image_frame_1d_lengths": ln}


def _g_mat(rng, tier):
    for _ in range(gens.budget(tier, 200, 3000)):
        n, p = rng.randint(1, 5), rng.randint(1, 4)
        idx, ker, ln = _tables(rng, n, 4)
        m = gens.reals(rng, (n, p), -3, 3)
        if rng.random() < 0.3:
            m = np.abs(m)
        yield {"mapping_matrix": m, "image_frame_1d_indexes": idx, "image_frame_1d_kernels": ker, "image_frame_1d_lengths": ln}


CONTRACTS[CV + "convolve_no_blurring_jit"].gen = _g_nb
CONTRACTS[CV + "convolve_matrix_jit"].gen = _g_mat
CONTRACTS[CV + "convolve_matrix_jit"].nontrivial = lambda mapping_matrix, **kw: bool((mapping_matrix < 0).any())
