"""C20 -- triangle kernels under contract: the vertex-array kernels of AbstractTriangles (total area, midpoint up-sampling,
edge-reflected neighbourhood) and the containment masks of shape.py.

Vertices are (x, y) pairs (column 0 = x), as in shape.Point.mask.  An `AbstractTriangles` object is read as its `triangles`
array of shape (n, 3, 2) (`attrs`: self.triangles == self, self.numpy == numpy -- re-checked on a real ArrayTriangles object by
engine C at every run); a shape object (Point / Circle / Square / Triangle) is read as the tuple of the fields its method uses
(`attrs`, likewise re-checked).  The vectorised numpy one-liners are read through pyvc/ext/c20.py (facts W1..W10 in its header)."""
import numpy as np
from pyvc.contract import contract, corollary, macro, spec_fn, CONTRACTS
from pyvc import gens
from pyvc.ext import c20 as x20

x20.install()
AB = "autoarray.structures.triangles.abstract:"
SH = "autoarray.structures.triangles.shape:"

# signed doubled area of the triangle ((x0,y0),(x1,y1),(x2,y2)) (shoelace); opaque for clients: they use only the facts exported
# by the kernels that reveal it
macro("c20_shoe", ["x0", "y0", "x1", "y1", "x2", "y2"], "x0 * (y1 - y2) + x1 * (y2 - y0) + x2 * (y0 - y1)",
      py=lambda x0, y0, x1, y1, x2, y2: x0 * (y1 - y2) + x1 * (y2 - y0) + x2 * (y0 - y1), opaque=(["real"] * 6, "real"))


def _shoe(T, k):
    return "c20_shoe(" + ", ".join("%s[%s, %d, %d]" % (T, k, v, d) for v in range(3) for d in range(2)) + ")"


def _wrap_tri(kw):
    """the real object: an ArrayTriangles whose `triangles` (= vertices[indices]) is exactly the generated array"""
    from autoarray.structures.triangles.array import ArrayTriangles
    T = np.array(kw["self"])
    n = T.shape[0]
    kw["self"] = ArrayTriangles(indices=np.arange(3 * n).reshape(n, 3), vertices=T.reshape(3 * n, 2))
    return kw


_TA = {"self.triangles": "self", "self.numpy": "np"}
_TT = {"self": "real[3]"}
_TL = {"n": "self.shape[0]"}
_TR = ["self.shape[1] == 3", "self.shape[2] == 2"]

# partial sums of |shoelace determinant| over the triangles of X (the doubled total area of the first m triangles).  Besides the usual
# recurrence (triggered on c20_asum(X, m + 1)) the same recurrence is offered for any two partial sums whose limits differ by one
# (multi-pattern without arithmetic), so that it also fires at limits like n + m + 1 in the block-splitting lemma below
def _asum_py(X, m):
    X = np.asarray(X, float)
    return float(sum(abs(X[k, 0, 0] * (X[k, 1, 1] - X[k, 2, 1]) + X[k, 1, 0] * (X[k, 2, 1] - X[k, 0, 1]) + X[k, 2, 0] * (X[k, 0, 1] - X[k, 1, 1]))
                     for k in range(int(m))))


spec_fn("c20_asum", params=[("X", "real[3]"), ("m", "int")], ret="real", let={"N": "X.shape[0]"},
        axioms=["c20_asum(X, 0) == 0",
                "forall(0, N, lambda m: c20_asum(X, m + 1) == c20_asum(X, m) + abs(" + _shoe("X", "m") + "), pat=c20_asum(X, m + 1))",
                "forall(0, N, lambda a: forall(0, N + 1, lambda b: implies(b == a + 1, c20_asum(X, b) == c20_asum(X, a) + abs(" + _shoe("X", "a") +
                ")), pat=((c20_asum(X, a), c20_asum(X, b)),)))"],
        py=_asum_py, doc="sum over the first m triangles of X of the absolute shoelace determinant")

# ------------------------------------------------------------------------------------------------ total area
KA = AB + "AbstractTriangles.area"
contract(KA, props=["C20"], types=_TT, returns="real", attrs=_TA, rt_wrap=_wrap_tri, let=_TL, requires=_TR, reveal=["c20_shoe"],
         ensures=["result == 0.5 * sumto(n, lambda k: abs(" + _shoe("self", "k") + "))",
                  "result == 0.5 * c20_asum(self, n)"],                       # the same sum through the spec function the corollaries use
         ghost_at={1: [dict(induct="m", lo=0, hi="n", stmt="sumto(m, lambda k: abs(" + _shoe("self", "k") + ")) == c20_asum(self, m)")]},
         sentence={"sumto": "the total area is the sum over the triangles of half the absolute shoelace determinant"})

# ------------------------------------------------------------------------------------------------ up-sampling
KU = AB + "AbstractTriangles._up_sample_triangle"


def _mid(a, b):
    return "(self[k, %d, d] + self[k, %d, d]) / 2" % (a, b)


def _v(a):
    return "self[k, %d, d]" % a


def _rows(off, verts):
    return "forall(0, n, lambda k: forall(0, 2, lambda d: " + " and ".join(
        "result[%s, %d, d] == %s" % (off, j, e) for j, e in enumerate(verts)) + ", pat=self[k, 0, d]))"


def _child(verts):
    """shoelace determinant of the triangle with the given vertex expressions (over `self`, triangle k)"""
    return "c20_shoe(" + ", ".join(e.replace("d]", "%d]" % d) for e in verts for d in range(2)) + ")"


_CH = [[_v(1), _mid(1, 2), _mid(0, 1)], [_v(2), _mid(2, 0), _mid(1, 2)], [_mid(0, 1), _mid(1, 2), _mid(2, 0)], [_v(0), _mid(0, 1), _mid(2, 0)]]
_OFF = ["k", "n + k", "2 * n + k", "3 * n + k"]
contract(KU, props=["C20"], types=_TT, returns="real[3]", attrs=_TA, rt_wrap=_wrap_tri, let=_TL, requires=_TR, reveal=["c20_shoe"],
         ensures=["result.shape[0] == 4 * n", "result.shape[1] == 3", "result.shape[2] == 2"] +
                 # triangle k is replaced by its three corner triangles and the medial triangle (m_ab = midpoint of v_a v_b):
                 # rows [0, n): (v1, m12, m01); [n, 2n): (v2, m20, m12); [2n, 3n): (m01, m12, m20); [3n, 4n): (v0, m01, m20)
                 [_rows(o, c) for o, c in zip(_OFF, _CH)] +
                 # algebra exported to clients (c20_shoe is opaque for them): a triangle with these vertices has exactly one quarter
                 # of the parent's SIGNED shoelace determinant (a polynomial identity in the six coordinates of triangle k)
                 ["forall(0, n, lambda k: " + _child(c) + " == " + _shoe("self", "k") + " / 4, pat=self[k, 0, 0])" for c in _CH],
         sentence={"forall": "every triangle is replaced by four triangles of one quarter its area whose vertices are its vertices "
                             "and its edge midpoints"})

# ------------------------------------------------------------------------------------------------ neighbourhood
KN = AB + "AbstractTriangles._neighborhood_triangles"


def _refl(a, b, c):
    return "self[k, %d, d] + self[k, %d, d] - self[k, %d, d]" % (a, b, c)


contract(KN, props=["C20"], types=_TT, returns="real[3]", attrs=_TA, rt_wrap=_wrap_tri, let=_TL, requires=_TR,
         ensures=["result.shape[0] == 4 * n", "result.shape[1] == 3", "result.shape[2] == 2",
                  # the neighbour across the edge opposite v_c keeps the two vertices of that edge; its third vertex is the
                  # reflection of v_c in the edge midpoint, v_a + v_b - v_c
                  _rows("k", [_refl(1, 2, 0), _v(1), _v(2)]),
                  _rows("n + k", [_v(0), _refl(0, 2, 1), _v(2)]),
                  _rows("2 * n + k", [_v(0), _v(1), _refl(0, 1, 2)]),
                  # ... followed by the original triangles
                  _rows("3 * n + k", [_v(0), _v(1), _v(2)])],
         sentence={"forall": "the neighbourhood consists of every original triangle together with its three edge-reflected neighbours"})


def _g_tris(rng, tier):
    h = 3 ** 0.5 / 2
    yield {"self": np.zeros((0, 3, 2))}
    yield {"self": np.array([[[0.0, 0.0], [1.0, 0.0], [0.5, h]]])}
    yield {"self": np.array([[[0.0, 0.0], [0.5, h], [1.0, 0.0]], [[1.0, 0.0], [2.0, 0.0], [1.5, -h]]])}      # both orientations
    yield {"self": np.array([[[0.0, 0.0], [1.0, 1.0], [2.0, 2.0]]])}                                          # degenerate
    for _ in range(gens.budget(tier, 150, 1500)):
        n = rng.randint(1, 5)
        if rng.random() < 0.3:
            yield {"self": np.array([[[rng.randint(-4, 4), rng.randint(-4, 4)] for _v in range(3)] for _k in range(n)], dtype=float)}
        else:
            yield {"self": gens.reals(rng, (n, 3, 2), special=False)}


for _k in (KA, KU, KN):
    CONTRACTS[_k].gen = _g_tris
    CONTRACTS[_k].nontrivial = lambda **kw: kw["self"].shape[0] > 1
x20.ENABLED.update([KA, KU, KN])

# ------------------------------------------------------------------------------------------------ corollaries: up-sampling
_CT = {"T": "real[3]"}
_CL = {"n": "T.shape[0]"}
_CR = ["T.shape[1] == 3", "T.shape[2] == 2"]
# (a) every child has one quarter of the parent's signed area (hence the same orientation, and a quarter of its area); the four
#     signed areas add up to the parent's; (b) the count quadruples; (c) every vertex of triangle k is a vertex of one of its children
corollary("C20.upsample_children", props=["C20"], vars=_CT, let=_CL, requires=_CR, calls=[("U", KU, {"self": "T"})],
          ensures=["U.shape[0] == 4 * n and U.shape[1] == 3 and U.shape[2] == 2"] +
                  ["forall(0, n, lambda k: " + _shoe("U", o) + " == " + _shoe("T", "k") + " / 4)" for o in _OFF] +
                  ["forall(0, n, lambda k: abs(" + _shoe("U", o) + ") / 2 == (abs(" + _shoe("T", "k") + ") / 2) / 4)" for o in _OFF] +
                  ["forall(0, n, lambda k: " + " + ".join(_shoe("U", o) for o in _OFF) + " == " + _shoe("T", "k") + ")",
                   "forall(0, n, lambda k: forall(0, 2, lambda d: U[3 * n + k, 0, d] == T[k, 0, d] and U[k, 0, d] == T[k, 1, d]"
                   " and U[n + k, 0, d] == T[k, 2, d]))"],
          sentence="up-sampling replaces every triangle by four triangles of one quarter its area; the count quadruples and every "
                   "original vertex remains a vertex")

# ------------------------------------------------------------------------------------------------ neighbourhood corollary
# (d) neighbour j of triangle k shares exactly the two vertices of edge j with it; its third vertex is the point reflection of the
#     opposite vertex in the midpoint of that edge (the midpoints of the two segments coincide); the originals follow unchanged
corollary("C20.neighborhood_reflections", props=["C20"], vars=_CT, let=_CL, requires=_CR, calls=[("N", KN, {"self": "T"})],
          ensures=["N.shape[0] == 4 * n and N.shape[1] == 3 and N.shape[2] == 2",
                   "forall(0, n, lambda k: forall(0, 2, lambda d: N[k, 1, d] == T[k, 1, d] and N[k, 2, d] == T[k, 2, d]"
                   " and (N[k, 0, d] + T[k, 0, d]) / 2 == (T[k, 1, d] + T[k, 2, d]) / 2))",
                   "forall(0, n, lambda k: forall(0, 2, lambda d: N[n + k, 0, d] == T[k, 0, d] and N[n + k, 2, d] == T[k, 2, d]"
                   " and (N[n + k, 1, d] + T[k, 1, d]) / 2 == (T[k, 0, d] + T[k, 2, d]) / 2))",
                   "forall(0, n, lambda k: forall(0, 2, lambda d: N[2 * n + k, 0, d] == T[k, 0, d] and N[2 * n + k, 1, d] == T[k, 1, d]"
                   " and (N[2 * n + k, 2, d] + T[k, 2, d]) / 2 == (T[k, 0, d] + T[k, 1, d]) / 2))",
                   "forall(0, n, lambda k: forall(0, 3, lambda a: forall(0, 2, lambda d: N[3 * n + k, a, d] == T[k, a, d])))"],
          sentence="the neighbourhood consists of every original triangle together with its three edge-reflected neighbours and nothing else")

# ------------------------------------------------------------------------------------------------ shapes: Point.mask
KP = SH + "Point.mask"
macro("c20_shoe_x", ["x0", "y0", "x1", "y1", "x2", "y2"], "x0 * (y1 - y2) + x1 * (y2 - y0) + x2 * (y0 - y1)")     # transparent twin


def _tri_args(T, k):
    return ["%s[%s, %d, %d]" % (T, k, v, d) for v in range(3) for d in range(2)]


def _with_point(T, k, pos, px="px", py="py", f="c20_shoe"):
    """shoelace determinant of triangle k of T with vertex `pos` replaced by the point (px, py)"""
    a = _tri_args(T, k)
    a[2 * pos], a[2 * pos + 1] = px, py
    return f + "(" + ", ".join(a) + ")"


def _bary(T, k, pos):
    """barycentric coordinate of the point with respect to vertex `pos`: ratio of signed areas"""
    return "(" + _with_point(T, k, pos) + " / " + _shoe(T, k) + ")"


def _inside(T, k):
    a, b = _bary(T, k, 0), _bary(T, k, 1)
    c = "(1 - " + a + " - " + b + ")"
    return " and ".join("0 <= %s and %s <= 1" % (w, w) for w in (a, b, c))


def _wrap_point(kw):
    from autoarray.structures.triangles.shape import Point
    kw["self"] = Point(x=kw["self"][0], y=kw["self"][1])
    return kw


_PT = {"self": "(real,real)", "triangles": "real[3]"}
_PL = {"n": "triangles.shape[0]", "px": "self[0]", "py": "self[1]"}
_PR = ["triangles.shape[1] == 3", "triangles.shape[2] == 2",
       # non-degenerate triangles: the code divides by the shoelace determinant
       "forall(0, n, lambda k: " + _shoe("triangles", "k") + " != 0)"]
_XDEF = " and ".join(e + " == " + e.replace("c20_shoe(", "c20_shoe_x(") for e in
                     [_with_point("triangles", "k", 0), _with_point("triangles", "k", 1), _with_point("triangles", "k", 2), _shoe("triangles", "k")])
contract(KP, props=["C20"], types=_PT, returns="bool[1]", attrs={"self.x": "self[0]", "self.y": "self[1]"}, rt_wrap=_wrap_point,
         let=_PL, requires=_PR, reveal=["c20_shoe"],
         ensures=["result.shape[0] == n",
                  # triangle k is reported iff the barycentric coordinates of the point (ratios of the signed areas of the triangles
                  # obtained by replacing one vertex by the point, to the signed area of triangle k) all lie in [0, 1]
                  "forall(0, n, lambda k: iff(result[k], " + _inside("triangles", "k") + "))",
                  # algebra exported to clients: the three sub-triangle determinants add up to the triangle's (so the third
                  # coordinate 1 - a - b is the ratio for the third vertex), and the determinants written out
                  "forall(0, n, lambda k: " + " + ".join(_with_point("triangles", "k", p) for p in range(3)) + " == " + _shoe("triangles", "k") +
                  ", pat=triangles[k, 0, 0])",
                  "forall(0, n, lambda k: " + _XDEF + ", pat=triangles[k, 0, 0])"],
         sentence={"iff": "a triangle is reported as containing a point exactly when the point's barycentric coordinates lie in [0, 1]"})


def _nondeg_tris(rng, n):
    out = []
    while len(out) < n:
        t = gens.reals(rng, (3, 2), lo=-4, hi=4, special=False) if rng.random() < 0.7 else \
            np.array([[rng.randint(-3, 3), rng.randint(-3, 3)] for _v in range(3)], dtype=float)
        d = t[0, 0] * (t[1, 1] - t[2, 1]) + t[1, 0] * (t[2, 1] - t[0, 1]) + t[2, 0] * (t[0, 1] - t[1, 1])
        if abs(d) > 0.05:
            out.append(t)
    return np.array(out).reshape(n, 3, 2)


def _clear_of_edges(T, p, margin=1e-6):
    """the point is not within `margin` (in barycentric units) of an edge line of any triangle: the [0, 1] tests are then decided
    identically by the floating-point run and by the exact reading (R1)"""
    for t in T:
        (x1, y1), (x2, y2), (x3, y3) = t
        den = (y2 - y3) * (x1 - x3) + (x3 - x2) * (y1 - y3)
        a = ((y2 - y3) * (p[0] - x3) + (x3 - x2) * (p[1] - y3)) / den
        b = ((y3 - y1) * (p[0] - x3) + (x1 - x3) * (p[1] - y3)) / den
        for w in (a, b, 1 - a - b):
            if abs(w) < margin or abs(w - 1) < margin:
                return False
    return True


def _g_point(rng, tier):
    t0 = np.array([[[0.0, 0.0], [4.0, 0.0], [0.0, 4.0]]])
    for p in [(1.0, 1.0), (5.0, 5.0), (-1.0, 1.0), (0.0, 0.0), (2.0, 0.0), (2.0, 2.0), (4.0, 0.0), (0.0, 4.0), (1.0, -0.5)]:   # incl. vertices, edges
        yield {"self": p, "triangles": t0.copy()}
    yield {"self": (0.5, 0.5), "triangles": np.zeros((0, 3, 2))}
    for _ in range(gens.budget(tier, 200, 2000)):
        n = rng.randint(1, 4)
        T = _nondeg_tris(rng, n)
        if rng.random() < 0.6:                                  # a point inside one of the triangles
            w = np.array([rng.uniform(0.05, 1), rng.uniform(0.05, 1), rng.uniform(0.05, 1)])
            w /= w.sum()
            p = tuple(float(v) for v in w @ T[rng.randrange(n)])
        else:
            p = (rng.uniform(-5, 5), rng.uniform(-5, 5))
        if _clear_of_edges(T, p):
            yield {"self": p, "triangles": T}


CONTRACTS[KP].gen = _g_point
CONTRACTS[KP].nontrivial = lambda **kw: kw["triangles"].shape[0] > 0
x20.ENABLED.update([KP])

# "contains" clause: a point that is a strict convex combination of the vertices of (non-degenerate) triangle k is reported in k ...
_PW = "({w0} * T[k, 0, {d}] + {w1} * T[k, 1, {d}] + (1 - {w0} - {w1}) * T[k, 2, {d}])"
corollary("C20.point_inside_is_reported", props=["C20"],
          vars={"T": "real[3]", "k": "int", "w0": "real", "w1": "real"}, let=_CL,
          requires=_CR + ["forall(0, n, lambda j: " + _shoe("T", "j") + " != 0)", "0 <= k and k < n",
                          "w0 > 0", "w1 > 0", "1 - w0 - w1 > 0"],
          calls=[("M", KP, {"self": "(" + _PW.format(w0="w0", w1="w1", d=0) + ", " + _PW.format(w0="w0", w1="w1", d=1) + ")", "triangles": "T"})],
          ensures=["M[k]"],
          sentence="a triangle is reported as containing a shape whenever the shape's reference point lies inside it")
# ... and so is any point lying strictly on the inner side of all three edges (orientation form of 'inside': each sub-triangle
# has the orientation of the triangle)
corollary("C20.point_same_side_is_reported", props=["C20"],
          vars={"T": "real[3]", "k": "int", "p": "(real,real)"}, let=_CL,
          requires=_CR + ["forall(0, n, lambda j: " + _shoe("T", "j") + " != 0)", "0 <= k and k < n"] +
                   ["%s * %s > 0" % (_with_point("T", "k", pos, "p[0]", "p[1]"), _shoe("T", "k")) for pos in range(3)],
          calls=[("M", KP, {"self": "p", "triangles": "T"})],
          ensures=["M[k]"],
          sentence="a triangle is reported as containing a shape whenever the shape's reference point lies inside it")

# ------------------------------------------------------------------------------------------------ shapes: centroid, Square, Circle, Triangle
KC = SH + "centroid"
_CX = "(triangles[k, 0, 0] + triangles[k, 1, 0] + triangles[k, 2, 0]) / 3"
_CY = "(triangles[k, 0, 1] + triangles[k, 1, 1] + triangles[k, 2, 1]) / 3"
contract(KC, props=["C20"], types={"triangles": "real[3]"}, returns="(real[1],real[1])", let={"n": "triangles.shape[0]"},
         requires=["triangles.shape[1] == 3", "triangles.shape[2] == 2"],
         ensures=["result[0].shape[0] == n", "result[1].shape[0] == n",
                  # (x, y) of the centroid of triangle k: the mean of its three vertices, x first
                  "forall(0, n, lambda k: result[0][k] == " + _CX + ")", "forall(0, n, lambda k: result[1][k] == " + _CY + ")"],
         sentence={"forall": "the reference point of a triangle is the mean of its vertices"})


def _g_cent(rng, tier):
    yield {"triangles": np.zeros((0, 3, 2))}
    for _ in range(gens.budget(tier, 150, 1500)):
        yield {"triangles": gens.reals(rng, (rng.randint(1, 5), 3, 2), special=False)}


CONTRACTS[KC].gen = _g_cent

# Square: read as (top, bottom, left, right); its Point is the centre ((left + right) / 2, (top + bottom) / 2)
KS = SH + "Square.mask"
_SQ_ATTRS = {"self.top": "self[0]", "self.bottom": "self[1]", "self.left": "self[2]", "self.right": "self[3]",
             "self.x": "(self[2] + self[3]) / 2", "self.y": "(self[0] + self[1]) / 2"}


def _wrap_square(kw):
    from autoarray.structures.triangles.shape import Square
    t, b, l, r = kw["self"]
    kw["self"] = Square(top=t, bottom=b, left=l, right=r)
    return kw


contract(KS, props=["C20"], types={"self": "(real,real,real,real)", "triangles": "real[3]"}, returns="bool[1]", attrs=_SQ_ATTRS,
         rt_wrap=_wrap_square, let={"n": "triangles.shape[0]", "px": "(self[2] + self[3]) / 2", "py": "(self[0] + self[1]) / 2"}, requires=_PR,
         ensures=["result.shape[0] == n",
                  # reported iff the triangle's centroid lies in the square (y grows from `top` to `bottom`) or the triangle
                  # contains the centre of the square
                  "forall(0, n, lambda k: iff(result[k], (self[2] <= " + _CX + " and " + _CX + " <= self[3] and self[0] <= " + _CY +
                  " and " + _CY + " <= self[1]) or (" + _inside("triangles", "k") + ")))"],
         sentence={"iff": "a triangle is reported as containing a square whenever the square's centre lies inside it (or its own centroid lies in the square)"})
x20.SUPER[(KS, "mask")] = (KP, "((self[2] + self[3]) / 2, (self[0] + self[1]) / 2)")

# Circle: read as (x, y, radius)
KO = SH + "Circle.mask"


def _wrap_circle(kw):
    from autoarray.structures.triangles.shape import Circle
    kw["self"] = Circle(x=kw["self"][0], y=kw["self"][1], radius=kw["self"][2])
    return kw


# the point (cx, cy) lies in the closed disc of radius r about (px, py); opaque for clients (the containment clause does not need it)
macro("c20_in_disc", ["cx", "cy", "px", "py", "r"], "(cx - px) ** 2 + (cy - py) ** 2 <= r ** 2",
      py=lambda cx, cy, px, py, r: (cx - px) ** 2 + (cy - py) ** 2 <= r ** 2, opaque=(["real"] * 5, "bool"))
contract(KO, props=["C20"], types={"self": "(real,real,real)", "triangles": "real[3]"}, returns="bool[1]", reveal=["c20_in_disc"],
         attrs={"self.x": "self[0]", "self.y": "self[1]", "self.radius": "self[2]"}, rt_wrap=_wrap_circle, let=_PL, requires=_PR,
         ensures=["result.shape[0] == n",
                  # reported iff the triangle's centroid lies in the closed disc or the triangle contains the centre
                  "forall(0, n, lambda k: iff(result[k], c20_in_disc(" + _CX + ", " + _CY + ", px, py, self[2]) or (" +
                  _inside("triangles", "k") + ")))",
                  # the 'contains' half on its own (clients that only need it do not meet the disc test)
                  "forall(0, n, lambda k: implies(" + _inside("triangles", "k") + ", result[k]))"],
         sentence={"iff": "a triangle is reported as containing a circle whenever the circle's centre lies inside it (or its own centroid lies in the disc)"})
x20.SUPER[(KO, "mask")] = (KP, "(self[0], self[1])")

# Triangle (the shape): read as its three vertex pairs (a, b, c).  NB `triangle_contains_mask` unpacks every pair as (y, x)
# (`y1, x1 = self.a`) while Triangle.__init__ and Triangle.area read the same pairs as (x, y): the contract states the method's own
# reading -- the centroid (x, y) of triangle k is tested against the triangle with vertices (x, y) = (a[1], a[0]), ... (see report)
KT = SH + "Triangle.triangle_contains_mask"
KTA = SH + "Triangle.area"
_T3 = "((real,real),(real,real),(real,real))"
_T3A = {"self.a": "self[0]", "self.b": "self[1]", "self.c": "self[2]"}


def _wrap_triangle(kw):
    from autoarray.structures.triangles.shape import Triangle
    a, b, c = kw["self"]
    kw["self"] = Triangle(a, b, c)
    return kw


_SV = ["self[0][1]", "self[0][0]", "self[1][1]", "self[1][0]", "self[2][1]", "self[2][0]"]       # (x, y) = (pair[1], pair[0])


def _sv_with_point(pos):
    a = list(_SV)
    a[2 * pos], a[2 * pos + 1] = "(" + _CX + ")", "(" + _CY + ")"
    return "c20_shoe(" + ", ".join(a) + ")"


_SVD = "c20_shoe(" + ", ".join(_SV) + ")"
_TA_ = "(" + _sv_with_point(0) + " / " + _SVD + ")"
_TB_ = "(" + _sv_with_point(1) + " / " + _SVD + ")"
_TC_ = "(1 - " + _TA_ + " - " + _TB_ + ")"
contract(KT, props=["C20"], types={"self": _T3, "triangles": "real[3]"}, returns="bool[1]", attrs=_T3A, rt_wrap=_wrap_triangle,
         let={"n": "triangles.shape[0]"}, reveal=["c20_shoe"],
         requires=["triangles.shape[1] == 3", "triangles.shape[2] == 2", _SVD + " != 0"],
         ensures=["result.shape[0] == n",
                  "forall(0, n, lambda k: iff(result[k], " + " and ".join("0 <= %s and %s <= 1" % (w, w) for w in (_TA_, _TB_, _TC_)) + "))"],
         sentence={"iff": "a triangle is reported when its centroid has barycentric coordinates in [0, 1] with respect to the shape triangle"})
contract(KTA, props=["C20"], types={"self": _T3}, returns="real", attrs=_T3A, rt_wrap=_wrap_triangle, reveal=["c20_shoe"],
         ensures=["result == abs(c20_shoe(self[0][0], self[0][1], self[1][0], self[1][1], self[2][0], self[2][1])) / 2", "result >= 0"],
         sentence={"abs": "the area of a triangle is half the absolute shoelace determinant of its vertices"})


def _g_square(rng, tier):
    t0 = np.array([[[0.0, 0.0], [3.0, 0.0], [0.0, 3.0]]])                 # centroid (1, 1)
    for sq in [(0.0, 2.0, 0.0, 2.0), (1.0, 2.0, 1.0, 2.0), (1.5, 2.0, 0.0, 2.0), (0.0, 1.0, 0.0, 1.0), (5.0, 6.0, 5.0, 6.0), (0.0, 0.5, 2.0, 2.5),
               (1.0, 4.0, 1.0, 4.0), (-2.0, 1.0, -2.0, 1.0), (1.0, 4.0, -3.0, 0.5)]:     # centroid ON a corner of the square, centre outside the triangle
        yield {"self": sq, "triangles": t0.copy()}
    for _ in range(gens.budget(tier, 200, 2000)):
        n = rng.randint(1, 4)
        T = _nondeg_tris(rng, n)
        top, left = rng.uniform(-4, 3), rng.uniform(-4, 3)
        sq = (top, top + rng.uniform(0.2, 4), left, left + rng.uniform(0.2, 4))
        cen = T.mean(axis=1)
        # centroids at least 1e-6 away from the square's edge lines, centre clear of the triangles' edge lines
        if all(min(abs(c[0] - sq[2]), abs(c[0] - sq[3]), abs(c[1] - sq[0]), abs(c[1] - sq[1])) > 1e-6 for c in cen) and \
                _clear_of_edges(T, ((sq[2] + sq[3]) / 2, (sq[0] + sq[1]) / 2)):
            yield {"self": sq, "triangles": T}


def _g_circle(rng, tier):
    t0 = np.array([[[0.0, 0.0], [3.0, 0.0], [0.0, 3.0]]])                 # centroid (1, 1)
    for ci in [(1.0, 1.0, 0.5), (1.0, 2.0, 1.0), (4.0, 5.0, 5.0), (4.0, 5.0, 4.5), (0.5, 0.5, 0.25), (-1.0, -1.0, 0.5), (1.0, 3.0, 2.0), (4.0, 1.0, 3.0)]:   # incl. centroid ON the circle
        yield {"self": ci, "triangles": t0.copy()}
    for _ in range(gens.budget(tier, 200, 2000)):
        n = rng.randint(1, 4)
        T = _nondeg_tris(rng, n)
        ci = (rng.uniform(-4, 4), rng.uniform(-4, 4), rng.uniform(0.1, 4))
        cen = T.mean(axis=1)
        if all(abs((c[0] - ci[0]) ** 2 + (c[1] - ci[1]) ** 2 - ci[2] ** 2) > 1e-6 for c in cen) and _clear_of_edges(T, ci[:2]):
            yield {"self": ci, "triangles": T}


def _g_shape_tri(rng, tier):
    t0 = np.array([[[0.0, 0.0], [3.0, 0.0], [0.0, 3.0]], [[6.0, 6.0], [9.0, 6.0], [6.0, 9.0]]])
    for tri in [((0.0, 0.0), (4.0, 0.0), (0.0, 4.0)), ((0.0, 0.0), (0.0, 1.5), (8.0, 0.0)), ((0.0, 0.0), (1.5, 0.0), (0.0, 8.0)), ((5.0, 5.0), (9.0, 5.0), (5.0, 9.0))]:
        yield {"self": tri, "triangles": t0.copy()}
    for _ in range(gens.budget(tier, 200, 2000)):
        n = rng.randint(1, 4)
        T = gens.reals(rng, (n, 3, 2), lo=-4, hi=4, special=False)
        S = _nondeg_tris(rng, 1)[0]
        Sx = S[:, ::-1]                                                    # the method's reading: (x, y) = (pair[1], pair[0])
        if all(_clear_of_edges(Sx[None], tuple(c)) for c in T.mean(axis=1)):
            yield {"self": tuple((float(v[0]), float(v[1])) for v in S), "triangles": T}


def _g_tri_area(rng, tier):
    yield {"self": ((0.0, 0.0), (4.0, 0.0), (0.0, 3.0))}
    yield {"self": ((0.0, 0.0), (0.0, 3.0), (4.0, 0.0))}
    yield {"self": ((0.0, 0.0), (1.0, 1.0), (2.0, 2.0))}
    for _ in range(gens.budget(tier, 200, 2000)):
        yield {"self": tuple((rng.uniform(-5, 5), rng.uniform(-5, 5)) for _v in range(3))}


CONTRACTS[KS].gen = _g_square
CONTRACTS[KO].gen = _g_circle
CONTRACTS[KT].gen = _g_shape_tri
CONTRACTS[KTA].gen = _g_tri_area
for _k in (KS, KO, KT):
    CONTRACTS[_k].nontrivial = lambda **kw: kw["triangles"].shape[0] > 0
x20.ENABLED.update([KC, KS, KO, KT, KTA])
for _k in (KS, KO, KT):
    x20.INLINE[_k] = ("centroid",)

# ------------------------------------------------------------------------------------------------ total area is conserved by up-sampling
# anchor for the summation lemma (the function itself is the constant 0): with S_X(m) = sum_{k<m} |shoe(X[k])|, if rows j*n + k of U
# have a quarter of |shoe(T[k])| for j = 0..3 then  S_U(m) + (S_U(n+m) - S_U(n)) + (S_U(2n+m) - S_U(2n)) + (S_U(3n+m) - S_U(3n)) == S_T(m)
# for every m <= n (induction on m: the four increments add up to |shoe(T[m])|); at m = n the left side telescopes to S_U(4n)
def _S(X, m):
    return "c20_asum(" + X + ", " + m + ")"


_H4 = "U.shape[0] == 4 * n and " + " and ".join("forall(0, n, lambda k: abs(" + _shoe("U", o) + ") == abs(" + _shoe("T", "k") + ") / 4)" for o in _OFF)
spec_fn("c20_up4", params=[("U", "real[3]"), ("T", "real[3]"), ("m", "int")], ret="int", let={"n": "T.shape[0]"},
        axioms=["forall(0, n + 1, lambda m: c20_up4(U, T, m) == 0, pat=c20_up4(U, T, m))"],
        lemmas=[dict(name="split", induct="m", lo=0, hi="n",
                     stmt="implies(" + _H4 + ", " + _S("U", "m") + " + (" + _S("U", "n + m") + " - " + _S("U", "n") + ") + (" +
                          _S("U", "2 * n + m") + " - " + _S("U", "2 * n") + ") + (" + _S("U", "3 * n + m") + " - " + _S("U", "3 * n") + ") == " +
                          _S("T", "m") + ")")],
        py=lambda U, T, m: 0, doc="anchor of the block-splitting lemma for the total area of an up-sampled set")
corollary("C20.upsample_conserves_area", props=["C20"], vars=_CT, let=_CL, requires=_CR,
          calls=[("U", KU, {"self": "T"}), ("aT", KA, {"self": "T"}), ("aU", KA, {"self": "U"})],
          ensures=["c20_up4(U, T, n) == 0 and aU == aT"],
          sentence="up-sampling conserves the total area")

# ------------------------------------------------------------------------------------------------ integer-coordinate representation
# A coordinate-array object is read as the tuple (coordinates, side_length, x_offset, y_offset, flipped); triangle (cx, cy) is centred
# at (side/2 * cx + x_offset, h * side * cy + y_offset), h = sqrt(3)/2, and points up when cx + cy is even (down when `flipped`)
AC = "autoarray.structures.triangles.abstract_coordinate_array:AbstractCoordinateArray."
CA = "autoarray.structures.triangles.coordinate_array:CoordinateArrayTriangles."
_CO = "(int[2],real,real,real,bool)"
_COA = {"self.coordinates": "self[0]", "self.side_length": "self[1]", "self.x_offset": "self[2]", "self.y_offset": "self[3]", "self.flipped": "self[4]"}
_COL = {"n": "self[0].shape[0]", "side": "self[1]"}
_COR = ["self[0].shape[1] == 2"]
_DOWN = "(((self[0][k, 0] + self[0][k, 1]) % 2 != 0) != self[4])"           # triangle k points down


def _wrap_coord(kw):
    from autoarray.structures.triangles.coordinate_array import CoordinateArrayTriangles
    c, side, xo, yo, fl = kw["self"]
    kw["self"] = CoordinateArrayTriangles(coordinates=np.array(c), side_length=side, x_offset=xo, y_offset=yo, flipped=fl)
    return kw


KFM = AC + "flip_mask"
contract(KFM, props=["C20"], types={"self": _CO}, returns="bool[1]", attrs=_COA, rt_wrap=_wrap_coord, let=_COL, requires=_COR,
         ensures=["result.shape[0] == n", "forall(0, n, lambda k: iff(result[k], " + _DOWN + "))"],
         sentence={"iff": "a lattice triangle points down exactly when the parity of its integer coordinates is odd (even when the set is flipped)"})
KCE = AC + "centres"
contract(KCE, props=["C20"], types={"self": _CO}, returns="real[2]", rt_wrap=_wrap_coord, let=_COL, requires=_COR,
         attrs=dict(_COA, **{"self.scaling_factors": "arr1(2, lambda i: (0.5 * self[1] if i == 0 else (3 ** 0.5 / 2) * self[1]))"}),
         ensures=["result.shape[0] == n", "result.shape[1] == 2",
                  "forall(0, n, lambda k: result[k, 0] == 0.5 * side * self[0][k, 0] + self[2])",
                  "forall(0, n, lambda k: result[k, 1] == (3 ** 0.5 / 2) * side * self[0][k, 1] + self[3])"],
         sentence={"forall": "the two representations describe the same triangles: lattice triangle (cx, cy) is centred at "
                             "(side/2 cx + x_offset, sqrt(3)/2 side cy + y_offset)"})
KFA = CA + "flip_array"
contract(KFA, props=["C20"], types={"self": _CO}, returns="real[2]", rt_wrap=_wrap_coord, let=_COL, requires=_COR,
         attrs=dict(_COA, **{"self.flip_mask": "arr1(self[0].shape[0], lambda k: " + _DOWN + ")"}),
         ensures=["result.shape[0] == n", "result.shape[1] == 1",
                  "forall(0, n, lambda k: result[k, 0] == (-1 if " + _DOWN + " else 1))"],
         sentence={"forall": "the orientation sign of a lattice triangle is -1 exactly when it points down"})


def _g_coord(rng, tier):
    yield {"self": (np.zeros((0, 2), dtype=int), 1.0, 0.0, 0.0, False)}
    for fl in (False, True):
        yield {"self": (np.array([[0, 0], [1, 0], [0, 1], [1, 1], [-1, 0], [-3, 2], [2, -5]]), 1.0, 0.0, 0.0, fl)}
    for _ in range(gens.budget(tier, 150, 1500)):
        n = rng.randint(1, 6)
        yield {"self": (np.array([[rng.randint(-6, 6), rng.randint(-6, 6)] for _k in range(n)]), rng.choice([1.0, 0.5, 2.0, 0.3]),
                        rng.choice([0.0, 0.25, -1.3]), rng.choice([0.0, 0.25, -1.3]), rng.random() < 0.5)}


for _k in (KFM, KCE, KFA):
    CONTRACTS[_k].gen = _g_coord
    CONTRACTS[_k].nontrivial = lambda **kw: kw["self"][0].shape[0] > 1
x20.ENABLED.update([KFM, KCE, KFA])

# vertex triples of the integer-coordinate representation: with (x, y) the centre and s = +1 (up) / -1 (down),
# (x, y + s h side / 2), (x + s side / 2, y - s h side / 2), (x - s side / 2, y - s h side / 2)
KTR = AC + "triangles"
_SGN = "(-1 if " + _DOWN + " else 1)"
_CEX = "(0.5 * side * self[0][k, 0] + self[2])"
_CEY = "((3 ** 0.5 / 2) * side * self[0][k, 1] + self[3])"
_HH = "0.5 * side * (3 ** 0.5 / 2)"
contract(KTR, props=["C20"], types={"self": _CO}, returns="real[3]", rt_wrap=_wrap_coord, let=_COL, requires=_COR,
         attrs=dict(_COA, **{"self.centres": "arr2(self[0].shape[0], 2, lambda k, d: (" + _CEX + " if d == 0 else " + _CEY + "))",
                             "self.flip_array": "arr2(self[0].shape[0], 1, lambda k, d: " + _SGN + ")"}),
         ensures=["result.shape[0] == n", "result.shape[1] == 3", "result.shape[2] == 2",
                  "forall(0, n, lambda k: result[k, 0, 0] == " + _CEX + " and result[k, 0, 1] == " + _CEY + " + " + _SGN + " * (" + _HH + "))",
                  "forall(0, n, lambda k: result[k, 1, 0] == " + _CEX + " + " + _SGN + " * (0.5 * side) and result[k, 1, 1] == " + _CEY + " - " + _SGN + " * (" + _HH + "))",
                  "forall(0, n, lambda k: result[k, 2, 0] == " + _CEX + " - " + _SGN + " * (0.5 * side) and result[k, 2, 1] == " + _CEY + " - " + _SGN + " * (" + _HH + "))"],
         sentence={"forall": "the two representations of the same set describe the same triangles: the vertex triple of lattice triangle (cx, cy)"})
CONTRACTS[KTR].gen = _g_coord
CONTRACTS[KTR].nontrivial = lambda **kw: kw["self"][0].shape[0] > 1
x20.ENABLED.update([KTR])

# ------------------------------------------------------------------------------------------------ integer-coordinate up-sampling / neighbourhood (bounded)
def _match_triangles(want, got, tol):
    """the two lists of vertex triples are equal as multisets of unordered triples (vertices identified within tol)"""
    want, got = [np.asarray(t, float) for t in want], [np.asarray(t, float) for t in got]
    if len(want) != len(got):
        return False
    free = list(range(len(got)))
    for w in want:
        hit = None
        for gi in free:
            g = got[gi]
            if all(any(abs(v[0] - u[0]) <= tol and abs(v[1] - u[1]) <= tol for u in g) for v in w) and \
                    all(any(abs(v[0] - u[0]) <= tol and abs(v[1] - u[1]) <= tol for u in w) for v in g):
                hit = gi
                break
        if hit is None:
            return False
        free.remove(hit)
    return True


def _children_py(P):
    out = []
    for t in np.asarray(P, float):
        m01, m12, m20 = (t[0] + t[1]) / 2, (t[1] + t[2]) / 2, (t[2] + t[0]) / 2
        out += [[t[1], m12, m01], [t[2], m20, m12], [m01, m12, m20], [t[0], m01, m20]]
    return out


def _neighbours_py(P):
    out = []
    for t in np.asarray(P, float):
        out += [[t[1] + t[2] - t[0], t[1], t[2]], [t[0], t[0] + t[2] - t[1], t[2]], [t[0], t[1], t[0] + t[1] - t[2]], [t[0], t[1], t[2]]]
    return out


def _dedup(tris, tol):
    keep = []
    for t in tris:
        if not any(_match_triangles([t], [u], tol) for u in keep):
            keep.append(t)
    return keep


# c20_same_triangles(A, B, tol): A and B hold the same triangles (multisets of unordered vertex triples, tolerance tol) -- run-time only
macro("c20_same_triangles", ["A", "B", "tol"], "True", py=lambda A, B, tol: _match_triangles(list(A), list(B), tol))
macro("c20_children_of", ["P"], "P", py=lambda P: _children_py(P))                      # the four midpoint children of every triangle, in order
macro("c20_neighbourhood_of", ["P", "tol"], "P", py=lambda P, tol: _dedup(_neighbours_py(P), tol))   # originals + reflections, duplicates removed

KCU = CA + "up_sample"
KCN = CA + "neighborhood"
_BN = ("bounded: boolean-mask fancy indexing (coordinates[~mask]), slice assignment of a stacked block, np.vstack of four blocks and the "
       "constructor call returning an object are outside the subset.  Stated against the specification of the proved vertex-array kernel: ")
contract(KCU, props=["C20"], mode="bounded", types={"self": _CO}, rt_wrap=_wrap_coord, attrs=_COA, let=_COL, requires=_COR,
         ensures=["result.coordinates.shape[0] == 4 * n", "result.side_length == side / 2",
                  # the up-sampled set, read through its own `triangles`, consists exactly of the four midpoint children of every triangle
                  "c20_same_triangles(c20_children_of(rt_tris(self)), result.triangles, 1e-7 * side)",
                  "abs(result.area - rt_area(self)) <= 1e-9 * max(1, rt_area(self))"],
         note=_BN + "the up-sampled set consists exactly of the four midpoint children (AbstractTriangles._up_sample_triangle contract) of every "
                    "lattice triangle, as unordered vertex triples within 1e-7 side; count, side length and total area follow",
         sentence={"c20_same_triangles": "up-sampling replaces every triangle by four triangles that exactly tile it, in the integer-coordinate representation"})
contract(KCN, props=["C20"], mode="bounded", types={"self": _CO}, rt_wrap=_wrap_coord, attrs=_COA, let=_COL,
         requires=_COR + ["forall(0, n, lambda a: forall(0, a, lambda b: self[0][a, 0] != self[0][b, 0] or self[0][a, 1] != self[0][b, 1]))"],
         ensures=["c20_same_triangles(c20_neighbourhood_of(rt_tris(self), 1e-7 * side), result.triangles, 1e-7 * side)",
                  "result.side_length == side"],
         note=_BN + "the neighbourhood consists of every original triangle and its three edge-reflected neighbours "
                    "(AbstractTriangles._neighborhood_triangles contract), each once, and nothing else",
         sentence={"c20_same_triangles": "the neighbourhood of a set consists of every original triangle together with its three edge-reflected neighbours and nothing else"})


def _rt_obj(s):
    return _wrap_coord({"self": s})["self"]


macro("rt_tris", ["s"], "s", py=lambda s: np.asarray(_rt_obj(s).triangles, float))      # run-time only: the parent set's own vertex triples
macro("rt_area", ["s"], "0", py=lambda s: float(_rt_obj(s).area))


def _g_coord_sets(rng, tier):
    for fl in (False, True):
        yield {"self": (np.array([[0, 0]]), 1.0, 0.0, 0.0, fl)}
        yield {"self": (np.array([[1, 0]]), 1.0, 0.0, 0.0, fl)}
        yield {"self": (np.array([[0, 0], [1, 0], [0, 1], [1, 1], [-1, 0], [-3, 2], [2, -5]]), 0.5, 0.25, -1.3, fl)}
    for _ in range(gens.budget(tier, 120, 1200)):
        n = rng.randint(1, 6)
        pts = set()
        while len(pts) < n:
            pts.add((rng.randint(-4, 4), rng.randint(-4, 4)))
        yield {"self": (np.array(sorted(pts)), rng.choice([1.0, 0.5, 2.0, 0.3]), rng.choice([0.0, 0.25, -1.3]), rng.choice([0.0, 0.25, -1.3]),
                        rng.random() < 0.5)}


CONTRACTS[KCU].gen = _g_coord_sets
CONTRACTS[KCN].gen = _g_coord_sets

# the same clause for the shapes whose reference point is a centre: a circle / square whose centre is a strict convex combination of
# the vertices of (non-degenerate) triangle k is reported in k
_PWX, _PWY = _PW.format(w0="w0", w1="w1", d=0), _PW.format(w0="w0", w1="w1", d=1)
_INR = _CR + ["forall(0, n, lambda j: " + _shoe("T", "j") + " != 0)", "0 <= k and k < n", "w0 > 0", "w1 > 0", "1 - w0 - w1 > 0"]
corollary("C20.circle_centre_inside_is_reported", props=["C20"],
          vars={"T": "real[3]", "k": "int", "w0": "real", "w1": "real", "r": "real"}, let=_CL, requires=_INR,
          calls=[("MP", KP, {"self": "(" + _PWX + ", " + _PWY + ")", "triangles": "T"}),
                 ("M", KO, {"self": "(" + _PWX + ", " + _PWY + ", r)", "triangles": "T"})],
          ensures=["M[k]"], sentence="a triangle is reported as containing a shape whenever the shape's reference point lies inside it")
corollary("C20.square_centre_inside_is_reported", props=["C20"],
          vars={"T": "real[3]", "k": "int", "w0": "real", "w1": "real", "hx": "real", "hy": "real"}, let=_CL, requires=_INR,
          # the square with centre (x, y) = the convex combination and half-extents hx, hy: (top, bottom, left, right)
          calls=[("MP", KP, {"self": "(" + _PWX + ", " + _PWY + ")", "triangles": "T"}),
                 ("M", KS, {"self": "(" + _PWY + " - hy, " + _PWY + " + hy, " + _PWX + " - hx, " + _PWX + " + hx)", "triangles": "T"})],
          ensures=["M[k]"], sentence="a triangle is reported as containing a shape whenever the shape's reference point lies inside it")

# Triangle.mask = triangle_contains_mask | Point.mask at the shape's reference point, the mean of its three vertex pairs read as (x, y)
KTM = SH + "Triangle.mask"
_TMX = "(self[0][0] + self[1][0] + self[2][0]) / 3"
_TMY = "(self[0][1] + self[1][1] + self[2][1]) / 3"
contract(KTM, props=["C20"], types={"self": _T3, "triangles": "real[3]"}, returns="bool[1]", rt_wrap=_wrap_triangle,
         attrs=dict(_T3A, **{"self.x": _TMX, "self.y": _TMY}), let={"n": "triangles.shape[0]", "px": _TMX, "py": _TMY},
         requires=_PR + [_SVD + " != 0"],
         ensures=["result.shape[0] == n",
                  "forall(0, n, lambda k: iff(result[k], (" + " and ".join("0 <= %s and %s <= 1" % (w, w) for w in (_TA_, _TB_, _TC_)) + ") or (" +
                  _inside("triangles", "k") + ")))"],
         sentence={"iff": "a triangle is reported as containing a triangle shape whenever the shape's reference point (the mean of its vertices) lies inside it"})
x20.SELF_METHODS[(KTM, "triangle_contains_mask")] = KT
x20.SUPER[(KTM, "mask")] = (KP, "(" + _TMX + ", " + _TMY + ")")


def _g_shape_tri_mask(rng, tier):
    for kw in _g_shape_tri(rng, tier):
        S = np.array(kw["self"])
        T = kw["triangles"]
        d = T[:, 0, 0] * (T[:, 1, 1] - T[:, 2, 1]) + T[:, 1, 0] * (T[:, 2, 1] - T[:, 0, 1]) + T[:, 2, 0] * (T[:, 0, 1] - T[:, 1, 1])
        if np.all(np.abs(d) > 0.05) and _clear_of_edges(T, tuple(S.mean(axis=0))):
            yield kw
    for _ in range(gens.budget(tier, 60, 600)):                         # shape centroid inside one of the triangles
        T = _nondeg_tris(rng, rng.randint(1, 3))
        w = np.array([rng.uniform(0.1, 1), rng.uniform(0.1, 1), rng.uniform(0.1, 1)])
        p = (w / w.sum()) @ T[0]
        a, b = np.array([rng.uniform(-2, 2), rng.uniform(-2, 2)]), np.array([rng.uniform(-2, 2), rng.uniform(-2, 2)])
        S = np.array([p + a, p + b, p - a - b])
        ds = S[0, 0] * (S[1, 1] - S[2, 1]) + S[1, 0] * (S[2, 1] - S[0, 1]) + S[2, 0] * (S[0, 1] - S[1, 1])
        if abs(ds) > 0.05 and _clear_of_edges(T, tuple(S.mean(axis=0))) and all(_clear_of_edges(S[None, :, ::-1], tuple(c)) for c in T.mean(axis=1)):
            yield {"self": tuple((float(v[0]), float(v[1])) for v in S), "triangles": T}


CONTRACTS[KTM].gen = _g_shape_tri_mask
CONTRACTS[KTM].nontrivial = lambda **kw: kw["triangles"].shape[0] > 0
x20.ENABLED.update([KTM])
# a triangle shape whose reference point is a strict convex combination of the vertices of triangle k is reported in k
# (the shape has vertices a, b and c = 3 p - a - b, so that its mean is p)
_SA, _SB = "(ax, ay)", "(bx, by)"
_SC = "(3 * " + _PWX + " - ax - bx, 3 * " + _PWY + " - ay - by)"
_SHP = "(" + _SA + ", " + _SB + ", " + _SC + ")"
corollary("C20.triangle_shape_centroid_inside_is_reported", props=["C20"],
          vars={"T": "real[3]", "k": "int", "w0": "real", "w1": "real", "ax": "real", "ay": "real", "bx": "real", "by": "real"}, let=_CL,
          requires=_INR + ["c20_shoe(ay, ax, by, bx, 3 * " + _PWY + " - ay - by, 3 * " + _PWX + " - ax - bx) != 0"],
          calls=[("MP", KP, {"self": "(" + _PWX + ", " + _PWY + ")", "triangles": "T"}),
                 ("M", KTM, {"self": _SHP, "triangles": "T"})],
          ensures=["M[k]"], sentence="a triangle is reported as containing a shape whenever the shape's reference point lies inside it")
