"""C03 class layer: Convolver / Kernel2D / SimulatorImaging against an independent direct-sum 2-D convolution
(bounded stand-in; see docs/BOUNDED_GUIDE.md).

Oracle (written from the property statement, no library code):
    conv(I, K)[t] = sum_{i,j} K[i,j] * I[t - (i - hy, j - hx)]      (hy, hx = K.shape // 2, I = 0 outside the frame)
i.e. the full two-dimensional convolution with the flipped, centred kernel and zeros outside the frame.
"""
import functools
import itertools
import traceback
import numpy as np
from pyvc.bounded import bounded
from pyvc import gens

RTOL = 1e-9
ODD = (1, 3, 5)


def guarded(fn):
    """an exception escaping the library (e.g. an IndexError inside a kernel loop) is a finding with a message, never a
    crash of the checker: `./vf check` re-executes failures through `rtc.replay`, which does not catch exceptions"""
    @functools.wraps(fn)
    def wrapper(**kw):
        try:
            return fn(**kw)
        except Exception as e:                                                      # noqa: BLE001
            frames = traceback.extract_tb(e.__traceback__)
            where = next(("%s:%d in %s" % (f.filename, f.lineno, f.name) for f in reversed(frames) if "/autoarray/" in f.filename),
                         "%s:%d in %s" % (frames[-1].filename, frames[-1].lineno, frames[-1].name))
            return "exception %s: %s  [raised at %s]" % (type(e).__name__, e, where)
    return wrapper


# ----------------------------------------------------------------------------------------------- oracle

def conv_full(native, kernel):
    """direct-sum full 2-D convolution, centred kernel, zeros outside the frame (same shape as `native`)"""
    native = np.asarray(native, dtype=float)
    kernel = np.asarray(kernel, dtype=float)
    H, W = native.shape
    kh, kw = kernel.shape
    hy, hx = kh // 2, kw // 2
    out = np.zeros((H, W))
    for ty in range(H):
        for tx in range(W):
            acc = 0.0
            for i in range(kh):
                for j in range(kw):
                    sy, sx = ty - (i - hy), tx - (j - hx)
                    if 0 <= sy < H and 0 <= sx < W:
                        acc += kernel[i, j] * native[sy, sx]
            out[ty, tx] = acc
    return out


def blurring_region(mask, kshape):
    """masked pixels lying inside the kernel footprint of some unmasked pixel (True = in the region)"""
    H, W = mask.shape
    hy, hx = kshape[0] // 2, kshape[1] // 2
    reg = np.zeros((H, W), dtype=bool)
    for y, x in zip(*np.where(~mask)):
        for dy in range(-hy, hy + 1):
            for dx in range(-hx, hx + 1):
                yy, xx = y + dy, x + dx
                if 0 <= yy < H and 0 <= xx < W and mask[yy, xx]:
                    reg[yy, xx] = True
    return reg


def conv_matrix(mask, kernel):
    """C[t, s] (t, s slim indices of the unmasked pixels, row-major): weight with which unmasked pixel s contributes to
    unmasked pixel t under conv(., kernel) -- the 'same linear operator' restricted to images living on the mask"""
    kernel = np.asarray(kernel, dtype=float)
    kh, kw = kernel.shape
    hy, hx = kh // 2, kw // 2
    pix = list(zip(*np.where(~mask)))
    n = len(pix)
    C = np.zeros((n, n))
    for t, (ty, tx) in enumerate(pix):
        for s, (sy, sx) in enumerate(pix):
            i, j = ty - sy + hy, tx - sx + hx
            if 0 <= i < kh and 0 <= j < kw:
                C[t, s] = kernel[i, j]
    return C


def footprint_inside(mask, kshape):
    hy, hx = kshape[0] // 2, kshape[1] // 2
    ys, xs = np.where(~mask)
    if ys.size == 0:
        return True
    return ys.min() >= hy and xs.min() >= hx and ys.max() < mask.shape[0] - hy and xs.max() < mask.shape[1] - hx


def close(a, b, scale=None, rtol=RTOL):
    a = np.asarray(a, dtype=float)
    b = np.asarray(b, dtype=float)
    if a.shape != b.shape:
        return False
    s = max(1.0, float(np.max(np.abs(b))) if b.size else 1.0) if scale is None else max(1.0, scale)
    return bool(np.all(np.abs(a - b) <= rtol * s))


def maxerr(a, b):
    a = np.asarray(a, dtype=float)
    b = np.asarray(b, dtype=float)
    return float(np.max(np.abs(a - b))) if a.size else 0.0


# ----------------------------------------------------------------------------------------------- generators

def embed(inner, kshape, extra=(0, 0, 0, 0)):
    """put an interior pattern (True = masked) into a frame padded by the kernel half-widths (+ extra t,b,l,r)"""
    hy, hx = kshape[0] // 2, kshape[1] // 2
    t, b, l, r = extra
    H = inner.shape[0] + 2 * hy + t + b
    W = inner.shape[1] + 2 * hx + l + r
    m = np.ones((H, W), dtype=bool)
    m[hy + t:hy + t + inner.shape[0], hx + l:hx + l + inner.shape[1]] = inner
    return m


def signed_kernel(rng, kshape, nonneg=False, special=True):
    k = np.empty(kshape)
    for idx in np.ndindex(*kshape):
        r = rng.random()
        if special and r < 0.12:
            k[idx] = 0.0
        elif special and r < 0.22:
            # small exact values, as in finite-difference kernels (Laplacian: -1 / 4, gradient: -1 / 1); -1 is also the value the
            # convolver pads its frame tables with
            k[idx] = rng.choice([1.0, 2.0, 0.5, 4.0]) if nonneg else rng.choice([-1.0, 1.0, -1.0, 2.0, -2.0, 0.5, 4.0])
        else:
            k[idx] = rng.uniform(0.05, 2.0) if nonneg else rng.uniform(-2.0, 2.0)
    if not k.any():
        k[kshape[0] // 2, kshape[1] // 2] = -1.5 if not nonneg else 1.5
    return k


def signed_image(rng, shape, lo=-5.0, hi=5.0):
    a = gens.reals(rng, shape, lo, hi, special=False)
    for idx in np.ndindex(*shape):
        if rng.random() < 0.1:
            a[idx] = 0.0
    return a


def random_inner(rng, hmax, wmax, p=None):
    while True:
        h, w = rng.randint(1, hmax), rng.randint(1, wmax)
        q = p if p is not None else rng.choice([0.2, 0.5, 0.7])
        m = np.array([[rng.random() < q for _ in range(w)] for _ in range(h)], dtype=bool)
        if (~m).any():
            return m


def mask_kernel_cases(rng, tier, n_random, inner_cells=4, hmax=3, wmax=3, stride=1):
    """(mask, kernel shape) pairs: EVERY interior pattern with <= inner_cells cells (holes / several components included)
    x EVERY odd kernel shape (1..5 per axis, independently), frame = interior padded by the half-widths (patterns outer
    loop, so a truncated run has still seen all 9 shapes); then seeded random larger interiors with 0..2 extra padding.
    stride > 1 keeps every stride-th (pattern, shape) pair (rotating) for the expensive checks."""
    odd = ODD if tier != "thorough" else ODD + (7,)
    kshapes = [(a, b) for a in odd for b in odd]
    inners = [m for m in gens.all_masks(gens.budget(tier, inner_cells, inner_cells + 2), min_unmasked=1)]
    rng.shuffle(inners)
    k = 0
    for inner in inners:
        for ks in kshapes:
            k += 1
            if k % stride == 0:
                yield embed(inner, ks), ks
    for _ in range(n_random):
        ks = (rng.choice(odd), rng.choice(odd))
        inner = random_inner(rng, hmax, wmax)
        extra = tuple(rng.choice([0, 0, 1, 2]) for _ in range(4))
        yield embed(inner, ks, extra), ks


def _gen_image(rng, tier):
    # one frame whose unmasked pixel count crosses 2^15 (index tables held in a narrow integer type wrap there); 3x3 kernel
    big = np.ones((184, 184), dtype=bool)
    big[1:-1, 1:-1] = False
    yield {"mask": big, "kernel": signed_kernel(rng, (3, 3)), "image": gens.reals(rng, big.shape, -5.0, 5.0, special=False),
           "junk": gens.reals(rng, big.shape, -1e6, 1e6, special=False)}
    # most discriminating first: asymmetric signed kernels, non-square, smallest frames
    for mask, ks in mask_kernel_cases(rng, tier, gens.budget(tier, 800, 6000)):
        image = signed_image(rng, mask.shape)
        r = rng.random()
        if r < 0.3:
            # a region whose values cancel EXACTLY without being zero: the blurring region (r < 0.15), the unmasked pixels, or both
            for region, on in ((blurring_region(mask, ks), r < 0.15 or r >= 0.25), (~mask, r >= 0.15)):
                if on and region.sum() >= 2:
                    image[region] = gens.cancelling(rng, int(region.sum()))
        yield {"mask": mask, "kernel": signed_kernel(rng, ks), "image": image,
               "junk": gens.reals(rng, mask.shape, -1e6, 1e6, special=False)}


def _nontrivial_image(mask, kernel, image, junk):
    return kernel.size > 1 and (kernel < 0).any() and (~mask).sum() >= 1


# ----------------------------------------------------------------------------------------------- helpers on the library

def _lib_objects(aa, mask, kernel):
    mk = aa.Mask2D(mask=mask.copy(), pixel_scales=1.0)
    kn = aa.Kernel2D.no_mask(values=kernel.copy(), pixel_scales=1.0)
    return mk, kn


# ----------------------------------------------------------------------------------------------- checks

@bounded("C03", "convolve-image-equals-full-convolution", gen=_gen_image, nontrivial=_nontrivial_image)
@guarded
def convolve_image_equals_full_convolution(mask, kernel, image, junk):
    """C03: 'Blurring a masked image together with its blurring-region image returns at every unmasked pixel exactly the
    value of the full two-dimensional convolution (flipped, centred kernel, zero outside the frame) of the combined native
    image with the PSF, for every odd-shaped kernel including non-square, asymmetric and signed ones; values outside the
    mask and its blurring region never influence the result' -- aa.Convolver(mask, kernel).convolve_image /
    convolve_image_no_blurring; bound: EVERY interior pattern with <= 4 (6) cells x ALL odd kernel shapes {1,3,5}^2 (thorough:
    {1,3,5,7}^2) with signed entries, frame = interior padded by the half-widths, + 800 (6000) random interiors <= 3x3 with
    0..2 extra padding per side."""
    import autoarray as aa
    assert footprint_inside(mask, kernel.shape)
    mk, kn = _lib_objects(aa, mask, kernel)
    conv = aa.Convolver(mask=mk, kernel=kn)
    breg = blurring_region(mask, kernel.shape)                      # independent blurring region
    lib_bmask = np.asarray(conv.blurring_mask)
    if not np.array_equal(~lib_bmask, breg):
        return "blurring mask is not {masked pixels within the kernel footprint of an unmasked pixel}: %r" % (lib_bmask,)
    bmk = aa.Mask2D(mask=lib_bmask.copy(), pixel_scales=1.0)
    inside = (~mask) | breg
    results = []
    for fill in (np.zeros(mask.shape), junk, -3.0 * junk + 1.0):   # values outside mask+blurring region vary
        native = np.where(inside, image, fill)
        im = aa.Array2D(values=native.copy(), mask=mk)
        bl = aa.Array2D(values=native.copy(), mask=bmk)
        results.append(np.asarray(conv.convolve_image(image=im, blurring_image=bl).slim, dtype=float))
    combined = np.where(inside, image, 0.0)
    want = conv_full(combined, kernel)[~mask]
    if not close(results[0], want):
        return "convolve_image != full convolution of native(image)+native(blurring image) at unmasked pixels: got %r want %r" % (
            results[0], want)
    if not (np.array_equal(results[0], results[1]) and np.array_equal(results[0], results[2])):
        return "values outside mask+blurring region influenced the result: %r / %r / %r" % tuple(results)
    # same operator without the blurring image
    only = np.where(~mask, image, 0.0)
    got_nb = np.asarray(conv.convolve_image_no_blurring(image=aa.Array2D(values=np.where(~mask, image, junk), mask=mk)).slim)
    want_nb = conv_full(only, kernel)[~mask]
    if not close(got_nb, want_nb):
        return "convolve_image_no_blurring != full convolution of native(image) at unmasked pixels: got %r want %r" % (got_nb, want_nb)
    return None


def _gen_basis(rng, tier):
    for mask, ks in mask_kernel_cases(rng, tier, gens.budget(tier, 300, 3000), inner_cells=4, hmax=2, wmax=3):
        yield {"mask": mask, "kernel": signed_kernel(rng, ks, special=False)}


@bounded("C03", "operator-extraction-on-basis-images", gen=_gen_basis,
         nontrivial=lambda mask, kernel: kernel.size > 1 and (~mask).sum() >= 1)
@guarded
def operator_extraction_on_basis_images(mask, kernel):
    """C03: '...returns at every unmasked pixel exactly the value of the full two-dimensional convolution ... of the combined
    native image with the PSF' -- the whole operator is extracted by blurring one unit image per pixel of mask+blurring
    region and compared entry by entry with the independent convolution matrix K[t - s + half]; bound: every interior pattern
    <= 4 (6) cells x all odd shapes {1,3,5}^2 (thorough +7), all kernel entries non-zero and signed, + 300 (3000) random
    interiors <= 2x3."""
    import autoarray as aa
    mk, kn = _lib_objects(aa, mask, kernel)
    conv = aa.Convolver(mask=mk, kernel=kn)
    breg = blurring_region(mask, kernel.shape)
    if not np.array_equal(~np.asarray(conv.blurring_mask), breg):
        return "blurring mask differs from the kernel footprint region"
    bmk = aa.Mask2D(mask=np.asarray(conv.blurring_mask).copy(), pixel_scales=1.0)
    kh, kw = kernel.shape
    hy, hx = kh // 2, kw // 2
    targets = list(zip(*np.where(~mask)))
    for sy, sx in zip(*np.where((~mask) | breg)):
        unit = np.zeros(mask.shape)
        unit[sy, sx] = 1.0
        got = np.asarray(conv.convolve_image(image=aa.Array2D(values=unit.copy(), mask=mk),
                                             blurring_image=aa.Array2D(values=unit.copy(), mask=bmk)).slim)
        want = np.zeros(len(targets))
        for t, (ty, tx) in enumerate(targets):
            i, j = ty - sy + hy, tx - sx + hx
            if 0 <= i < kh and 0 <= j < kw:
                want[t] = kernel[i, j]
        if not close(got, want):
            return "operator column for source pixel (%d,%d): got %r want %r" % (sy, sx, got, want)
    return None


def _gen_even(rng, tier):
    shapes = [(a, b) for a in range(1, 7) for b in range(1, 7) if a % 2 == 0 or b % 2 == 0]
    for ks in shapes:
        for _ in range(gens.budget(tier, 8, 60)):
            inner = random_inner(rng, 2, 2)
            pad = (ks[0] // 2 + 1, ks[1] // 2 + 1)
            m = np.ones((inner.shape[0] + 2 * pad[0], inner.shape[1] + 2 * pad[1]), dtype=bool)
            m[pad[0]:pad[0] + inner.shape[0], pad[1]:pad[1] + inner.shape[1]] = inner
            yield {"mask": m, "kernel": signed_kernel(rng, ks), "image": signed_image(rng, m.shape)}


@bounded("C03", "even-kernels-rejected", gen=_gen_even, nontrivial=lambda mask, kernel, image: True)
@guarded
def even_kernels_rejected(mask, kernel, image):
    """C03: 'even-sized kernels are rejected' -- aa.Convolver(mask, kernel) and Kernel2D.convolved_array_from /
    convolved_array_with_mask_from raise for every kernel shape with an even axis; bound: all 27 shapes in 1..6 x 1..6 with
    an even axis x 8 (60) masks with a margin of half+1 on every side (so the mask cannot be the reason for an exception)."""
    import autoarray as aa
    mk, kn = _lib_objects(aa, mask, kernel)
    try:
        aa.Convolver(mask=mk, kernel=kn)
    except Exception:
        pass
    else:
        return "Convolver accepted an even-sized kernel of shape %r" % (kernel.shape,)
    arr = aa.Array2D.no_mask(values=image.copy(), pixel_scales=1.0)
    try:
        kn.convolved_array_from(array=arr)
    except Exception:
        pass
    else:
        return "Kernel2D.convolved_array_from accepted an even-sized kernel of shape %r" % (kernel.shape,)
    try:
        kn.convolved_array_with_mask_from(array=arr.native, mask=mk)
    except Exception:
        pass
    else:
        return "Kernel2D.convolved_array_with_mask_from accepted an even-sized kernel of shape %r" % (kernel.shape,)
    return None


def random_matrix(rng, n, p, kind):
    """kind: 'signed' (negatives, zeros, fractions), 'nonneg' (zeros and positives), 'tiny' (positive entries 1e-6..1e-3 and zeros)"""
    m = np.zeros((n, p))
    for idx in np.ndindex(n, p):
        r = rng.random()
        if kind == "nonneg":
            m[idx] = 0.0 if r < 0.3 else rng.uniform(1e-4, 2.0)
        elif kind == "tiny":
            m[idx] = 0.0 if r < 0.2 else 10 ** rng.uniform(-6, -3)
        else:
            m[idx] = 0.0 if r < 0.2 else rng.uniform(-2.0, 2.0)
    return m


def _gen_matrix(kind):
    def gen(rng, tier):
        if kind == "signed":
            # minimal witnesses first: one pixel, 1x1 kernel, one negative entry
            yield {"mask": np.array([[False]]), "kernel": np.array([[2.0]]), "matrix": np.array([[-1.0]])}
            yield {"mask": embed(np.array([[False, False]]), (1, 3)), "kernel": np.array([[1.0, 2.0, 3.0]]),
                   "matrix": np.array([[1.0, -1.0], [-0.5, 0.0]])}
        for mask, ks in mask_kernel_cases(rng, tier, gens.budget(tier, 800, 6000)):
            n = int((~mask).sum())
            yield {"mask": mask, "kernel": signed_kernel(rng, ks), "matrix": random_matrix(rng, n, rng.randint(1, 3), kind)}
    return gen


def _matrix_check(mask, kernel, matrix):
    import autoarray as aa
    mk, kn = _lib_objects(aa, mask, kernel)
    conv = aa.Convolver(mask=mk, kernel=kn)
    before = matrix.copy()
    got = np.asarray(conv.convolve_mapping_matrix(mapping_matrix=matrix))
    if not np.array_equal(matrix, before):
        return "convolve_mapping_matrix mutated its input"
    # the same linear operator applied to each column: embed the column on the mask, convolve the frame, read the mask
    want = np.zeros(matrix.shape)
    for c in range(matrix.shape[1]):
        native = np.zeros(mask.shape)
        native[~mask] = matrix[:, c]
        want[:, c] = conv_full(native, kernel)[~mask]
    if not close(got, want):
        return "blurred mapping matrix != operator applied column by column (max err %.3g): got %r want %r" % (
            maxerr(got, want), got, want)
    # and it is the operator of convolve_image_no_blurring
    for c in range(matrix.shape[1]):
        col = np.asarray(conv.convolve_image_no_blurring(image=aa.Array2D(values=matrix[:, c].copy(), mask=mk)).slim)
        if not close(got[:, c], col):
            return "column %d of the blurred matrix != convolve_image_no_blurring of that column: %r vs %r" % (c, got[:, c], col)
    return None


@bounded("C03", "convolve-mapping-matrix-signed", gen=_gen_matrix("signed"),
         nontrivial=lambda mask, kernel, matrix: (matrix < 0).any())
@guarded
def convolve_mapping_matrix_signed(mask, kernel, matrix):
    """C03: 'Blurring a mapping matrix equals applying that same linear operator to each column, for every real-valued
    matrix' (any sign, any sparsity) -- Convolver.convolve_mapping_matrix on matrices with negative, zero and fractional
    entries; bound: two minimal witnesses, then every interior pattern <= 4 (6) cells x all odd shapes {1,3,5}^2 (thorough +7),
    signed kernels, + 800 (6000) random interiors <= 3x3, 1..3 columns."""
    return _matrix_check(mask, kernel, matrix)


@bounded("C03", "convolve-mapping-matrix-nonnegative", gen=_gen_matrix("nonneg"),
         nontrivial=lambda mask, kernel, matrix: (matrix > 0).any())
@guarded
def convolve_mapping_matrix_nonnegative(mask, kernel, matrix):
    """C03: 'Blurring a mapping matrix equals applying that same linear operator to each column' -- the non-negative
    sub-domain (zeros and positive fractions down to 1e-4), signed kernels; same bound as the signed check."""
    return _matrix_check(mask, kernel, matrix)


@bounded("C03", "convolve-mapping-matrix-tiny-entries", gen=_gen_matrix("tiny"),
         nontrivial=lambda mask, kernel, matrix: (matrix != 0).any())
@guarded
def convolve_mapping_matrix_tiny_entries(mask, kernel, matrix):
    """C03: '...for every real-valued matrix (any sign, any sparsity)' -- entries of magnitude 1e-6..1e-3 (a sparsity
    threshold on the entry value would drop them), compared with an absolute tolerance scaled to the expected result."""
    import autoarray as aa
    mk, kn = _lib_objects(aa, mask, kernel)
    conv = aa.Convolver(mask=mk, kernel=kn)
    got = np.asarray(conv.convolve_mapping_matrix(mapping_matrix=matrix.copy()))
    want = conv_matrix(mask, kernel) @ matrix
    tol = 1e-9 * max(float(np.max(np.abs(want))), 1e-300)
    if got.shape != want.shape or not np.all(np.abs(got - want) <= tol):
        return "blurred mapping matrix != C @ M for small entries (max err %.3g, scale %.3g): got %r want %r" % (
            maxerr(got, want), float(np.max(np.abs(want))), got, want)
    return None


def _gen_scipy(rng, tier):
    for mask, ks in mask_kernel_cases(rng, tier, gens.budget(tier, 800, 6000)):
        yield {"mask": mask, "kernel": signed_kernel(rng, ks), "image": signed_image(rng, mask.shape)}


@bounded("C03", "whole-frame-kernel-convolution-agrees", gen=_gen_scipy,
         nontrivial=lambda mask, kernel, image: kernel.size > 1)
@guarded
def whole_frame_kernel_convolution_agrees(mask, kernel, image):
    """C03: 'The whole-frame kernel convolution used to simulate data agrees with it at every pixel where both are defined'
    -- Kernel2D.convolved_array_from(whole frame) and convolved_array_with_mask_from at the unmasked pixels of a mask whose
    footprint is inside the frame == Convolver.convolve_image(image, blurring image) == the direct-sum oracle; bound as in
    convolve-image-equals-full-convolution."""
    import autoarray as aa
    mk, kn = _lib_objects(aa, mask, kernel)
    conv = aa.Convolver(mask=mk, kernel=kn)
    bmk = aa.Mask2D(mask=np.asarray(conv.blurring_mask).copy(), pixel_scales=1.0)
    inside = (~mask) | (~np.asarray(conv.blurring_mask))
    img = np.where(inside, image, 0.0)          # image supported on mask + blurring region: both operators see all of it
    whole = kn.convolved_array_from(array=aa.Array2D.no_mask(values=img.copy(), pixel_scales=1.0))
    got_whole = np.asarray(whole.native)[~mask]
    got_conv = np.asarray(conv.convolve_image(image=aa.Array2D(values=img.copy(), mask=mk),
                                              blurring_image=aa.Array2D(values=img.copy(), mask=bmk)).slim)
    if not close(got_whole, got_conv):
        return "Kernel2D.convolved_array_from and Convolver.convolve_image disagree on the mask: %r vs %r" % (got_whole, got_conv)
    got_wm = np.asarray(kn.convolved_array_with_mask_from(array=aa.Array2D.no_mask(values=img.copy(), pixel_scales=1.0).native,
                                                          mask=mk).slim)
    if not close(got_wm, got_conv):
        return "Kernel2D.convolved_array_with_mask_from and Convolver.convolve_image disagree: %r vs %r" % (got_wm, got_conv)
    want = conv_full(img, kernel)[~mask]
    if not close(got_whole, want):
        return "whole-frame convolution != direct-sum convolution on the mask: %r vs %r" % (got_whole, want)
    # an image with support anywhere in the frame: the whole-frame result on the mask still only depends on mask+blurring
    whole2 = kn.convolved_array_from(array=aa.Array2D.no_mask(values=image.copy(), pixel_scales=1.0))
    if not close(np.asarray(whole2.native)[~mask], want):
        return "whole-frame convolution on the mask depends on pixels outside mask + blurring region"
    return None


def _gen_sim(rng, tier):
    first = True
    for mask, ks in mask_kernel_cases(rng, tier, gens.budget(tier, 800, 6000)):
        signed = (not first) and rng.random() < 0.6
        first = False
        if signed:
            while True:
                k = signed_kernel(rng, ks)
                if abs(k.sum()) > 0.3:
                    break
            k = k / k.sum()
            image = signed_image(rng, mask.shape)
            sky = float(np.ceil(np.abs(k).sum() * np.abs(image).max() * 1.5 + 1.0))   # keeps image + sky > 0
        else:
            k = signed_kernel(rng, ks, nonneg=True)
            k = k / k.sum()
            image = np.abs(signed_image(rng, mask.shape))
            sky = 0.0
        yield {"mask": mask, "kernel": k, "image": image, "sky": sky, "normalize_psf": bool(rng.getrandbits(1)),
               "exposure_time": float(rng.choice([1.0, 300.0, 2000.5]))}


@bounded("C03", "noise-free-simulation-zero-residual", gen=_gen_sim,
         nontrivial=lambda mask, kernel, image, sky, normalize_psf, exposure_time: kernel.size > 1)
@guarded
def noise_free_simulation_zero_residual(mask, kernel, image, sky, normalize_psf, exposure_time):
    """C03: '...so a noise-free simulated image is fitted with zero residual by the image that generated it' --
    SimulatorImaging(noise off).via_image_from(image) -> apply_mask(mask) -> dataset.convolver.convolve_image(image on the
    mask, image on the blurring mask) == dataset.data; kernels sum to 1 (so the library's PSF normalisation is a no-op),
    non-negative and signed (signed ones with a background sky that is added and subtracted again so the Poisson stage sees
    positive counts); bound: every interior pattern <= 4 (6) cells x all odd shapes {1,3,5}^2 (thorough +7) + 800 (6000) random
    interiors <= 3x3 with 0..2 extra padding; normalize_psf on/off, 3 exposure times."""
    import autoarray as aa
    mk, kn = _lib_objects(aa, mask, kernel)
    sim = aa.SimulatorImaging(exposure_time=exposure_time, background_sky_level=sky, subtract_background_sky=True, psf=kn,
                              normalize_psf=normalize_psf, add_poisson_noise_to_data=False,
                              include_poisson_noise_in_noise_map=False, noise_if_add_noise_false=0.25, noise_seed=1)
    ds = sim.via_image_from(image=aa.Array2D.no_mask(values=image.copy(), pixel_scales=1.0))
    masked = ds.apply_mask(mask=mk)
    conv = masked.convolver
    bmk = aa.Mask2D(mask=np.asarray(conv.blurring_mask).copy(), pixel_scales=1.0)
    model = np.asarray(conv.convolve_image(image=aa.Array2D(values=image.copy(), mask=mk),
                                           blurring_image=aa.Array2D(values=image.copy(), mask=bmk)).slim)
    data = np.asarray(masked.data.slim)
    scale = sky + float(np.abs(kernel).sum() * np.abs(image).max())
    if not close(data, model, scale=scale):
        return "residual of the generating image is not zero: data %r model %r (max %.3g)" % (data, model, maxerr(data, model))
    want = conv_full(image, kernel)[~mask]
    if not close(data, want, scale=scale):
        return "simulated data != direct-sum convolution of the generating image on the mask: %r vs %r" % (data, want)
    return None


# ----------------------------------------------------------------------------------------------- one convolver, many inputs

@bounded("C03", "one-convolver-many-inputs", gen=_gen_matrix("signed"), nontrivial=lambda mask, kernel, matrix: matrix.shape[0] >= 2)
@guarded
def one_convolver_many_inputs(mask, kernel, matrix):
    """C03: 'Blurring a masked image ... returns at every unmasked pixel exactly the value of the full two-dimensional
    convolution ... Blurring a mapping matrix equals applying that same linear operator to each column, for every real-valued
    matrix' -- for every input, whatever the SAME Convolver blurred before: one Convolver is given, one after the other, a
    matrix, its column-reversed and row-rolled versions, a matrix with the same row sums and total, then the first again; and
    images (unmasked part = a column, blurring part = that column's mean with alternating sign so that it sums to zero) in the
    same way.  Every result against the full convolution of THAT input; bound: as convolve-mapping-matrix-signed."""
    import autoarray as aa
    mk, kn = _lib_objects(aa, mask, kernel)
    conv = aa.Convolver(mask=mk, kernel=kn)
    mats = [matrix, matrix[:, ::-1].copy(), np.roll(matrix, 1, axis=0)]
    if matrix.shape[1] >= 2:
        t = matrix.copy()
        t[:, 0], t[:, 1] = matrix[:, 0] + 0.25, matrix[:, 1] - 0.25
        mats.append(t)
    mats.append(matrix)
    for k, M in enumerate(mats):
        got = np.asarray(conv.convolve_mapping_matrix(mapping_matrix=M.copy()))
        want = np.zeros(M.shape)
        for c in range(M.shape[1]):
            native = np.zeros(mask.shape)
            native[~mask] = M[:, c]
            want[:, c] = conv_full(native, kernel)[~mask]
        if not close(got, want):
            return "call %d of convolve_mapping_matrix on one Convolver != operator applied to THIS matrix (max err %.3g)" % (k + 1, maxerr(got, want))
    # the same array OBJECT refilled in place between two calls (a work array, `M *= c`): the second call is about its new content
    W_ = matrix.copy()
    conv.convolve_mapping_matrix(mapping_matrix=W_)
    W_ *= -0.5
    W_[0, 0] += 1.0
    got = np.asarray(conv.convolve_mapping_matrix(mapping_matrix=W_))
    want = np.zeros(W_.shape)
    for c in range(W_.shape[1]):
        native = np.zeros(mask.shape)
        native[~mask] = W_[:, c]
        want[:, c] = conv_full(native, kernel)[~mask]
    if not close(got, want):
        return "convolve_mapping_matrix called again with the same array object after it was refilled in place returns the blurring of its OLD content (max err %.3g)" % maxerr(got, want)
    breg = blurring_region(mask, kernel.shape)
    bmk = aa.Mask2D(mask=~breg, pixel_scales=1.0)
    nb = int(breg.sum())
    cols = [mats[0][:, 0], mats[2][:, 0], mats[0][::-1, 0].copy(), mats[0][:, 0]]
    for k, col in enumerate(cols):
        native = np.zeros(mask.shape)
        native[~mask] = col
        if nb:
            native[breg] = (1.0 + abs(float(col.mean()))) * np.array([(-1.0) ** (i + k) for i in range(nb)])
        got = np.asarray(conv.convolve_image(image=aa.Array2D(values=native.copy(), mask=mk),
                                             blurring_image=aa.Array2D(values=native.copy(), mask=bmk)).slim, dtype=float)
        want = conv_full(native, kernel)[~mask]
        if not close(got, want):
            return "call %d of convolve_image on one Convolver != full convolution of THIS image: got %r want %r" % (k + 1, got, want)
    return None
