"""C18 border relocation: grid_2d_util.relocated_grid_via_jit_from, BorderRelocator, sub_border_pixel_slim_indexes_from,
mesh entry points (bounded stand-in; see docs/BOUNDED_GUIDE.md).

Oracle conventions (written from the statement, not from the code):
* relocation rule: centroid c = mean of the border points; r(p) = |p - c|; r_min / r_max = smallest / largest border
  radius.  r(p) <= r_min  =>  output bit-for-bit p.  Otherwise with b the border point nearest to p: if r(b) < r(p) the
  output is c + (r(b)/r(p)) (p - c), else p.  Where two border points are equally near (or r(p) is within 1e-9 of r_min /
  r(b)) every outcome the rule allows for any of the tied choices is accepted, so floating-point ties never alarm.
* sub-pixel (a,b) of an unmasked pixel (i,j) with sub-size s sits, in pixel units, at (i + (a+.5)/s - .5, j + (b+.5)/s - .5);
  sub-pixels are numbered pixel by pixel in slim (row-major) order and row-major inside a pixel.
* which pixels are border pixels is C10's business: for masks whose outer ring is masked the C10 definition is evaluated
  here independently; for masks with unmasked pixels on the outer ring (where C10 has a known finding) the library's own
  border pixel list is taken as given, and the input is skipped if that list is not a duplicate-free list of valid slim
  indices."""
import math
import itertools
import numpy as np
from pyvc.bounded import bounded
from pyvc import gens


# ----------------------------------------------------------------------------------------------- oracles

def _relocation_violation(points, border, out):
    points, border, out = np.asarray(points, float), np.asarray(border, float), np.asarray(out, float)
    if out.shape != points.shape:
        return "number of coordinates changed: %r -> %r" % (points.shape, out.shape)
    c = border.mean(axis=0)
    rb = np.hypot(border[:, 0] - c[0], border[:, 1] - c[1])
    rmin, rmax = rb.min(), rb.max()
    scale = max(1.0, float(np.abs(points).max()) if points.size else 0.0, float(np.abs(border).max()))
    eps = 1e-9 * scale
    for i in range(points.shape[0]):
        p, o = points[i], out[i]
        r = math.hypot(p[0] - c[0], p[1] - c[1])
        if r <= rmin - eps:
            if not np.array_equal(o, p):
                return "point %d %r (radius %.6g <= smallest border radius %.6g) changed to %r" % (i, p, r, rmin, o)
            continue
        d = np.hypot(border[:, 0] - p[0], border[:, 1] - p[1])
        cand = np.nonzero(d <= d.min() + eps)[0]
        allowed = []
        if r <= rmin + eps or np.any(rb[cand] >= r - eps):
            allowed.append(p)
        if r > 0.0:
            for j in cand:
                if rb[j] < r + eps:
                    allowed.append(c + (rb[j] / r) * (p - c))
        if not any(np.abs(o - a).max() <= eps for a in allowed):
            return ("point %d %r (radius %.9g, smallest border radius %.9g, nearest border point(s) %r with radius %r) "
                    "went to %r; allowed: %r" % (i, p, r, rmin, border[cand].tolist(), rb[cand].tolist(), o, [a.tolist() for a in allowed]))
        ro = math.hypot(o[0] - c[0], o[1] - c[1])
        if ro > r + eps:
            return "point %d moved outward: radius %.9g -> %.9g" % (i, r, ro)
        if ro > rmax + eps:
            return "point %d ends at radius %.9g beyond the farthest border point (%.9g)" % (i, ro, rmax)
    return None


def _border_pixels_c10(mask):
    """slim indices of the border pixels per the C10 statement (used only when the outer ring is masked)"""
    h, w = mask.shape
    slim = {}
    for i in range(h):
        for j in range(w):
            if not mask[i, j]:
                slim[(i, j)] = len(slim)
    out = []
    for (i, j), k in slim.items():
        edge = any(mask[a, b] for a in range(max(i - 1, 0), min(i + 2, h)) for b in range(max(j - 1, 0), min(j + 2, w))
                   if (a, b) != (i, j))
        if not edge:
            continue
        if mask[:i, j].all() or mask[i + 1:, j].all() or mask[i, :j].all() or mask[i, j + 1:].all():
            out.append(k)
    return out


def _ring_masked(mask):
    return bool(mask[0, :].all() and mask[-1, :].all() and mask[:, 0].all() and mask[:, -1].all())


def _border_pixels(mask):
    """border pixel slim indices, or None when the input is to be skipped (see module docstring)"""
    if _ring_masked(mask):
        return _border_pixels_c10(mask)
    from autoarray.mask import mask_2d_util
    try:
        lib = np.asarray(mask_2d_util.border_slim_indexes_from(mask_2d=mask.copy()))
    except Exception:
        return None
    n = int((~mask).sum())
    ints = lib.astype(int)
    if lib.size == 0 or np.any(ints != lib) or np.any(ints < 0) or np.any(ints >= n) or len(set(ints.tolist())) != lib.size:
        return None
    return ints.tolist()


def _sub_layout(mask, sub):
    """per unmasked pixel (slim order): (i, j, s, first sub-slim index)"""
    out, k, off = [], 0, 0
    for i in range(mask.shape[0]):
        for j in range(mask.shape[1]):
            if not mask[i, j]:
                s = int(sub[k])
                out.append((i, j, s, off))
                off += s * s
                k += 1
    return out, off


def _sub_border_candidates(mask, sub, border):
    """for each border pixel: the set of sub-slim indices farthest (pixel units, 1e-9 band) from the centre of the bounding
    box of the unmasked region"""
    layout, _ = _sub_layout(mask, sub)
    ii, jj = np.nonzero(~mask)
    cy, cx = (ii.min() + ii.max()) / 2.0, (jj.min() + jj.max()) / 2.0
    out = []
    for k in border:
        i, j, s, off = layout[k]
        dist = {}
        for a in range(s):
            for b in range(s):
                y, x = i + (a + 0.5) / s - 0.5, j + (b + 0.5) / s - 0.5
                dist[off + a * s + b] = math.hypot(y - cy, x - cx)
        dmax = max(dist.values())
        out.append(sorted(t for t, dd in dist.items() if dd >= dmax - 1e-9))
    return out


def _sub_scaled(mask, sub, pixel_scales, origin):
    """scaled (y,x) of every sub-pixel in sub-slim order"""
    h, w = mask.shape
    layout, n = _sub_layout(mask, sub)
    g = np.zeros((n, 2))
    for (i, j, s, off) in layout:
        for a in range(s):
            for b in range(s):
                g[off + a * s + b, 0] = origin[0] + ((h - 1) / 2.0 - (i + (a + 0.5) / s - 0.5)) * pixel_scales[0]
                g[off + a * s + b, 1] = origin[1] + ((j + (b + 0.5) / s - 0.5) - (w - 1) / 2.0) * pixel_scales[1]
    return g


# ----------------------------------------------------------------------------------------------- generators

def _border_set(rng):
    kind = rng.choice(["star", "cluster", "tiny", "square", "dupes"])
    cy, cx = rng.uniform(-3, 3), rng.uniform(-3, 3)
    if kind == "tiny":
        n = rng.randint(1, 3)
        return np.array([[cy + rng.uniform(-2, 2), cx + rng.uniform(-2, 2)] for _ in range(n)])
    if kind == "square":
        pts = [[cy + a, cx + b] for a in (-1.0, 0.0, 1.0) for b in (-1.0, 0.0, 1.0) if (a, b) != (0.0, 0.0)]
        return np.array(pts)
    n = rng.randint(4, 12)
    pts = []
    for k in range(n):
        th = 2 * math.pi * k / n + rng.uniform(-0.2, 0.2)
        rad = rng.uniform(0.4, 3.0) if kind != "square" else 2.0        # non-convex star
        pts.append([cy + rad * math.sin(th), cx + rad * math.cos(th)])
    if kind == "cluster":                                                 # many points on one side => off-centre centroid
        for _ in range(rng.randint(3, 8)):
            pts.append([cy + 2.5 + rng.uniform(-0.2, 0.2), cx + 2.5 + rng.uniform(-0.2, 0.2)])
    if kind == "dupes":
        pts.append(list(pts[0]))
        pts.append(list(pts[2]))
    return np.array(pts)


def _point_set(rng, border, n):
    c = border.mean(axis=0)
    pts = []
    for _ in range(n):
        r = rng.random()
        if r < 0.2:
            pts.append(list(border[rng.randrange(len(border))]))                       # exactly at a border point
        elif r < 0.3:
            pts.append([c[0] + rng.uniform(-300, 300), c[1] + rng.uniform(-300, 300)])  # far outside
        elif r < 0.35:
            pts.append([c[0], c[1]])                                                    # the centroid itself
        elif r < 0.6:
            pts.append([c[0] + rng.uniform(-0.5, 0.5), c[1] + rng.uniform(-0.5, 0.5)])  # deep inside
        else:
            pts.append([c[0] + rng.uniform(-5, 5), c[1] + rng.uniform(-5, 5)])
    return np.array(pts).reshape(-1, 2)


def _gen_util(rng, tier):
    for _ in range(gens.budget(tier, 3000, 60000)):
        border = _border_set(rng)
        yield {"border_grid": border, "grid": _point_set(rng, border, rng.randint(1, 12))}


def _masks(rng, tier):
    """masks <= 5x5 with at least one unmasked pixel: every ring-masked mask of the nine shapes 3x3..5x5, then seeded
    ones (40% with unmasked pixels on the outer ring)"""
    for (h, w) in [(3, 3), (3, 4), (4, 3), (4, 4), (3, 5), (5, 3), (4, 5), (5, 4), (5, 5)]:
        n = (h - 2) * (w - 2)
        for bits in range(1, 2 ** n):
            m = np.ones((h, w), dtype=bool)
            m[1:-1, 1:-1] = ~np.array([(bits >> t) & 1 for t in range(n)], dtype=bool).reshape(h - 2, w - 2)
            yield m
    for _ in range(gens.budget(tier, 200, 5000)):
        ring = rng.random() < 0.6
        yield gens.random_mask(rng, 5, 5, min_unmasked=1, hmin=3 if ring else 1, wmin=3 if ring else 1, ring=ring)


def _sub_for(rng, mask):
    n = int((~mask).sum())
    if rng.random() < 0.5:
        return np.full(n, rng.randint(1, 3), dtype=int)
    return np.array([rng.randint(1, 3) for _ in range(n)], dtype=int)


def _gen_sub(rng, tier):
    for m in _masks(rng, tier):
        yield {"mask": m, "sub_size": _sub_for(rng, m), "pixel_scales": rng.choice([(1.0, 1.0), (0.5, 2.0), (0.1, 0.1)]),
               "origin": rng.choice([(0.0, 0.0), (1.0, -3.0)])}


def _source_plane(rng, mask, sub, pixel_scales, origin):
    """a distorted copy of the over-sampled image-plane grid (any distortion), some points thrown far outside"""
    g = _sub_scaled(mask, sub, pixel_scales, origin)
    mode = rng.choice(["identity", "affine", "random", "fold"])
    if mode == "affine":
        a = np.array([[rng.uniform(-2, 2), rng.uniform(-2, 2)], [rng.uniform(-2, 2), rng.uniform(-2, 2)]])
        g = g @ a + np.array([rng.uniform(-3, 3), rng.uniform(-3, 3)])
    elif mode == "random":
        g = gens.reals(rng, g.shape, -5.0, 5.0, special=False)
    elif mode == "fold":
        g = np.abs(g) * rng.uniform(0.2, 2.0)
    for t in range(g.shape[0]):
        r = rng.random()
        if r < 0.1:
            g[t] = g[t] * rng.uniform(20, 500) + rng.uniform(-50, 50)
        elif r < 0.2:
            g[t] = g[rng.randrange(g.shape[0])]
    return g


def _large_masks():
    """one or two cases far beyond the small domain (nothing in the statement depends on the size of the border): a thin
    annulus and a disc whose borders have > 200 pixels"""
    n = 90
    yy, xx = np.mgrid[0:n, 0:n]
    r = np.hypot(yy - (n - 1) / 2.0, xx - (n - 1) / 2.0)
    yield ~((r > 37.5) & (r <= 40.0))
    yield ~(r <= 36.2)


def _gen_reloc(rng, tier):
    for m in itertools.chain(list(_large_masks())[:1 if tier != "thorough" else 2], _masks(rng, tier)):
        sub = _sub_for(rng, m) if m.shape[0] <= 5 else np.ones(int((~m).sum()), dtype=int)
        ps = rng.choice([(1.0, 1.0), (0.5, 2.0), (0.1, 0.1)])
        origin = rng.choice([(0.0, 0.0), (1.0, -3.0)])
        g1 = _source_plane(rng, m, sub, ps, origin)
        g2 = _source_plane(rng, m, sub, ps, origin)
        nmesh = rng.randint(1, 9)
        mesh = gens.reals(rng, (nmesh, 2), -6.0, 6.0, special=False)
        for t in range(nmesh):
            r = rng.random()
            if r < 0.2:
                mesh[t] = g1[rng.randrange(g1.shape[0])]
            elif r < 0.35:
                mesh[t] *= 50.0
        yield {"mask": m, "sub_size": sub, "pixel_scales": ps, "origin": origin, "grid": g1, "grid2": g2, "mesh_grid": mesh,
               "sub_as_int": bool(len(set(sub.tolist())) == 1 and rng.random() < 0.7)}


# ----------------------------------------------------------------------------------------------- checks

@bounded("C18", "relocate-util", gen=_gen_util,
         nontrivial=lambda grid, border_grid: border_grid.shape[0] >= 3 and grid.shape[0] >= 2)
def relocate_util(grid, border_grid):
    """C18: 'leaves every coordinate whose distance from the border centroid does not exceed the smallest border radius
    bit-for-bit unchanged, and moves any other coordinate only along its ray from the centroid, never outward, to the
    radius of its nearest border point when that is smaller than its own. No output lies farther from the centroid than
    the farthest border point, and the number and order of coordinates are preserved' --
    grid_2d_util.relocated_grid_via_jit_from on arbitrary border point sets (non-convex stars, off-centre clusters,
    1-3 points, duplicates) and points incl. exact border points, the centroid, far outliers; inputs not modified;
    bound: <= 22 border points, <= 12 points."""
    from autoarray.structures.grids import grid_2d_util
    g, b = grid.copy(), border_grid.copy()
    out = grid_2d_util.relocated_grid_via_jit_from(grid=g, border_grid=b)
    if not np.array_equal(g, grid) or not np.array_equal(b, border_grid):
        return "inputs were modified"
    return _relocation_violation(grid, border_grid, out)


@bounded("C18", "sub-border-indexes", gen=_gen_sub,
         nontrivial=lambda mask, sub_size, pixel_scales, origin: int(sub_size.max()) > 1 and int((~mask).sum()) > 1)
def sub_border_indexes(mask, sub_size, pixel_scales, origin):
    """C18: 'The sub-pixel border indices select, for each border pixel of the mask, the sub-pixel of that pixel that is
    farthest, measured in pixel units, from the centre of the bounding box of the unmasked region' --
    border_relocator.sub_border_pixel_slim_indexes_from, BorderRelocator.sub_border_slim (int and per-pixel sub-size map)
    and .sub_border_grid (coordinates of exactly those sub-pixels, anisotropic scales, non-zero origin); exact distance
    ties accept any tied sub-pixel; bound: all ring-masked masks <= 5x5 + seeded masks <= 5x5, sub sizes 1..3."""
    import autoarray as aa
    from autoarray.inversion.pixelization import border_relocator as br
    border = _border_pixels(mask)
    if not border:
        return None
    cands = _sub_border_candidates(mask, sub_size, border)
    got = np.asarray(br.sub_border_pixel_slim_indexes_from(mask_2d=mask.copy(), sub_size=sub_size.copy()))
    if got.shape != (len(border),):
        return "expected one sub-pixel index per border pixel (%d), got shape %r" % (len(border), got.shape)
    for k, (g, c) in enumerate(zip(got, cands)):
        if int(g) != g or int(g) not in c:
            return "border pixel (slim %d): selected sub-pixel %r, farthest sub-pixel(s) from the bounding-box centre: %r" % (
                border[k], g, c)
    mk = aa.Mask2D(mask=mask.copy(), pixel_scales=pixel_scales, origin=origin)
    sub_arr = aa.Array2D(values=sub_size.astype(float), mask=mk)
    variants = [("map", aa.Array2D(values=sub_size.copy(), mask=mk))]
    if len(set(sub_size.tolist())) == 1:
        variants.append(("int", int(sub_size[0])))
    scaled = _sub_scaled(mask, sub_size, pixel_scales, origin)
    for label, ss in variants:
        rel = br.BorderRelocator(mask=mk, sub_size=ss)
        idx = np.asarray(rel.sub_border_slim)
        if idx.shape != (len(border),) or any(int(g) not in c for g, c in zip(idx, cands)):
            return "BorderRelocator(sub_size=%s).sub_border_slim = %r, allowed per border pixel: %r" % (label, idx, cands)
        sbg = np.asarray(rel.sub_border_grid)
        if sbg.shape != (len(border), 2) or not np.allclose(sbg, scaled[idx.astype(int)], rtol=1e-9, atol=1e-9):
            return "sub_border_grid is not the coordinates of the selected sub-pixels: %r vs %r" % (sbg, scaled[idx.astype(int)])
    return None


def _relocator(mask, sub_size, pixel_scales, origin, sub_as_int):
    import autoarray as aa
    from autoarray.inversion.pixelization.border_relocator import BorderRelocator
    mk = aa.Mask2D(mask=mask.copy(), pixel_scales=pixel_scales, origin=origin)
    ss = int(sub_size[0]) if sub_as_int else aa.Array2D(values=sub_size.copy(), mask=mk)
    return aa, BorderRelocator(mask=mk, sub_size=ss)


def _border_of(mask, sub_size, grid):
    """coordinates of the data grid's border points, one acceptable choice per exact tie: list of index tuples"""
    border = _border_pixels(mask)
    if not border:
        return None
    return _sub_border_candidates(mask, sub_size, border)


def _check_with_ties(points, grid, cands, out, lib_idx):
    """relocation rule with the border taken from `grid` at the sub-border indices; where the farthest sub-pixel is an
    exact tie the library's choice (validated to be one of the tied candidates) fixes the border"""
    lib_idx = [int(t) for t in np.asarray(lib_idx)]
    if len(lib_idx) != len(cands) or any(t not in c for t, c in zip(lib_idx, cands)):
        return "sub-border indices %r are not the farthest sub-pixels %r" % (lib_idx, cands)
    return _relocation_violation(points, grid[lib_idx], out)


@bounded("C18", "relocator-data-grid", gen=_gen_reloc,
         nontrivial=lambda mask, sub_size, pixel_scales, origin, grid, grid2, mesh_grid, sub_as_int: int((~mask).sum()) > 2)
def relocator_data_grid(mask, sub_size, pixel_scales, origin, grid, grid2, mesh_grid, sub_as_int):
    """C18: 'Relocating source-plane coordinates against a border leaves every coordinate [within] the smallest border
    radius bit-for-bit unchanged, and moves any other coordinate only along its ray from the centroid, never outward, to
    the radius of its nearest border point when that is smaller than its own ... number and order of coordinates are
    preserved' -- BorderRelocator.relocated_grid_from and mesh.relocated_grid_from(border_relocator, grid) on two
    different distorted over-sampled grids in succession (the border is the CURRENT grid at the sub-border indices: cached
    indices must not carry grid-dependent state); bound: masks <= 5x5, sub sizes 1..3, <= 225 points."""
    cands = _border_of(mask, sub_size, grid)
    if cands is None:
        return None
    aa, rel = _relocator(mask, sub_size, pixel_scales, origin, sub_as_int)
    for label, g in (("first grid", grid), ("second grid", grid2)):
        if label == "second grid" and int(mask.sum()) % 2 == 0:
            # a call that does not fit the relocator in between (one coordinate per PIXEL where it has sub-pixels: an error, or a result
            # nobody looks at) -- it must not change what the relocator does for the proper grid afterwards
            try:
                rel.relocated_grid_from(grid=aa.Grid2DIrregular(values=g[: int((~mask).sum())].copy()))
            except Exception:
                pass
            label = "second grid (after a call with one coordinate per pixel)"
        arg = aa.Grid2DIrregular(values=g.copy())
        out = rel.relocated_grid_from(grid=arg)
        if not np.array_equal(np.asarray(arg), g):
            return "%s: input grid modified" % label
        msg = _check_with_ties(g, g, cands, np.asarray(out), rel.sub_border_slim)
        if msg:
            return "%s: %s" % (label, msg)
    out = aa.mesh.Delaunay().relocated_grid_from(border_relocator=rel, source_plane_data_grid=aa.Grid2DIrregular(values=grid.copy()))
    msg = _check_with_ties(grid, grid, cands, np.asarray(out), rel.sub_border_slim)
    if msg:
        return "mesh.relocated_grid_from: " + msg
    return None


@bounded("C18", "relocator-mesh-grid", gen=_gen_reloc,
         nontrivial=lambda mask, sub_size, pixel_scales, origin, grid, grid2, mesh_grid, sub_as_int: int((~mask).sum()) > 2)
def relocator_mesh_grid(mask, sub_size, pixel_scales, origin, grid, grid2, mesh_grid, sub_as_int):
    """C18: 'the same rule applied to mesh vertices uses the border of the data grid' --
    BorderRelocator.relocated_mesh_grid_from(grid, mesh_grid) and mesh.relocated_mesh_grid_from(border_relocator,
    source_plane_data_grid, source_plane_mesh_grid): the mesh vertices are relocated against data_grid[sub-border indices]
    (not against their own extent), count and order preserved, inputs untouched; bound: masks <= 5x5, <= 9 vertices."""
    cands = _border_of(mask, sub_size, grid)
    if cands is None:
        return None
    aa, rel = _relocator(mask, sub_size, pixel_scales, origin, sub_as_int)
    for label, g in (("first data grid", grid), ("second data grid", grid2)):
        darg, marg = aa.Grid2DIrregular(values=g.copy()), aa.Grid2DIrregular(values=mesh_grid.copy())
        out = rel.relocated_mesh_grid_from(grid=darg, mesh_grid=marg)
        if not np.array_equal(np.asarray(darg), g) or not np.array_equal(np.asarray(marg), mesh_grid):
            return "%s: inputs modified" % label
        msg = _check_with_ties(mesh_grid, g, cands, np.asarray(out), rel.sub_border_slim)
        if msg:
            return "%s: %s" % (label, msg)
    out = aa.mesh.Delaunay().relocated_mesh_grid_from(
        border_relocator=rel, source_plane_data_grid=aa.Grid2DIrregular(values=grid.copy()),
        source_plane_mesh_grid=aa.Grid2DIrregular(values=mesh_grid.copy()))
    msg = _check_with_ties(mesh_grid, grid, cands, np.asarray(out), rel.sub_border_slim)
    if msg:
        return "mesh.relocated_mesh_grid_from: " + msg
    # end to end through the mesh: Delaunay().mapper_grids_from relocates the data grid, then the mesh vertices ONCE against the
    # border of the relocated data grid (the rule applied once; a second pass pulls vertices further in)
    data_rel = np.asarray(rel.relocated_grid_from(grid=aa.Grid2DIrregular(values=grid.copy())), dtype=float)
    if len(mesh_grid) >= 3 and len({tuple(np.round(v, 9)) for v in mesh_grid.tolist()}) == len(mesh_grid):
        try:
            mg = aa.mesh.Delaunay().mapper_grids_from(mask=rel.mask, border_relocator=rel, source_plane_data_grid=aa.Grid2DIrregular(values=grid.copy()),
                                                      source_plane_mesh_grid=aa.Grid2DIrregular(values=mesh_grid.copy()))
            got_mesh = np.asarray(mg.source_plane_mesh_grid, dtype=float).reshape(-1, 2)
        except Exception:
            got_mesh = None                           # degenerate triangulations are the mapper's business (C06), not relocation's
        if got_mesh is not None and got_mesh.shape == mesh_grid.shape:
            msg = _check_with_ties(mesh_grid, data_rel, cands, got_mesh, rel.sub_border_slim)
            if msg:
                return "Delaunay().mapper_grids_from(...).source_plane_mesh_grid (vertices relocated against the relocated data grid): " + msg
    # the same relocator in any order of use: relocating data grid A first must not change what the mesh relocation against
    # data grid B does (and back again)
    for la, ga, lb, gb in (("first", grid, "second", grid2), ("second", grid2, "first", grid)):
        rel.relocated_grid_from(grid=aa.Grid2DIrregular(values=ga.copy()))
        out = rel.relocated_mesh_grid_from(grid=aa.Grid2DIrregular(values=gb.copy()), mesh_grid=aa.Grid2DIrregular(values=mesh_grid.copy()))
        msg = _check_with_ties(mesh_grid, gb, cands, np.asarray(out), rel.sub_border_slim)
        if msg:
            return "after relocated_grid_from(%s data grid), mesh relocation against the %s data grid: %s" % (la, lb, msg)
    return None
