"""C10 blurring / edge / border pixel sets and their four views (bounded stand-in; see docs/BOUNDED_GUIDE.md).

All oracles below are written from the property statement:

* blurring: result False  <=>  pixel masked AND inside the (ky x kx) footprint of >= 1 unmasked pixel; an error instead of a
  result  <=>  the footprint of some unmasked pixel leaves the array.
* edge: MUST contain every unmasked pixel with a masked pixel among its eight IN-ARRAY neighbours; MUST NOT contain a pixel
  whose eight neighbours all exist and are unmasked.  (Unmasked pixels on the outer row/column whose in-array neighbours
  are all unmasked are left free by the statement, and are left free here.)
* border: exactly those edge pixels from which a straight walk to the array boundary in >= 1 of the four axis directions
  meets only masked pixels (a walk of length zero meets only masked pixels).
* views: slim indices (ascending = slim order), native indices, mask and coordinate grid denote the same pixels.
"""
import numpy as np
from pyvc.bounded import bounded
from pyvc import gens

_KS = (1, 3, 5)
_NB8 = [(-1, -1), (-1, 0), (-1, 1), (0, -1), (0, 1), (1, -1), (1, 0), (1, 1)]


# ----------------------------------------------------------------------------------------------- oracles

def _blurring_oracle(mask, ky, kx):
    """(must_raise, expected blurring mask) straight from the statement"""
    H, W = mask.shape
    hy, hx = ky // 2, kx // 2
    out = np.ones((H, W), dtype=bool)
    must_raise = False
    for y in range(H):
        for x in range(W):
            if mask[y, x]:
                continue
            if y - hy < 0 or y + hy > H - 1 or x - hx < 0 or x + hx > W - 1:
                must_raise = True
    if must_raise:
        return True, None
    for y in range(H):
        for x in range(W):
            if not mask[y, x]:
                continue
            y0, y1, x0, x1 = max(0, y - hy), min(H, y + hy + 1), max(0, x - hx), min(W, x + hx + 1)
            if not mask[y0:y1, x0:x1].all():          # an unmasked pixel whose footprint covers (y, x)
                out[y, x] = False
    return False, out


def _edge_must_forbid(mask):
    H, W = mask.shape
    must, forbid = set(), set()
    for y in range(H):
        for x in range(W):
            if mask[y, x]:
                continue
            inarr = [(y + dy, x + dx) for dy, dx in _NB8 if 0 <= y + dy < H and 0 <= x + dx < W]
            if any(mask[a, b] for a, b in inarr):
                must.add((y, x))
            elif len(inarr) == 8:
                forbid.add((y, x))
    return must, forbid


def _walk(mask, y, x):
    return bool(mask[:y, x].all() or mask[y + 1:, x].all() or mask[y, :x].all() or mask[y, x + 1:].all())


def _slim_to_pixels(mask, idx, what):
    """validate a slim-index view; return (error, list of (y, x))"""
    unm = [(int(p[0]), int(p[1])) for p in np.argwhere(~mask)]
    idx = np.asarray(idx)
    if idx.ndim != 1:
        return "%s is not one-dimensional: shape %r" % (what, idx.shape), None
    vals = [int(v) for v in idx]
    if any(float(v) != float(w) for v, w in zip(vals, idx)):
        return "%s holds non-integers: %r" % (what, idx), None
    if any(v < 0 or v >= len(unm) for v in vals):
        return "%s=%r holds an index that denotes no unmasked pixel (n_unmasked=%d)" % (what, vals, len(unm)), None
    if any(b <= a for a, b in zip(vals, vals[1:])):
        return "%s=%r is not strictly ascending (slim order, no repeats)" % (what, vals), None
    return None, [unm[v] for v in vals]


def _check_edge(mask, idx, what):
    err, px = _slim_to_pixels(mask, idx, what)
    if err:
        return err
    must, forbid = _edge_must_forbid(mask)
    s = set(px)
    if must - s:
        return "%s=%r denotes pixels %r; missing unmasked pixels with a masked in-array neighbour: %r" % (
            what, [int(v) for v in idx], px, sorted(must - s))
    if s & forbid:
        return "%s=%r contains pixels whose 8 neighbours all exist and are unmasked: %r" % (
            what, [int(v) for v in idx], sorted(s & forbid))
    return None


def _check_border(mask, edge_idx, border_idx, what):
    err, bpx = _slim_to_pixels(mask, border_idx, what)
    if err:
        return err
    b = set(bpx)
    must, forbid = _edge_must_forbid(mask)
    need = {p for p in must if _walk(mask, *p)}
    if need - b:
        return "%s=%r denotes %r; missing edge pixels with an all-masked walk to the boundary: %r" % (
            what, [int(v) for v in border_idx], bpx, sorted(need - b))
    bad = {p for p in b if p in forbid or not _walk(mask, *p)}
    if bad:
        return "%s=%r contains pixels that are not edge pixels / have no all-masked walk: %r" % (
            what, [int(v) for v in border_idx], sorted(bad))
    err, epx = _slim_to_pixels(mask, edge_idx, "edge")
    if err is None:
        want = {p for p in epx if _walk(mask, *p)}
        if want != b:
            return "%s pixels %r != {p in reported edge set %r : walk(p)} = %r" % (what, bpx, epx, sorted(want))
    return None


def _centres(shape, pixels, scales, origin):
    H, W = shape
    return np.array([[((H - 1) / 2.0 - y) * scales[0] + origin[0], (x - (W - 1) / 2.0) * scales[1] + origin[1]]
                     for (y, x) in pixels], dtype=float).reshape(-1, 2)


def _ring_unmasked(mask):
    m = np.asarray(mask)
    return bool((~m[0, :]).any() or (~m[-1, :]).any() or (~m[:, 0]).any() or (~m[:, -1]).any())


# ----------------------------------------------------------------------------------------------- generators

def _special_masks():
    """hand-picked topologies: holes, several components, diagonal contacts, thin bridges, outer-ring pixels"""
    def mk(rows):
        return np.array([[c == "x" for c in r] for r in rows], dtype=bool)
    return [
        mk(["o"]), mk(["x"]), mk(["ox"]), mk(["o", "x"]), mk(["ooo", "ooo", "ooo"]),
        mk(["xxx", "oox", "xxx"]),
        mk(["oxxx", "xoxx", "xxox", "xxxx"]),                                  # DESIGN §9 probe
        mk(["xxxxx", "xooox", "xoxox", "xooox", "xxxxx"]),                     # hole
        mk(["xxxxxxx", "xooooox", "xoxxxox", "xoxoxox", "xoxxxox", "xooooox", "xxxxxxx"]),   # annulus + island
        mk(["xxxxxx", "xoxxox", "xxxxxx", "xoxxox", "xxxxxx"]),                # four components
        mk(["xxxxx", "xoxxx", "xxoxx", "xxxox", "xxxxx"]),                     # diagonal contacts
        mk(["ooooo", "oxxxo", "oxoxo", "oxxxo", "ooooo"]),                     # unmasked ring, masked moat, island
        mk(["oooo", "oooo", "ooox", "oooo"]),
        mk(["xxxxxxx", "xooxoox", "xooooox", "xooxoox", "xxxxxxx"]),           # thin bridge
        mk(["xxoxx", "xxoxx", "ooooo", "xxoxx", "xxoxx"]),                     # cross reaching all four sides
    ]


def _gen_masks(rng, tier, exhaustive_quick, exhaustive_thorough, n_random_quick, n_random_thorough, extra_shapes=()):
    for m in _special_masks():
        yield m
    for m in gens.all_masks(gens.budget(tier, exhaustive_quick, exhaustive_thorough)):
        yield m
    if tier == "thorough":
        for m in gens.all_masks(16, shapes=list(extra_shapes)):
            yield m
    for i in range(gens.budget(tier, n_random_quick, n_random_thorough)):
        yield gens.random_mask(rng, 7, 7, ring=(i % 4 == 3))


def _gen_blur(rng, tier):
    # 0. large kernels: footprints with 255 / 256 / 257 / 288 unmasked pixels around one masked pixel (a count held in 8 bits wraps at
    #    256), and a 33 x 9 kernel; the statement has no bound on the kernel size
    for n_unmasked in (256, 255, 257, 288):
        m = np.ones((41, 41), dtype=bool)
        cells = [(y, x) for y in range(12, 29) for x in range(12, 29) if (y, x) != (20, 20)]
        for (y, x) in cells[:n_unmasked]:
            m[y, x] = False
        yield {"mask": m, "ky": 17, "kx": 17}
    big = np.ones((45, 21), dtype=bool)
    big[18:27, 6:15] = False
    big[22, 10] = True
    yield {"mask": big, "ky": 33, "kx": 9}
    # 1. hand-picked topologies with every kernel
    for m in _special_masks():
        for ky in _KS:
            for kx in _KS:
                yield {"mask": m, "ky": ky, "kx": kx}
    # 2. random masks with a masked margin chosen so that roughly half of the cases must NOT raise
    for i in range(gens.budget(tier, 250, 4000)):
        ky, kx = rng.choice(_KS), rng.choice(_KS)
        m = gens.random_mask(rng, 7, 7)
        H, W = m.shape
        my, mx = rng.choice([ky // 2, ky // 2, max(0, ky // 2 - 1)]), rng.choice([kx // 2, kx // 2, max(0, kx // 2 - 1)])
        m = m.copy()
        if my:
            m[:my, :] = True
            m[H - my:, :] = True
        if mx:
            m[:, :mx] = True
            m[:, W - mx:] = True
        yield {"mask": m, "ky": ky, "kx": kx}
    # 3. exhaustive small masks x all kernels (non-square kernels included)
    for m in gens.all_masks(gens.budget(tier, 9, 12)):
        for ky in _KS:
            for kx in _KS:
                yield {"mask": m, "ky": ky, "kx": kx}
    if tier == "thorough":
        for m in gens.all_masks(16, shapes=[(4, 4), (3, 5), (5, 3)]):
            ky, kx = rng.choice(_KS), rng.choice(_KS)
            yield {"mask": m, "ky": ky, "kx": kx}


def _nt_blur(mask, ky, kx):
    return 0 < mask.sum() < mask.size and (ky, kx) != (1, 1)


def _gen_sets(rng, tier):
    for m in _gen_masks(rng, tier, 10, 12, 300, 5000, extra_shapes=[(4, 4), (3, 5), (5, 3), (2, 8), (8, 2)]):
        yield {"mask": m}


def _gen_sets_border(rng, tier):
    for m in _gen_masks(rng, tier, 10, 12, 300, 3000, extra_shapes=[(4, 4)]):
        yield {"mask": m}


def _gen_sets_ringfree(rng, tier):
    for m in _special_masks():
        if not _ring_unmasked(m):
            yield {"mask": m}
    # exhaustive interiors of <= 9 (12) cells inside a fully masked outer ring
    for inner in gens.all_masks(gens.budget(tier, 9, 12)):
        m = np.ones((inner.shape[0] + 2, inner.shape[1] + 2), dtype=bool)
        m[1:-1, 1:-1] = inner
        yield {"mask": m}
    for _ in range(gens.budget(tier, 200, 4000)):
        yield {"mask": gens.random_mask(rng, 8, 8, hmin=3, wmin=3, ring=True)}


def _gen_views(rng, tier):
    geo = [((1.0, 1.0), (0.0, 0.0)), ((0.5, 2.0), (3.0, -2.0)), ((2.0, 0.25), (-1.5, 0.75))]
    k = 0
    for m in _gen_masks(rng, tier, 9, 12, 150, 3000):
        s, o = geo[k % 3]
        k += 1
        yield {"mask": m, "pixel_scales": s, "origin": o}


def _nt_sets(mask, **kw):
    return 0 < mask.sum() < mask.size


# ----------------------------------------------------------------------------------------------- checks

@bounded("C10", "blurring-util-footprint-or-raise", gen=_gen_blur, nontrivial=_nt_blur)
def blurring_util(mask, ky, kx):
    """C10: 'for every mask and odd kernel shape, the blurring mask unmasks exactly the masked pixels that lie within the
    kernel footprint of at least one unmasked pixel, and an error is raised instead of a result whenever that footprint
    would leave the array' -- mask_2d_util.blurring_mask_2d_from; bound: 15 topologies x 9 kernels, 250 (4000) random
    <= 7x7 with margins, all masks <= 9 (12) cells x kernels {1,3,5}^2 (thorough: + all 4x4, 3x5, 5x3)."""
    from autoarray.mask import mask_2d_util
    must_raise, want = _blurring_oracle(mask, ky, kx)
    m_in = mask.copy()
    try:
        got = mask_2d_util.blurring_mask_2d_from(mask_2d=m_in, kernel_shape_native=(ky, kx))
    except Exception as e:
        if must_raise:
            return None
        return "raised %s(%s) although every footprint stays inside the array" % (type(e).__name__, e)
    if must_raise:
        return "returned a result although the footprint of an unmasked pixel leaves the array: %r" % (np.asarray(got),)
    if not np.array_equal(m_in, mask):
        return "input mask modified"
    got = np.asarray(got)
    if got.shape != want.shape or got.dtype != bool or not np.array_equal(got, want):
        return "blurring mask != masked pixels within the footprint of an unmasked pixel: got %r want %r" % (got, want)
    return None


@bounded("C10", "blurring-derive-mask-and-grid", gen=_gen_blur, nontrivial=_nt_blur)
def blurring_derive(mask, ky, kx):
    """C10: same clause through the class layer -- Mask2D.derive_mask.blurring_from(kernel_shape_native) and
    Grid2D.blurring_grid_from: both raise iff the footprint leaves the array; the mask equals the footprint dilation and
    the grid lists the centres of exactly those pixels in slim order; bound as blurring-util (truncated by wall time)."""
    import autoarray as aa
    scales, origin = (0.5, 2.0), (3.0, -2.0)
    must_raise, want = _blurring_oracle(mask, ky, kx)
    mk = aa.Mask2D(mask=mask.copy(), pixel_scales=scales, origin=origin)
    for name, call in (("derive_mask.blurring_from", lambda: mk.derive_mask.blurring_from(kernel_shape_native=(ky, kx))),
                       ("Grid2D.blurring_grid_from", lambda: aa.Grid2D.blurring_grid_from(mask=mk, kernel_shape_native=(ky, kx)))):
        try:
            got = call()
        except Exception as e:
            if must_raise:
                continue
            return "%s raised %s(%s) although every footprint stays inside the array" % (name, type(e).__name__, e)
        if must_raise:
            return "%s returned a result although the footprint of an unmasked pixel leaves the array" % name
        if name.startswith("derive"):
            if not np.array_equal(np.asarray(got, dtype=bool), want):
                return "%s != footprint dilation: got %r want %r" % (name, np.asarray(got), want)
        else:
            px = [tuple(p) for p in np.argwhere(~want)]
            coords = _centres(mask.shape, px, scales, origin)
            g = np.asarray(got.slim, dtype=float).reshape(-1, 2)
            if g.shape != coords.shape or not np.allclose(g, coords, rtol=1e-9, atol=1e-9):
                return "%s != centres of the blurring pixels in slim order: got %r want %r" % (name, g, coords)
    if not np.array_equal(np.asarray(mk, dtype=bool), mask):
        return "parent mask modified"
    return None


@bounded("C10", "edge-set-util", gen=_gen_sets, nontrivial=_nt_sets)
def edge_set_util(mask):
    """C10: 'the edge set contains every unmasked pixel that has a masked pixel among its eight in-array neighbours and no
    pixel whose eight neighbours all exist and are unmasked' (indices 'in slim order') -- mask_2d_util.edge_1d_indexes_from
    and Mask2D.derive_indexes.edge_slim, masks INCLUDING unmasked pixels on the outer row/column; bound: 15 topologies, all
    masks <= 10 (12) cells (thorough + all 4x4, 3x5, 5x3, 2x8, 8x2), 300 (5000) random <= 7x7."""
    import autoarray as aa
    from autoarray.mask import mask_2d_util
    m_in = mask.copy()
    got = mask_2d_util.edge_1d_indexes_from(mask_2d=m_in)
    if not np.array_equal(m_in, mask):
        return "input mask modified"
    err = _check_edge(mask, got, "edge_1d_indexes_from")
    if err:
        return err
    mk = aa.Mask2D(mask=mask.copy(), pixel_scales=1.0)
    return _check_edge(mask, mk.derive_indexes.edge_slim, "derive_indexes.edge_slim")


@bounded("C10", "border-set-util", gen=_gen_sets_border, nontrivial=_nt_sets)
def border_set_util(mask):
    """C10: 'the border set consists of exactly those edge pixels from which a straight walk to the array boundary in at
    least one of the four axis directions meets only masked pixels' -- mask_2d_util.border_slim_indexes_from and
    Mask2D.derive_indexes.border_slim, masks INCLUDING outer-ring pixels; bound: 15 topologies, all masks <= 10 (12) cells
    (thorough + all 4x4), 300 (3000) random <= 7x7."""
    import autoarray as aa
    from autoarray.mask import mask_2d_util
    m_in = mask.copy()
    edge = mask_2d_util.edge_1d_indexes_from(mask_2d=m_in)
    got = mask_2d_util.border_slim_indexes_from(mask_2d=m_in)
    if not np.array_equal(m_in, mask):
        return "input mask modified"
    err = _check_border(mask, edge, got, "border_slim_indexes_from")
    if err:
        return err
    mk = aa.Mask2D(mask=mask.copy(), pixel_scales=1.0)
    return _check_border(mask, mk.derive_indexes.edge_slim, mk.derive_indexes.border_slim, "derive_indexes.border_slim")


@bounded("C10", "edge-border-sets-masked-outer-ring", gen=_gen_sets_ringfree, nontrivial=_nt_sets)
def sets_ringfree(mask):
    """C10: edge and border clauses restricted to masks whose outer row/column is fully masked (there every unmasked pixel
    has eight in-array neighbours, so the edge set is fully determined: EXACTLY the unmasked pixels with a masked
    neighbour) -- edge_slim / border_slim; bound: all interiors <= 9 (12) cells inside a masked ring, 200 (4000) random
    <= 8x8 ring-masked."""
    import autoarray as aa
    mk = aa.Mask2D(mask=mask.copy(), pixel_scales=1.0)
    e, b = mk.derive_indexes.edge_slim, mk.derive_indexes.border_slim
    err = _check_edge(mask, e, "edge_slim") or _check_border(mask, e, b, "border_slim")
    if err:
        return err
    must, forbid = _edge_must_forbid(mask)
    _, epx = _slim_to_pixels(mask, e, "edge_slim")
    if set(epx) != must:
        return "edge_slim pixels %r != unmasked pixels with a masked neighbour %r" % (epx, sorted(must))
    return None


@bounded("C10", "edge-border-views-agree", gen=_gen_views, nontrivial=_nt_sets)
def views_agree(mask, pixel_scales, origin):
    """C10: 'the slim-index, native-index, mask and coordinate-grid views of each set all denote the same pixels, in slim
    order' -- derive_indexes.edge_slim/edge_native/border_slim/border_native, derive_mask.edge/border,
    derive_grid.edge/border on anisotropic pixel scales and non-zero origins (whatever set the slim view reports);
    bound: 15 topologies, all masks <= 9 (12) cells, 150 (3000) random <= 7x7."""
    import autoarray as aa
    mk = aa.Mask2D(mask=mask.copy(), pixel_scales=pixel_scales, origin=origin)
    return _edited_in_place(lambda mk_, mask_: _views_of(mk_, mask_, pixel_scales, origin), mk, mask)


def _edited_in_place(body, mk, mask):
    """'for every mask': also for a Mask2D object whose entries were changed in place after its sets had been asked for, and
    for a copy of it that was edited -- the views describe the mask AS IT IS (a view remembered from before the edit shows)"""
    msg = body(mk, mask)
    if msg:
        return msg
    cand = [(y, x) for y in range(mask.shape[0]) for x in range(mask.shape[1]) if mask[y, x] or (~mask).sum() > 1]
    if not cand:
        return None
    y, x = cand[(int(mask.sum()) * 7 + mask.shape[1]) % len(cand)]
    m2 = mask.copy()
    m2[y, x] = not mask[y, x]
    mk[y, x] = bool(m2[y, x])
    msg = body(mk, m2)
    if msg:
        return "after `mask[%d, %d] = %s` in place on a Mask2D whose views had been read: %s" % (y, x, bool(m2[y, x]), msg)
    cp = mk.copy()
    cand3 = [(a, b) for (a, b) in cand if (a, b) != (y, x) and (m2[a, b] or (~m2).sum() > 1)]
    if cand3:
        a, b = cand3[(int(m2.sum()) * 5 + 1) % len(cand3)]
        m3 = m2.copy()
        m3[a, b] = not m2[a, b]
        cp[a, b] = bool(m3[a, b])
        msg = body(cp, m3)
        if msg:
            return "on an edited copy (`c = mask.copy(); c[%d, %d] = %s`): %s" % (a, b, bool(m3[a, b]), msg)
        msg = body(mk, m2)
        if msg:
            return "on the original after its copy was edited: %s" % msg
    return None


def _views_of(mk, mask, pixel_scales, origin):
    di, dm, dg = mk.derive_indexes, mk.derive_mask, mk.derive_grid
    for name in ("edge", "border"):
        slim = getattr(di, name + "_slim")
        err, px = _slim_to_pixels(mask, slim, name + "_slim")
        if err:
            return err
        nat = np.asarray(getattr(di, name + "_native"))
        if nat.reshape(-1, 2).shape != (len(px), 2) or [tuple(int(v) for v in r) for r in nat.reshape(-1, 2)] != px:
            return "%s_native %r != native indices %r of %s_slim %r" % (name, nat.tolist(), px, name, [int(v) for v in slim])
        vm = np.asarray(getattr(dm, name), dtype=bool)
        want = np.ones(mask.shape, dtype=bool)
        for p in px:
            want[p] = False
        if not np.array_equal(vm, want):
            return "derive_mask.%s unmasks %r, %s_slim denotes %r" % (name, [tuple(p) for p in np.argwhere(~vm)], name, px)
        g = getattr(dg, name)
        gs = np.asarray(g.slim, dtype=float).reshape(-1, 2)
        coords = _centres(mask.shape, px, pixel_scales, origin)
        if gs.shape != coords.shape or not np.allclose(gs, coords, rtol=1e-9, atol=1e-9):
            return "derive_grid.%s %r != centres %r of the pixels of %s_slim (slim order)" % (name, gs.tolist(), coords.tolist(), name)
        if not np.array_equal(np.asarray(g.mask, dtype=bool), want):
            return "derive_grid.%s carries a mask different from derive_mask.%s" % (name, name)
    if not np.array_equal(np.asarray(mk, dtype=bool), mask):
        return "parent mask modified"
    return None


def _gen_wide(rng, tier):
    # index-width escalation: one dimension beyond 2**16 (a strip of a long-slit / drift-scan frame); few unmasked pixels so that the
    # pure-Python kernels stay fast; both orientations, unmasked pixels on both sides of column / row 65 536
    for n, orient in ((65540, "wide"), (65540, "tall")):
        m = np.ones((3, n), dtype=bool)
        for x in (3, 4, 65534, 65535, 65536, 65537, n - 2):
            m[1, x] = False
        m[0, 65537] = False
        yield {"mask": m if orient == "wide" else np.ascontiguousarray(m.T), "pixel_scales": (0.5, 2.0), "origin": (3.0, -2.0)}


@bounded("C10", "edge-border-views-agree-beyond-65536", gen=_gen_wide, nontrivial=_nt_sets)
def views_agree_wide(mask, pixel_scales, origin):
    """C10: 'the slim-index, native-index, mask and coordinate-grid views of each set all denote the same pixels' for 'all boolean
    masks of every shape' -- the same oracle as edge-border-views-agree on a 3 x 65 540 strip and its transpose (pixel indices that no
    16-bit integer holds); bound: these two masks."""
    import autoarray as aa
    mk = aa.Mask2D(mask=mask.copy(), pixel_scales=pixel_scales, origin=origin)
    return _views_of(mk, mask, pixel_scales, origin)
